// registry: dump every registered operator (name, class, precedence, types)
// asm:      compile text, dump instruction listing + diagnostics; optionally run it and report the value
#include "common.h"
#include "runtime/d_array.h"
#include "runtime/d_string.h"
#include "runtime/d_boolean.h"
#include "runtime/d_code.h"
#include "parser/sqf/sqf_formatter.h"
#include <sstream>
#include <array>
#include <utility>
#include <algorithm>

using namespace vd;

// Synthetic operators (registered through the public register_sqfop, exactly like the CLI's
// --command-dummy-* options): they return [name, operands...] so that the *value* computed by the VM
// spells out the grouping that was compiled. Callbacks are plain function pointers, hence the slots.
static const size_t dummy_slots = 64;
static std::string g_dummy_names[dummy_slots];
using V = sqf::runtime::value;
template<size_t N> static V dummy_bin(sqf::runtime::runtime&, V::cref l, V::cref r) { return std::make_shared<sqf::types::d_array>(std::vector<V>{ V(g_dummy_names[N]), l, r }); }
template<size_t N> static V dummy_un(sqf::runtime::runtime&, V::cref r) { return std::make_shared<sqf::types::d_array>(std::vector<V>{ V(g_dummy_names[N]), r }); }
template<size_t N> static V dummy_nu(sqf::runtime::runtime&) { return std::make_shared<sqf::types::d_array>(std::vector<V>{ V(g_dummy_names[N]) }); }
template<size_t... I> static std::array<sqf::runtime::sqfop_binary::callback, sizeof...(I)> mk_bin(std::index_sequence<I...>) { return { &dummy_bin<I>... }; }
template<size_t... I> static std::array<sqf::runtime::sqfop_unary::callback, sizeof...(I)> mk_un(std::index_sequence<I...>) { return { &dummy_un<I>... }; }
template<size_t... I> static std::array<sqf::runtime::sqfop_nular::callback, sizeof...(I)> mk_nu(std::index_sequence<I...>) { return { &dummy_nu<I>... }; }
// operators without a result: the VM's nil takes the operand's place
static V dummy_un_void(sqf::runtime::runtime&, V::cref) { return {}; }
static V dummy_nu_void(sqf::runtime::runtime&) { return {}; }
static auto g_bin = mk_bin(std::make_index_sequence<dummy_slots>());
static auto g_un = mk_un(std::make_index_sequence<dummy_slots>());
static auto g_nu = mk_nu(std::make_index_sequence<dummy_slots>());

static void cmd_registry(const J& c)
{
    auto v = make_vm();
    auto& rt = *v.rt;
    for (auto it = rt.sqfop_binary_begin(); it != rt.sqfop_binary_end(); ++it)
    {
        J j = ev("Op");
        j.set("cls", "b").set("n", std::string(it->second.name())).set("prec", (int)it->second.precedence())
            .set("l", std::string(it->first.left_type.to_string())).set("r", std::string(it->first.right_type.to_string()));
        emit(j);
    }
    for (auto it = rt.sqfop_unary_begin(); it != rt.sqfop_unary_end(); ++it)
    {
        J j = ev("Op");
        j.set("cls", "u").set("n", std::string(it->second.name())).set("r", std::string(it->first.right_type.to_string()));
        emit(j);
    }
    for (auto it = rt.sqfop_nular_begin(); it != rt.sqfop_nular_end(); ++it)
    {
        J j = ev("Op");
        j.set("cls", "n").set("n", std::string(it->second.name()));
        emit(j);
    }
}
static registrar r1("registry", cmd_registry);

// case: {"id":..,"text":..,"run":bool,"pp":bool,"dummy":[{"cls":"b","n":"vb3","prec":3},...]}
static void cmd_asm(const J& c)
{
    auto v = make_vm();
    auto& rt = *v.rt;
    if (c.has("dummy"))
    {
        size_t slot = 0;
        for (auto& d : c.at("dummy").a)
        {
            auto cls = d.str("cls");
            auto name = d.str("n");
            if (slot >= dummy_slots) { break; }
            g_dummy_names[slot] = name;
            if (cls == "b") { rt.register_sqfop(sqf::runtime::sqfop::binary((short)d.num("prec"), name, sqf::types::t_any(), sqf::types::t_any(), "DUMMY", g_bin[slot])); }
            else if (cls == "u") { rt.register_sqfop(sqf::runtime::sqfop::unary(name, sqf::types::t_any(), "DUMMY", g_un[slot])); }
            // a binary operator defined for (SCALAR, ARRAY) only: applied the other way round nothing is defined
            else if (cls == "bt") { rt.register_sqfop(sqf::runtime::sqfop::binary((short)d.num("prec"), name, sqf::runtime::t_scalar(), sqf::runtime::t_array(), "DUMMY", g_bin[slot])); }
            else if (cls == "uv") { rt.register_sqfop(sqf::runtime::sqfop::unary(name, sqf::types::t_any(), "DUMMY", dummy_un_void)); }
            else if (cls == "nv") { rt.register_sqfop(sqf::runtime::sqfop::nular(name, "DUMMY", dummy_nu_void)); }
            else if (cls == "n") { rt.register_sqfop(sqf::runtime::sqfop::nular(name, "DUMMY", g_nu[slot])); }
            slot++;
        }
    }
    auto set = compile(rt, c.str("text"), c.str("file", "case.sqf"), c.boolean("pp", false));
    J j = ev("Asm");
    j.set("ok", set.has_value());
    if (set.has_value()) { j.set("code", listing(*set)); }
    J ds = J::arr();
    for (auto& d : v.logger->all) { J x = J::obj(); x.set("lvl", d.level).set("code", (long long)d.code).set("L", (long long)d.line).set("C", (long long)d.col); ds.push(x); }
    j.set("diags", ds);
    emit(j);
    if (set.has_value() && c.boolean("roundtrip", false))
    {
        // (C06) str of the compiled code, compiled again; and the pretty-printer's output, compiled again
        J r = ev("RoundTrip");
        sqf::runtime::value code(std::make_shared<sqf::types::d_code>(*set));
        auto printed = code.to_string_sqf();
        r.set("str", printed);
        // strip the outer braces
        auto inner = printed;
        auto a = inner.find('{'); auto b = inner.rfind('}');
        if (a != std::string::npos && b != std::string::npos && b > a) { inner = inner.substr(a + 1, b - a - 1); }
        v.logger->all.clear();
        auto set2 = compile(rt, inner, "str.sqf", false);
        r.set("str_ok", set2.has_value());
        if (set2.has_value()) { r.set("str_code", listing(*set2)); }
        {
            std::ostringstream pretty;
            ::sqf::parser::sqf::formatter fmt(rt, c.str("text"), sqf::runtime::fileio::pathinfo(std::string("pretty.sqf"), std::string()));
            fmt.prettify(fmt.getRes(), 0, pretty);
            r.set("pretty", pretty.str());
            v.logger->all.clear();
            auto set3 = compile(rt, pretty.str(), "pretty.sqf", false);
            r.set("pretty_ok", set3.has_value());
            if (set3.has_value()) { r.set("pretty_code", listing(*set3)); }
        }
        emit(r);
    }
    if (set.has_value() && c.boolean("run", false))
    {
        v.logger->all.clear();
        auto ctx = add_context(rt, *set, "case", false);
        auto res = rt.execute(sqf::runtime::runtime::action::start);
        J r = ev("Value");
        r.set("res", result_name(res));
        {
            auto scope = rt.default_value_scope();
            r.set("val", scope->contains("vd__v") ? scope->at("vd__v").to_string_sqf() : std::string("<unset>"));
        }
        // the script's value is what the erased context left behind; capture through the work print
        r.set("nerr", (long long)std::count_if(v.logger->all.begin(), v.logger->all.end(), [](const diag& d) { return d.level <= 1; }));
        emit(r);
    }
}
static registrar r2("asm", cmd_asm);

// val: evaluate expressions, report str of the value, whether `(call compile str v) isEqualTo v` holds
// inside the VM, and for numbers the IEEE single-precision bits (C06).
// case: {"id":..,"exprs":["1.5","\"a\"\"b\"",...]}
#include "runtime/d_scalar.h"
#include <cstring>
static void cmd_val(const J& c)
{
    auto v = make_vm();
    auto& rt = *v.rt;
    size_t k = 0;
    for (auto& e : c.at("exprs").a)
    {
        k++;
        J o = ev("Val");
        o.set("k", (long long)k);
        v.logger->all.clear();
        auto set = compile(rt, "vd__v = nil; vd__rt = nil; vd__v = " + e.s + "; vd__rt = (call compile str vd__v) isEqualTo vd__v;", "val.sqf", false);
        o.set("ok", set.has_value());
        if (set.has_value())
        {
            add_context(rt, *set, "val", false);
            auto res = rt.execute(sqf::runtime::runtime::action::start);
            if (res != sqf::runtime::runtime::result::empty) { rt.execute(sqf::runtime::runtime::action::abort); }
            o.set("res", result_name(res));
            auto scope = rt.default_value_scope();
            auto val = scope->contains("vd__v") ? scope->at("vd__v") : sqf::runtime::value();
            auto rtv = scope->contains("vd__rt") ? scope->at("vd__rt") : sqf::runtime::value();
            o.set("printed", val.to_string_sqf());
            o.set("type", std::string(val.type().to_string()));
            o.set("rt", !rtv.empty() && rtv.is<sqf::runtime::t_boolean>() ? (rtv.data<sqf::types::d_boolean, bool>() ? "true" : "false") : "none");
            if (!val.empty() && val.is<sqf::runtime::t_scalar>())
            {
                float f = val.data<sqf::types::d_scalar, float>();
                uint32_t bits; std::memcpy(&bits, &f, 4);
                char buf[16]; snprintf(buf, sizeof(buf), "%08x", bits);
                o.set("bits", std::string(buf));
            }
            if (!val.empty() && val.is<sqf::runtime::t_string>()) { o.set("raw", val.data<sqf::types::d_string, std::string>()); }
        }
        long long nerr = 0;
        for (auto& d : v.logger->all) { if (d.level <= 1) { nerr++; } }
        o.set("nerr", nerr);
        emit(o);
    }
}
static registrar r3("val", cmd_val);
