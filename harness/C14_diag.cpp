// diag: materialised source tree -> preprocess + parse + run the main file, report where every
//       diagnostic (and every stack-trace entry) claims to be, and the value of __LINE__/__FILE__.
// case: {"id":..,"root":"<dir with the files, written by the orchestrator>","main":"main.sqf",
//        "run":bool, ...}      every other field (src, ...) is echoed into the event
// emits {"e":"Obs",...,"stage":"preprocess|parse|run","res":..,
//        "diags":[{"lvl":n,"code":n,"L":n,"C":n,"file":"<basename>"}],      all messages that carry a location
//        "frames":[{"L":n,"C":n,"file":"<basename>"}],   every [L..|C..|file] entry inside a stack-trace text
//        "lm":{"set":bool,"L":n,"file":"<basename>"}}    value of vd__m = [__LINE__, __FILE__] after the run
// Like the CLI, the root directory is mapped to the virtual root so that `#include "x.sqf"` resolves
// relative to the including file.
#include "common.h"
#include "runtime/d_array.h"
#include "runtime/d_scalar.h"
#include "runtime/d_string.h"

#include <algorithm>
#include <fstream>
#include <sstream>

using namespace vd;

static std::string base_name(const std::string& p)
{
    auto i = p.find_last_of("/\\");
    return i == std::string::npos ? p : p.substr(i + 1);
}

// every "[L<n>|C<n>|<file>]" inside a message text
static void scan_frames(const std::string& t, J& frames)
{
    size_t i = 0;
    while ((i = t.find("[L", i)) != std::string::npos)
    {
        size_t j = i + 2, l = 0, c = 0;
        bool okl = false, okc = false;
        while (j < t.size() && t[j] >= '0' && t[j] <= '9') { l = l * 10 + (size_t)(t[j] - '0'); j++; okl = true; }
        if (okl && j + 1 < t.size() && t[j] == '|' && t[j + 1] == 'C')
        {
            j += 2;
            while (j < t.size() && t[j] >= '0' && t[j] <= '9') { c = c * 10 + (size_t)(t[j] - '0'); j++; okc = true; }
            if (okc && j < t.size() && t[j] == '|')
            {
                auto e = t.find(']', j);
                if (e != std::string::npos)
                {
                    J f = J::obj();
                    f.set("L", (long long)l).set("C", (long long)c).set("file", base_name(t.substr(j + 1, e - j - 1)));
                    frames.push(f);
                    i = e;
                    continue;
                }
            }
        }
        i += 2;
    }
}

static void cmd_diag(const J& c)
{
    sqf::runtime::runtime::runtime_conf conf;
    conf.max_runtime = std::chrono::milliseconds(5000);
    auto v = make_vm(conf, opsset::full);
    auto& rt = *v.rt;
    std::string root = c.str("root");
    std::string main = root + "/" + c.str("main", "main.sqf");
    rt.fileio().add_mapping(root, "/");
    std::ifstream in(main, std::ios::binary);
    std::stringstream ss;
    ss << in.rdbuf();
    std::string text = ss.str();

    J o = ev("Obs");
    for (auto& kv : c.o)
    {
        if (kv.first != "id") { o.set(kv.first, kv.second); }
    }
    v.logger->all.clear();
    std::string stage = "preprocess";
    std::string resname = "-";
    sqf::runtime::fileio::pathinfo pi{ main, {} };
    auto pp = rt.parser_preprocessor().preprocess(rt, text, pi);
    if (pp.has_value())
    {
        stage = "parse";
        auto set = rt.parser_sqf().parse(rt, *pp, pi);
        if (set.has_value() && c.boolean("run", true))
        {
            stage = "run";
            add_context(rt, *set, "case", false);
            auto res = rt.execute(sqf::runtime::runtime::action::start);
            if (res != sqf::runtime::runtime::result::empty && res != sqf::runtime::runtime::result::ok)
            {
                rt.execute(sqf::runtime::runtime::action::abort);
            }
            resname = result_name(res);
        }
    }
    o.set("stage", stage).set("res", resname);
    J diags = J::arr(), frames = J::arr();
    for (auto& d : v.logger->all)
    {
        if (d.level > 2) { continue; }          // fatal, error, warning
        J x = J::obj();
        x.set("lvl", d.level).set("code", (long long)d.code).set("L", (long long)d.line).set("C", (long long)d.col).set("file", base_name(d.file));
        diags.push(x);
        if (d.level <= 1) { scan_frames(d.text, frames); }   // stack traces are part of fatal/error messages
    }
    o.set("diags", diags).set("frames", frames);
    J lm = J::obj();
    lm.set("set", false).set("L", 0).set("file", "");
    auto scope = rt.default_value_scope();
    if (scope->contains("vd__m"))
    {
        auto val = scope->at("vd__m");
        if (!val.empty() && val.is<sqf::runtime::t_array>())
        {
            auto arr = val.data<sqf::types::d_array>();
            if (arr->size() == 2 && arr->at(0).is<sqf::runtime::t_scalar>() && arr->at(1).is<sqf::runtime::t_string>())
            {
                lm.set("set", true).set("L", (long long)arr->at(0).data<sqf::types::d_scalar, float>())
                    .set("file", base_name(arr->at(1).data<sqf::types::d_string, std::string>()));
            }
        }
    }
    o.set("lm", lm);
    emit(o);
}
static registrar r1("diag", cmd_diag);
