// api: histories of exported C API calls (C18). Uses the real exported functions of src/export/sqfvm.cpp.
// case: {"id":..,"ops":[{"op":"create","i":1,"limited":true},{"op":"call","i":1,"type":"s","kind":"setg1"},...]}
// emits per op {"e":"Api","op":<echo>,"ret":n,"status":n,"out":"G:1","cbs":n,"badcb":n}
//   cbs: callback invocations during the op; badcb: invocations whose user/call data were not those of this instance/call
#include "common.h"
#include "export/sqfvm.h"

#include <cstring>
#include <map>

using namespace vd;

namespace
{
    struct cb_state
    {
        void* expect_user = nullptr;
        void* expect_call = nullptr;
        bool any_call = false;     // sqfvm_load_config has no call data: what the callback gets is unspecified
        int cbs = 0;
        int vcbs = 0;              // callbacks of verbose / trace level
        int bad = 0;
        std::string out;
    };
    cb_state g_cb;
    void callback(void* user, void* call, int32_t sev, const char* msg, uint32_t len)
    {
        g_cb.cbs++;
        if (sev >= 4) { g_cb.vcbs++; }      // verbose and trace level
        if (user != g_cb.expect_user || (!g_cb.any_call && call != g_cb.expect_call)) { g_cb.bad++; }
        std::string text(msg ? msg : "", msg ? len : 0);
        auto p = text.find("[DIAG_LOG] [");
        if (p != std::string::npos)
        {
            // [G,1] / [G,<null>] / [C,1]
            auto q = text.find(']', p + 12);
            auto inner = text.substr(p + 12, q == std::string::npos ? std::string::npos : q - (p + 12));
            auto comma = inner.find(',');
            if (comma != std::string::npos)
            {
                auto tag = inner.substr(0, comma);
                auto val = inner.substr(comma + 1);
                if (val == "<null>" || val == "any" || val == "nil") { val = "nil"; }
                g_cb.out = tag + ":" + val;
            }
        }
    }
    std::string text_of(const std::string& kind)
    {
        if (kind == "setg1") return "gX = 1;";
        if (kind == "setg2") return "gX = 2;";
        if (kind == "verbose") return "gX = 1; gV = [1] select false;";
        if (kind == "evalerr") return "gX = 1; gV = [__EVAL([1,2] select 7)];";
        if (kind == "cfgevalerr") return "class A { x = 1; y[] = {__EVAL([1,2] select 7)}; };";
        if (kind == "readg") return "diag_log [\"G\", if (isNil \"gX\") then {\"nil\"} else {gX}];";
        if (kind == "readcfg") return "diag_log [\"C\", if (isNumber (configFile >> \"A\" >> \"x\")) then {1} else {0}];";
        if (kind == "ppfail") return "gX = 5;\n#endif\n";
        if (kind == "parsefail") return "gX = 5; 1 +;";
        if (kind == "rterr") return "1 + \"a\"; gX = 5;";
        if (kind == "rterr_spawned") return "[] spawn {sleep 0.02; gX = 9;}; 1 + \"a\"; gX = 5;";
        if (kind == "endless") return "for \"_i\" from 0 to 1 step 0 do {gY = 1}; gX = 5;";
        if (kind == "asmok") return "push 1 assignTo \"gX\" endStatement";
        if (kind == "asmbad") return "garbage here";
        if (kind == "asmrecover") return "push SCALAR 1; endStatement;";
        if (kind == "napper") return "[] spawn {sleep 0.05; gX = 3;}; 7";
        if (kind == "yielder") return "[] spawn { while {true} do { sleep 0 } }; 1";
        if (kind == "sleeper") return "[] spawn {sleep 10; gX = 6;}; 7";
        if (kind == "empty") return "";
        if (kind == "cfgok") return "class A { x = 1; };";
        if (kind == "cfgparsefail") return "class A { x = ; ";
        if (kind == "cfgppfail") return "class B {};\n#endif\n";
        return "";
    }
}

static void cmd_api(const J& c)
{
    vclock::install(100000, 1000);      // 1 ms per clock query
    std::map<long long, void*> inst;
    long long callno = 0;
    for (auto& o : c.at("ops").a)
    {
        auto op = o.str("op");
        long long i = o.num("i", 0);
        g_cb = cb_state();
        void* h = inst.count(i) ? inst[i] : nullptr;
        g_cb.expect_user = (void*)(uintptr_t)(1000 + i);
        callno++;
        g_cb.expect_call = (void*)(uintptr_t)(5000 + callno);
        int32_t ret = 0;
        if (op == "create")
        {
            inst[i] = sqfvm_create_instance_basic((void*)(uintptr_t)(1000 + i), &callback, o.boolean("limited", false) ? 0.3f : 0.0f);
            h = inst[i];
            ret = h ? 0 : -1;
        }
        else if (op == "destroy") { sqfvm_destroy_instance(h); inst.erase(i); h = nullptr; }
        else if (op == "status") { ret = 0; }
        else if (op == "null")
        {
            auto what = o.str("what");
            // a handle that is no instance: NULL, or readable memory without the instance tag (hk = its first bytes)
            auto hk = o.str("hk", "null");
            alignas(16) static char fake[256];
            std::memset(fake, 0, sizeof(fake));
            void* bad = nullptr;
            if (hk != "null")
            {
                bad = fake;
                if (hk != "zeros") { for (size_t q = 0; q < hk.size() && q < 4; q++) { fake[q] = hk[q] == '0' ? '\0' : hk[q]; } }
            }
            g_cb.expect_user = nullptr;
            if (what == "call") { ret = sqfvm_call(bad, g_cb.expect_call, 's', "gX = 1;", 7); }
            else if (what == "callempty") { ret = sqfvm_call(bad, g_cb.expect_call, 's', "", 0); }
            else if (what == "config") { ret = sqfvm_load_config(bad, "class A {};", 11); }
            else { ret = sqfvm_status(bad); }
        }
        else if (op == "config")
        {
            auto text = text_of(o.str("kind"));
            g_cb.any_call = true;
            // the text is a slice of a larger buffer: what lies behind `length` is not part of it
            auto len = text.size();
            text += " ) ; class VdBeyond { beyond = 1; }; \" ) (";
            ret = sqfvm_load_config(h, text.data(), (uint32_t)len);
        }
        else if (op == "call")
        {
            auto text = text_of(o.str("kind"));
            auto type = o.str("type", "s");
            auto len = text.size();
            text += " ) ; gX = 77; \" ) (";
            ret = sqfvm_call(h, g_cb.expect_call, type[0], text.data(), (uint32_t)len);
        }
        J e = ev("Api");
        e.set("op", o).set("ret", (long long)ret).set("status", (long long)(h ? sqfvm_status(h) : -1)).set("out", g_cb.out)
            .set("cbs", g_cb.cbs).set("badcb", g_cb.bad).set("vcbs", g_cb.vcbs);
        emit(e);
        vclock::advance_ms(1000);          // the embedder is slow between calls: 1 s > the 0.3 s limit
    }
    for (auto& kv : inst) { sqfvm_destroy_instance(kv.second); }
    vclock::uninstall();
}
static registrar r1("api", cmd_api);
