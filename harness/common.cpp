#include "common.h"

#include "parser/config/config_parser.hpp"
#include "parser/sqf/sqf_parser.hpp"
#include "parser/preprocessor/default.h"
#include "fileio/default.h"
#include "operators/ops.h"
#include "opcodes/common.h"
#include "runtime/d_array.h"
#include "runtime/d_scalar.h"
#include "runtime/d_string.h"
#include "runtime/d_boolean.h"
#include "runtime/d_code.h"

#include <cmath>
#include <map>
#include <mutex>

namespace vd
{
    std::string g_case_id;
    extern FILE* g_out;
    static std::mutex g_out_mutex;

    void emit(const J& j)
    {
        std::string line = vj::dump(j);
        line.push_back('\n');
        std::lock_guard<std::mutex> lock(g_out_mutex);
        fwrite(line.data(), 1, line.size(), g_out);
        fflush(g_out);
    }
    J ev(const char* name)
    {
        J j = J::obj();
        j.set("e", name);
        j.set("id", g_case_id);
        return j;
    }

    std::map<std::string, case_fn>& commands()
    {
        static std::map<std::string, case_fn> m;
        return m;
    }
    registrar::registrar(const char* name, case_fn fn) { commands()[name] = fn; }

    J diag_json(const diag& d)
    {
        J j = ev("Diag");
        j.set("lvl", d.level).set("code", (long long)d.code).set("L", (long long)d.line).set("C", (long long)d.col).set("file", d.file).set("txt", d.text);
        return j;
    }
    void capture_logger::log(const LogMessageBase& message)
    {
        diag d;
        d.level = static_cast<int>(message.getLevel());
        d.code = message.getErrorCode();
        d.line = 0; d.col = 0;
        auto rt = dynamic_cast<const logmessage::RuntimeLogMessageBase*>(&message);
        if (rt)
        {
            auto loc = rt->location();
            d.line = loc.line; d.col = loc.col; d.file = loc.path;
        }
        d.text = message.formatMessage();
        if (keep) { all.push_back(d); }
        if (emit_events) { emit(diag_json(d)); }
        if (sink) { sink(d); }
    }

    vm make_vm(sqf::runtime::runtime::runtime_conf conf, opsset ops)
    {
        vm v;
        v.logger = std::make_unique<capture_logger>();
        v.rt = std::make_unique<sqf::runtime::runtime>(*v.logger, conf);
        v.rt->fileio(std::make_unique<sqf::fileio::impl_default>(*v.logger));
        v.rt->parser_config(std::make_unique<sqf::parser::config::parser>(*v.logger));
        v.rt->parser_preprocessor(std::make_unique<sqf::parser::preprocessor::impl_default>(*v.logger));
        v.rt->parser_sqf(std::make_unique<sqf::parser::sqf::parser>(*v.logger));
        switch (ops)
        {
        case opsset::none: break;
        case opsset::basic:
            sqf::operators::ops_config(*v.rt);
            sqf::operators::ops_diag(*v.rt);
            sqf::operators::ops_generic(*v.rt);
            sqf::operators::ops_logic(*v.rt);
            sqf::operators::ops_math(*v.rt);
            sqf::operators::ops_namespace(*v.rt);
            sqf::operators::ops_sqfvm(*v.rt);
            sqf::operators::ops_string(*v.rt);
            sqf::operators::ops_text(*v.rt);
            sqf::operators::ops_osspecific(*v.rt);
            sqf::operators::ops_hashmap(*v.rt);
            break;
        case opsset::full:
            sqf::operators::ops(*v.rt);
            break;
        }
        return v;
    }

    std::optional<sqf::runtime::instruction_set> compile(sqf::runtime::runtime& rt, const std::string& text, const std::string& file, bool preprocess)
    {
        sqf::runtime::fileio::pathinfo pi{ file, {} };
        if (preprocess)
        {
            auto pp = rt.parser_preprocessor().preprocess(rt, text, pi);
            if (!pp.has_value()) { return {}; }
            return rt.parser_sqf().parse(rt, *pp, pi);
        }
        return rt.parser_sqf().parse(rt, text, pi);
    }
    std::shared_ptr<sqf::runtime::context> add_context(sqf::runtime::runtime& rt, const sqf::runtime::instruction_set& set, const std::string& name, bool can_suspend)
    {
        auto context = rt.context_create().lock();
        sqf::runtime::frame f(rt.default_value_scope(), set);
        context->push_frame(f);
        context->name(name);
        context->can_suspend(can_suspend);
        return context;
    }

    J proj(const sqf::runtime::value& v, int depth)
    {
        J j = J::obj();
        if (v.empty()) { j.set("t", "nil"); return j; }
        auto t = v.type();
        if (t == sqf::runtime::t_scalar())
        {
            float f = v.data<sqf::types::d_scalar, float>();
            if (std::isfinite(f) && std::floor(f) == f && std::fabs(f) < 1e9f)
            {
                j.set("t", "n").set("n", (long long)f);

            }
            else
            {
                j.set("t", "f").set("f", v.to_string_sqf());
            }
            return j;
        }
        if (t == sqf::runtime::t_boolean()) { j.set("t", "b").set("b", v.data<sqf::types::d_boolean, bool>()); return j; }
        if (t == sqf::runtime::t_string()) { j.set("t", "s").set("s", v.data<sqf::types::d_string, std::string>()); return j; }
        if (t == sqf::runtime::t_array())
        {
            j.set("t", "a");
            J arr = J::arr();
            if (depth > 6) { j.set("deep", true); }
            else
            {
                auto d = v.data<sqf::types::d_array>();
                for (auto& e : *d) { arr.push(proj(e, depth + 1)); }
            }
            j.set("a", arr);
            return j;
        }
        if (t == sqf::runtime::t_code()) { j.set("t", "c").set("c", v.to_string_sqf()); return j; }
        j.set("t", "o").set("k", std::string(t.to_string())).set("o", depth > 6 ? std::string("...") : v.to_string_sqf());
        return j;
    }

    J listing(const sqf::runtime::instruction_set& set)
    {
        J arr = J::arr();
        for (auto& sp : set)
        {
            auto* p = sp.get();
            J i = J::obj();
            if (auto x = dynamic_cast<const sqf::opcodes::push*>(p))
            {
                i.set("op", "PUSH");
                if (x->value().type() == sqf::runtime::t_code())
                {
                    i.set("k", "code");
                    i.set("body", listing(x->value().data<sqf::types::d_code>()->value()));
                }
                else
                {
                    i.set("k", "val");
                    i.set("v", proj(x->value()));
                }
            }
            else if (auto x = dynamic_cast<const sqf::opcodes::call_binary*>(p)) { i.set("op", "CALLBINARY").set("n", std::string(x->operator_name())).set("prec", (int)x->precedence()); }
            else if (auto x = dynamic_cast<const sqf::opcodes::call_unary*>(p)) { i.set("op", "CALLUNARY").set("n", std::string(x->operator_name())); }
            else if (auto x = dynamic_cast<const sqf::opcodes::call_nular*>(p)) { i.set("op", "CALLNULAR").set("n", std::string(x->operator_name())); }
            else if (auto x = dynamic_cast<const sqf::opcodes::get_variable*>(p)) { i.set("op", "GETVARIABLE").set("n", std::string(x->variable_name())); }
            else if (auto x = dynamic_cast<const sqf::opcodes::assign_to*>(p)) { i.set("op", "ASSIGNTO").set("n", std::string(x->variable_name())); }
            else if (auto x = dynamic_cast<const sqf::opcodes::assign_to_local*>(p)) { i.set("op", "ASSIGNTOLOCAL").set("n", std::string(x->variable_name())); }
            else if (auto x = dynamic_cast<const sqf::opcodes::make_array*>(p)) { i.set("op", "MAKEARRAY").set("k", (long long)x->array_size()); }
            else if (dynamic_cast<const sqf::opcodes::end_statement*>(p)) { i.set("op", "ENDSTATEMENT"); }
            else { i.set("op", "OTHER").set("n", p->to_string()); }
            auto di = p->diag_info();
            i.set("L", (long long)di.line).set("C", (long long)di.column);
            arr.push(i);
        }
        return arr;
    }

    const char* result_name(sqf::runtime::runtime::result r)
    {
        using R = sqf::runtime::runtime::result;
        switch (r)
        {
        case R::invalid: return "invalid";
        case R::empty: return "empty";
        case R::ok: return "ok";
        case R::action_error: return "action_error";
        case R::runtime_error: return "runtime_error";
        }
        return "?";
    }
    const char* state_name(sqf::runtime::runtime::state s)
    {
        using S = sqf::runtime::runtime::state;
        switch (s)
        {
        case S::empty: return "empty";
        case S::halted: return "halted";
        case S::running: return "running";
        case S::halted_error: return "halted_error";
        case S::evaluating: return "evaluating";
        }
        return "?";
    }

    namespace vclock
    {
        static std::atomic<long long> g_now_us{ 0 };
        static long long g_tick_us = 0;
        static std::atomic<long long> g_queries{ 0 };
        static std::chrono::system_clock::time_point query()
        {
            g_queries++;
            long long us = (g_now_us += g_tick_us);
            return std::chrono::system_clock::time_point(std::chrono::duration_cast<std::chrono::system_clock::duration>(std::chrono::microseconds(us)));
        }
        void install(long long start_ms, long long tick_us)
        {
            g_now_us = start_ms * 1000; g_tick_us = tick_us; g_queries = 0;
            sqf::runtime::verif::get().now = &query;
        }
        void uninstall() { sqf::runtime::verif::get().now = nullptr; }
        void advance_ms(long long ms) { g_now_us += ms * 1000; }
        long long now_ms() { return g_now_us / 1000; }
        long long queries() { return g_queries; }
    }
}
