// iso: determinism and instance isolation (C20).
// case: {"id":..,"P":[stmt...],"Q":[stmt...],"setting":"alone|after|beside","schedule":["P","Q",...],
//        "keep":bool,"fine":bool}
//   stmt: {"a":<abstract statement kind>,"k":"vm|sqf","t":<text>}
//     k = "vm":  create this program's VM; t = operator set "full" | "basic" | "none" (like the three
//                sqfvm_create_instance* entry points of src/export/sqfvm.cpp). A program without a vm
//                statement gets a "full" VM in front of its first statement.
//     k = "sqf": preprocess + parse + run the text as one script (compile, add_context, execute start)
//   alone : a fresh VM runs P statement by statement (every case runs in its own forked child, main.cpp),
//           on a new thread (= a new allocator arena: the heap layout the VM sees does not depend on what
//           the driver process allocated before the case)
//   after : on one new thread: one VM runs all of Q and is destroyed (kept alive with "keep"), then a FRESH VM runs P
//   beside: two VMs on two threads. A token is passed along "schedule": a thread may begin its next
//           step only when the schedule names it and keeps the token until it asks for the next step, so
//           steps are atomic and their order is exactly the schedule. Step = one statement; with "fine"
//           the token is additionally requested before every VM instruction (H3 observer used as gate),
//           i.e. the schedule then interleaves single instructions of the two VMs. A finished thread's
//           remaining slots are dropped; after the schedule is used up the token is handed out freely.
// Emits {"e":"Out","who":"P","lines":[{"i":<statement index>,"a":<kind>,"x":<text>}...]} and the same for Q:
// every diagnostic the VM's logger received while the statement ran (level|code|Lline|Ccol|file|message,
// byte-wise), followed by one "#res=<result>" line per statement (or "#compile-failed"), and for beside
// {"e":"Order","order":"PQQP.."} - the order in which the token was really granted.
#include "common.h"

#include <condition_variable>
#include <mutex>
#include <thread>

using namespace vd;
using sqf::runtime::runtime;
namespace verif = sqf::runtime::verif;

namespace
{
    struct stmt { std::string a, k, t; };
    struct prog
    {
        std::string who;
        std::vector<stmt> stmts;
        vm v;
        bool created = false;
        long long cur = 0;          // index of the statement being executed (1-based)
        std::string cur_kind;
        J lines = J::arr();
        void line(const std::string& x)
        {
            J l = J::obj();
            l.set("i", cur).set("a", cur_kind).set("x", x);
            lines.push(l);
        }
    };
    std::vector<stmt> stmts_of(const J& c, const char* key)
    {
        std::vector<stmt> out;
        if (!c.has(key)) { return out; }
        for (auto& s : c.at(key).a) { out.push_back({ s.str("a"), s.str("k", "sqf"), s.str("t") }); }
        return out;
    }
    void turn(const std::string& who);
    bool g_fine = false;
    extern thread_local const char* tl_who;
    void create(prog& p, const std::string& ops)
    {
        p.v = make_vm({}, ops == "basic" ? opsset::basic : ops == "none" ? opsset::none : opsset::full);
        prog* pp = &p;
        p.v.logger->keep = false;
        p.v.logger->sink = [pp](const diag& d) {
            pp->line(std::to_string(d.level) + "|" + std::to_string(d.code) + "|L" + std::to_string(d.line) + "|C" + std::to_string(d.col) + "|" + d.file + "|" + d.text);
            // per-instruction schedules: a diagnostic delivered in the middle of an operator is a scheduling point, too
            // (the other instance may run while this one is inside its log callback)
            if (g_fine && tl_who) { turn(tl_who); }
        };
        p.created = true;
    }
    void run_stmt(prog& p, size_t idx)
    {
        auto& s = p.stmts[idx];
        p.cur = (long long)idx + 1;
        p.cur_kind = s.a;
        if (s.k == "vm")
        {
            create(p, s.t);
            p.line("#res=created");
            return;
        }
        if (!p.created) { create(p, "full"); }
        auto& rt = *p.v.rt;
        auto set = compile(rt, s.t, "iso.sqf", true);
        if (!set.has_value()) { p.line("#compile-failed"); return; }
        add_context(rt, *set, "iso", false);
        auto res = rt.execute(runtime::action::start);
        p.line(std::string("#res=") + result_name(res));
        if (res == runtime::result::runtime_error) { rt.execute(runtime::action::abort); }
    }
    void emit_out(prog& p)
    {
        J e = ev("Out");
        e.set("who", p.who).set("lines", p.lines);
        emit(e);
    }

    // ---- the token gate
    struct gate
    {
        std::mutex m;
        std::condition_variable cv;
        std::vector<std::string> schedule;
        size_t next = 0;
        std::string holder;
        std::string order;
    };
    gate* g_gate = nullptr;
    thread_local const char* tl_who = nullptr;
    void turn(const std::string& who)
    {
        auto& g = *g_gate;
        std::unique_lock<std::mutex> lock(g.m);
        if (g.holder == who) { g.holder.clear(); g.cv.notify_all(); }
        g.cv.wait(lock, [&] { return g.holder.empty() && (g.next >= g.schedule.size() || g.schedule[g.next] == who); });
        if (g.next < g.schedule.size()) { g.next++; }
        g.holder = who;
        if (g.order.size() < 4000) { g.order += who; }
    }
    void leave(const std::string& who)
    {
        auto& g = *g_gate;
        std::unique_lock<std::mutex> lock(g.m);
        if (g.holder == who) { g.holder.clear(); }
        std::vector<std::string> rest;
        for (size_t i = g.next; i < g.schedule.size(); i++) { if (g.schedule[i] != who) { rest.push_back(g.schedule[i]); } }
        g.schedule.resize(g.next);
        g.schedule.insert(g.schedule.end(), rest.begin(), rest.end());
        g.cv.notify_all();
    }
    void gate_observer(verif::obs what, runtime&, size_t)
    {
        if (what == verif::obs::instr_begin && g_gate && tl_who) { turn(tl_who); }
    }
}

static void cmd_iso(const J& c)
{
    prog P, Q;
    P.who = "P"; Q.who = "Q";
    P.stmts = stmts_of(c, "P");
    Q.stmts = stmts_of(c, "Q");
    auto setting = c.str("setting", "alone");
    // The programs never run on the driver's main thread: a new thread gets a new allocator arena (no other
    // thread exists in the forked child), so where the VM's objects end up relative to each other does not
    // depend on what the driver process parsed and freed before this case - only on what runs in the case.
    if (setting == "alone")
    {
        std::thread t([&] { for (size_t i = 0; i < P.stmts.size(); i++) { run_stmt(P, i); } });
        t.join();
        emit_out(P);
    }
    else if (setting == "after")
    {
        // one embedder thread: Q's instance first, then - in the same thread, hence the same arena - P's
        bool keep = c.boolean("keep", false);
        std::thread t([&] {
            for (size_t i = 0; i < Q.stmts.size(); i++) { run_stmt(Q, i); }
            if (!keep) { Q.v.rt.reset(); Q.v.logger.reset(); Q.created = false; }
            for (size_t i = 0; i < P.stmts.size(); i++) { run_stmt(P, i); }
        });
        t.join();
        emit_out(P);
        emit_out(Q);
    }
    else
    {
        gate g;
        for (auto& s : c.at("schedule").a) { g.schedule.push_back(s.s); }
        g_gate = &g;
        bool fine = c.boolean("fine", false);
        if (fine) { verif::get().observe = &gate_observer; }
        g_fine = fine;
        auto body = [&](prog* p) {
            tl_who = p->who.c_str();
            for (size_t i = 0; i < p->stmts.size(); i++)
            {
                // in fine mode only VM creation is a step of its own: the instructions of a script ask
                // for the token themselves (the compilation of a script belongs to the step before it)
                if (!fine || p->stmts[i].k == "vm" || !p->created) { turn(p->who); }
                run_stmt(*p, i);
            }
            tl_who = nullptr;
            leave(p->who);
        };
        std::thread tp(body, &P), tq(body, &Q);
        tp.join(); tq.join();
        verif::get().observe = nullptr;
        g_gate = nullptr;
        g_fine = false;
        emit_out(P);
        emit_out(Q);
        J o = ev("Order");
        o.set("order", g.order);
        emit(o);
    }
}
static registrar r1("iso", cmd_iso);
