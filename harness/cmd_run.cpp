// run: execute scripts on one VM over a sequence of runs, emitting
//   S events  - the operand-stack / frame state at the observation points of H3 (per context)
//   D events  - every diagnostic (Logger capture), in order
//   R events  - result of each runtime::execute call
//   C events  - scheduler observations (slice begin/end, erase) with the virtual clock
// case: {"id":..,
//   "conf":{"max_runtime_ms":0,"max_loop":10000,"slice":0,"clock":{"start_ms":1000,"tick_us":1000},"sleep":true},
//   "runs":[{"advance_ms":0,"scripts":[{"name":"s1","text":"..","suspend":false}],"action":"start","reset_ts":false}],
//   "trace":true,"sched":false}
#include "common.h"
#include "runtime/d_string.h"

#include <map>

using namespace vd;
using sqf::runtime::runtime;
namespace verif = sqf::runtime::verif;

namespace
{
    struct state
    {
        bool trace = false;
        bool compact = false;     // states without the operand values: frame ids, bases and the stack height only
        bool sched = false;
        std::map<const sqf::runtime::context*, int> ctx_ids;
        std::map<int, std::string> ctx_names;
        std::string pending_op;
        long long nevents = 0;
        long long max_events = 200000;     // (raised for compact traces)
        long long instr = 0;
        int next_ctx_id = 0;
    };
    state* g = nullptr;

    int id_of(const sqf::runtime::context* p)
    {
        auto it = g->ctx_ids.find(p);
        if (it != g->ctx_ids.end()) { return it->second; }
        int id = ++g->next_ctx_id;      // ids are never reused (a freed context's address may be)
        g->ctx_ids[p] = id;
        return id;
    }
    int ctx_id(runtime& rt)
    {
        auto sp = rt.context_active_as_shared();
        return id_of(sp.get());
    }
    std::string clip(std::string s)
    {
        if (s.size() > 60) { s = s.substr(0, 57) + "..."; }
        return s;
    }
    void emit_state(const char* kind, runtime& rt, size_t arg)
    {
        if (g->nevents++ > g->max_events) { return; }
        auto sp = rt.context_active_as_shared();
        if (!sp) { return; }
        auto& ctx = *sp;
        J e = ev(g->compact ? "SC" : "S");
        e.set("k", kind).set("ctx", ctx_id(rt)).set("op", g->pending_op).set("arg", (long long)arg);
        if (g->compact)
        {
            J cf = J::arr(), cb = J::arr();
            std::vector<sqf::runtime::frame*> fr;
            for (auto it = ctx.frames_rbegin(); it != ctx.frames_rend(); ++it) { fr.push_back(&*it); }
            for (auto it = fr.rbegin(); it != fr.rend(); ++it) { cf.push((long long)(*it)->verif_id); cb.push((long long)(*it)->value_stack_pos()); }
            e.set("fids", cf).set("bases", cb).set("n", (long long)ctx.values_size());
            emit(e);
            return;
        }
        J fids = J::arr(), bases = J::arr(), pos = J::arr(), slots = J::arr();
        std::vector<sqf::runtime::frame*> frames;
        for (auto it = ctx.frames_rbegin(); it != ctx.frames_rend(); ++it) { frames.push_back(&*it); }
        for (auto it = frames.rbegin(); it != frames.rend(); ++it)
        {
            fids.push((long long)(*it)->verif_id);
            bases.push((long long)(*it)->value_stack_pos());
            auto p = (*it)->position();
            pos.push(p == sqf::runtime::frame::position_invalid ? (long long)-1 : (long long)p);
        }
        for (auto it = ctx.values_begin(); it != ctx.values_end(); ++it) { slots.push(clip(it->to_string_sqf())); }
        e.set("fids", fids).set("bases", bases).set("pos", pos).set("slots", slots);
        e.set("err", rt.__runtime_error());
        emit(e);
    }
    void observer(verif::obs what, runtime& rt, size_t arg)
    {
        switch (what)
        {
        case verif::obs::instr_begin:
        {
            g->instr++;
            auto& f = rt.context_active().current_frame();
            g->pending_op = (*f.current())->to_string();
            if (g->trace) { emit_state("B", rt, 0); }
        } break;
        case verif::obs::instr_done:
            if (g->trace) { emit_state("I", rt, arg); }
            if (g->sched && g->pending_op == "CALLUNARY scriptdone")
            {   // the moment a scriptDone poll is evaluated (its result is logged by a later instruction)
                J e = ev("P");
                e.set("ctx", ctx_id(rt)).set("clk", vclock::now_ms());
                emit(e);
            }
            break;
        case verif::obs::frame_done: g->pending_op = "FRAMEDONE"; if (g->trace) { emit_state("F", rt, arg); } break;
        case verif::obs::err_unwind: if (g->trace) { emit_state("U", rt, arg); } break;
        case verif::obs::err_fail: if (g->trace) { emit_state("X", rt, arg); } break;
        case verif::obs::slice_begin:
        case verif::obs::slice_end:
        case verif::obs::ctx_erase:
            if (g->sched)
            {
                J e = ev("C");
                e.set("k", what == verif::obs::slice_begin ? "begin" : what == verif::obs::slice_end ? "end" : "erase");
                e.set("i", (long long)arg).set("clk", vclock::now_ms()).set("n", g->instr);
                auto sp = rt.context_active_as_shared();
                if (sp)
                {
                    e.set("ctx", ctx_id(rt)).set("name", sp->name()).set("susp", sp->suspended()).set("empty", sp->empty());
                    e.set("wake", (long long)std::chrono::duration_cast<std::chrono::milliseconds>(sp->wakeup_timestamp().time_since_epoch()).count());
                    e.set("term", sp->terminate());
                }
                J order = J::arr();
                for (auto it = rt.context_begin(); it != rt.context_end(); ++it) { order.push(id_of(it->get())); }
                e.set("order", order);
                emit(e);
            }
            if (what == verif::obs::ctx_erase)
            {
                auto sp = rt.context_active_as_shared();
                if (sp) { g->ctx_ids.erase(sp.get()); }
            }
            break;
        default: break;
        }
    }
}

static void cmd_run(const J& c)
{
    state st;
    g = &st;
    st.trace = c.boolean("trace", false);
    st.compact = c.boolean("compact", false);
    if (st.compact) { st.max_events = 2000000; }
    st.sched = c.boolean("sched", false);
    sqf::runtime::runtime::runtime_conf conf;
    long long slice = 0;
    bool use_clock = false;
    if (c.has("conf"))
    {
        auto& cf = c.at("conf");
        conf.max_runtime = std::chrono::milliseconds(cf.num("max_runtime_ms", 0));
        conf.max_loop_iterations_in_unscheduled = (size_t)cf.num("max_loop", 10000);
        conf.disable_sleep = !cf.boolean("sleep", true);
        conf.print_context_work_to_log_on_exit = cf.boolean("work_print", true);
        slice = cf.num("slice", 0);
        if (cf.has("clock"))
        {
            use_clock = true;
            vclock::install(cf.at("clock").num("start_ms", 1000), cf.at("clock").num("tick_us", 1000));
        }
    }
    verif::get().slice_len = (size_t)slice;
    verif::get().observe = &observer;
    auto v = make_vm(conf);
    auto& rt = *v.rt;
    v.logger->keep = false;
    v.logger->sink = [&](const diag& d) {
        J e = ev("D");
        e.set("lvl", d.level).set("code", (long long)d.code).set("L", (long long)d.line).set("C", (long long)d.col).set("file", d.file);
        e.set("txt", clip(d.text));
        auto sp = rt.context_active_as_shared();
        e.set("ctx", sp ? ctx_id(rt) : 0);
        if (use_clock) { e.set("clk", vclock::now_ms()); }
        emit(e);
    };
    size_t runno = 0;
    for (auto& r : c.at("runs").a)
    {
        runno++;
        if (use_clock && r.has("advance_ms")) { vclock::advance_ms(r.num("advance_ms")); }
        if (r.boolean("reset_ts", false)) { rt.runtime_timestamp_reset(); }
        if (r.has("scripts"))
        {
            for (auto& s : r.at("scripts").a)
            {
                auto set = compile(rt, s.str("text"), s.str("name", "script") + ".sqf", s.boolean("pp", true));
                J e = ev("L");
                e.set("run", (long long)runno).set("name", s.str("name")).set("ok", set.has_value());
                if (set.has_value())
                {
                    auto ctx = add_context(rt, *set, s.str("name", "script"), s.boolean("suspend", false));
                    e.set("ctx", id_of(ctx.get()));
                    e.set("len", (long long)set->size());
                }
                emit(e);
            }
        }
        J b = ev("RB");
        b.set("run", (long long)runno);
        if (use_clock) { b.set("clk", vclock::now_ms()); }
        emit(b);
        if (r.has("eval"))
        {
            // the embedder's expression evaluation (runtime::evaluate_expression; also what __EVAL uses)
            bool success = false;
            auto val = rt.evaluate_expression(r.str("eval"), success, false);
            J e = ev("R");
            e.set("run", (long long)runno).set("res", success ? "ok" : "runtime_error").set("state", state_name(rt.runtime_state()));
            // scripts left in the VM: the (emptied) context of the evaluation itself is no script
            long long left = 0;
            for (auto it = rt.context_begin(); it != rt.context_end(); ++it) { if (!(*it)->empty()) { left++; } }
            e.set("nctx", left).set("errflag", rt.__runtime_error());
            e.set("exitreq", rt.is_exit_requested()).set("eval", true).set("value", success && !val.empty() ? clip(val.to_string_sqf()) : std::string("nil"));
            if (use_clock) { e.set("clk", vclock::now_ms()); }
            e.set("instr", st.instr);
            emit(e);
            continue;
        }
        auto action = r.str("action", "start");
        auto res = rt.execute(action == "start" ? runtime::action::start : action == "assembly_step" ? runtime::action::assembly_step
            : action == "line_step" ? runtime::action::line_step : action == "leave_scope" ? runtime::action::leave_scope
            : action == "abort" ? runtime::action::abort : action == "stop" ? runtime::action::stop : runtime::action::invalid);
        J e = ev("R");
        e.set("run", (long long)runno).set("res", result_name(res)).set("state", state_name(rt.runtime_state()));
        e.set("nctx", (long long)(rt.context_end() - rt.context_begin())).set("errflag", rt.__runtime_error());
        e.set("exitreq", rt.is_exit_requested());
        if (use_clock) { e.set("clk", vclock::now_ms()); }
        e.set("instr", st.instr);
        emit(e);
        if (r.boolean("abort_after", true) && res != runtime::result::ok && res != runtime::result::empty)
        {
            rt.execute(runtime::action::abort);
        }
    }
    verif::get().observe = nullptr;
    verif::get().slice_len = 0;
    if (use_clock) { vclock::uninstall(); }
    g = nullptr;
}
static registrar r1("run", cmd_run);
