// Test extension for the C20 check (callExtension interface of the game). Built at run time by
// tools/checks/C20.py into <work dir>/ext/isoext[_x64].so; the file extension .cc keeps it out of the
// driver's own source glob (harness/*.cpp). The extension is STATELESS: every answer is a function of
// the arguments of the call, so whatever one VM instance's call can see of another instance's call
// comes from the code under test (its result buffers), not from here.
//   "echo:<text>"   answers <text> (terminated)
//   "part:<text>"   writes the characters of <text> WITHOUT a terminator (a short answer into a buffer
//                   the caller has to have cleared)
//   anything else   fire-and-forget: nothing is written to the output buffer
//   array form ("fn" with arguments): "echo" answers the arguments joined by '|', anything else writes nothing
#include <cstring>
#include <string>

extern "C"
{
    __attribute__((visibility("default"))) void RVExtensionVersion(char* output, int size)
    {
        std::strncpy(output, "1.0", size - 1);
    }
    __attribute__((visibility("default"))) void RVExtension(char* output, int size, const char* function)
    {
        if (std::strncmp(function, "echo:", 5) == 0)
        {
            std::strncpy(output, function + 5, size - 1);
        }
        else if (std::strncmp(function, "part:", 5) == 0)
        {
            size_t n = std::strlen(function + 5);
            if ((int)n > size - 1) { n = size - 1; }
            std::memcpy(output, function + 5, n);
        }
    }
    __attribute__((visibility("default"))) int RVExtensionArgs(char* output, int size, const char* function, const char** args, int argc)
    {
        if (std::strcmp(function, "echo") == 0)
        {
            std::string s;
            for (int i = 0; i < argc; i++) { if (i) { s += "|"; } s += args[i]; }
            std::strncpy(output, s.c_str(), size - 1);
        }
        return 0;
    }
}
