// Shared infrastructure of the conformance driver.
#pragma once
#include "json.h"

#include "runtime/logging.h"
#include "runtime/runtime.h"
#include "runtime/value.h"
#include "runtime/verif_hooks.h"

#include <cstdio>
#include <functional>
#include <memory>
#include <string>
#include <vector>

namespace vd
{
    using vj::J;

    // ---- output -----------------------------------------------------------------------------
    // One NDJSON object per line, flushed per event so that a crash truncates nothing but the
    // event being written.
    void emit(const J& j);
    J ev(const char* name);                 // {"e":name}
    extern std::string g_case_id;            // id of the case being executed (added to every event)

    // ---- command registry --------------------------------------------------------------------
    using case_fn = std::function<void(const J& c)>;
    struct registrar { registrar(const char* name, case_fn fn); };
    // a command handles one input line (one case); crashes/timeouts are reported by main.cpp

    // ---- logger capture ----------------------------------------------------------------------
    struct diag
    {
        int level; size_t code; size_t line; size_t col; std::string file; std::string text;
    };
    class capture_logger : public Logger
    {
    public:
        std::function<void(const diag&)> sink;     // called for every message
        std::vector<diag> all;
        bool keep = true;
        bool emit_events = false;                  // emit {"e":"Diag",...} per message
        void log(const LogMessageBase& message) override;
    };
    J diag_json(const diag& d);

    // ---- VM factory --------------------------------------------------------------------------
    enum class opsset { none, basic, full };
    struct vm
    {
        std::unique_ptr<capture_logger> logger;
        std::unique_ptr<sqf::runtime::runtime> rt;
    };
    vm make_vm(sqf::runtime::runtime::runtime_conf conf = {}, opsset ops = opsset::full);
    // preprocess + parse text; returns empty optional on failure (diagnostics go to the logger)
    std::optional<sqf::runtime::instruction_set> compile(sqf::runtime::runtime& rt, const std::string& text, const std::string& file, bool preprocess = true);
    // create a context running `set` (like the CLI's --sqf path)
    std::shared_ptr<sqf::runtime::context> add_context(sqf::runtime::runtime& rt, const sqf::runtime::instruction_set& set, const std::string& name, bool can_suspend);

    // ---- projections -------------------------------------------------------------------------
    // SQF value -> tagged JSON record (DESIGN.md 3):
    //   {"t":"nil"} {"t":"n","n":3} {"t":"f","f":"1.5"} {"t":"b","b":true} {"t":"s","s":"x"}
    //   {"t":"a","a":[...]} {"t":"c","c":"{...}"} {"t":"o","k":"TYPENAME","o":"<str>"} {"t":"h","h":[[k,v],..]}
    // The payload field is named after the tag: TLC orders record fields by an internal id and
    // cannot compare an integer with a string, so two differently typed values must never share a
    // field name.
    J proj(const sqf::runtime::value& v, int depth = 0);
    // instruction listing of a compiled set (nested code as nested listing)
    J listing(const sqf::runtime::instruction_set& set);
    const char* result_name(sqf::runtime::runtime::result r);
    const char* state_name(sqf::runtime::runtime::state s);

    // ---- virtual clock (H1) ------------------------------------------------------------------
    namespace vclock
    {
        void install(long long start_ms, long long tick_us); // every query advances by tick_us
        void uninstall();
        void advance_ms(long long ms);
        long long now_ms();                                   // does not tick
        long long queries();
    }
}
