// pbo: open a PBO archive (materialised by the orchestrator's independent packer, possibly
// truncated / corrupted / absent) through the real code paths and record what they expose.
//
// case: {"id":..,"path":"<abs path>/x.pbo","prefix":"pfx" | "","names":["a.sqf","d/b.txt",..]}
//   path   the archive (may not exist: fault Absent)
//   prefix the value of the archive's "prefix" property as packed ("" = the archive has none)
//   names  the entry names as packed (what a user of the archive would ask for)
//
// Three stages; each is announced by {"e":"Begin","stage":..} first, so that a crash of the code
// under test (signal, sanitizer abort, escaped exception, hang - reported by main.cpp as
// {"e":"Crash"}) is attributed to the stage it happened in:
//   open    rvutils::pbo::pbofile::open(path) (the reading entry point the runtime and the CLI use): good(), attributes(), files()
//             -> {"e":"Open","good":b,"props":[[k,v]..],"entries":[{"name":..,"size":n}..]}
//   direct  pbofile::read(name, reader) + reader::read for every expected name, the buffer sized by
//           reader.descriptor().size exactly like impl_default::read_file / cli.cpp do
//             -> {"e":"Direct","got":[{"name":..,"st":"ok"|"notfound"|"huge","hex":..,"n":count}..]}
//   vfs     a fresh VM, impl_default::add_pbo_mapping(path), then the SQF text
//             vd__r = loadFile "\<prefix>\<name with backslashes>"   run through the real operators
//             -> {"e":"Vfs","got":[{"name":..,"st":"ok"|"notfound"|"nostring","hex":..,"codes":[..]}..]}
//           st = notfound when a fatal/error diagnostic or FileNotFound (60036, a warning) was logged
//           by the step (PBOFailedToReadFile 70020, ..); the returned string is hex-encoded byte by byte.
// Strings that are not plain printable ASCII are emitted as "0x<hex>" (TLC-safe wire format).
#include "common.h"
#include "fileio/default.h"
#include "rvutils/pbofile.hpp"
#include "runtime/d_string.h"

#include <algorithm>
#include <set>

using namespace vd;
using sqf::runtime::value;

namespace
{
    const size_t max_buffer = 16u * 1024u * 1024u;
    const size_t code_file_not_found = 60036;       // FileNotFound (warning)
    const size_t code_pbo_file_not_found = 70019;   // PBOFileNotFound (fatal)
    const size_t code_pbo_failed_to_read = 70020;   // PBOFailedToReadFile (fatal)

    std::string hex_of(const std::string& s)
    {
        static const char* digits = "0123456789abcdef";
        std::string out;
        out.reserve(s.size() * 2);
        for (unsigned char c : s) { out.push_back(digits[c >> 4]); out.push_back(digits[c & 15]); }
        return out;
    }
    std::string safe(const std::string& s)
    {
        for (unsigned char c : s)
        {
            if (c < 0x20 || c >= 0x7f || c == '"') { return "0x" + hex_of(s); }
        }
        return s;
    }
    long long clamp31(unsigned long long v) { return v > 2147483647ull ? 2147483647ll : (long long)v; }

    void begin(const char* stage)
    {
        J b = ev("Begin");
        b.set("stage", stage);
        emit(b);
    }

    bool run_sqf(sqf::runtime::runtime& rt, const std::string& text)
    {
        auto set = compile(rt, text, "pbo.sqf", false);
        if (!set.has_value()) { return false; }
        rt.runtime_timestamp_reset();
        add_context(rt, *set, "pbo", false);
        for (int i = 0; i < 50; i++)
        {
            auto res = rt.execute(sqf::runtime::runtime::action::start);
            if (res == sqf::runtime::runtime::result::empty) { break; }
            if (res != sqf::runtime::runtime::result::ok)
            {
                rt.execute(sqf::runtime::runtime::action::abort);
                break;
            }
        }
        return true;
    }
}

static void cmd_pbo(const J& c)
{
    std::string path = c.str("path");
    std::string prefix = c.str("prefix");
    std::vector<std::string> names;
    if (c.has("names")) { for (auto& n : c.at("names").a) { names.push_back(n.s); } }

    // ---- stage 1: the reader itself
    begin("open");
    {
        rvutils::pbo::pbofile pbo;
        pbo.open(std::filesystem::path(path));
        J o = ev("Open");
        o.set("good", pbo.good());
        J props = J::arr();
        J entries = J::arr();
        if (pbo.good())
        {
            for (auto& kv : pbo.attributes())
            {
                J p = J::arr();
                p.push(safe(kv.first)).push(safe(kv.second));
                props.push(p);
            }
            for (auto& f : pbo.files())
            {
                J e = J::obj();
                e.set("name", safe(f.name)).set("size", clamp31(f.size));
                entries.push(e);
            }
        }
        o.set("props", props).set("entries", entries);
        emit(o);

        // ---- stage 2: entry data through pbofile::reader
        begin("direct");
        J got = J::arr();
        for (auto& name : names)
        {
            J g = J::obj();
            g.set("name", name);
            rvutils::pbo::pbofile::reader reader;
            if (!pbo.read(name, reader))
            {
                g.set("st", "notfound").set("hex", "").set("n", 0);
            }
            else
            {
                size_t size = reader.descriptor().size;
                if (size > max_buffer)
                {
                    g.set("st", "huge").set("hex", "").set("n", clamp31(size));
                }
                else
                {
                    std::string buf;
                    buf.resize(size);
                    size_t n = reader.read(buf.data(), (std::streamsize)size);
                    if (n < buf.size()) { buf.resize(n); }
                    g.set("st", "ok").set("hex", hex_of(buf)).set("n", clamp31(n));
                }
            }
            got.push(g);
        }
        J d = ev("Direct");
        d.set("got", got);
        emit(d);
    }

    // ---- stage 3: mounted into the virtual file system, read by the real loadFile operator
    begin("vfs");
    {
        sqf::runtime::runtime::runtime_conf conf;
        conf.max_runtime = std::chrono::milliseconds(5000);
        auto v = make_vm(conf, opsset::full);
        auto& rt = *v.rt;
        v.logger->all.clear();
        static_cast<sqf::fileio::impl_default&>(rt.fileio()).add_pbo_mapping(std::filesystem::path(path));
        J mount_codes = J::arr();
        {
            std::set<long long> seen;
            for (auto& d : v.logger->all)
            {
                if (d.level <= 2 && seen.insert((long long)d.code).second) { mount_codes.push((long long)d.code); }
            }
        }
        J got = J::arr();
        for (auto& name : names)
        {
            std::string request = "\\" + prefix + (prefix.empty() ? "" : "\\") + name;
            std::replace(request.begin(), request.end(), '/', '\\');
            v.logger->all.clear();
            bool parsed = run_sqf(rt, "vd__r = 0; vd__r = loadFile \"" + request + "\";");
            J g = J::obj();
            g.set("name", name).set("request", request);
            bool failed = !parsed;
            J codes = J::arr();
            std::set<long long> seen;
            for (auto& d : v.logger->all)
            {
                if (d.level <= 1 || d.code == code_file_not_found || d.code == code_pbo_file_not_found || d.code == code_pbo_failed_to_read) { failed = true; }
                if (d.level <= 2 && seen.insert((long long)d.code).second) { codes.push((long long)d.code); }
            }
            std::string content;
            bool is_string = false;
            auto scope = rt.default_value_scope();
            if (scope->contains("vd__r"))
            {
                auto val = scope->at("vd__r");
                if (!val.empty() && val.is<sqf::runtime::t_string>())
                {
                    is_string = true;
                    content = val.data<sqf::types::d_string, std::string>();
                }
            }
            g.set("st", failed ? "notfound" : (is_string ? "ok" : "nostring"));
            g.set("hex", failed || !is_string ? std::string() : (content.size() > max_buffer ? std::string("huge") : hex_of(content)));
            g.set("codes", codes);
            got.push(g);
        }
        J o = ev("Vfs");
        o.set("got", got).set("mount", mount_codes);
        emit(o);
    }
}
static vd::registrar r_pbo("pbo", cmd_pbo);
