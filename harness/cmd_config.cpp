// config: load config texts through the real preprocessor + config parser into the confighost of a
// fresh VM, then evaluate queries by running SQF text through the real config operators.
// case: {"id":..,"files":["<config text 1>","<config text 2>"],
//        "ops":[[<abstract statements of file 1, echoed>],[..]],        (optional)
//        "queries":[{"q":"row","path":["A","x"]},{"q":"getNumber","path":[..]},
//                   {"q":"table","names":["A","x","m"],"depth":3,"prune":b},...],
//        "force":bool}      run the queries even if the inheritance relation was observed cyclic
// emits
//   {"e":"Obs","k":"begin","f":i,"ops":[..]}                      before file i is loaded
//   {"e":"Obs","k":"load","f":i,"ok":b,"pp":b,"codes":[..],"cyclic":b,"cyc":[[path]..]} after
//   {"e":"Obs","k":"ask","q":..,"path":[..]}                      (force mode) before a query
//   {"e":"Obs","k":"row","path":[..],"null":b,"at":[..],"name":s,"isn":b,"ist":b,"isa":b,"isc":b,
//        "num":proj,"txt":proj,"arr":proj,"inh":{"null":b,"at":[..]},"hier":[s..],"cnt":n,
//        "sel":[{"null":b,"at":[..]}..],"res":s}                  one per "row" query / per path of a "table"
//   {"e":"Obs","k":"q","q":..,"path":[..],"r":proj|cfg,"res":s}   one per single-operator query
//   {"e":"Obs","k":"skipped","n":N}                               queries not run (cyclic, !force)
// A config value is projected as {"null":b,"at":[names from below configFile down to the entry]},
// read from the confighost's own owner links (id_parent_logical) - independent of the operators
// under test.  "cyclic" is read from the base links (id_parent_inherited) of every container that
// is reachable from configFile.  A lookup that never terminates is reported by main.cpp as
// {"e":"Crash","why":"timeout"} and costs this case only.
#include "common.h"
#include "operators/d_config.h"
#include "runtime/confighost.h"
#include "runtime/d_array.h"
#include "runtime/d_boolean.h"
#include "runtime/d_scalar.h"
#include "runtime/d_string.h"

#include <algorithm>
#include <cmath>

using namespace vd;
using sqf::runtime::value;
using sqf::runtime::config;
using sqf::runtime::confignav;

namespace
{
    std::vector<std::string> logical_path(sqf::runtime::confighost& host, config c)
    {
        std::vector<std::string> names;
        auto nav = c.navigate(host);
        size_t guard = 0;
        while (!nav.empty() && nav->id_parent_logical != config::invalid_id && guard++ < 4096)
        {
            names.push_back(nav->name);
            nav = nav.parent_logical();
        }
        std::reverse(names.begin(), names.end());
        return names;
    }
    J names_json(const std::vector<std::string>& names)
    {
        J a = J::arr();
        for (auto& n : names) { a.push(n); }
        return a;
    }
    J cfg_json(sqf::runtime::confighost& host, const value& v)
    {
        J j = J::obj();
        if (v.empty() || !v.is<sqf::runtime::t_config>())
        {
            j.set("null", true).set("at", J::arr()).set("notconfig", true);
            return j;
        }
        auto c = v.data<sqf::types::d_config, config>();
        j.set("null", c.is_null());
        j.set("at", c.is_null() ? J::arr() : names_json(logical_path(host, c)));
        return j;
    }
    // config values: like vd::proj, but whole numbers that do not fit TLC's 32 bit integers are
    // written as {"t":"N","N":"<decimal digits>"} (hexadecimal config literals reach 2^32), and
    // anything that is not a whole finite number as {"t":"f","f":"<printed>"} (e.g. nan)
    J vproj(const value& v, int depth = 0)
    {
        if (!v.empty() && v.is<sqf::runtime::t_scalar>())
        {
            float f = v.data<sqf::types::d_scalar, float>();
            J j = J::obj();
            if (std::isfinite(f) && std::floor(f) == f)
            {
                if (std::fabs(f) < 1e9f) { j.set("t", "n").set("n", (long long)f); }
                else
                {
                    char buf[64];
                    snprintf(buf, sizeof(buf), "%.0f", (double)f);
                    j.set("t", "N").set("N", std::string(buf));
                }
            }
            else { j.set("t", "f").set("f", v.to_string_sqf()); }
            return j;
        }
        if (!v.empty() && v.is<sqf::runtime::t_array>() && depth < 8)
        {
            J arr = J::arr();
            for (auto& e : *v.data<sqf::types::d_array>()) { arr.push(vproj(e, depth + 1)); }
            J j = J::obj();
            j.set("t", "a").set("a", arr);
            return j;
        }
        return proj(v, depth);
    }
    bool chain_cyclic(confignav start)
    {
        // Floyd on id_parent_inherited
        confignav slow = start, fast = start;
        while (true)
        {
            if (fast.empty()) { return false; }
            fast = fast.parent_inherited();
            if (fast.empty()) { return false; }
            fast = fast.parent_inherited();
            slow = slow.parent_inherited();
            if (!fast.empty() && !slow.empty() && fast->id == slow->id) { return true; }
        }
    }
    void walk(sqf::runtime::confighost& host, confignav nav, int depth, J& cyc, bool& any)
    {
        if (nav.empty() || depth > 64) { return; }
        if (chain_cyclic(nav))
        {
            any = true;
            if (cyc.a.size() < 8) { cyc.push(names_json(logical_path(host, *nav))); }
        }
        for (size_t i = 0; i < nav->size(); i++)
        {
            auto child = nav.at(i);
            if (!child.empty()) { walk(host, child, depth + 1, cyc, any); }
        }
    }

    struct runner
    {
        vm& v;
        std::string res;
        // runs "vd__r = nil; vd__r = <expr>" and returns vd__r (empty value on any failure)
        value run(const std::string& text)
        {
            auto& rt = *v.rt;
            v.logger->all.clear();
            auto set = compile(rt, "vd__r = nil; " + text, "q.sqf", false);
            if (!set.has_value()) { res = "parse_error"; return {}; }
            rt.runtime_timestamp_reset();
            add_context(rt, *set, "q", false);
            auto r = rt.execute(sqf::runtime::runtime::action::start);
            res = result_name(r);
            if (r != sqf::runtime::runtime::result::empty && r != sqf::runtime::runtime::result::ok)
            {
                rt.execute(sqf::runtime::runtime::action::abort);
            }
            auto scope = rt.default_value_scope();
            if (!scope->contains("vd__r")) { return {}; }
            return scope->at("vd__r");
        }
        value global(const std::string& name)
        {
            auto scope = v.rt->default_value_scope();
            return scope->contains(name) ? scope->at(name) : value();
        }
    };
    std::string quote(const std::string& s)
    {
        std::string o = "\"";
        for (char c : s) { if (c == '"') { o += "\"\""; } else { o.push_back(c); } }
        o.push_back('"');
        return o;
    }
    std::string path_expr(const J& path)
    {
        std::string e = "configFile";
        for (auto& p : path.a) { e += " >> " + quote(p.s); }
        return e;
    }
    value elem(const value& arr, size_t i)
    {
        if (arr.empty() || !arr.is<sqf::runtime::t_array>()) { return {}; }
        auto d = arr.data<sqf::types::d_array>();
        return i < d->size() ? d->at(i) : value();
    }
    bool as_bool(const value& v)
    {
        return !v.empty() && v.is<sqf::runtime::t_boolean>() && v.data<sqf::types::d_boolean, bool>();
    }
}

// one row of the query table: every config operator on configFile >> path[0] >> path[1] ...
static bool eval_row(runner& r, sqf::runtime::confighost& host, const std::string& root_name, const J& path, bool announce)
{
    if (announce)
    {
        J a = ev("Obs");
        a.set("k", "ask").set("q", "row").set("path", path);
        emit(a);
    }
    std::string pe = path_expr(path);
    J o = ev("Obs");
    o.set("k", "row").set("path", path);
    // 1. the lookup itself and everything config.sqf also applies to configNull
    auto r1 = r.run("vd__c = " + pe + "; vd__r = [vd__c, isNull vd__c, isNumber vd__c, isText vd__c, isArray vd__c, isClass vd__c, "
                    "getNumber vd__c, getText vd__c, getArray vd__c]");
    std::string res = r.res;
    auto cv = elem(r1, 0);
    bool isnull = cv.empty() || !cv.is<sqf::runtime::t_config>() || cv.data<sqf::types::d_config, config>().is_null();
    J cj = cfg_json(host, cv);
    o.set("null", isnull).set("at", cj.at("at"));
    o.set("nullop", as_bool(elem(r1, 1)));
    o.set("isn", as_bool(elem(r1, 2))).set("ist", as_bool(elem(r1, 3))).set("isa", as_bool(elem(r1, 4))).set("isc", as_bool(elem(r1, 5)));
    o.set("num", vproj(elem(r1, 6))).set("txt", vproj(elem(r1, 7))).set("arr", vproj(elem(r1, 8)));
    // 2. operators that raise an error on configNull: only on entries that exist
    J inh = J::obj(); inh.set("null", true).set("at", J::arr());
    J hier = J::arr(), sel = J::arr();
    long long cnt = 0;
    std::string cname;
    if (!isnull)
    {
        auto r2 = r.run("vd__r = [inheritsFrom vd__c, configHierarchy vd__c, count vd__c, configName vd__c]");
        res += "/" + r.res;
        inh = cfg_json(host, elem(r2, 0));
        auto h = elem(r2, 1);
        if (!h.empty() && h.is<sqf::runtime::t_array>())
        {
            for (auto& e : *h.data<sqf::types::d_array>())
            {
                if (!e.empty() && e.is<sqf::runtime::t_string>()) { hier.push(e.data<sqf::types::d_string, std::string>()); }
                else if (!e.empty() && e.is<sqf::runtime::t_config>())
                {
                    auto ec = e.data<sqf::types::d_config, config>();
                    hier.push(ec.is_null() ? std::string("<null>") : std::string(ec.navigate(host)->name));
                }
                else { hier.push("?"); }
            }
        }
        else { hier.push("<no array>"); }
        auto cn = elem(r2, 2);
        cnt = (!cn.empty() && cn.is<sqf::runtime::t_scalar>()) ? (long long)cn.data<sqf::types::d_scalar, float>() : -1;
        auto nm = elem(r2, 3);
        cname = (!nm.empty() && nm.is<sqf::runtime::t_string>()) ? nm.data<sqf::types::d_string, std::string>() : "<no string>";
        if (cnt > 0 && cnt < 64)
        {
            std::string t = "vd__r = [";
            for (long long i = 0; i < cnt; i++) { t += (i ? ", " : "") + std::string("vd__c select ") + std::to_string(i); }
            t += "]";
            auto r3 = r.run(t);
            res += "/" + r.res;
            for (long long i = 0; i < cnt; i++) { sel.push(cfg_json(host, elem(r3, (size_t)i))); }
        }
    }
    o.set("name", cname).set("inh", inh).set("hier", hier).set("cnt", cnt).set("sel", sel).set("root", root_name).set("res", res);
    emit(o);
    return isnull;
}
// the table over all paths of length <= depth over names; prune: below a path the implementation
// answers with configNull only the last name (the missing one) is tried
static void eval_table(runner& r, sqf::runtime::confighost& host, const std::string& root_name, const J& names, J& path, int depth, bool prune, bool announce)
{
    bool isnull = eval_row(r, host, root_name, path, announce);
    if (depth <= 0) { return; }
    for (size_t i = 0; i < names.a.size(); i++)
    {
        if (isnull && prune && i + 1 != names.a.size()) { continue; }
        path.push(names.a[i]);
        eval_table(r, host, root_name, names, path, depth - 1, prune, announce);
        path.a.pop_back();
    }
}

static void cmd_config(const J& c)
{
    sqf::runtime::runtime::runtime_conf conf;
    auto v = make_vm(conf, opsset::full);
    auto& rt = *v.rt;
    auto& host = rt.confighost();
    bool force = c.boolean("force", false);
    bool cyclic_seen = false;
    size_t f = 0;
    for (auto& file : c.at("files").a)
    {
        J b = ev("Obs");
        b.set("k", "begin").set("f", (long long)f);
        b.set("ops", (c.has("ops") && f < c.at("ops").a.size()) ? c.at("ops").a[f] : J::arr());
        emit(b);
        v.logger->all.clear();
        std::string name = "config" + std::to_string(f) + ".cpp";
        sqf::runtime::fileio::pathinfo pi{ name, {} };
        bool pp_ok = false, ok = false;
        auto pp = rt.parser_preprocessor().preprocess(rt, file.s, pi);
        if (pp.has_value())
        {
            pp_ok = true;
            ok = rt.parser_config().parse(host, *pp, pi);
        }
        J o = ev("Obs");
        o.set("k", "load").set("f", (long long)f).set("pp", pp_ok).set("ok", ok);
        J codes = J::arr();
        for (auto& d : v.logger->all) { codes.push((long long)d.code); }
        o.set("codes", codes);
        J cyc = J::arr();
        bool any = false;
        walk(host, host.root(), 0, cyc, any);
        o.set("cyclic", any).set("cyc", cyc);
        emit(o);
        cyclic_seen = cyclic_seen || any;
        f++;
    }
    if (!c.has("queries")) { return; }
    auto& queries = c.at("queries").a;
    if (cyclic_seen && !force)
    {
        J s = ev("Obs");
        s.set("k", "skipped").set("n", (long long)queries.size());
        emit(s);
        return;
    }
    runner r{ v, "" };
    std::string root_name = host.root()->name;
    for (auto& q : queries)
    {
        std::string kind = q.str("q", "row");
        if (kind == "table")
        {
            J path = J::arr();
            eval_table(r, host, root_name, q.at("names"), path, (int)q.num("depth", 3), q.boolean("prune", false), force);
            continue;
        }
        const J& path = q.at("path");
        if (kind == "row")
        {
            eval_row(r, host, root_name, path, force);
            continue;
        }
        if (force)
        {
            J a = ev("Obs");
            a.set("k", "ask").set("q", kind).set("path", path);
            emit(a);
        }
        // single operator: lookup | isNull | isNumber | ... | select (with "i")
        std::string pe = path_expr(path);
        std::string text;
        if (kind == "lookup") { text = "vd__r = [" + pe + "]"; }
        else if (kind == "select") { text = "vd__r = [(" + pe + ") select " + std::to_string(q.num("i", 0)) + "]"; }
        else { text = "vd__r = [" + kind + " (" + pe + ")]"; }
        auto res = elem(r.run(text), 0);
        J o = ev("Obs");
        o.set("k", "q").set("q", kind).set("path", path).set("res", r.res);
        if (!res.empty() && res.is<sqf::runtime::t_config>()) { o.set("r", cfg_json(host, res)); }
        else { o.set("r", vproj(res)); }
        emit(o);
    }
}
static registrar r_config("config", cmd_config);
