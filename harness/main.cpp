// vdriver <command> <in.ndjson> <out.ndjson> [--timeout SECONDS] [--nofork]
//
// One input line = one case (JSON object with at least "id"). Every case is executed in a forked
// child so that a crash, an escaped exception or a hang of the code under test costs one case:
// the parent appends {"e":"Crash","id":..,"why":..} and goes on. Normal completion is marked by
// {"e":"End","id":..}.
#include "common.h"

#include <csignal>
#include <cstring>
#include <fstream>
#include <iostream>
#include <map>
#include <sys/wait.h>
#include <unistd.h>
#include <fcntl.h>

namespace vd
{
    FILE* g_out = nullptr;
    std::map<std::string, case_fn>& commands();
}

static void on_terminate()
{
    // an exception escaped the code under test: log it, keep what was traced so far
    vd::J j = vd::ev("Crash");
    std::string why = "terminate";
    try { auto p = std::current_exception(); if (p) std::rethrow_exception(p); }
    catch (const std::exception& ex) { why = std::string("exception: ") + ex.what(); }
    catch (...) { why = "exception: unknown"; }
    j.set("why", why);
    vd::emit(j);
    _exit(0);
}

int main(int argc, char** argv)
{
    if (argc < 4)
    {
        std::cerr << "usage: vdriver <command> <in.ndjson> <out.ndjson> [--timeout s] [--nofork]\ncommands:";
        for (auto& c : vd::commands()) std::cerr << " " << c.first;
        std::cerr << std::endl;
        return 2;
    }
    std::string cmd = argv[1];
    int timeout_s = 20;
    bool nofork = false;
    for (int i = 4; i < argc; i++)
    {
        if (!strcmp(argv[i], "--timeout") && i + 1 < argc) timeout_s = atoi(argv[++i]);
        else if (!strcmp(argv[i], "--nofork")) nofork = true;
    }
    auto it = vd::commands().find(cmd);
    if (it == vd::commands().end()) { std::cerr << "unknown command " << cmd << std::endl; return 2; }
    std::ifstream in(argv[2]);
    if (!in) { std::cerr << "cannot read " << argv[2] << std::endl; return 2; }
    vd::g_out = fopen(argv[3], "a");
    if (!vd::g_out) { std::cerr << "cannot write " << argv[3] << std::endl; return 2; }
    std::string line;
    size_t n = 0;
    while (std::getline(in, line))
    {
        if (line.empty()) continue;
        vd::J c;
        try { c = vj::parse(line); }
        catch (const std::exception& ex) { std::cerr << "bad input line " << n << ": " << ex.what() << std::endl; return 2; }
        n++;
        vd::g_case_id = c.str("id", std::to_string(n));
        if (nofork)
        {
            it->second(c);
            vd::emit(vd::ev("End"));
            continue;
        }
        fflush(vd::g_out);
        pid_t pid = fork();
        if (pid == 0)
        {
            std::set_terminate(on_terminate);
            alarm((unsigned)timeout_s);
            // stdout/stderr of the code under test are noise here
            int devnull = open("/dev/null", 1);
            if (devnull >= 0 && !getenv("VDRIVER_STDOUT")) { dup2(devnull, 1); }
            it->second(c);
            vd::emit(vd::ev("End"));
            fflush(vd::g_out);
            _exit(0);
        }
        int status = 0;
        waitpid(pid, &status, 0);
        if (WIFSIGNALED(status))
        {
            vd::J j = vd::ev("Crash");
            int sig = WTERMSIG(status);
            j.set("why", sig == SIGALRM ? std::string("timeout") : ("signal " + std::to_string(sig)));
            vd::emit(j);
        }
        else if (WIFEXITED(status) && WEXITSTATUS(status) != 0)
        {
            vd::J j = vd::ev("Crash");
            j.set("why", "exit " + std::to_string(WEXITSTATUS(status)));
            vd::emit(j);
        }
    }
    fclose(vd::g_out);
    return 0;
}
