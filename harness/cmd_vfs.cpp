// vfs: resolve request paths through the real virtual file system (sqf::fileio::impl_default)
// and the real operators / preprocessor, observing which file's content comes back.
//
// case: {"id":..,"dir":"<scratch dir, materialised by the orchestrator>",
//        "mappings":[{"phys":"r1","virt":"/a/b"},...],          (phys relative to dir, added in order
//                                                                 exactly like the CLI's -v phys|virt)
//        "ops":[{"op":"loadFile"|"preprocessFile"|"preprocessFileLineNumbers"|"execVM","path":".."},
//               {"op":"include","path":"..","from":"/a/x","fromPhys":"r1/x"},
//               {"op":"include2","from":"/a/x"},
//               {"op":"includePair","from":"/a/x","fromPhys":"r1/x","from2":"/b/y","fromPhys2":"r2/y"}]}
// Every file below dir holds a unique token TOKEN_<...> naming its physical path (as SQF:
// diag_log "TOKEN_.."), so the token that comes back names the file the operation acted on.
//   loadFile / preprocessFile(LineNumbers): the token in the returned string
//   execVM: the token logged by diag_log of the spawned script (the operation must run the file)
//   include : preprocess the text  #include "<path>"  whose own pathinfo is the file `from`
//   include2: preprocess the text  #include "<from>"  with an empty pathinfo; the file `from`
//             (written by the orchestrator) contains  #include "<path>"  - nesting depth 2
//   includePair: ONE preprocessor run over the text  #include "<from>" / #include "<from2>" ; both
//             files (written by the orchestrator, in different directories) contain the same
//             #include "<path>".  Emitted as two observations, ops "includeA" and "includeB":
//             the token between the markers around each directive; if the run failed as a whole,
//             NOTFOUND for the includer an IncludeFailed diagnostic names, else UNKNOWN
//             (not observable - the orchestrator does not hand such an observation to TLC)
// Each op is executed twice, on two independent VM instances (result / result2).
// emits per op {"e":"Obs","k":i,"op":..,"result":"<token>"|"NOTFOUND"|"NOTOKEN"|"EXC","result2":..,
//               "codes":[..],"exc":".."}
//   NOTFOUND: FileNotFound (60036) / IncludeFailed (10004) was logged and no token came back
//   NOTOKEN : the operation completed without a not-found diagnostic and without any token
//   EXC     : a C++ exception escaped the operation
#include "common.h"
#include "fileio/default.h"
#include "runtime/d_string.h"

#include <algorithm>
#include <set>

using namespace vd;
using sqf::runtime::value;

namespace
{
    const size_t code_file_not_found = 60036;
    const size_t code_include_failed = 10004;
    const size_t code_info_message = 60019;

    std::string find_token(const std::string& text)
    {
        auto p = text.find("TOKEN_");
        if (p == std::string::npos) { return {}; }
        auto q = p;
        while (q < text.size() && (std::isalnum((unsigned char)text[q]) || text[q] == '_')) { q++; }
        return text.substr(p, q - p);
    }

    struct outcome
    {
        std::string result;
        std::string resultB;   // includePair: the second directive
        std::string exc;
        std::vector<long long> codes;
    };

    struct instance
    {
        const J& c;
        vm v;
        bool fresh = false;
        explicit instance(const J& cs) : c(cs) { renew(); }
        void renew()
        {
            sqf::runtime::runtime::runtime_conf conf;
            conf.max_runtime = std::chrono::milliseconds(5000);
            v.rt.reset();
            v = make_vm(conf, opsset::full);
            // make_vm installed a sqf::fileio::impl_default; mappings are added in the given
            // order through the public interface, as cli::mount_filesystem does for -v phys|virt
            std::string dir = c.str("dir");
            for (auto& m : c.at("mappings").a)
            {
                v.rt->fileio().add_mapping(dir + "/" + m.str("phys"), m.str("virt"));
            }
            fresh = true;
        }

        bool run_sqf(const std::string& text)
        {
            auto& rt = *v.rt;
            auto set = compile(rt, text, "vfs.sqf", false);
            if (!set.has_value()) { return false; }
            rt.runtime_timestamp_reset();
            add_context(rt, *set, "vfs", false);
            for (int i = 0; i < 50; i++)
            {
                auto res = rt.execute(sqf::runtime::runtime::action::start);
                if (res == sqf::runtime::runtime::result::empty) { break; }
                if (res != sqf::runtime::runtime::result::ok)
                {
                    rt.execute(sqf::runtime::runtime::action::abort);
                    break;
                }
            }
            return true;
        }

        outcome run(const J& op)
        {
            outcome o;
            auto& rt = *v.rt;
            v.logger->all.clear();
            std::string kind = op.str("op");
            std::string token;
            bool pair = false;
            try
            {
                if (kind == "loadFile" || kind == "preprocessFile" || kind == "preprocessFileLineNumbers")
                {
                    run_sqf("vd__r = nil; vd__r = " + kind + " \"" + op.str("path") + "\";");
                    auto scope = rt.default_value_scope();
                    if (scope->contains("vd__r"))
                    {
                        auto val = scope->at("vd__r");
                        if (!val.empty() && val.is<sqf::runtime::t_string>())
                        {
                            token = find_token(val.data<sqf::types::d_string, std::string>());
                        }
                    }
                }
                else if (kind == "execVM")
                {
                    run_sqf("vd__h = execVM \"" + op.str("path") + "\";");
                    for (auto& d : v.logger->all)
                    {
                        if (d.code == code_info_message && token.empty()) { token = find_token(d.text); }
                    }
                }
                else if (kind == "include4")
                {
                    // one hop more: a (virtual) file next to the includer includes the includer by its bare name,
                    // the includer then includes the request relatively - resolved against the includer's own place
                    auto from = op.str("from"); auto fromPhys = op.str("fromPhys");
                    auto vs = from.find_last_of('/'); auto ps = fromPhys.find_last_of('/');
                    std::string vdir = vs == std::string::npos ? std::string() : from.substr(0, vs);
                    std::string pdir = ps == std::string::npos ? std::string() : fromPhys.substr(0, ps);
                    std::string name = vs == std::string::npos ? from : from.substr(vs + 1);
                    sqf::runtime::fileio::pathinfo pi(c.str("dir") + "/" + (pdir.empty() ? std::string() : pdir + "/") + "vdhop", vdir + "/vdhop");
                    auto pp = rt.parser_preprocessor().preprocess(rt, "#include \"" + name + "\"\n", pi);
                    if (pp.has_value()) { token = find_token(*pp); }
                }
                else if (kind == "include3")
                {
                    // the includer twice in ONE preprocessor run: the request is resolved (and its file read) a second time
                    std::string text = "#include \"" + op.str("from") + "\"\nVDSECOND\n#include \"" + op.str("from") + "\"\n";
                    auto pp = rt.parser_preprocessor().preprocess(rt, text, {});
                    if (pp.has_value())
                    {
                        auto at = pp->find("VDSECOND");
                        if (at != std::string::npos) { token = find_token(pp->substr(at)); }
                    }
                }
                else if (kind == "include" || kind == "include2")
                {
                    sqf::runtime::fileio::pathinfo pi;
                    std::string text;
                    if (kind == "include")
                    {
                        pi = sqf::runtime::fileio::pathinfo(c.str("dir") + "/" + op.str("fromPhys"), op.str("from"));
                        text = "#include \"" + op.str("path") + "\"\n";
                    }
                    else
                    {
                        text = "#include \"" + op.str("from") + "\"\n";
                    }
                    auto pp = rt.parser_preprocessor().preprocess(rt, text, pi);
                    if (pp.has_value()) { token = find_token(*pp); }
                }
                else if (kind == "includePair")
                {
                    std::string text = "VDMARKA\n#include \"" + op.str("from") + "\"\nVDMARKB\n#include \"" + op.str("from2") + "\"\nVDMARKC\n";
                    auto pp = rt.parser_preprocessor().preprocess(rt, text, {});
                    std::string dir = c.str("dir");
                    auto failed_in = [&](const std::string& phys) {
                        for (auto& d : v.logger->all)
                        {
                            if (d.code == code_include_failed && d.text.find("'" + dir + "/" + phys + "'") != std::string::npos) { return true; }
                        }
                        return false;
                    };
                    if (pp.has_value())
                    {
                        auto a = pp->find("VDMARKA"), b = pp->find("VDMARKB"), e = pp->find("VDMARKC");
                        if (a != std::string::npos && b != std::string::npos && e != std::string::npos && a < b && b < e)
                        {
                            auto ta = find_token(pp->substr(a, b - a));
                            auto tb = find_token(pp->substr(b, e - b));
                            o.result = ta.empty() ? "NOTOKEN" : ta;
                            o.resultB = tb.empty() ? "NOTOKEN" : tb;
                        }
                        else { o.result = "UNKNOWN"; o.resultB = "UNKNOWN"; }
                    }
                    else
                    {
                        o.result = failed_in(op.str("fromPhys")) ? "NOTFOUND" : "UNKNOWN";
                        o.resultB = failed_in(op.str("fromPhys2")) ? "NOTFOUND" : "UNKNOWN";
                    }
                    pair = true;
                }
                else
                {
                    o.exc = "unknown op " + kind;
                }
            }
            catch (const std::exception& ex) { o.exc = std::string("exception: ") + ex.what(); }
            catch (...) { o.exc = "exception: unknown"; }
            bool notfound = false;
            std::set<long long> seen;
            for (auto& d : v.logger->all)
            {
                if (d.level <= 2 && seen.insert((long long)d.code).second) { o.codes.push_back((long long)d.code); }
                if (d.code == code_file_not_found || d.code == code_include_failed) { notfound = true; }
            }
            if (pair && o.exc.empty()) { /* results set above */ }
            else if (pair) { o.result = "EXC"; o.resultB = "EXC"; }
            else if (!token.empty()) { o.result = token; }
            else if (!o.exc.empty()) { o.result = "EXC"; }
            else if (notfound) { o.result = "NOTFOUND"; }
            else { o.result = "NOTOKEN"; }
            if (!o.exc.empty())
            {
                // the runtime may be left half-way through execute(): continue on a new instance
                renew();
            }
            return o;
        }
    };
}

static void cmd_vfs(const J& c)
{
    instance a(c), b(c);
    size_t k = 0;
    for (auto& op : c.at("ops").a)
    {
        k++;
        // announce the op first: if the code under test dies, the orchestrator knows where
        J s = ev("Begin");
        s.set("k", (long long)k).set("op", op.str("op"));
        emit(s);
        auto r1 = a.run(op);
        auto r2 = b.run(op);
        J codes = J::arr();
        for (auto x : r1.codes) { codes.push(x); }
        if (op.str("op") == "includePair")
        {
            J oa = ev("Obs");
            oa.set("k", (long long)k).set("op", "includeA").set("result", r1.result).set("result2", r2.result).set("codes", codes).set("exc", r1.exc);
            emit(oa);
            J ob = ev("Obs");
            ob.set("k", (long long)k).set("op", "includeB").set("result", r1.resultB).set("result2", r2.resultB).set("codes", codes).set("exc", r1.exc);
            emit(ob);
            continue;
        }
        J o = ev("Obs");
        o.set("k", (long long)k).set("op", op.str("op")).set("result", r1.result).set("result2", r2.result)
            .set("codes", codes).set("exc", r1.exc);
        emit(o);
    }
}
static registrar r1("vfs", cmd_vfs);
