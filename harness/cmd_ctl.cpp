// ctl: execution-control histories on one runtime (C19).
// case: {"id":..,"text":"<script or empty>","actions":["assembly_step","line_step","start","abort",...],
//        "threads": {...}}   (concurrent replay: see cmd_ctl_mt below)
// Emits {"e":"Prog","prog":[{"line":l,"depth":d}...],"err":k,"loaded":bool} from a reference run of the same
// script on a fresh VM (the dynamic instruction sequence), then one {"e":"Act",...} per action.
#include "common.h"

#include <atomic>
#include <map>
#include <condition_variable>
#include <mutex>
#include <thread>

using namespace vd;
using sqf::runtime::runtime;
namespace verif = sqf::runtime::verif;

namespace
{
    std::atomic<long long> g_count{ 0 };
    std::vector<std::pair<long long, long long>>* g_prog = nullptr;
    void count_observer(verif::obs what, runtime& rt, size_t)
    {
        if (what == verif::obs::instr_begin)
        {
            g_count++;
            if (g_prog)
            {
                auto& ctx = rt.context_active();
                auto& f = ctx.current_frame();
                g_prog->emplace_back((long long)(*f.current())->diag_info().line, (long long)ctx.frames_size());
            }
        }
    }
    runtime::action action_of(const std::string& a)
    {
        if (a == "start") return runtime::action::start;
        if (a == "stop") return runtime::action::stop;
        if (a == "abort") return runtime::action::abort;
        if (a == "assembly_step") return runtime::action::assembly_step;
        if (a == "line_step") return runtime::action::line_step;
        if (a == "leave_scope") return runtime::action::leave_scope;
        return runtime::action::invalid;
    }
    // scripts that still have something to execute (a step action leaves the emptied context of a finished script in the list)
    size_t nctx(runtime& rt)
    {
        size_t n = 0;
        for (auto it = rt.context_begin(); it != rt.context_end(); ++it) { if (!(*it)->empty()) { n++; } }
        return n;
    }
}

static void cmd_ctl(const J& c)
{
    verif::get().observe = &count_observer;
    std::string text = c.str("text");
    bool loaded = !text.empty();
    // ---- reference run
    {
        std::vector<std::pair<long long, long long>> prog;
        long long err = 0;
        if (loaded)
        {
            auto v = make_vm();
            auto set = compile(*v.rt, text, "ctl.sqf", false);
            if (!set.has_value()) { J e = ev("Crash"); e.set("why", "script does not compile"); emit(e); return; }
            add_context(*v.rt, *set, "ctl", false);
            g_prog = &prog;
            auto res = v.rt->execute(runtime::action::start);
            if (res == runtime::result::runtime_error) { err = (long long)prog.size(); }
            // a failed run keeps its script: resuming executes the rest, which belongs to the sequence too
            for (int guard = 0; guard < 8 && res == runtime::result::runtime_error; guard++)
            {
                res = v.rt->execute(runtime::action::start);
            }
            g_prog = nullptr;
        }
        J p = ev("Prog");
        J arr = J::arr();
        for (auto& it : prog) { J i = J::obj(); i.set("line", it.first).set("depth", it.second); arr.push(i); }
        p.set("prog", arr).set("err", err).set("loaded", loaded);
        emit(p);
    }
    // ---- the history
    auto v = make_vm();
    auto& rt = *v.rt;
    if (loaded)
    {
        auto set = compile(rt, text, "ctl.sqf", false);
        add_context(rt, *set, "ctl", false);
    }
    for (auto& a : c.at("actions").a)
    {
        long long before = g_count;
        auto res = rt.execute(action_of(a.s));
        J e = ev("Act");
        e.set("a", a.s).set("res", result_name(res)).set("state", state_name(rt.runtime_state()))
            .set("executed", (long long)(g_count - before)).set("nctx", (long long)nctx(rt));
        emit(e);
    }
    verif::get().observe = nullptr;
}
static registrar r1("ctl", cmd_ctl);

// ---------------------------------------------------------------------------------------------
// ctlmt: two threads, interleaving forced through the H4 sync points.
// case: {"id":..,"text":..,"E":["start"],"C":["stop"],"schedule":["E","E","C",...]}
// schedule: which thread may pass its next sync point (or begin/finish its next call); when the
// schedule is exhausted both threads run freely to the end. Emits one {"e":"Ret","t":"E|C","a":..,"res":..}
// per finished call (in completion order) and a final {"e":"Final","state":..,"nctx":..,"exitreq":..}.
namespace
{
    struct gate
    {
        std::mutex m;
        std::condition_variable cv;
        std::vector<std::string> schedule;
        size_t next = 0;
        bool free_run = false;
        int alive = 0;
        std::map<std::thread::id, std::string> names;
        std::map<std::string, bool> parked, finished;
        std::map<std::string, bool> in_exec;      // the thread passed exec_acquired in its current call (it is an executor until the call returns)
        std::map<std::string, bool> at_hook;      // the point the thread is parked at is a sync point inside runtime::execute (not a call boundary)
        int overlap = 0;                          // a thread became executor while the other one was parked inside its own executor section
    };
    gate* g_gate = nullptr;
    std::atomic<long long> g_instr{ 0 };       // instructions executed so far (H3 instr_done)
    void count_hook(verif::obs what, runtime&, size_t)
    {
        if (what == verif::obs::instr_done) { g_instr++; }
    }
    // Lockstep: a thread passes a scheduling point only when the slot is its own AND the other thread is parked at a
    // scheduling point of its own (or has finished) - otherwise the other thread would still be running towards its next
    // point and the interleaving would be decided by the operating system. A thread that executes something without
    // scheduling points (a loop without instructions) never parks: after a grace period the waiting thread goes on.
    void wait_turn(const std::string& who)
    {
        std::unique_lock<std::mutex> lock(g_gate->m);
        const std::string other = who == "E" ? "C" : "E";
        g_gate->parked[who] = true;
        g_gate->cv.notify_all();
        auto mine = [&] { return g_gate->free_run || g_gate->next >= g_gate->schedule.size() || g_gate->schedule[g_gate->next] == who; };
        auto other_still = [&] { return g_gate->parked[other] || g_gate->finished[other]; };
        g_gate->cv.wait(lock, [&] { return mine(); });
        if (!g_gate->free_run && g_gate->next < g_gate->schedule.size())
        {
            g_gate->cv.wait_for(lock, std::chrono::milliseconds(250), [&] { return other_still(); });
        }
        g_gate->parked[who] = false;
        if (!g_gate->free_run && g_gate->next < g_gate->schedule.size()) { g_gate->next++; }
        g_gate->cv.notify_all();
    }
    // moments (steady clock, ms): the controller finished writing its request flag / the executor's call returned
    std::atomic<long long> g_flag_ms{ -1 }, g_exec_end_ms{ -1 };
    long long now_steady_ms()
    {
        return std::chrono::duration_cast<std::chrono::milliseconds>(std::chrono::steady_clock::now().time_since_epoch()).count();
    }
    void sync_hook(verif::sync where, runtime&)
    {
        if (where == verif::sync::ctl_done && g_flag_ms.load() < 0) { g_flag_ms = now_steady_ms(); }
        if (!g_gate) { return; }
        std::string who;
        {
            std::unique_lock<std::mutex> lock(g_gate->m);
            who = g_gate->names[std::this_thread::get_id()];
            const std::string other = who == "E" ? "C" : "E";
            if (where == verif::sync::exec_acquired)
            {
                if (g_gate->in_exec[other] && g_gate->parked[other] && g_gate->at_hook[other]) { g_gate->overlap++; }
                g_gate->in_exec[who] = true;
            }
            g_gate->at_hook[who] = true;
        }
        wait_turn(who);
    }
}
static void cmd_ctlmt(const J& c)
{
    // "limit_ms": a time limit as safety net for scripts that only end when they are stopped; whether the limit
    // (and not the stop) ended the run is reported as "deadline" in the Final event
    sqf::runtime::runtime::runtime_conf mtconf;
    if (c.num("limit_ms", 0) > 0) { mtconf.max_runtime = std::chrono::milliseconds(c.num("limit_ms", 0)); }
    auto v = make_vm(mtconf);
    auto& rt = *v.rt;
    v.logger->keep = false;
    std::atomic<bool> deadline_hit{ false };
    v.logger->sink = [&deadline_hit](const diag& d) { if (d.text.find("runtime of") != std::string::npos) { deadline_hit = true; } };
    std::string text = c.str("text");
    if (!text.empty())
    {
        auto set = compile(rt, text, "ctl.sqf", false);
        if (!set.has_value()) { J e = ev("Crash"); e.set("why", "script does not compile"); emit(e); return; }
        // "slice": the script is scheduled in slices of that many instructions (the executor polls the request flags between them)
        add_context(rt, *set, "ctl", c.num("slice", 0) > 0);
    }
    verif::get().slice_len = (size_t)c.num("slice", 0);
    gate g;
    for (auto& s : c.at("schedule").a) { g.schedule.push_back(s.s); }
    g_gate = &g;
    verif::get().at_sync = &sync_hook;
    g_instr = 0;
    g_flag_ms = -1;
    g_exec_end_ms = -1;
    verif::get().observe = &count_hook;
    auto body = [&](std::string who, std::vector<std::string> calls) {
        {
            std::unique_lock<std::mutex> lock(g.m);
            g.names[std::this_thread::get_id()] = who;
        }
        for (auto& a : calls)
        {
            { std::unique_lock<std::mutex> lock(g.m); g.at_hook[who] = false; }
            wait_turn(who);          // beginning a call is a scheduling point too
            auto res = rt.execute(action_of(a));
            { std::unique_lock<std::mutex> lock(g.m); g.in_exec[who] = false; g.at_hook[who] = false; }
            if (who == "E") { g_exec_end_ms = now_steady_ms(); }
            J e = ev("Ret");
            e.set("t", who).set("a", a).set("res", result_name(res)).set("instr", (long long)g_instr.load());
            emit(e);
        }
        std::unique_lock<std::mutex> lock(g.m);
        g.finished[who] = true;
        // drop this thread's remaining slots so that the other one is not blocked forever
        std::vector<std::string> rest;
        for (size_t i = g.next; i < g.schedule.size(); i++) { if (g.schedule[i] != who) { rest.push_back(g.schedule[i]); } }
        g.schedule.resize(g.next);
        g.schedule.insert(g.schedule.end(), rest.begin(), rest.end());
        g.cv.notify_all();
    };
    std::vector<std::string> ce, cc;
    for (auto& a : c.at("E").a) { ce.push_back(a.s); }
    for (auto& a : c.at("C").a) { cc.push_back(a.s); }
    std::thread te(body, "E", ce), tc(body, "C", cc);
    te.join(); tc.join();
    verif::get().at_sync = nullptr;
    verif::get().observe = nullptr;
    verif::get().slice_len = 0;
    g_gate = nullptr;
    // "post": after both threads are done the embedder goes on alone - it loads the script again ("load") and issues
    // further actions; every one is reported with the number of instructions it executed
    const std::string final_state = state_name(rt.runtime_state());     // (the outcome of the two threads: before the post phase)
    const long long final_nctx = (long long)nctx(rt);
    const bool final_exitreq = rt.is_exit_requested();
    const long long final_instr = (long long)g_instr.load();
    long long post_exec = 0, post_steps = 0;
    bool post_bad_res = false;
    if (c.has("post"))
    {
        verif::get().observe = &count_hook;
        for (auto& a : c.at("post").a)
        {
            if (a.s == "load")
            {
                auto set = compile(rt, text, "ctl.sqf", false);
                if (set.has_value()) { add_context(rt, *set, "ctl2", false); }
                continue;
            }
            long long before = g_instr.load();
            auto res = rt.execute(action_of(a.s));
            if (a.s == "assembly_step") { post_steps++; post_exec += g_instr.load() - before; if (res != runtime::result::ok) { post_bad_res = true; } }
        }
        verif::get().observe = nullptr;
    }
    J f = ev("Final");
    f.set("post_steps", post_steps).set("post_exec", post_exec).set("post_bad_res", post_bad_res);
    f.set("instr", final_instr);
    f.set("deadline", deadline_hit.load());
    f.set("overlap", (long long)g.overlap);
    // how long the executor's (last) call went on after the request flag had been written (-1: no flag / it ended before)
    f.set("lag_ms", (g_flag_ms.load() >= 0 && g_exec_end_ms.load() >= g_flag_ms.load()) ? g_exec_end_ms.load() - g_flag_ms.load() : -1LL);
    f.set("state", final_state).set("nctx", final_nctx).set("exitreq", final_exitreq);
    emit(f);
}
static registrar r2("ctlmt", cmd_ctlmt);
