// pp: run the real preprocessor on one source text, exactly like the CLI's --preprocess-file and
//     the preprocess__ operator do (parser_preprocessor().preprocess(runtime, text, pathinfo)).
// case: {"id":..,"text":"<source text>","file":"case.sqf","src":<abstract source, echoed back>, ...}
//       every other field of the case (src, n, ...) is echoed into the event so that the trace
//       specification finds the abstract source next to the observation.
// emits {"e":"Obs","ok":bool,"out":"<whole output>","marker":"<leading #line line>","body":"<output after
//        the marker line>","codes":[diagnostic codes],"maxlvl":n,
//        "lex":[{"k":"id","s":"foo"},{"k":"str","s":"\"a b\""},{"k":"p","s":"+"},{"k":"nl","s":""},..]}
// The lexed form is computed here by a tiny lexer that is independent of the code under test:
//   id  : maximal run of [A-Za-z0-9_]   (identifiers and numbers alike - the preprocessor's "word")
//   str : '"' up to and including the next '"' (the preprocessor's notion of a string)
//   nl  : '\n'
//   p   : any other single non-blank character
//   blanks (space, tab, CR) are dropped outside strings.
//   `#line ..` marker lines inside the body (the preprocessor puts them around included text) are
//   dropped together with their line end: where tokens are believed to be is C14's subject.
// With "root" (a directory holding <file> and the files it includes, written by the orchestrator) the
// directory is mapped to the virtual root like the CLI does and <file> is preprocessed under its path
// there, so that `#include "x.hpp"` resolves relative to the including file.
#include "common.h"

#include <algorithm>

using namespace vd;

static bool is_word_char(char c)
{
    return (c >= 'a' && c <= 'z') || (c >= 'A' && c <= 'Z') || (c >= '0' && c <= '9') || c == '_';
}

static J lexeme(const char* k, const std::string& s)
{
    J j = J::obj();
    j.set("k", k).set("s", s);
    return j;
}

static J lex_text(const std::string& t)
{
    J arr = J::arr();
    size_t i = 0, n = t.size();
    while (i < n)
    {
        char c = t[i];
        if ((i == 0 || t[i - 1] == '\n') && t.compare(i, 6, "#line ") == 0)
        {
            while (i < n && t[i] != '\n') { i++; }
            if (i < n) { i++; }
            continue;
        }
        if (c == '\n') { arr.push(lexeme("nl", "")); i++; }
        else if (c == ' ' || c == '\t' || c == '\r') { i++; }
        else if (c == '"')
        {
            size_t j = i + 1;
            while (j < n && t[j] != '"') { j++; }
            if (j < n) { j++; }
            arr.push(lexeme("str", t.substr(i, j - i)));
            i = j;
        }
        else if (is_word_char(c))
        {
            size_t j = i;
            while (j < n && is_word_char(t[j])) { j++; }
            arr.push(lexeme("id", t.substr(i, j - i)));
            i = j;
        }
        else { arr.push(lexeme("p", std::string(1, c))); i++; }
    }
    return arr;
}

static void cmd_pp(const J& c)
{
    auto v = make_vm({}, opsset::none);
    auto& rt = *v.rt;
    std::string text = c.str("text");
    std::string file = c.str("file", "case.sqf");
    if (c.has("root"))
    {
        rt.fileio().add_mapping(c.str("root"), "/");
        file = c.str("root") + "/" + file;
    }
    sqf::runtime::fileio::pathinfo pi{ file, {} };
    auto res = rt.parser_preprocessor().preprocess(rt, text, pi);
    J o = ev("Obs");
    for (auto& kv : c.o)
    {
        if (kv.first != "id") { o.set(kv.first, kv.second); }
    }
    o.set("ok", res.has_value());
    std::string out = res.has_value() ? *res : std::string();
    std::string marker, body = out;
    if (out.rfind("#line ", 0) == 0)
    {
        auto nl = out.find('\n');
        if (nl == std::string::npos) { marker = out; body.clear(); }
        else { marker = out.substr(0, nl); body = out.substr(nl + 1); }
    }
    o.set("out", out).set("marker", marker).set("body", body);
    J codes = J::arr();
    int maxlvl = 9;
    for (auto& d : v.logger->all)
    {
        codes.push((long long)d.code);
        maxlvl = std::min(maxlvl, d.level);
    }
    o.set("codes", codes).set("maxlvl", maxlvl);
    o.set("lex", lex_text(body));
    emit(o);
}
static registrar r1("pp", cmd_pp);
