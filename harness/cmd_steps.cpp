// steps: run a sequence of SQF snippets on one VM, observing named global variables after each.
// case: {"id":..,"steps":[{"sqf":"a set [1,b]","op":{...echoed...}},...],"watch":["a","b","c"],
//        "ops":"full|basic", "ret":bool}
// emits per step {"e":"Obs","k":i,"op":..,"vars":{name:proj},"codes":[..],"maxlvl":n,"cyclic":bool,"res":..,"ret":proj}
// A watched value that contains itself (through arrays or hashmaps) is never printed: the event
// carries "cyclic":true and the case ends there (printing would not terminate).
#include "common.h"
#include "runtime/d_array.h"
#include "runtime/d_boolean.h"
#include "runtime/d_scalar.h"
#include "operators/ops_hashmap.h"

#include <algorithm>
#include <set>

using namespace vd;
using sqf::runtime::value;

static bool cyclic_from(const value& v, std::vector<const void*>& path)
{
    if (v.empty()) { return false; }
    const void* me = v.data().get();
    if (v.is<sqf::runtime::t_array>())
    {
        if (std::find(path.begin(), path.end(), me) != path.end()) { return true; }
        path.push_back(me);
        auto arr = v.data<sqf::types::d_array>();
        for (auto& e : *arr) { if (cyclic_from(e, path)) { return true; } }
        path.pop_back();
    }
    else if (v.is<sqf::runtime::t_hashmap>())
    {
        if (std::find(path.begin(), path.end(), me) != path.end()) { return true; }
        path.push_back(me);
        auto hm = v.data<sqf::types::d_hashmap>();
        for (auto& kv : hm->map())
        {
            if (cyclic_from(kv.first, path)) { return true; }
            if (cyclic_from(kv.second, path)) { return true; }
        }
        path.pop_back();
    }
    return false;
}
bool vd_is_cyclic(const value& v)
{
    std::vector<const void*> path;
    return cyclic_from(v, path);
}

// projection of hashmaps as a *set* of [key,value] pairs is done by the caller of proj(); here
// a hashmap is projected as {"t":"h","v":[[k,v],...]} sorted by the printed key so that the
// projection does not depend on bucket order.
static J proj_deep(const value& v, int depth = 0)
{
    if (!v.empty() && v.is<sqf::runtime::t_hashmap>() && depth < 6)
    {
        auto hm = v.data<sqf::types::d_hashmap>();
        std::vector<std::pair<std::string, J>> items;
        for (auto& kv : hm->map())
        {
            J pair = J::arr();
            pair.push(proj_deep(kv.first, depth + 1));
            pair.push(proj_deep(kv.second, depth + 1));
            items.emplace_back(vj::dump(pair.a[0]), pair);
        }
        std::sort(items.begin(), items.end(), [](auto& a, auto& b) { return a.first < b.first; });
        J arr = J::arr();
        for (auto& i : items) { arr.push(i.second); }
        J j = J::obj();
        j.set("t", "h").set("h", arr);
        return j;
    }
    if (!v.empty() && v.is<sqf::runtime::t_array>() && depth < 6)
    {
        J arr = J::arr();
        for (auto& e : *v.data<sqf::types::d_array>()) { arr.push(proj_deep(e, depth + 1)); }
        J j = J::obj();
        j.set("t", "a").set("a", arr);
        return j;
    }
    return proj(v, depth);
}

static void cmd_steps(const J& c)
{
    sqf::runtime::runtime::runtime_conf conf;
    conf.max_runtime = std::chrono::milliseconds(5000);
    auto v = make_vm(conf, c.str("ops", "full") == "basic" ? opsset::basic : opsset::full);
    auto& rt = *v.rt;
    std::vector<std::string> watch;
    if (c.has("watch")) { for (auto& w : c.at("watch").a) { watch.push_back(w.s); } }
    bool want_ret = c.boolean("ret", false);
    size_t k = 0;
    for (auto& s : c.at("steps").a)
    {
        k++;
        v.logger->all.clear();
        std::string text = s.str("sqf");
        bool step_ret = want_ret || s.boolean("ret", false);
        if (step_ret) { text = "vd__ret = nil; vd__ret = [" + text + "];"; }
        auto set = compile(rt, text, "step.sqf", false);
        J o = ev("Obs");
        o.set("k", (long long)k);
        if (s.has("op")) { o.set("op", s.at("op")); }
        if (!set.has_value())
        {
            o.set("res", "parse_error");
        }
        else
        {
            rt.runtime_timestamp_reset();
            add_context(rt, *set, "step", false);
            auto res = rt.execute(sqf::runtime::runtime::action::start);
            if (res != sqf::runtime::runtime::result::empty && res != sqf::runtime::runtime::result::ok)
            {
                rt.execute(sqf::runtime::runtime::action::abort);
            }
            o.set("res", result_name(res));
        }
        J codes = J::arr();
        int maxlvl = 9;
        for (auto& d : v.logger->all)
        {
            if (d.level <= 2) { codes.push((long long)d.code); }
            maxlvl = std::min(maxlvl, d.level);
        }
        o.set("codes", codes).set("maxlvl", maxlvl);
        auto scope = rt.default_value_scope();
        bool cyc = false;
        J vars = J::obj();
        auto read = [&](const std::string& name) -> value {
            std::string lower = name;
            std::transform(lower.begin(), lower.end(), lower.begin(), [](char ch) { return (char)std::tolower((int)ch); });
            return scope->contains(lower) ? scope->at(lower) : value();
        };
        for (auto& w : watch) { if (vd_is_cyclic(read(w))) { cyc = true; } }
        if (step_ret && vd_is_cyclic(read("vd__ret"))) { cyc = true; }
        o.set("cyclic", cyc);
        if (!cyc)
        {
            for (auto& w : watch) { vars.set(w, proj_deep(read(w))); }
            if (step_ret)
            {
                auto r = read("vd__ret");
                J rj = J::obj(); rj.set("t", "none");
                if (!r.empty() && r.is<sqf::runtime::t_array>() && r.data<sqf::types::d_array>()->size() == 1)
                {
                    rj = proj_deep(r.data<sqf::types::d_array>()->at(0));
                }
                o.set("ret", rj);
            }
        }
        o.set("vars", vars);
        emit(o);
        if (cyc) { break; }
    }
}
static registrar r1("steps", cmd_steps);

// eqtable: evaluate a pool of expressions once, then tabulate isEqualTo / == / in / find on all
// ordered pairs and value::hash() of every element.
// case: {"id":..,"exprs":["0","\"a\"",...]}
// emits {"e":"Table","n":N,"vals":[proj],"hash":["<decimal>"],"eq":[[0|1|2]],"eqci":[[..]],"inn":[[..]],"find":[[..]]}
//   0 false, 1 true, 2 the operator raised an error / is not defined for the operand types
static int run_bool(vm& v, const std::string& text)
{
    auto& rt = *v.rt;
    v.logger->all.clear();
    auto set = compile(rt, "vd__r = nil; vd__r = " + text, "eq.sqf", false);
    if (!set.has_value()) { return 2; }
    add_context(rt, *set, "eq", false);
    auto res = rt.execute(sqf::runtime::runtime::action::start);
    if (res != sqf::runtime::runtime::result::empty && res != sqf::runtime::runtime::result::ok)
    {
        rt.execute(sqf::runtime::runtime::action::abort);
        return 2;
    }
    for (auto& d : v.logger->all) { if (d.level <= 1) { return 2; } }
    auto scope = rt.default_value_scope();
    if (!scope->contains("vd__r")) { return 2; }
    auto val = scope->at("vd__r");
    if (val.empty()) { return 2; }
    if (val.is<sqf::runtime::t_boolean>()) { return val.data<sqf::types::d_boolean, bool>() ? 1 : 0; }
    if (val.is<sqf::runtime::t_scalar>()) { return val.data<sqf::types::d_scalar, float>() == 0 ? 1 : 0; } // find: index 0 <=> found
    return 2;
}
static void cmd_eqtable(const J& c)
{
    auto v = make_vm();
    auto& rt = *v.rt;
    size_t n = c.at("exprs").a.size();
    {
        auto set = compile(rt, "vd__p = []; vd__p resize " + std::to_string(n), "eq.sqf", false);
        add_context(rt, *set, "eq", false);
        rt.execute(sqf::runtime::runtime::action::start);
    }
    J vals = J::arr(), hashes = J::arr();
    for (size_t i = 0; i < n; i++)
    {
        auto set = compile(rt, "vd__p set [" + std::to_string(i) + ", " + c.at("exprs").a[i].s + "]", "eq.sqf", false);
        if (set.has_value())
        {
            add_context(rt, *set, "eq", false);
            auto res = rt.execute(sqf::runtime::runtime::action::start);
            if (res != sqf::runtime::runtime::result::empty) { rt.execute(sqf::runtime::runtime::action::abort); }
        }
    }
    auto pool = rt.default_value_scope()->at("vd__p").data<sqf::types::d_array>();
    for (size_t i = 0; i < n; i++)
    {
        auto val = pool->at(i);
        vals.push(proj_deep(val));
        hashes.push(std::to_string(val.hash()));
    }
    J eq = J::arr(), eqci = J::arr(), inn = J::arr(), fnd = J::arr();
    for (size_t i = 0; i < n; i++)
    {
        J r1 = J::arr(), r2 = J::arr(), r3 = J::arr(), r4 = J::arr();
        for (size_t j = 0; j < n; j++)
        {
            auto a = "(vd__p select " + std::to_string(i) + ")";
            auto b = "(vd__p select " + std::to_string(j) + ")";
            r1.push(run_bool(v, a + " isEqualTo " + b));
            r2.push(run_bool(v, a + " == " + b));
            r3.push(run_bool(v, a + " in [" + b + "]"));
            r4.push(run_bool(v, "[" + b + "] find " + a));
        }
        eq.push(r1); eqci.push(r2); inn.push(r3); fnd.push(r4);
    }
    J t = ev("Table");
    t.set("n", (long long)n).set("vals", vals).set("hash", hashes).set("eq", eq).set("eqci", eqci).set("inn", inn).set("find", fnd);
    emit(t);
}
static registrar r2("eqtable", cmd_eqtable);
