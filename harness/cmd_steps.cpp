// steps: run a sequence of SQF snippets on one VM, observing named global variables after each.
// case: {"id":..,"steps":[{"sqf":"a set [1,b]","op":{...echoed...}},...],"watch":["a","b","c"],
//        "ops":"full|basic", "ret":bool}
// emits per step {"e":"Obs","k":i,"op":..,"vars":{name:proj},"codes":[..],"maxlvl":n,"cyclic":bool,"res":..,"ret":proj}
// A watched value that contains itself (through arrays or hashmaps) is never printed: the event
// carries "cyclic":true and the case ends there (printing would not terminate).
#include "common.h"
#include "runtime/d_array.h"
#include "operators/ops_hashmap.h"

#include <algorithm>
#include <set>

using namespace vd;
using sqf::runtime::value;

static bool cyclic_from(const value& v, std::vector<const void*>& path)
{
    if (v.empty()) { return false; }
    const void* me = v.data().get();
    if (v.is<sqf::runtime::t_array>())
    {
        if (std::find(path.begin(), path.end(), me) != path.end()) { return true; }
        path.push_back(me);
        auto arr = v.data<sqf::types::d_array>();
        for (auto& e : *arr) { if (cyclic_from(e, path)) { return true; } }
        path.pop_back();
    }
    else if (v.is<sqf::runtime::t_hashmap>())
    {
        if (std::find(path.begin(), path.end(), me) != path.end()) { return true; }
        path.push_back(me);
        auto hm = v.data<sqf::types::d_hashmap>();
        for (auto& kv : hm->map())
        {
            if (cyclic_from(kv.first, path)) { return true; }
            if (cyclic_from(kv.second, path)) { return true; }
        }
        path.pop_back();
    }
    return false;
}
bool vd_is_cyclic(const value& v)
{
    std::vector<const void*> path;
    return cyclic_from(v, path);
}

// projection of hashmaps as a *set* of [key,value] pairs is done by the caller of proj(); here
// a hashmap is projected as {"t":"h","v":[[k,v],...]} sorted by the printed key so that the
// projection does not depend on bucket order.
static J proj_deep(const value& v, int depth = 0)
{
    if (!v.empty() && v.is<sqf::runtime::t_hashmap>() && depth < 6)
    {
        auto hm = v.data<sqf::types::d_hashmap>();
        std::vector<std::pair<std::string, J>> items;
        for (auto& kv : hm->map())
        {
            J pair = J::arr();
            pair.push(proj_deep(kv.first, depth + 1));
            pair.push(proj_deep(kv.second, depth + 1));
            items.emplace_back(vj::dump(pair.a[0]), pair);
        }
        std::sort(items.begin(), items.end(), [](auto& a, auto& b) { return a.first < b.first; });
        J arr = J::arr();
        for (auto& i : items) { arr.push(i.second); }
        J j = J::obj();
        j.set("t", "h").set("v", arr);
        return j;
    }
    if (!v.empty() && v.is<sqf::runtime::t_array>() && depth < 6)
    {
        J arr = J::arr();
        for (auto& e : *v.data<sqf::types::d_array>()) { arr.push(proj_deep(e, depth + 1)); }
        J j = J::obj();
        j.set("t", "a").set("v", arr);
        return j;
    }
    return proj(v, depth);
}

static void cmd_steps(const J& c)
{
    sqf::runtime::runtime::runtime_conf conf;
    conf.max_runtime = std::chrono::milliseconds(5000);
    auto v = make_vm(conf, c.str("ops", "full") == "basic" ? opsset::basic : opsset::full);
    auto& rt = *v.rt;
    std::vector<std::string> watch;
    if (c.has("watch")) { for (auto& w : c.at("watch").a) { watch.push_back(w.s); } }
    bool want_ret = c.boolean("ret", false);
    size_t k = 0;
    for (auto& s : c.at("steps").a)
    {
        k++;
        v.logger->all.clear();
        std::string text = s.str("sqf");
        if (want_ret) { text = "vd__ret = nil; vd__ret = [" + text + "];"; }
        auto set = compile(rt, text, "step.sqf", false);
        J o = ev("Obs");
        o.set("k", (long long)k);
        if (s.has("op")) { o.set("op", s.at("op")); }
        if (!set.has_value())
        {
            o.set("res", "parse_error");
        }
        else
        {
            rt.runtime_timestamp_reset();
            add_context(rt, *set, "step", false);
            auto res = rt.execute(sqf::runtime::runtime::action::start);
            if (res != sqf::runtime::runtime::result::empty && res != sqf::runtime::runtime::result::ok)
            {
                rt.execute(sqf::runtime::runtime::action::abort);
            }
            o.set("res", result_name(res));
        }
        J codes = J::arr();
        int maxlvl = 9;
        for (auto& d : v.logger->all)
        {
            if (d.level <= 2) { codes.push((long long)d.code); }
            maxlvl = std::min(maxlvl, d.level);
        }
        o.set("codes", codes).set("maxlvl", maxlvl);
        auto scope = rt.default_value_scope();
        bool cyc = false;
        J vars = J::obj();
        auto read = [&](const std::string& name) -> value {
            std::string lower = name;
            std::transform(lower.begin(), lower.end(), lower.begin(), [](char ch) { return (char)std::tolower((int)ch); });
            return scope->contains(lower) ? scope->at(lower) : value();
        };
        for (auto& w : watch) { if (vd_is_cyclic(read(w))) { cyc = true; } }
        if (want_ret && vd_is_cyclic(read("vd__ret"))) { cyc = true; }
        o.set("cyclic", cyc);
        if (!cyc)
        {
            for (auto& w : watch) { vars.set(w, proj_deep(read(w))); }
            if (want_ret)
            {
                auto r = read("vd__ret");
                J rj = J::obj(); rj.set("t", "none");
                if (!r.empty() && r.is<sqf::runtime::t_array>() && r.data<sqf::types::d_array>()->size() == 1)
                {
                    rj = proj_deep(r.data<sqf::types::d_array>()->at(0));
                }
                o.set("ret", rj);
            }
        }
        o.set("vars", vars);
        emit(o);
        if (cyc) { break; }
    }
}
static registrar r1("steps", cmd_steps);
