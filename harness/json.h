// Minimal JSON value / parser / writer for the verification driver (NDJSON in, NDJSON out).
// Only what the driver needs: objects, arrays, strings, integers, booleans. No floats on the
// wire (TLC's ndJsonDeserialize truncates them), no null (TLC has none) - see DESIGN.md 2.3.
#pragma once
#include <string>
#include <vector>
#include <map>
#include <memory>
#include <stdexcept>
#include <sstream>
#include <cstdint>

namespace vj
{
    struct J;
    using JP = std::shared_ptr<J>;
    struct J
    {
        enum K { NUL, BOOL, INT, STR, ARR, OBJ } k = NUL;
        bool b = false;
        long long i = 0;
        std::string s;
        std::vector<J> a;
        std::vector<std::pair<std::string, J>> o;

        J() {}
        J(bool v) : k(BOOL), b(v) {}
        J(int v) : k(INT), i(v) {}
        J(long v) : k(INT), i(v) {}
        J(long long v) : k(INT), i(v) {}
        J(unsigned long v) : k(INT), i((long long)v) {}
        J(unsigned int v) : k(INT), i((long long)v) {}
        J(const char* v) : k(STR), s(v) {}
        J(const std::string& v) : k(STR), s(v) {}
        static J arr() { J j; j.k = ARR; return j; }
        static J obj() { J j; j.k = OBJ; return j; }

        bool has(const std::string& key) const
        {
            for (auto& p : o) if (p.first == key) return true;
            return false;
        }
        const J& at(const std::string& key) const
        {
            for (auto& p : o) if (p.first == key) return p.second;
            throw std::runtime_error("json: missing key " + key);
        }
        J& set(const std::string& key, J v)
        {
            for (auto& p : o) if (p.first == key) { p.second = std::move(v); return *this; }
            o.emplace_back(key, std::move(v));
            return *this;
        }
        J& push(J v) { a.push_back(std::move(v)); return *this; }
        std::string str(const std::string& key, const std::string& def = "") const { return has(key) ? at(key).s : def; }
        long long num(const std::string& key, long long def = 0) const { return has(key) ? at(key).i : def; }
        bool boolean(const std::string& key, bool def = false) const { return has(key) ? at(key).b : def; }
    };

    inline void esc(std::ostream& os, const std::string& s)
    {
        os << '"';
        for (unsigned char c : s)
        {
            switch (c)
            {
            case '"': os << "\\\""; break;
            case '\\': os << "\\\\"; break;
            case '\n': os << "\\n"; break;
            case '\r': os << "\\r"; break;
            case '\t': os << "\\t"; break;
            default:
                if (c < 0x20 || c >= 0x7f)
                {
                    // bytes are mapped to \u00XX so that the wire format stays ASCII
                    static const char* hex = "0123456789abcdef";
                    os << "\\u00" << hex[c >> 4] << hex[c & 15];
                }
                else os << c;
            }
        }
        os << '"';
    }
    inline void write(std::ostream& os, const J& j)
    {
        switch (j.k)
        {
        case J::NUL: os << "null"; break;
        case J::BOOL: os << (j.b ? "true" : "false"); break;
        case J::INT: os << j.i; break;
        case J::STR: esc(os, j.s); break;
        case J::ARR:
            os << '[';
            for (size_t n = 0; n < j.a.size(); n++) { if (n) os << ','; write(os, j.a[n]); }
            os << ']';
            break;
        case J::OBJ:
            os << '{';
            for (size_t n = 0; n < j.o.size(); n++) { if (n) os << ','; esc(os, j.o[n].first); os << ':'; write(os, j.o[n].second); }
            os << '}';
            break;
        }
    }
    inline std::string dump(const J& j) { std::ostringstream os; write(os, j); return os.str(); }

    class parser
    {
        const std::string& t; size_t p = 0;
        void ws() { while (p < t.size() && (t[p] == ' ' || t[p] == '\t' || t[p] == '\n' || t[p] == '\r')) p++; }
        [[noreturn]] void fail(const char* m) { throw std::runtime_error(std::string("json: ") + m + " at " + std::to_string(p)); }
        static void utf8(std::string& out, unsigned cp)
        {
            // the driver's wire format maps \u00XX back to the single byte XX
            if (cp < 0x100) out.push_back((char)cp);
            else if (cp < 0x800) { out.push_back((char)(0xC0 | (cp >> 6))); out.push_back((char)(0x80 | (cp & 0x3F))); }
            else { out.push_back((char)(0xE0 | (cp >> 12))); out.push_back((char)(0x80 | ((cp >> 6) & 0x3F))); out.push_back((char)(0x80 | (cp & 0x3F))); }
        }
        std::string pstr()
        {
            if (t[p] != '"') fail("expected string");
            p++;
            std::string out;
            while (p < t.size() && t[p] != '"')
            {
                if (t[p] == '\\')
                {
                    p++;
                    if (p >= t.size()) fail("bad escape");
                    switch (t[p])
                    {
                    case 'n': out.push_back('\n'); break;
                    case 'r': out.push_back('\r'); break;
                    case 't': out.push_back('\t'); break;
                    case 'b': out.push_back('\b'); break;
                    case 'f': out.push_back('\f'); break;
                    case 'u':
                    {
                        if (p + 4 >= t.size()) fail("bad \\u");
                        unsigned cp = (unsigned)std::stoul(t.substr(p + 1, 4), nullptr, 16);
                        p += 4;
                        utf8(out, cp);
                    } break;
                    default: out.push_back(t[p]);
                    }
                    p++;
                }
                else out.push_back(t[p++]);
            }
            if (p >= t.size()) fail("unterminated string");
            p++;
            return out;
        }
    public:
        parser(const std::string& text) : t(text) {}
        J value()
        {
            ws();
            if (p >= t.size()) fail("eof");
            char c = t[p];
            if (c == '{')
            {
                J j = J::obj(); p++; ws();
                if (t[p] == '}') { p++; return j; }
                while (true)
                {
                    ws(); auto k = pstr(); ws();
                    if (t[p] != ':') fail("expected :");
                    p++;
                    j.o.emplace_back(k, value());
                    ws();
                    if (t[p] == ',') { p++; continue; }
                    if (t[p] == '}') { p++; break; }
                    fail("expected , or }");
                }
                return j;
            }
            if (c == '[')
            {
                J j = J::arr(); p++; ws();
                if (t[p] == ']') { p++; return j; }
                while (true)
                {
                    j.a.push_back(value());
                    ws();
                    if (t[p] == ',') { p++; continue; }
                    if (t[p] == ']') { p++; break; }
                    fail("expected , or ]");
                }
                return j;
            }
            if (c == '"') return J(pstr());
            if (t.compare(p, 4, "true") == 0) { p += 4; return J(true); }
            if (t.compare(p, 5, "false") == 0) { p += 5; return J(false); }
            if (t.compare(p, 4, "null") == 0) { p += 4; return J(); }
            size_t q = p;
            if (t[q] == '-') q++;
            while (q < t.size() && isdigit((unsigned char)t[q])) q++;
            if (q == p) fail("unexpected char");
            J j((long long)std::stoll(t.substr(p, q - p)));
            p = q;
            return j;
        }
    };
    inline J parse(const std::string& text) { parser ps(text); return ps.value(); }
}
