// front: feed one byte string to the textual front ends (C10 "front ends are total").
//
// case: {"id":..,"text":"<bytes; \u00XX = one byte>","which":["sqftok","sqfparse","cfgtok","cfgparse","pp",
//        "compile","preprocess__","configparse__"],"toks":bool,"root":"<dir with include files>","file":"case.sqf",
//        "budget_ms":n,"ops":"full|basic","once":bool}
//
// For every requested front end, in the given order:
//   {"e":"Begin","fe":..}                      written BEFORE the front end runs: a Crash event appended by main.cpp
//                                              (signal / escaped exception / watchdog) belongs to the last Begin
//   {"e":"Obs","fe":..,"ok":bool,"nerr":n,"ntok":n,"same":bool,"ms":n,"steps":n,"cap":bool,"inb":bool,
//    "fin":"eof|invalid|cap|-","toks":[{"k":kind,"o":offset,"n":length}..]}
// The front end is run TWICE, each time on a fresh VM; "same" says whether the second observation (result, token
// list, diagnostics) is identical to the first.  "nerr" = number of fatal/error level diagnostics of the first run
// (tokenizers: 1 iff the scan ended at an invalid token - that is the tokenizer's way of reporting).
//   sqftok / cfgtok : tokenizer::next() until eof or invalid, at most 4*len+16 steps ("cap" = the cap was hit);
//                     "inb" = every reported offset/length stays inside the buffer.  The text is placed at the very
//                     end of an exact-size heap block so that the sanitizer build aborts on reads beyond it.
//   sqfparse        : parser_sqf().parse            ok = instruction set returned, ntok = #instructions
//   cfgparse        : parser_config().parse         ok = true returned
//   pp              : parser_preprocessor().preprocess   ok = text returned, ntok = its length
//   compile / preprocess__ / configparse__ : the operator, reached from a script that reads the text from the global
//                     variable vd__text (set from C++):  ok = code / non-empty string returned / no error reported
// Watchdog: each front end gets its own ITIMER_REAL budget (default 2000 ms); when it expires the child dies by
// SIGALRM and main.cpp writes {"e":"Crash","why":"timeout"}.  A hang therefore costs one front end of one case.
#include "common.h"

#include "parser/sqf/tokenizer.hpp"
#include "parser/config/tokenizer.hpp"
#include "runtime/d_code.h"
#include "runtime/d_string.h"
#include "runtime/confighost.h"

#include <chrono>
#include <cstring>
#include <sstream>
#include <sys/time.h>

using namespace vd;

// makes the digests of the two observations differ whenever a second run in the same VM gave another result
static long long g_same_vm_diff = 0;

namespace
{
    const char* sqf_kind(sqf::parser::sqf::tokenizer::etoken t)
    {
        using E = sqf::parser::sqf::tokenizer::etoken;
        switch (t)
        {
        case E::eof: return "eof";
        case E::invalid: return "invalid";
        case E::m_line: return "hline";
        case E::i_comment_line: return "lc";
        case E::i_comment_block: return "bc";
        case E::i_whitespace: return "ws";
        case E::t_true: return "true";
        case E::t_false: return "false";
        case E::t_private: return "private";
        case E::s_curlyo: return "curlyo";
        case E::s_curlyc: return "curlyc";
        case E::s_roundo: return "roundo";
        case E::s_roundc: return "roundc";
        case E::s_edgeo: return "edgeo";
        case E::s_edgec: return "edgec";
        case E::s_semicolon: return "semi";
        case E::s_comma: return "comma";
        case E::s_equal: return "equal";
        case E::t_operator: return "op";
        case E::t_string_double: return "sd";
        case E::t_string_single: return "ss";
        case E::t_ident: return "ident";
        case E::t_number: return "num";
        case E::t_hexadecimal: return "hex";
        }
        return "?";
    }
    const char* cfg_kind(sqf::parser::config::tokenizer::etoken t)
    {
        using E = sqf::parser::config::tokenizer::etoken;
        switch (t)
        {
        case E::eof: return "eof";
        case E::invalid: return "invalid";
        case E::any: return "any";
        case E::m_line: return "hline";
        case E::i_comment_line: return "lc";
        case E::i_comment_block: return "bc";
        case E::i_whitespace: return "ws";
        case E::t_class: return "class";
        case E::t_delete: return "delete";
        case E::s_curlyo: return "curlyo";
        case E::s_curlyc: return "curlyc";
        case E::s_edgeo: return "edgeo";
        case E::s_edgec: return "edgec";
        case E::s_colon: return "colon";
        case E::s_semicolon: return "semi";
        case E::s_comma: return "comma";
        case E::t_plus_equal: return "plusequal";
        case E::s_equal: return "equal";
        case E::t_string_double: return "sd";
        case E::t_string_single: return "ss";
        case E::t_ident: return "ident";
        case E::t_number: return "num";
        case E::t_hexadecimal: return "hex";
        }
        return "?";
    }

    // what one run of one front end showed
    struct obs
    {
        bool ok = false;
        long long nerr = 0;
        long long ntok = 0;
        long long steps = 0;
        bool cap = false;
        bool inb = true;
        std::string fin = "-";
        std::string digest;     // everything that has to be identical in the second run
        J toks = J::arr();
    };

    void arm(long long ms)
    {
        struct itimerval it;
        memset(&it, 0, sizeof(it));
        it.it_value.tv_sec = ms / 1000;
        it.it_value.tv_usec = (ms % 1000) * 1000;
        setitimer(ITIMER_REAL, &it, nullptr);
    }

    template<class TOK, class KIND>
    obs run_tokenizer(const std::string& text, bool want_toks, KIND kind)
    {
        obs o;
        // the text sits at the very end of a heap block of exactly pad+len(+1 NUL) bytes
        const size_t pad = 32;
        std::string* buf = new std::string(pad + text.size(), ' ');
        std::memcpy(&(*buf)[pad], text.data(), text.size());
        const char* lo = buf->data() + pad;
        const size_t len = text.size();
        {
            TOK t(buf->begin() + pad, buf->end(), "case.sqf");
            const long long cap = 4 * (long long)len + 16;
            std::ostringstream dg;
            while (true)
            {
                auto tk = t.next();
                o.steps++;
                const char* k = kind(tk.type);
                size_t n = tk.contents.length();
                if (tk.offset > len || tk.offset + n > len) { o.inb = false; }
                if (n > 0 && (tk.contents.data() < lo || tk.contents.data() + n > lo + len)) { o.inb = false; }
                dg << k << ':' << tk.offset << ':' << n << ';';
                if (!strcmp(k, "eof")) { o.fin = "eof"; break; }
                if (!strcmp(k, "invalid")) { o.fin = "invalid"; break; }
                o.ntok++;
                if (want_toks && o.toks.a.size() < 64)
                {
                    J j = J::obj();
                    j.set("k", k).set("o", (long long)tk.offset).set("n", (long long)n);
                    o.toks.push(j);
                }
                if (o.steps >= cap) { o.cap = true; o.fin = "cap"; break; }
            }
            o.digest = dg.str();
        }
        delete buf;
        o.ok = o.fin == "eof";
        o.nerr = o.fin == "invalid" ? 1 : 0;
        return o;
    }

    long long count_err(const vm& v)
    {
        long long n = 0;
        for (auto& d : v.logger->all) { if (d.level <= 1) { n++; } }
        return n;
    }
    std::string diag_digest(const vm& v)
    {
        std::ostringstream s;
        for (auto& d : v.logger->all) { s << d.level << '/' << d.code << '/' << d.line << '/' << d.col << '/' << d.text << '\n'; }
        return s.str();
    }

    // operator set of the VMs: "full" (what the CLI registers, default) or "basic" (no dummy/object/group/marker operators)
    opsset ops_of(const J& c)
    {
        return c.str("ops", "full") == "basic" ? opsset::basic : opsset::full;
    }
    sqf::runtime::fileio::pathinfo path_of(const J& c, vm& v)
    {
        std::string file = c.str("file", "case.sqf");
        if (c.has("root"))
        {
            std::string root = c.str("root");
            v.rt->fileio().add_mapping(root, "/");
            return sqf::runtime::fileio::pathinfo(root + "/" + file, std::string());
        }
        return sqf::runtime::fileio::pathinfo(file, std::string());
    }

    obs run_script(const J& c, const std::string& text, const char* script, const std::string& fe)
    {
        obs o;
        auto v = make_vm({}, ops_of(c));
        auto& rt = *v.rt;
        auto pi = path_of(c, v);
        auto set = rt.parser_sqf().parse(rt, script, sqf::runtime::fileio::pathinfo(std::string("vd__driver.sqf"), std::string()));
        if (!set.has_value()) { o.digest = "driver script does not parse"; o.fin = "machinery"; return o; }
        rt.default_value_scope()->at("vd__text") = sqf::runtime::value(std::make_shared<sqf::types::d_string>(text));
        v.logger->all.clear();
        add_context(rt, *set, "front", false);
        auto res = rt.execute(sqf::runtime::runtime::action::start);
        if (res != sqf::runtime::runtime::result::empty && res != sqf::runtime::runtime::result::ok)
        {
            rt.execute(sqf::runtime::runtime::action::abort);
        }
        o.nerr = count_err(v);
        auto scope = rt.default_value_scope();
        sqf::runtime::value val = scope->contains("vd__res") ? scope->at("vd__res") : sqf::runtime::value();
        std::string shown = val.empty() ? std::string("<nil>") : val.to_string_sqf();
        if (fe == "compile") { o.ok = !val.empty() && val.is<sqf::runtime::t_code>(); if (o.ok) { o.ntok = (long long)val.data<sqf::types::d_code>()->value().size(); } }
        else if (fe == "preprocess__") { o.ok = !val.empty() && val.is<sqf::runtime::t_string>() && !val.data<sqf::types::d_string, std::string>().empty(); o.ntok = (long long)shown.size(); }
        else { o.ok = !val.empty() && o.nerr == 0; }
        o.digest = std::string(result_name(res)) + "|" + shown + "|" + diag_digest(v);
        return o;
    }

    obs run_once(const J& c, const std::string& fe, const std::string& text, bool want_toks)
    {
        if (fe == "sqftok")
        {
            return run_tokenizer<sqf::parser::sqf::tokenizer>(text, want_toks, sqf_kind);
        }
        if (fe == "cfgtok")
        {
            return run_tokenizer<sqf::parser::config::tokenizer>(text, want_toks, cfg_kind);
        }
        if (fe == "compile") { return run_script(c, text, "vd__res = compile vd__text;", fe); }
        if (fe == "preprocess__") { return run_script(c, text, "vd__res = preprocess__ vd__text;", fe); }
        if (fe == "configparse__") { return run_script(c, text, "configparse__ vd__text; vd__res = 1;", fe); }
        obs o;
        if (fe == "sqfparse")
        {
            auto v = make_vm({}, ops_of(c));
            auto pi = path_of(c, v);
            auto set = v.rt->parser_sqf().parse(*v.rt, text, pi);
            o.ok = set.has_value();
            o.nerr = count_err(v);
            std::ostringstream dg;
            if (set.has_value())
            {
                o.ntok = (long long)set->size();
                dg << vj::dump(listing(*set));
            }
            o.digest = dg.str() + "|" + diag_digest(v);
            return o;
        }
        if (fe == "cfgparse")
        {
            auto v = make_vm({}, opsset::none);
            auto pi = path_of(c, v);
            o.ok = v.rt->parser_config().parse(v.rt->confighost(), text, pi);
            o.nerr = count_err(v);
            o.digest = diag_digest(v);
            return o;
        }
        if (fe == "pp")
        {
            auto v = make_vm({}, ops_of(c));
            auto pi = path_of(c, v);
            auto res = v.rt->parser_preprocessor().preprocess(*v.rt, text, pi);
            o.ok = res.has_value();
            o.nerr = count_err(v);
            o.ntok = res.has_value() ? (long long)res->size() : 0;
            o.digest = (res.has_value() ? *res : std::string("<none>")) + "|" + diag_digest(v);
            // the same text once more in the SAME VM: what one run defines or undefines must not reach the next
            // (not for texts whose expansion is stateful by design: the counter, evaluated code)
            if (text.find("__COUNTER") == std::string::npos && text.find("__EVAL") == std::string::npos && text.find("__EXEC") == std::string::npos)
            {
                auto before = count_err(v);
                auto res2 = v.rt->parser_preprocessor().preprocess(*v.rt, text, pi);
                if (res2.has_value() != res.has_value() || (res.has_value() && *res2 != *res) || count_err(v) - before != o.nerr)
                {
                    o.digest += "|second run in the same VM differs #" + std::to_string(++g_same_vm_diff);
                }
            }
            return o;
        }
        o.fin = "machinery";
        o.digest = "unknown front end " + fe;
        return o;
    }
}

static void cmd_front(const J& c)
{
    const std::string text = c.str("text");
    const bool want_toks = c.boolean("toks", false);
    const long long budget = c.num("budget_ms", 2000);
    const bool once = c.boolean("once", false);       // timing measurements: a single run ("same" is then vacuous)
    if (!c.has("which")) { return; }
    for (auto& w : c.at("which").a)
    {
        const std::string fe = w.s;
        J b = ev("Begin");
        b.set("fe", fe);
        emit(b);
        arm(budget);
        auto t0 = std::chrono::steady_clock::now();
        obs o1 = run_once(c, fe, text, want_toks);
        obs o2 = once ? o1 : run_once(c, fe, text, false);
        auto ms = std::chrono::duration_cast<std::chrono::milliseconds>(std::chrono::steady_clock::now() - t0).count();
        arm(0);
        J o = ev("Obs");
        o.set("fe", fe).set("ok", o1.ok).set("nerr", o1.nerr).set("ntok", o1.ntok);
        o.set("same", o1.ok == o2.ok && o1.nerr == o2.nerr && o1.ntok == o2.ntok && o1.digest == o2.digest);
        o.set("ms", (long long)ms).set("steps", o1.steps).set("cap", o1.cap).set("inb", o1.inb).set("fin", o1.fin);
        o.set("toks", o1.toks);
        emit(o);
    }
}
static registrar r1("front", cmd_front);
