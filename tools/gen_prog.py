"""Seeded grammar generator of SQF programs (ASTs as JSON-able dicts) and their rendering to text.

The AST is the input language of spec/SqfRef.tla (reference semantics) and is rendered to SQF text
for the real VM, one statement per line where `lines=True` (line number = statement id).

Expression nodes  (field k):
  num{n} bool{b} str{s} arr{els} var{name} nil
  bin{op,l,r}      op in + - * < > <= >= == != && || (eager)  isEqualTo
  lazy{op,l,body}  op in && ||, right side is a code block returning bool
  not{x}  neg{x}  cnt{x} (count arr)  sel{x,i} (arr select i)
  call{body} callw{arg,body} (arg call {..})
  if{c,th,el?}     if c then {..} else {..}   (value)
  fcount{body,arr} fselect{arr,body} fapply{arr,body} ffindif{arr,body}
  switch{v,body}   body: list of case/default statements (+ others)
  try{body,handler}
  isnilc{body}     isNil {..}
Statement nodes:
  expr{x} assign{name,x} private{name,x} privates{name} mark{x}
  exitwith{c,body} while{c,body} for{var,from,to,step?,body} foreach{body,arr}
  scopename{s} breakout{s,x?} throw{x}
  case{x,body?} default{body}
  params{names}    params ["_a","_b"]
"""
import random


# ---------------------------------------------------------------- constructors
def num(n): return {"k": "num", "n": n}
def boolean(b): return {"k": "bool", "b": b}
def string(s): return {"k": "str", "s": s}
def arr(*els): return {"k": "arr", "els": list(els)}
def var(name): return {"k": "var", "name": name}
def binop(op, l, r): return {"k": "bin", "op": op, "l": l, "r": r}
def call(body): return {"k": "call", "body": body}
def st_expr(x): return {"k": "expr", "x": x}
def assign(name, x): return {"k": "assign", "name": name, "x": x}
def mark(x): return {"k": "mark", "x": x}


NSNAME = {"mission": "missionNamespace", "ui": "uiNamespace", "parsing": "parsingNamespace", "profile": "profileNamespace"}


# ---------------------------------------------------------------- rendering
def r_expr(e):
    k = e["k"]
    if k == "num":
        return str(e["n"]) if e["n"] >= 0 else "(%d)" % e["n"]
    if k == "bool":
        return "true" if e["b"] else "false"
    if k == "str":
        return '"' + e["s"].replace('"', '""') + '"'
    if k == "nil":
        return "nil"
    if k == "arr":
        return "[" + ", ".join(r_expr(x) for x in e["els"]) + "]"
    if k == "var":
        return e["name"]
    if k == "bin":
        return "(%s %s %s)" % (r_expr(e["l"]), e.get("sp", e["op"]), r_expr(e["r"]))
    if k == "lazy":
        return "(%s %s %s)" % (r_expr(e["l"]), e.get("sp", e["op"]), r_block(e["body"]))
    if k == "not":
        return "(!%s)" % r_expr(e["x"])
    if k == "neg":
        return "(-%s)" % r_expr(e["x"])
    if k == "cnt":
        return "(count %s)" % r_expr(e["x"])
    if k == "sel":
        return "(%s select %s)" % (r_expr(e["x"]), r_expr(e["i"]))
    if k == "call":
        return "(call %s)" % r_block(e["body"])
    if k == "callw":
        return "(%s call %s)" % (r_expr(e["arg"]), r_block(e["body"]))
    if k == "if":
        if e.get("el") is not None:
            return "(if (%s) then %s else %s)" % (r_expr(e["c"]), r_block(e["th"]), r_block(e["el"]))
        return "(if (%s) then %s)" % (r_expr(e["c"]), r_block(e["th"]))
    if k == "fcount":
        return "(%s count %s)" % (r_block(e["body"]), r_expr(e["arr"]))
    if k == "fselect":
        return "(%s select %s)" % (r_expr(e["arr"]), r_block(e["body"]))
    if k == "fapply":
        return "(%s apply %s)" % (r_expr(e["arr"]), r_block(e["body"]))
    if k == "ffindif":
        return "(%s findIf %s)" % (r_expr(e["arr"]), r_block(e["body"]))
    if k == "switch":
        return "(switch (%s) do %s)" % (r_expr(e["v"]), r_block(e["body"]))
    if k == "try":
        return "(try %s catch %s)" % (r_block(e["body"]), r_block(e["handler"]))
    if k == "isnilc":
        return "(isNil %s)" % r_block(e["body"])
    if k == "getvar":
        return '(%s getVariable "%s")' % (NSNAME[e["ns"]], e["name"])
    if k == "isnils":
        return '(isNil "%s")' % e["name"]
    if k == "allvars":
        return "(count (allVariables %s))" % NSNAME[e["ns"]]
    if k == "within":
        return "(with %s do %s)" % (NSNAME[e["ns"]], r_block(e["body"]))
    if k == "raw":
        return e["text"]
    raise ValueError("expr " + k)


def r_stmt(s):
    k = s["k"]
    if k == "expr":
        return r_expr(s["x"])
    if k == "assign":
        return "%s = %s" % (s["name"], r_expr(s["x"]))
    if k == "private":
        return "private %s = %s" % (s["name"], r_expr(s["x"]))
    if k == "privates":
        return 'private "%s"' % s["name"]
    if k == "params":
        return "params [%s]" % ", ".join('"%s"' % n for n in s["names"])
    if k == "mark":
        return "diag_log str %s" % r_expr(s["x"])
    if k == "exitwith":
        return "if (%s) exitWith %s" % (r_expr(s["c"]), r_block(s["body"]))
    if k == "while":
        return "while %s do %s" % (r_block(s["c"]), r_block(s["body"]))
    if k == "for":
        step = " step %s" % r_expr(s["step"]) if s.get("step") is not None else ""
        return 'for "%s" from %s to %s%s do %s' % (s["var"], r_expr(s["from"]), r_expr(s["to"]), step, r_block(s["body"]))
    if k == "foreach":
        return "%s forEach %s" % (r_block(s["body"]), r_expr(s["arr"]))
    if k == "scopename":
        return 'scopeName "%s"' % s["s"]
    if k == "breakout":
        if s.get("x") is not None:
            return '%s breakOut "%s"' % (r_expr(s["x"]), s["s"])
        return 'breakOut "%s"' % s["s"]
    if k == "throw":
        return "throw %s" % r_expr(s["x"])
    if k == "case":
        if s.get("body") is not None:
            return "case %s: %s" % (r_expr(s["x"]), r_block(s["body"]))
        return "case %s" % r_expr(s["x"])
    if k == "default":
        return "default %s" % r_block(s["body"])
    if k == "setvar":
        return '%s setVariable ["%s", %s]' % (NSNAME[s["ns"]], s["name"], r_expr(s["x"]))
    if k == "spawn":
        return "[] spawn %s" % r_block(s["body"])
    if k == "raw":
        return s["text"]
    raise ValueError("stmt " + k)


def r_block(stmts):
    if not stmts:
        return "{}"
    return "{" + "; ".join(r_stmt(s) for s in stmts) + "}"


def render(stmts, lines=True):
    sep = ";\n" if lines else "; "
    return sep.join(r_stmt(s) for s in stmts) + ";"


def spelled(e, r):
    """&& / || have the keyword spellings and / or (same operators, registered separately)"""
    if r.random() < 0.4:
        e["sp"] = {"&&": "and", "||": "or"}[e["op"]]
    return e


# ---------------------------------------------------------------- random generation
class Gen:
    """Typed random generator. Profiles switch constructs on/off (open findings are steered around by
    the general profile, DESIGN.md 4)."""

    def __init__(self, rng, depth=3, allow=None, dirty=True):
        self.rng = rng
        self.maxdepth = depth
        self.allow = allow or set()
        self.dirty = dirty
        self.mark_no = 0
        self.scope_no = 0
        self.try_depth = 0    # > 0 while generating the body of a try: a throw is caught
        self.numvars = ["gA", "gB"]
        self.scopes = []
        self.btypes = ["any"]  # result types of the enclosing blocks (an exitWith body yields the enclosing block's type)
        self.no_exit = 0      # > 0 while generating the body of count/select/apply/findIf: an early exit would change the construct's result type

    def ok(self, name):
        return not self.allow or name in self.allow

    def pick(self, opts):
        opts = [o for o in opts if self.ok(o)]
        return self.rng.choice(opts)

    # ---- expressions
    def e_num(self, d):
        r = self.rng
        if d <= 0:
            return r.choice([num(r.randint(0, 5)), var(r.choice(self.numvars))])
        k = self.pick(["lit", "lit", "var", "bin", "call", "if", "cnt", "fcount", "ffindif", "switch", "try", "callw", "sel", "scopedval"])
        if k == "lit":
            return num(r.randint(0, 5))
        if k == "scopedval":
            # a named scope left by breakOut-with-value while operands of the left scopes are pending
            self.scope_no += 1
            name = "s%d" % self.scope_no
            bo = call([{"k": "breakout", "s": name, "x": self.e_num(0)}])
            inner = binop(r.choice(["+", "-"]), self.e_num(d - 1), bo)
            if r.random() < 0.5:
                inner = binop("+", num(r.randint(1, 5)), call([st_expr(inner)]))
            return call([{"k": "scopename", "s": name}] + ([self.new_mark()] if r.random() < 0.3 else []) + [st_expr(inner)])
        if k == "var":
            return var(r.choice(self.numvars))
        if k == "bin":
            return binop(r.choice(["+", "-", "*"]), self.e_num(d - 1), self.e_num(d - 1))
        if k == "call":
            return call(self.block(d - 1, "num"))
        if k == "callw":
            return {"k": "callw", "arg": self.e_num(d - 1), "body": self.block(d - 1, "num", extra=[st_expr(binop("+", var("_this"), num(1)))])}
        if k == "if":
            return {"k": "if", "c": self.e_bool(d - 1), "th": self.block(d - 1, "num"), "el": self.block(d - 1, "num")}
        if k == "cnt":
            return {"k": "cnt", "x": self.e_arr(d - 1)}
        if k == "sel":
            a = self.e_arr_lit(d - 1, minlen=1)
            return {"k": "sel", "x": a, "i": num(r.randint(0, len(a["els"]) - 1))}
        if k == "fcount":
            return {"k": "fcount", "body": self.block(d - 1, "boolx"), "arr": self.e_arr(d - 1)}
        if k == "ffindif":
            return {"k": "ffindif", "arr": self.e_arr(d - 1), "body": self.block(d - 1, "boolx")}
        if k == "switch":
            return {"k": "switch", "v": self.e_num(0), "body": self.switch_body(d - 1)}
        if k == "try":
            self.try_depth += 1
            body = self.block(d - 1, "num")
            self.try_depth -= 1
            if r.random() < 0.6:
                body.insert(r.randint(0, len(body) - 1), {"k": "throw", "x": self.e_num(0)})
            handler = self.block(d - 1, "num", extra=[st_expr(var("_exception"))] if r.random() < 0.5 else None)
            if self.try_depth > 0 and r.random() < 0.4:
                # the handler itself throws: that exception belongs to the next try further out
                handler.insert(r.randint(0, len(handler) - 1), {"k": "throw", "x": binop("+", var("_exception"), num(1)) if r.random() < 0.5 else self.e_num(0)})
            return {"k": "try", "body": body, "handler": handler}
        raise ValueError(k)

    def e_bool(self, d):
        r = self.rng
        if d <= 0:
            return boolean(r.random() < 0.5)
        k = self.pick(["lit", "cmp", "cmp", "not", "lazy", "and"])
        if k == "lit":
            return boolean(r.random() < 0.5)
        if k == "cmp":
            return binop(r.choice(["<", ">", "<=", ">=", "==", "!="]), self.e_num(d - 1), self.e_num(d - 1))
        if k == "not":
            return {"k": "not", "x": self.e_bool(d - 1)}
        if k == "and":
            return spelled(binop(r.choice(["&&", "||"]), self.e_bool(d - 1), self.e_bool(d - 1)), r)
        if k == "lazy":
            return spelled({"k": "lazy", "op": r.choice(["&&", "||"]), "l": self.e_bool(d - 1), "body": self.block(d - 1, "bool")}, r)
        raise ValueError(k)

    def e_arr_lit(self, d, minlen=0):
        return arr(*[self.e_num(d - 1) for _ in range(self.rng.randint(max(minlen, 0), 3))])

    def e_arr(self, d):
        r = self.rng
        if d <= 0:
            return arr(*[num(r.randint(0, 3)) for _ in range(r.randint(0, 3))])
        k = self.pick(["lit", "lit", "fselect", "fapply", "plus"])
        if k == "lit":
            return self.e_arr_lit(d)
        if k == "fselect":
            return {"k": "fselect", "arr": self.e_arr(d - 1), "body": self.block(d - 1, "boolx")}
        if k == "fapply":
            return {"k": "fapply", "arr": self.e_arr(d - 1), "body": self.block(d - 1, "numx")}
        if k == "plus":
            return binop("+", self.e_arr(d - 1), self.e_arr(d - 1))
        raise ValueError(k)

    def switch_body(self, d):
        r = self.rng
        body = []
        for _ in range(r.randint(1, 3)):
            if r.random() < 0.25:
                body.append({"k": "case", "x": num(r.randint(0, 3))})  # fall-through label
            body.append({"k": "case", "x": num(r.randint(0, 3)), "body": self.block(d, "num")})
        # case statements may be executed in a scope nested in the switch block (call / then): a match leaves that
        # scope only, the rest of the switch block still runs and must not disturb the choice
        if len(body) >= 1 and r.random() < 0.35:
            i = r.randint(0, len(body) - 1)
            j = r.randint(i + 1, len(body))
            group = body[i:j]
            wrapped = st_expr(call(group)) if r.random() < 0.5 else st_expr({"k": "if", "c": boolean(True), "th": group, "el": None})
            body[i:j] = [wrapped] + ([self.new_mark()] if r.random() < 0.5 else [])
        # used as a number: there always is a selected block (a switch that selects nothing yields nil)
        body.insert(r.randint(0, len(body)), {"k": "default", "body": self.block(d, "num")})
        return body

    # ---- statements
    def new_mark(self):
        self.mark_no += 1
        return mark(num(1000 + self.mark_no))

    def stmt(self, d, force=None):
        r = self.rng
        k = force or self.pick(["mark", "assign", "expr", "expr", "exprarr", "if", "exitwith", "while", "for", "foreach", "scoped", "private", "junk", "obs"])
        if d <= 0 and k in ("if", "exitwith", "while", "for", "foreach", "scoped", "obs"):
            k = "assign"
        if self.no_exit and k == "exitwith":
            k = "mark"
        if k == "mark":
            return [self.new_mark()]
        if k == "obs":
            # the value of a block whose last statement is a loop, an if or any other statement, observed in an array
            self.no_exit += 1
            body = self.block(d - 1, "any")
            last = r.choice(["while", "while", "for", "foreach", "if", None])
            if last:
                body += self.stmt(max(d - 1, 1), force=last)
            self.no_exit -= 1
            wrap = r.choice(["call", "if", "try"])
            x = call(body) if wrap == "call" else {"k": "if", "c": boolean(True), "th": body, "el": [st_expr(num(0))]} if wrap == "if" else {"k": "try", "body": body, "handler": [st_expr(num(0))]}
            return [mark(arr(num(7), x))]
        if k == "assign":
            return [assign(r.choice(self.numvars), self.e_num(d))]
        if k == "private":
            return [{"k": "private", "name": r.choice(["_p", "_q"]), "x": self.e_num(d)}]
        if k == "expr":
            return [st_expr(self.e_num(d))]
        if k == "exprarr":
            return [st_expr(self.e_arr(d))]
        if k == "junk":
            # statement that leaves several values inside one expression: nested arrays
            return [st_expr(arr(self.e_num(d), arr(self.e_num(d), self.e_num(d)), self.e_num(d)))]
        if k == "if":
            return [st_expr({"k": "if", "c": self.e_bool(d - 1), "th": self.block(d - 1, "any"), "el": self.block(d - 1, "any") if r.random() < 0.5 else None})]
        if k == "exitwith":
            body = self.block(d - 1, "bool" if self.btypes[-1] == "bool" else "num")
            if self.try_depth > 0 and r.random() < 0.3:
                body.insert(r.randint(0, len(body) - 1), {"k": "throw", "x": self.e_num(0)})      # the enclosing try catches it
            return [{"k": "exitwith", "c": self.e_bool(d - 1), "body": body}]
        if k == "while":
            # terminating loop over a dedicated counter
            self.scope_no += 1
            c = "gW%d" % self.scope_no
            body = self.block(d - 1, "any") + [assign(c, binop("+", var(c), num(1)))]
            return [assign(c, num(0)), {"k": "while", "c": [st_expr(binop("<", var(c), num(r.randint(0, 3))))], "body": body}]
        if k == "for":
            s = {"k": "for", "var": "_i", "from": num(r.randint(0, 2)), "to": num(r.randint(0, 3)), "body": self.block(d - 1, "any")}
            if r.random() < 0.3:
                s["step"] = num(r.choice([1, 2, -1]))
            return [s]
        if k == "foreach":
            return [{"k": "foreach", "body": self.block(d - 1, "any", extra=[st_expr(var("_x"))] if r.random() < 0.5 else None), "arr": self.e_arr(d - 1)}]
        if k == "scoped":
            # a named scope with a breakOut somewhere below it
            self.scope_no += 1
            name = "s%d" % self.scope_no
            self.scopes.append(name)
            inner = self.block(d - 1, "any")
            bo = {"k": "breakout", "s": name}
            if r.random() < 0.6:
                bo["x"] = self.e_num(0)
            # place the breakOut inside a nested call so that frames are crossed
            nest = [st_expr(call([self.new_mark(), bo, self.new_mark()]))] if r.random() < 0.7 else [bo]
            if r.random() < 0.5:
                nest = [st_expr({"k": "if", "c": self.e_bool(0), "th": nest, "el": None})]
            self.scopes.pop()
            body = [{"k": "scopename", "s": name}] + inner + nest + [self.new_mark()]
            return [st_expr(arr(num(1), call(body), num(3)))] if r.random() < 0.5 else [st_expr(call(body))]
        raise ValueError(k)

    def block(self, d, result, extra=None):
        """result: num | bool | numx (uses _x) | boolx | any"""
        r = self.rng
        out = []
        guard = result in ("numx", "boolx")
        if guard:
            self.no_exit += 1
        self.btypes.append(result)
        for _ in range(r.randint(0, 2)):
            out += self.stmt(d)
        self.btypes.pop()
        if guard:
            self.no_exit -= 1
        if extra:
            out += extra
        if guard and r.random() < 0.3:
            # the body rebinds its own _x: the construct still works on the array's elements
            out.append(assign("_x", binop(r.choice(["+", "*"]), var("_x"), num(r.randint(1, 3)))))
        if result == "num":
            out.append(st_expr(self.e_num(d)))
        elif result == "bool":
            out.append(st_expr(self.e_bool(d)))
        elif result == "numx":
            out.append(st_expr(binop("+", var("_x"), self.e_num(max(d - 1, 0)))))
        elif result == "boolx":
            out.append(st_expr(binop(r.choice(["<", ">", "=="]), var("_x"), self.e_num(max(d - 1, 0)))))
        elif result == "any":
            if r.random() < 0.5:
                out.append(st_expr(self.e_num(d)))
        return out

    def program(self, nstmts=4):
        out = [assign("gA", num(1)), assign("gB", num(2))]
        for _ in range(nstmts):
            out += self.stmt(self.maxdepth)
        out.append(mark(arr(var("gA"), var("gB"))))
        return out
