#!/usr/bin/env python3
"""Prints the brief handed to a fresh mutation sub-agent for one property (only the property text and a scratch worktree)."""
import json, sys
pid = sys.argv[1]; wt = sys.argv[2]
# round 2: titles of the changes already collected for this property (so that new ones differ)
import glob, os
tried = []
for m in sorted(glob.glob('/verif/seeded/%s-m*/meta.json' % pid)):
    try:
        tried.append(json.load(open(m)).get('title', ''))
    except Exception:
        pass
first = 1 + len(tried)
p = [json.loads(l) for l in open('/verif/properties.jsonl') if l.strip()]
p = [x for x in p if x['id'] == pid][0]
print(f"""You are helping to evaluate a verification effort by playing the role of a developer who introduces a realistic regression.

Working directory: {wt}  -- a scratch git worktree of the C++ project SQFvm/runtime (an interpreter for Arma's SQF scripting language). Work ONLY inside this directory. Do not read or touch /repo or /verif or any other checkout, do not use `pkill`/`killall`, and do not commit anything.

Build and test commands (run from the worktree):
  cmake -G Ninja -DCMAKE_BUILD_TYPE=RelWithDebInfo -B _build -S . >/dev/null && cmake --build _build -j8 2>&1 | tail -3
  ctest --test-dir _build -j8 2>&1 | tail -3          (41 tests, all must pass)
The command line tool is _build/sqfvm (try `_build/sqfvm --help`; useful: `-a` automated/no REPL, `--sqf <code>`, `--input-sqf <file>`, `--no-work-dir`... read src/cli/cli.cpp if needed).

The semantic property under study (this is all you get; it is stated over ALL inputs, which unit tests cannot sample):

{json.dumps({k: p[k] for k in ('id','title','statement','quantifier','why_tests_cant','anchors')}, indent=1)}

""" + ("Other developers already produced the following changes for this property; yours must differ from them in mechanism (a different function, or a different clause of the property):\n" + "\n".join("  - " + t for t in tried) + "\n\n" if tried else "") + f"""Your task: produce TWO independent source changes (different mechanisms / different anchors if possible), each of which
  * is the kind of change a developer could plausibly make (a refactoring slip, an off-by-one, a dropped condition, a wrong default, a reordered step, an "optimisation") -- not sabotage such as special-casing a magic constant, and not a crash on every input;
  * makes the property FALSE for some inputs, but needs something specific to manifest (a particular nesting, size, order, history, schedule ...), so ordinary use still looks fine;
  * still compiles and still passes all 41 existing tests (verify it; tests must not be edited);
  * comes with a demonstration: a concrete input (SQF script / file / command sequence) and the observable behaviour on the unmodified worktree vs. with your change, showing the property's statement being violated.
Keep each change small (a few lines). Each change is made against the pristine worktree (undo the first with `git checkout -- .` before making the second).

Deliver, for i in {first},{first + 1}, a directory {wt}/_seed/m<i>/ containing:
  patch.diff   -- `git diff` of the change against the pristine worktree (must apply with `git apply` to a pristine checkout)
  demo.sh      -- a shell script that, run from a checkout's root after building into _build, shows the misbehaviour (prints what is observed); keep inputs in this directory and reference them relative to the script
  demo.md      -- what the change is, which clause of the property it breaks, the input needed to see it, expected vs. observed output on both the pristine and the changed tree
  meta.json    -- {{"property": "{pid}", "title": "<one line>", "files": [...], "mechanism": "<which anchor>", "manifests_when": "<the specific condition>", "tests_pass": true}}
Leave the worktree pristine at the end (`git checkout -- .`; the _seed directory and _build stay). In your final message, summarise the two changes in a few lines each. If you cannot find a second change, deliver one and say so.""")
