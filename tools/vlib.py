"""Shared machinery of the verification orchestrator (python3 stdlib only).

No verdict logic lives here: verdicts are computed by TLC from the TLA+ specifications under
/verif/spec; this module builds the driver, runs it, runs TLC, parses TLC's output, matches
findings against known_findings.json and writes the evidence file.
"""
import fcntl
import json
import os
import re
import shutil
import subprocess
import sys
import time

ROOT = os.path.dirname(os.path.dirname(os.path.abspath(__file__)))
REPO = os.environ.get("VERIF_REPO", "/repo")
# VERIF_REPO / VERIF_BUILD / VERIF_EVID redirect a run to a scratch tree (used only to try seeded changes
# in a scratch worktree; the registered commands never set them)
BUILD = os.environ.get("VERIF_BUILD", os.path.join(ROOT, "build"))
SPEC = os.path.join(ROOT, "spec")
EVID = os.environ.get("VERIF_EVID", os.path.join(ROOT, "evidence"))
REPLAY = os.path.join(EVID, "replay")
NCPU = os.cpu_count() or 4


class MachineryError(Exception):
    """Something in the machinery (not the code under test) failed: exit 2."""


def log(*a):
    print(*a, file=sys.stderr, flush=True)


# ------------------------------------------------------------------------------------------------
# build
# ------------------------------------------------------------------------------------------------
def build(kind="rel"):
    """(Re)build the driver from /repo's current working tree. kind: rel | asan. Returns dir."""
    os.makedirs(BUILD, exist_ok=True)
    bdir = os.path.join(BUILD, kind)
    lock = open(os.path.join(BUILD, ".lock." + kind), "w")
    fcntl.flock(lock, fcntl.LOCK_EX)
    try:
        t0 = time.time()
        if not os.path.exists(os.path.join(bdir, "build.ninja")):
            args = ["cmake", "-G", "Ninja", "-S", os.path.join(ROOT, "harness"), "-B", bdir, "-DREPO=" + REPO]
            if kind == "asan":
                args.append("-DVERIF_SANITIZE=ON")
            r = subprocess.run(args, stdout=subprocess.PIPE, stderr=subprocess.STDOUT, text=True)
            if r.returncode != 0:
                raise MachineryError("cmake configure failed:\n" + r.stdout[-4000:])
        r = subprocess.run(["ninja", "-C", bdir], stdout=subprocess.PIPE, stderr=subprocess.STDOUT, text=True)
        if r.returncode != 0:
            errs = [l for l in r.stdout.splitlines() if "error" in l.lower()][:40]
            raise MachineryError("build of driver failed (kind=%s):\n%s" % (kind, "\n".join(errs) or r.stdout[-4000:]))
        log("[build] %s up to date in %.1fs" % (kind, time.time() - t0))
    finally:
        fcntl.flock(lock, fcntl.LOCK_UN)
        lock.close()
    return bdir


def vdriver(kind="rel"):
    return os.path.join(BUILD, kind, "vdriver")


def sqfvm_cli(kind="rel"):
    return os.path.join(BUILD, kind, "sqfvm_v")


# ------------------------------------------------------------------------------------------------
# driver runs
# ------------------------------------------------------------------------------------------------
def workdir(name):
    d = os.path.join(BUILD, "work", name)
    shutil.rmtree(d, ignore_errors=True)
    os.makedirs(d)
    return d


def run_driver(cmd, cases, wdir, kind="rel", timeout_s=20, jobs=None, tag="drv", env=None):
    """Run `vdriver cmd` over cases (list of dicts with 'id'), in parallel chunks.
    Returns list of events (dicts) in case order (events of one case contiguous)."""
    if not cases:
        return []
    jobs = jobs or min(NCPU, max(1, len(cases) // 8 or 1))
    chunks = [cases[i::jobs] for i in range(jobs)]
    procs = []
    for n, ch in enumerate(chunks):
        if not ch:
            continue
        fin = os.path.join(wdir, "%s.%d.in.ndjson" % (tag, n))
        fout = os.path.join(wdir, "%s.%d.out.ndjson" % (tag, n))
        with open(fin, "w") as f:
            for c in ch:
                f.write(json.dumps(c, separators=(",", ":")) + "\n")
        if os.path.exists(fout):
            os.remove(fout)
        e = dict(os.environ)
        e.setdefault("ASAN_OPTIONS", "detect_leaks=0:abort_on_error=1:handle_abort=0")
        e.setdefault("UBSAN_OPTIONS", "halt_on_error=1:abort_on_error=1:print_stacktrace=1")
        if env:
            e.update(env)
        for attempt in range(20):
            try:
                p = subprocess.Popen([vdriver(kind), cmd, fin, fout, "--timeout", str(timeout_s)],
                                     stdout=subprocess.DEVNULL, stderr=open(fout + ".stderr", "w"), env=e)
                break
            except (PermissionError, OSError):
                # the driver binary is being re-linked by a concurrent build
                time.sleep(1.5)
        else:
            raise MachineryError("driver binary not executable")
        procs.append((p, fout, len(ch)))
    by_case = {}
    order = []
    for p, fout, n in procs:
        try:
            p.wait(timeout=timeout_s * n + 120)
        except subprocess.TimeoutExpired:
            p.kill()
            raise MachineryError("driver %s did not finish" % cmd)
        if p.returncode != 0:
            raise MachineryError("driver %s exited with %s: %s" % (cmd, p.returncode, open(fout + ".stderr").read()[-2000:]))
        if os.path.exists(fout):
            with open(fout) as f:
                for line in f:
                    line = line.strip()
                    if not line:
                        continue
                    try:
                        evn = json.loads(line)
                    except ValueError:
                        continue  # a line truncated by a crash
                    cid = evn.get("id")
                    if cid not in by_case:
                        by_case[cid] = []
                    by_case[cid].append(evn)
    out = []
    for c in cases:
        out.extend(by_case.get(c["id"], [{"e": "Crash", "id": c["id"], "why": "no output"}]))
    return out


def events_by_case(events):
    d = {}
    for e in events:
        d.setdefault(e.get("id"), []).append(e)
    return d


# ------------------------------------------------------------------------------------------------
# TLC
# ------------------------------------------------------------------------------------------------
class TlcResult:
    def __init__(self):
        self.ok = False
        self.rc = None
        self.generated = 0
        self.distinct = 0
        self.depth = 0
        self.violated = None       # name of violated invariant / property
        self.error = None          # other TLC error text
        self.out = ""
        self.verdicts = []         # parsed VERDICT lines (JSON)
        self.prints = []
        self.coverage = {}
        self.wall = 0.0
        self.trace_text = ""


_RE_STATES = re.compile(r"(\d+) states generated, (\d+) distinct states found")
_RE_DEPTH = re.compile(r"The depth of the complete state graph search is (\d+)")
_RE_INV = re.compile(r"Invariant (\S+) is violated")
_RE_PROP = re.compile(r"(Temporal properties were violated|Action property (\S+) is violated|Deadlock reached)")


def tlc(module, cfg, cwd=None, env=None, workers=1, timeout_s=600, simulate=None, depth=None,
        xmx="8g", coverage=False, deadlock=False, extra=None, tag=None, dfs=False, seed=None):
    """Run TLC on spec/<module>.tla with spec/<cfg>. Returns TlcResult. Raises MachineryError on
    parse errors / timeouts (never a property verdict)."""
    cwd = cwd or SPEC
    tag = tag or (module + "." + os.path.splitext(os.path.basename(cfg))[0])
    meta = os.path.join(BUILD, "tlc", tag + "." + str(os.getpid()))
    shutil.rmtree(meta, ignore_errors=True)
    os.makedirs(meta, exist_ok=True)
    jopts = "-Xmx%s -XX:+UseParallelGC" % xmx
    if dfs:
        jopts += " -Dtlc2.tool.queue.IStateQueue=StateDeque"
    cmd = ["java"] + jopts.split() + ["-cp", "/opt/veriftools/tla/tla2tools.jar:/opt/veriftools/tla/CommunityModules-deps.jar",
                                      "tlc2.TLC", "-noGenerateSpecTE", "-metadir", meta, "-workers", str(workers), "-config", cfg]
    if not deadlock:
        cmd.append("-deadlock")  # disables deadlock checking
    if coverage:
        cmd += ["-coverage", "1"]
    if simulate:
        cmd += ["-simulate", "num=%d" % simulate]
        if depth:
            cmd += ["-depth", str(depth)]
        if seed is not None:
            cmd += ["-seed", str(seed)]
    if extra:
        cmd += extra
    cmd.append(module + ".tla")
    e = dict(os.environ)
    if env:
        e.update({k: str(v) for k, v in env.items()})
    t0 = time.time()
    try:
        r = subprocess.run(cmd, cwd=cwd, env=e, stdout=subprocess.PIPE, stderr=subprocess.STDOUT, text=True, timeout=timeout_s)
    except subprocess.TimeoutExpired:
        shutil.rmtree(meta, ignore_errors=True)
        raise MachineryError("TLC timed out after %ds: %s %s" % (timeout_s, module, cfg))
    res = TlcResult()
    res.wall = time.time() - t0
    res.rc = r.returncode
    res.out = r.stdout
    shutil.rmtree(meta, ignore_errors=True)
    for m in _RE_STATES.finditer(r.stdout):
        res.generated, res.distinct = int(m.group(1)), int(m.group(2))
    m = _RE_DEPTH.search(r.stdout)
    if m:
        res.depth = int(m.group(1))
    m = _RE_INV.search(r.stdout)
    if m:
        res.violated = m.group(1)
    m = _RE_PROP.search(r.stdout)
    if m and not res.violated:
        res.violated = m.group(2) or m.group(1)
    for line in r.stdout.splitlines():
        if line.startswith('"VERDICT ') or line.startswith("VERDICT "):
            s = line.strip()
            if s.startswith('"'):
                # PrintT of a string prints it quoted with TLA+ escapes
                s = s[1:-1].replace('\\"', '"').replace("\\\\", "\\")
            try:
                res.verdicts.append(json.loads(s[len("VERDICT "):]))
            except ValueError:
                raise MachineryError("unparsable VERDICT line: " + line[:300])
        elif line.startswith('"OUT ') or line.startswith("OUT "):
            s = line.strip()
            if s.startswith('"'):
                s = s[1:-1].replace('\\"', '"').replace("\\\\", "\\")
            res.prints.append(s[4:])
    if "Parsing or semantic analysis failed" in r.stdout or "***Parse Error***" in r.stdout or "Semantic errors" in r.stdout:
        raise MachineryError("TLC could not parse %s:\n%s" % (module, r.stdout[-3000:]))
    if res.violated is None and r.returncode not in (0,):
        # evaluation errors, assumption failures, postcondition failures
        if "Error:" in r.stdout:
            idx = r.stdout.index("Error:")
            res.error = r.stdout[idx:idx + 3000]
        else:
            res.error = "TLC exit code %d" % r.returncode
    if res.violated:
        idx = r.stdout.find("Error:")
        res.trace_text = r.stdout[idx:idx + 20000] if idx >= 0 else ""
    if coverage:
        for m in re.finditer(r"<(\w+) line \d+, col \d+ to line \d+, col \d+ of module (\w+)>: (\d+):(\d+)", r.stdout):
            res.coverage[m.group(1)] = (int(m.group(3)), int(m.group(4)))
    res.ok = (r.returncode == 0 and res.violated is None and res.error is None)
    return res


def sany(module):
    r = subprocess.run(["java", "-cp", "/opt/veriftools/tla/tla2tools.jar:/opt/veriftools/tla/CommunityModules-deps.jar", "tla2sany.SANY", module + ".tla"],
                       cwd=SPEC, stdout=subprocess.PIPE, stderr=subprocess.STDOUT, text=True)
    ok = r.returncode == 0 and "Semantic errors" not in r.stdout and "Parse Error" not in r.stdout and "Fatal errors" not in r.stdout
    return ok, r.stdout


# ------------------------------------------------------------------------------------------------
# findings / evidence
# ------------------------------------------------------------------------------------------------
def load_known():
    p = os.path.join(ROOT, "known_findings.json")
    if not os.path.exists(p):
        return []
    with open(p) as f:
        return json.load(f).get("findings", [])


class Report:
    """Collects what one check run did; prints the interface lines; writes the evidence file."""

    def __init__(self, pid, tier, seed, level="model_checking"):
        self.pid = pid
        self.tier = tier
        self.seed = seed
        self.level = level
        self.t0 = time.time()
        self.states = 0
        self.transitions = 0
        self.traces = 0
        self.evaluations = 0
        self.samples = []
        self.assumptions = []
        self.notes = []
        self.exhaustive = False
        self.rule = ""
        self.extra = {}
        self.found = {}          # key -> dict(what, replay, count)
        self.known = [f for f in load_known() if f.get("property") == pid]
        self.design_runs = []

    def add_tlc(self, res, what=None):
        self.states += res.distinct
        self.transitions += res.generated
        if what:
            self.design_runs.append({"what": what, "generated": res.generated, "distinct": res.distinct, "depth": res.depth, "wall_s": round(res.wall, 1)})

    def finding(self, key, what, replay_obj=None):
        """Record a property-oracle failure observed on a real execution. key is the spec-level signature."""
        ent = self.found.setdefault(key, {"what": what, "count": 0, "replay": None})
        ent["count"] += 1
        if ent["replay"] is None and replay_obj is not None:
            os.makedirs(REPLAY, exist_ok=True)
            safe = re.sub(r"[^A-Za-z0-9_.-]", "_", key)[:80]
            path = os.path.join(REPLAY, "%s_%s.json" % (self.pid, safe))
            with open(path, "w") as f:
                json.dump(replay_obj, f, indent=1)
            ent["replay"] = path

    def finish(self):
        open_known = {f["key"]: f for f in self.known if f.get("status") == "open"}
        violations = 0
        for key, ent in sorted(self.found.items()):
            if key in open_known:
                print("KNOWN-FINDING: property=%s %s [%s] (x%d)" % (self.pid, open_known[key]["what"], key, ent["count"]))
            else:
                violations += 1
                print("VIOLATION property=%s replay=%s key=%s what=%s" % (self.pid, ent["replay"] or "-", key, ent["what"]))
        for key, f in sorted(open_known.items()):
            if key not in self.found:
                self.notes.append("known finding %s was not reproduced in this run" % key)
        wall = time.time() - self.t0
        cov = {
            "states": max(self.states, 0),
            "transitions": max(self.transitions, 0),
            "traces_validated_against_impl": self.traces,
            "samples": self.samples[:12] or ["(none)"],
            "evaluations": max(self.evaluations, 1),
            "distinct_nontrivial": max(self.extra.pop("distinct_nontrivial", self.evaluations), 2),
            "rule": self.rule,
            "exhaustive": self.exhaustive,
            "design_checks": self.design_runs,
            "findings_seen": {k: v["count"] for k, v in self.found.items()},
            "notes": self.notes,
        }
        cov.update(self.extra)
        evd = {
            "property_id": self.pid, "tier": self.tier, "seed": self.seed, "level": self.level,
            "coverage": cov, "assumptions": self.assumptions, "wall_s": round(wall, 2), "violations": violations,
        }
        os.makedirs(EVID, exist_ok=True)
        with open(os.path.join(EVID, self.pid + ".json"), "w") as f:
            json.dump(evd, f, indent=1)
        log("[%s] %s tier: states=%d transitions=%d traces=%d evaluations=%d wall=%.1fs violations=%d" %
            (self.pid, self.tier, self.states, self.transitions, self.traces, self.evaluations, wall, violations))
        return 1 if violations else 0


def validate_traces(module, cfg, executions, wdir, tag, chunks=None, env=None, timeout_s=900, xmx="4g", reset_fields=None):
    """Trace validation of many executions with one TLC run per chunk (in parallel).
    executions: list of (id, [event dicts]); a {"e":"Reset","id":id} line is put in front of each.
    The trace module must print 'VERDICT {"lines":..,"ops":..,"bad":[{"id","line","why","op"}..]}'.
    Returns (bad_entries, totals dict, [TlcResult])."""
    import concurrent.futures
    if not executions:
        return [], {"lines": 0, "ops": 0}, []
    chunks = chunks or min(NCPU, max(1, len(executions) // 200))
    parts = [executions[i::chunks] for i in range(chunks)]
    parts = [p for p in parts if p]

    def one(n_part):
        n, part = n_part
        path = os.path.join(wdir, "%s.trace.%d.ndjson" % (tag, n))
        with open(path, "w") as f:
            for cid, evs in part:
                rl = {"e": "Reset", "id": cid}
                if reset_fields and cid in reset_fields:
                    rl.update(reset_fields[cid])
                f.write(json.dumps(rl, separators=(",", ":")) + "\n")
                for e in evs:
                    f.write(json.dumps(e, separators=(",", ":")) + "\n")
        e2 = {"TRACE": path}
        if env:
            e2.update(env)
        return tlc(module, cfg, env=e2, workers=1, timeout_s=timeout_s, xmx=xmx, tag="%s.%d" % (tag, n))

    with concurrent.futures.ThreadPoolExecutor(max_workers=len(parts)) as ex:
        results = list(ex.map(one, enumerate(parts)))
    bad = []
    totals = {"lines": 0, "ops": 0}
    for r in results:
        if r.violated:
            raise MachineryError("trace validation: spec invariant %s violated on a bound state (the trace spec must record this as a verdict):\n%s" % (r.violated, r.trace_text[-3000:]))
        if r.error or not r.verdicts:
            raise MachineryError("trace validation failed to produce a verdict (%s):\n%s" % (module, (r.error or r.out)[-3000:]))
        v = r.verdicts[-1]
        totals["lines"] += v.get("lines", 0)
        totals["ops"] += v.get("ops", 0)
        if "outside" in v:
            totals["outside"] = totals.get("outside", 0) + v["outside"]
        bad.extend(v.get("bad", []))
    return bad, totals, results


def write_ndjson(path, objs):
    with open(path, "w") as f:
        for o in objs:
            f.write(json.dumps(o, separators=(",", ":")) + "\n")


def read_ndjson(path):
    out = []
    with open(path) as f:
        for line in f:
            line = line.strip()
            if line:
                out.append(json.loads(line))
    return out
