"""C16 - the virtual file system resolves deterministically and never leaves the mapped roots.

spec/Vfs.tla        reference resolution Resolve + the formulas Contained, Deterministic,
                    TraversalIsNotFound, FirstRootWins, DeepestPrefixWins, ResolvesToReference,
                    ActsOnContent (and ResolveCode, the algorithm of get_info_virtual as read)
spec/Vfs_MC.tla     design check (the reference satisfies the formulas; the transcribed code is
                    refuted on ResolvesToReference = non-vacuity) and generator (TLC enumerates
                    configurations, requests and small complete products)
spec/Vfs_Trace.tla  judges every observed (case, operation) of the real code
harness/cmd_vfs.cpp the driver: real impl_default + real operators / preprocessor

A case = (mappings, trees, request, current).  Python materialises the directory trees (every file
holds a unique token naming its physical path), renders the request to text, runs the driver and
hands the observations back to TLC.
"""
import json
import os
import random
import shutil
import time

import vlib

LEVEL = "model_checking"
ROOTS = ["r1", "r2", "r3"]
SENTINELS = [["f"], ["a", "f"], ["b", "f"]]
STYLES = ["slash", "backslash", "mixed"]
SCRIPT_OPS = ["loadFile", "preprocessFile", "preprocessFileLineNumbers", "execVM"]
INCLUDE_OPS = ["include", "include2", "include3", "include4"]
# directory names of the physical roots: the root ids r1, r2, r3 of the model are symbolic; "rev" names them so that the root used
# first is NOT the smallest path (the order of mapping, not of the names, must decide).  Every root has an unmapped sibling
# directory <name>x (request base "r1x" ...), i.e. a directory outside all roots whose path merely starts with the root's path.
NAMINGS = {"fwd": {"r1": "r1", "r2": "r2", "r3": "r3"}, "rev": {"r1": "w3", "r2": "w2", "r3": "w1"}}
NOCUR = {"has": False, "virt": [], "root": "", "rel": []}


# ------------------------------------------------------------------------------------------------
# TLC configurations
# ------------------------------------------------------------------------------------------------
def tla_set(xs):
    return "{" + ", ".join('"%s"' % x for x in xs) + "}"


def mc_cfg(name, mode, variant="reference", emit=False, maxmaps=2, nroots=2, prefixes=("", "a", "ab", "b"),
           shapes=("empty", "full", "deep"), maxlen=3, bases=("", "out", "r1", "r2", "r3", "r1x", "r2x", "r3x"), invariants=None):
    inv = invariants if invariants is not None else ["InvContained", "InvTraversal", "InvPhysical", "InvFirstRoot", "InvDeepest", "InvReference",
                                                     "InvContent", "InvDeterministic", "InvRefIsFile"]
    cfg = """SPECIFICATION Spec
CONSTANTS
  Mode = "%s"
  Variant = "%s"
  Emit = %s
  MaxMaps = %d
  NRoots = %d
  PrefixNames = %s
  ShapeNames = %s
  MaxLen = %d
  Bases = %s
CHECK_DEADLOCK FALSE
""" % (mode, variant, "TRUE" if emit else "FALSE", maxmaps, nroots, tla_set(prefixes), tla_set(shapes), maxlen, tla_set(bases))
    if inv:
        cfg += "INVARIANTS " + " ".join(inv) + "\n"
    p = os.path.join(vlib.SPEC, "gen_vfs_" + name + ".cfg")
    with open(p, "w") as f:
        f.write(cfg)
    return os.path.basename(p)


# ------------------------------------------------------------------------------------------------
# rendering a case for the implementation
# ------------------------------------------------------------------------------------------------
def token_of(root, rel):
    return "TOKEN_" + "_".join([root] + rel)


def parse_result(res):
    if res.startswith("TOKEN_"):
        parts = res.split("_")
        return {"k": "file", "root": parts[1], "rel": parts[2:]}
    return {"k": {"NOTFOUND": "notfound", "NOTOKEN": "notoken", "EXC": "exc"}.get(res, "exc"), "root": "", "rel": []}


def virt_text(path):
    return "/" + "/".join(path)


def dirname_of(case, root):
    return NAMINGS[case.get("naming", "fwd")][root]


def base_dir(case, cdir, base):
    if base == "out":
        return cdir
    if base.endswith("x"):
        return cdir + "/" + dirname_of(case, base[:-1]) + "x"
    return cdir + "/" + dirname_of(case, base)


def render(case, cdir, avoid_comment):
    """request -> text. style: slash | backslash | mixed (alternating, starting with /).
    avoid_comment: an #include line is scanned for // comments by the preprocessor (C13 territory),
    so a rendering that would contain // is switched to the mixed style."""
    req, style = case["req"], case["style"]

    def build(st):
        n = [0]

        def sep():
            n[0] += 1
            if st == "slash":
                return "/"
            if st == "backslash":
                return "\\"
            return "/" if n[0] % 2 == 1 else "\\"
        segs = req["segs"]
        if req["base"] == "":
            out = sep() if req["abs"] else ""
        else:
            out = base_dir(case, cdir, req["base"])
            if segs:
                out += sep()
        for i, s in enumerate(segs):
            if i:
                out += sep()
            out += s
        return out
    text = build(style)
    if avoid_comment and "//" in text:
        text = build("mixed")
        if "//" in text:
            text = build("backslash")
    return text


class Materialiser:
    """Directory trees under build/work/C16/trees/.  One directory per distinct (trees, includer
    directory); the includer of a case is its own file x<case> (the model's segment "x")."""

    def __init__(self, wdir):
        self.base = os.path.join(wdir, "trees")
        self.made = {}

    def dir_for(self, case):
        cur = case["cur"]
        cur2 = case.get("cur2")
        key = json.dumps([case.get("naming", "fwd"), case["trees"], [cur["root"], cur["rel"][:-1]] if cur["has"] else None,
                          [cur2["root"], cur2["rel"][:-1]] if cur2 else None], sort_keys=True)
        d = self.made.get(key)
        if d is None:
            d = os.path.join(self.base, "t%d" % len(self.made))
            self.made[key] = d
            for r in ROOTS:
                dn = dirname_of(case, r)
                os.makedirs(os.path.join(d, dn), exist_ok=True)
                for rel in case["trees"][r]:
                    if rel[-1] in ("x", "y"):
                        continue
                    self.write(os.path.join(d, dn, *rel), 'diag_log "%s";\n' % token_of(r, rel))
                for rel in SENTINELS:   # the sibling directory <name>x: outside, although its path starts with the root's path
                    self.write(os.path.join(d, dn + "x", *rel), 'diag_log "%s";\n' % token_of("OUT", [r + "x"] + rel))
            for rel in SENTINELS:   # outside every root: must never come back
                self.write(os.path.join(d, *rel), 'diag_log "%s";\n' % token_of("OUT", rel))
        return d

    @staticmethod
    def write(path, content):
        os.makedirs(os.path.dirname(path), exist_ok=True)
        with open(path, "w") as f:
            f.write(content)

    def cleanup(self):
        shutil.rmtree(self.base, ignore_errors=True)


def driver_case(case, mat):
    """-> (driver case, trace trees).  The includer file is written here."""
    cdir = mat.dir_for(case)
    cur = case["cur"]
    ops = []
    xname = "x" + case["id"]
    if case.get("cur2"):
        # two includers in different directories with the same directive, one preprocessor run
        cur2 = case["cur2"]
        inc_text = render(case, cdir, True)
        op = {"op": "includePair", "path": inc_text}
        for c, nm, sfx in ((cur, xname, ""), (cur2, "y" + case["id"], "2")):
            rel = c["rel"][:-1] + [nm]
            mat.write(os.path.join(cdir, dirname_of(case, c["root"]), *rel), '#include "%s"\n' % inc_text)
            op["from" + sfx] = virt_text(c["virt"][:-1] + [nm])
            op["fromPhys" + sfx] = "/".join([dirname_of(case, c["root"])] + rel)
        ops.append(op)
    elif cur["has"]:
        inc_text = render(case, cdir, True)
        xrel = cur["rel"][:-1] + [xname]
        mat.write(os.path.join(cdir, dirname_of(case, cur["root"]), *xrel), '#include "%s"\n' % inc_text)
        frm = virt_text(cur["virt"][:-1] + [xname])
        ops.append({"op": "include", "path": inc_text, "from": frm, "fromPhys": "/".join([dirname_of(case, cur["root"])] + xrel)})
        ops.append({"op": "include2", "path": inc_text, "from": frm})
        ops.append({"op": "include3", "path": inc_text, "from": frm})      # the same includer twice in one preprocessor run
        # a file next to the includer includes the includer by its bare name (depth two, both hops relative)
        ops.append({"op": "include4", "path": inc_text, "from": frm, "fromPhys": "/".join([dirname_of(case, cur["root"])] + xrel)})
    else:
        text = render(case, cdir, False)
        for o in SCRIPT_OPS:
            ops.append({"op": o, "path": text})
    return {"id": case["id"], "dir": cdir,
            "mappings": [{"phys": dirname_of(case, m["root"]), "virt": virt_text(m["virt"])} for m in case["mappings"]],
            "ops": ops}


def trace_lines(case, dcase, events):
    """-> list of Case lines for TLC (a pair case gives one line per includer), and a merged record for reporting"""
    trees = {r: [list(p) for p in case["trees"][r]] for r in ROOTS}
    cur = case["cur"]
    cur2 = case.get("cur2")
    for c in (cur, cur2):
        if c and c["has"] and c["rel"] not in trees[c["root"]]:
            trees[c["root"]].append(c["rel"])
    obs = []
    begun = None
    crash = ""
    for e in events:
        if e["e"] == "Begin":
            begun = e["op"]
        elif e["e"] == "Obs":
            begun = None
            if "UNKNOWN" in (e["result"], e["result2"]):
                continue    # not observable (the preprocessor run failed elsewhere): nothing to judge
            a, b = parse_result(e["result"]), parse_result(e["result2"])
            obs.append({"op": e["op"], "k": a["k"], "root": a["root"], "rel": a["rel"], "k2": b["k"], "root2": b["root"], "rel2": b["rel"]})
        elif e["e"] == "Crash":
            crash = e.get("why", "crash") or "crash"
    crashop = begun or (dcase["ops"][0]["op"] if crash else "")
    if crashop == "includePair":
        crashop = "includeA"

    def line(c, ob, cr):
        return {"e": "Case", "id": case["id"], "mappings": case["mappings"], "trees": trees, "req": case["req"], "cur": c,
                "obs": ob, "crash": cr, "crashop": crashop if cr else ""}
    merged = line(cur, obs, crash)
    if cur2:
        return [line(cur, [o for o in obs if o["op"] != "includeB"], crash), line(cur2, [o for o in obs if o["op"] == "includeB"], "")], merged
    return [merged], merged


def describe(case, dcase):
    o = dcase["ops"][0]
    req = 'request "%s"' % o.get("path", "") + (" included from %s" % o["from"] if "from" in o else "") + (" and from %s" % o["from2"] if "from2" in o else "")
    maps = ", ".join("%s->%s" % (virt_text(m["virt"]), m["root"] + ("(dir %s)" % dirname_of(case, m["root"]) if case.get("naming", "fwd") != "fwd" else ""))
                     for m in case["mappings"])
    trees = ", ".join("%s:{%s}" % (r, " ".join("/".join(p) for p in case["trees"][r])) for r in ROOTS if case["trees"][r])
    return "mappings [%s] trees [%s] %s" % (maps, trees, req)


# ------------------------------------------------------------------------------------------------
def run_cases(cases, wdir, tag, mat, chunks=None):
    """materialise, drive, validate. -> (bad entries, totals, tlc results, trace lines by id, driver cases by id)"""
    t0 = time.time()
    dcases = [driver_case(c, mat) for c in cases]
    t1 = time.time()
    events = vlib.run_driver("vfs", dcases, wdir, kind="rel", timeout_s=4, tag=tag)
    t2 = time.time()
    by = vlib.events_by_case(events)
    lines = {}
    execs = []
    for c, d in zip(cases, dcases):
        lns, merged = trace_lines(c, d, by.get(c["id"], []))
        lines[c["id"]] = merged
        execs.append((c["id"], lns))
    bad, totals, results = vlib.validate_traces("Vfs_Trace", "Vfs_Trace.cfg", execs, wdir, tag, chunks=chunks)
    vlib.log("[C16] %s: %d cases, materialise %.1fs, driver %.1fs, TLC validation %.1fs" % (tag, len(cases), t1 - t0, t2 - t1, time.time() - t2))
    return bad, totals, results, lines, {d["id"]: d for d in dcases}


def weight(case):
    return (len(case["mappings"]), len(case["req"]["segs"]), (2 if case.get("cur2") else 1) if case["cur"]["has"] else 0, 0 if case["req"]["base"] == "" else 1,
            0 if case["style"] == "slash" else 1, 0 if case.get("naming", "fwd") == "fwd" else 1, sum(len(case["trees"][r]) for r in ROOTS))


def run(rep, tier, seed, replay):
    rng = random.Random(seed)
    vlib.build("rel")
    wdir = vlib.workdir("C16")
    mat = Materialiser(wdir)
    rep.assumptions += [
        "small scope: <=3 mappings over the virtual prefixes /, /a, /a/b, /b; <=3 disjoint physical roots; trees from 4 shapes over "
        "f, a/f, b/f, a/b/f; request segments over {a,b,f,..,''} (<=4), leading separator or not, slash/backslash/mixed rendering, "
        "absolute physical paths into a root, above a root, outside all roots and into an unmapped sibling directory whose name "
        "starts with a root's name (<root>x); the directory names of the roots are chosen so that in half of the cases the root "
        "mapped first is not the smallest path",
        "ResolvesToReference is asserted only for requests whose '..' segments are applied inside the virtual tree (nodes of mapped "
        "prefixes); for '..' inside the unmatched remainder and for absolute physical paths that lie inside a mapped root only "
        "Contained is asserted (the statement fixes nothing more)",
        "a request that names a directory (also: any request with trailing separators) is not asserted beyond Contained "
        "(NOTOKEN/EXC accepted where the reference finds no file)",
        "#include paths are never rendered with '//' (the preprocessor takes it as a comment - C13 territory): such renderings use the "
        "mixed separator style",
        "current file = an includer x in a mapped root or its directory a; script operators have no current file; pair cases: a second "
        "includer y in another directory carries the same relative directive and both are included in ONE preprocessor run (includeA / "
        "includeB), each judged against its own directory; an observation the failed run hides (UNKNOWN) is not judged",
        "an absolute physical path inside a mapped root must yield a file that one of its virtual translations (prefix of a mapping of "
        "that root + path below the root) resolves to, and must be found if one of them names a file (PhysicalPathIsTranslated); which "
        "translation wins when a root is mapped at several prefixes is not asserted",
        "observation = unique token of the file whose content came back / FileNotFound(60036) / IncludeFailed(10004) diagnostics",
        "TLC 1.8 / Json+IOUtils community modules; driver harness/cmd_vfs.cpp",
    ]
    rep.rule = ("TLC enumerates configurations (mapping sequence x tree assignment, with the possible current files) and requests; "
                "a small bounded product is replayed completely, the large product is sampled (seeded); every case is run through "
                "loadFile/preprocessFile/preprocessFileLineNumbers/execVM (no current file) or #include at depth 1 and 2 (current file) or as a pair "
                "of includers sharing one directive text in one preprocessor run, "
                "twice on independent VM instances, and judged by Vfs_Trace; non-trivial = >=2 mappings or >=2 request segments; "
                "distinct by (mappings, trees, request, current, style)")
    try:
        if replay:
            obj = json.load(open(replay))
            cases = obj["cases"]
        else:
            cases = generate(rep, tier, rng)
        rep.evaluations = sum((2 if c["cur"]["has"] else 4) for c in cases)
        rep.extra["cases"] = len(cases)
        rep.extra["distinct_nontrivial"] = len({json.dumps([c["mappings"], c["trees"], c["req"], c["cur"], c.get("cur2"), c["style"]], sort_keys=True)
                                                for c in cases if len(c["mappings"]) >= 2 or len(c["req"]["segs"]) >= 2})
        bad, totals, results, lines, dcases = run_cases(cases, wdir, "c16", mat)
        for r in results:
            rep.add_tlc(r)
        rep.traces = len(cases)
        rep.extra["ops_judged"] = totals["ops"]
        stats = {}
        for r in results:
            for k, v in r.verdicts[-1].get("stats", {}).items():
                stats[k] = stats.get(k, 0) + v
        rep.extra["cases_by_class"] = stats   # antecedents of the formulas met on real executions (non-vacuity)
        if not replay and not (stats.get("refFile") and stats.get("traversal") and stats.get("severalRootsHit") and stats.get("nestedPrefixes")):
            raise vlib.MachineryError("vacuous run: some formula's antecedent was never met: %s" % stats)
        cmap = {c["id"]: c for c in cases}
        for c in cases[:2] + cases[len(cases) // 2:len(cases) // 2 + 2] + cases[-2:]:
            rep.samples.append({"case": describe(c, dcases[c["id"]]), "observed": [[o["op"], o["k"], o["root"], "/".join(o["rel"])] for o in lines[c["id"]]["obs"]]})
        with open(os.path.join(wdir, "c16.bad.json"), "w") as f:
            json.dump([{"bad": b, "case": cmap[b["id"]], "line": lines[b["id"]]} for b in bad], f)
        groups = {}
        for b in bad:
            if b["why"].startswith("MACHINERY"):
                raise vlib.MachineryError("case void (binding): %s %s" % (b, json.dumps(cmap[b["id"]])))
            groups.setdefault("C16/%s/%s" % (b["why"], b["op"]), []).append(b)
        clusters = {}
        for b in bad:
            c = cmap[b["id"]]
            ob = [o for o in lines[b["id"]]["obs"] if o["op"] == b["op"]]
            q = c["req"]
            roots = [m["root"] for m in c["mappings"]]
            sig = "%s/%s obs=%s req=%s%s%s%s" % (b["why"], b["op"], ob[0]["k"] if ob else "crash(" + lines[b["id"]]["crash"] + ")",
                                               ("phys-" + ("out" if q["base"] == "out" else "sibling" if q["base"].endswith("x") else "root")) if q["base"] else ("abs" if q["abs"] else "rel"),
                                               " dotdot" if ".." in q["segs"] else "", " backslash" if c["style"] != "slash" and q["segs"] else "",
                                               " root-mapped-twice" if len(set(roots)) < len(roots) else "")
            ent = clusters.setdefault(sig, {"count": 0, "witness": None, "w": None})
            ent["count"] += 1
            if ent["w"] is None or weight(c) < ent["w"]:
                ent["w"] = weight(c)
                ent["witness"] = describe(c, dcases[c["id"]])
        rep.extra["finding_clusters"] = [{"cluster": k, "count": v["count"], "witness": v["witness"]} for k, v in sorted(clusters.items())]
        # ---- confirm one minimal witness per key on a fresh run in its own directory
        witnesses = {}
        for key, bs in sorted(groups.items()):
            b = min(bs, key=lambda x: weight(cmap[x["id"]]))
            w = dict(cmap[b["id"]])
            w["id"] = "w%d" % len(witnesses)
            witnesses[key] = w
        if witnesses:
            mat2 = Materialiser(os.path.join(wdir, "confirm"))
            wl = list(witnesses.values())
            bad2, _, _, lines2, dcases2 = run_cases(wl, wdir, "c16confirm", mat2, chunks=1)
            again = {}
            for b in bad2:
                again.setdefault((b["id"], "C16/%s/%s" % (b["why"], b["op"])), b)
            for key, w in sorted(witnesses.items()):
                if (w["id"], key) not in again:
                    rep.notes.append("rejection %s did not repeat on %s" % (key, describe(w, dcases2[w["id"]])))
                    continue
                ob = [o for o in lines2[w["id"]]["obs"] if o["op"] == key.split("/")[2]]
                seen = ("%s %s/%s" % (ob[0]["k"], ob[0]["root"], "/".join(ob[0]["rel"]))) if ob else ("crash: " + lines2[w["id"]]["crash"])
                kop = key.split("/")[2]
                dops = [o for o in dcases2[w["id"]]["ops"] if o["op"] == ("includePair" if kop in ("includeA", "includeB") else kop)]
                what = "%s: %s %s -> observed %s" % (key.split("/")[1], describe(w, dcases2[w["id"]]).split(" request ")[0],
                                                     json.dumps(dops[0] if dops else {}), seen)
                rep.finding(key, what, {"property": "C16", "key": key, "cases": [w], "driver_case": dcases2[w["id"]],
                                        "observed": lines2[w["id"]], "verdict": again[(w["id"], key)],
                                        "note": "the directory tree is re-materialised from cases[0] (trees, cur) on replay"})
                rep.found[key]["count"] += len(groups[key]) - 1
            mat2.cleanup()
    finally:
        mat.cleanup()


# ------------------------------------------------------------------------------------------------
def second_includer(c):
    """the second includer of a pair is the model's segment y (the first one is x)"""
    return dict(c, virt=c["virt"][:-1] + ["y"], rel=c["rel"][:-1] + ["y"])


def generate(rep, tier, rng):
    quick = tier == "quick"
    t0 = time.time()
    # ---- 1. design check: the reference satisfies every formula on the complete product
    r = vlib.tlc("Vfs_MC", mc_cfg("mc_ref", "product", maxmaps=2, nroots=2, shapes=("empty", "full") if quick else ("empty", "full", "deep"),
                                  maxlen=3, bases=("", "out", "r1", "r3", "r1x")), workers=vlib.NCPU, timeout_s=1500, xmx="16g")
    if not r.ok:
        raise vlib.MachineryError("design check: the reference violates %s\n%s" % (r.violated, (r.error or r.trace_text)[:1500]))
    rep.add_tlc(r, "Vfs_MC reference: all formulas on the complete product (<=2 mappings, requests <=3)")
    if not quick:
        r = vlib.tlc("Vfs_MC", mc_cfg("mc_ref3", "product", maxmaps=3, nroots=3, shapes=("empty", "full"), maxlen=3, bases=("",)),
                     workers=vlib.NCPU, timeout_s=3000, xmx="16g")
        if not r.ok:
            raise vlib.MachineryError("design check (3 mappings): the reference violates %s" % r.violated)
        rep.add_tlc(r, "Vfs_MC reference: <=3 mappings, 3 roots, requests <=3")
        r = vlib.tlc("Vfs_MC", mc_cfg("mc_ref4", "product", maxmaps=2, nroots=2, shapes=("empty", "full"), maxlen=4, bases=("",)),
                     workers=vlib.NCPU, timeout_s=3000, xmx="16g")
        if not r.ok:
            raise vlib.MachineryError("design check (requests <=4): the reference violates %s" % r.violated)
        rep.add_tlc(r, "Vfs_MC reference: <=2 mappings, requests <=4")
    # the algorithm as read from get_info_virtual: refuted on ResolvesToReference (non-vacuity), contained (prediction)
    r2 = vlib.tlc("Vfs_MC", mc_cfg("mc_code", "product", variant="code", maxmaps=2, nroots=2, shapes=("empty", "full"), maxlen=3, bases=("",),
                                   invariants=["InvReference"]), workers=4, timeout_s=600)
    if r2.violated != "InvReference":
        raise vlib.MachineryError("vacuity self-test: the transcribed code must be refuted on InvReference, TLC said %s %s" % (r2.violated, r2.error))
    rep.design_runs.append({"what": "transcribed get_info_virtual refuted on ResolvesToReference (non-vacuity)", "generated": r2.generated, "distinct": r2.distinct})
    r3 = vlib.tlc("Vfs_MC", mc_cfg("mc_code_c", "product", variant="code", maxmaps=2, nroots=2, shapes=("empty", "full"), maxlen=3, bases=("",),
                                   invariants=["InvContained"]), workers=vlib.NCPU, timeout_s=900)
    rep.design_runs.append({"what": "transcribed get_info_virtual satisfies Contained (prediction): %s" % ("yes" if r3.ok else "NO: " + str(r3.violated)),
                            "generated": r3.generated, "distinct": r3.distinct})
    vlib.log("[C16] design checks %.1fs" % (time.time() - t0))
    # ---- 2. two small bounded products, replayed completely (r3 is never mapped there: it keeps the full shape, as 'outside')
    cases = []
    npairs = 0
    for nm, prefixes in (("a", ("", "a")), ("ab", ("", "ab"))):
        g = vlib.tlc("Vfs_MC", mc_cfg("gen_small_" + nm, "product", emit=True, maxmaps=2, nroots=2, prefixes=prefixes, shapes=("empty", "full"),
                                      maxlen=2 if quick else 3, bases=("",) if quick else ("", "out", "r1", "r3", "r1x"), invariants=[]),
                     workers=vlib.NCPU, timeout_s=1500, xmx="8g")
        if not g.ok:
            raise vlib.MachineryError("generator (small product) failed: %s" % (g.error or g.violated))
        rep.add_tlc(g, "Vfs_MC generator: complete product of the small space with prefixes %s (every case emitted)" % (prefixes,))
        small = [c for c in (json.loads(p) for p in g.prints) if len(c["trees"]["r3"]) > 0]
        groups = {}
        for c in small:
            i = len(cases)
            cases.append({"id": "s%d" % i, "mappings": c["mappings"], "trees": c["trees"], "req": dict(c["req"], style=STYLES[i % 3]),
                          "cur": c["cur"], "style": STYLES[i % 3], "naming": ("fwd", "rev")[(i // 3) % 2]})
            if c["cur"]["has"] and not c["req"]["abs"] and c["req"]["base"] == "":
                groups.setdefault(json.dumps([c["mappings"], c["trees"], c["req"]], sort_keys=True), []).append(c)
        # pairs: the same relative directive in two includers of different directories, ONE preprocessor run (quick: neighbours
        # in the enumeration of the current files of a configuration, thorough: every unordered pair; the order alternates)
        for grp in groups.values():
            for a in range(len(grp)):
                for b in range(a + 1, min(len(grp), a + 2) if quick else len(grp)):
                    c1, c2 = (grp[a], grp[b]) if (a + b + len(cases)) % 2 else (grp[b], grp[a])
                    if c1["cur"]["virt"][:-1] == c2["cur"]["virt"][:-1]:
                        continue
                    i = len(cases)
                    cases.append({"id": "s%d" % i, "mappings": c1["mappings"], "trees": c1["trees"], "req": dict(c1["req"], style=STYLES[i % 3]),
                                  "cur": c1["cur"], "cur2": second_includer(c2["cur"]), "style": STYLES[i % 3], "naming": ("fwd", "rev")[(i // 3) % 2]})
                    npairs += 1
    # absolute physical paths into the roots of nested prefixes added parent-first and child-first (script operators)
    g = vlib.tlc("Vfs_MC", mc_cfg("gen_small_phys", "product", emit=True, maxmaps=2, nroots=2, prefixes=("a", "ab"), shapes=("empty", "full"),
                                  maxlen=2, bases=("r1", "r2", "r1x"), invariants=[]), workers=vlib.NCPU, timeout_s=1500, xmx="8g")
    if not g.ok:
        raise vlib.MachineryError("generator (small physical product) failed: %s" % (g.error or g.violated))
    rep.add_tlc(g, "Vfs_MC generator: complete product of physical requests x configurations over the prefixes /a, /a/b")
    for c in (json.loads(p) for p in g.prints):
        if len(c["trees"]["r3"]) > 0 and not c["cur"]["has"]:
            i = len(cases)
            cases.append({"id": "s%d" % i, "mappings": c["mappings"], "trees": c["trees"], "req": dict(c["req"], style=STYLES[i % 3]),
                          "cur": c["cur"], "style": STYLES[i % 3], "naming": ("fwd", "rev")[(i // 3) % 2]})
    rep.extra["small_space_pairs"] = npairs
    rep.exhaustive = True
    rep.extra["small_space_cases"] = len(cases)
    # ---- 3. the large space: configurations x requests enumerated by TLC, product sampled
    gc = vlib.tlc("Vfs_MC", mc_cfg("gen_cfgs", "configs", emit=True, maxmaps=3, nroots=3, shapes=("empty", "full", "deep", "top"), invariants=[]),
                  workers=vlib.NCPU, timeout_s=1500, xmx="8g")
    gq = vlib.tlc("Vfs_MC", mc_cfg("gen_reqs", "requests", emit=True, maxlen=4, invariants=[]), workers=4, timeout_s=600)
    if not gc.ok or not gq.ok:
        raise vlib.MachineryError("generator (configs/requests) failed: %s %s" % (gc.error or gc.violated, gq.error or gq.violated))
    rep.add_tlc(gc, "Vfs_MC generator: all configurations (<=3 mappings, 3 roots, 4 tree shapes)")
    rep.add_tlc(gq, "Vfs_MC generator: all requests (<=4 segments, virtual and physical)")
    cfgs = [json.loads(p) for p in gc.prints]
    reqs = [json.loads(p)["req"] for p in gq.prints]
    rep.extra["configurations"] = len(cfgs)
    rep.extra["requests"] = len(reqs)
    rep.extra["large_space_size"] = sum(1 + len(c["currents"]) for c in cfgs) * len(reqs)
    vlib.log("[C16] generators done at %.1fs" % (time.time() - t0))
    n = 3000 if quick else 120000
    # stratified: number of mappings and request length / kind are drawn first (uniform draws from the plain product would be
    # dominated by 3-mapping configurations and 4-segment requests that name nothing)
    cfg_by = {}
    for c in cfgs:
        cfg_by.setdefault(len(c["mappings"]), []).append(c)
    req_by = {}
    for q in reqs:
        req_by.setdefault(("phys" if q["base"] else "virt", len(q["segs"])), []).append(q)
    cfg_keys, req_keys = sorted(cfg_by), sorted(req_by)
    for i in range(n):
        c = rng.choice(cfg_by[rng.choice(cfg_keys)])
        q = rng.choice(req_by[rng.choice(req_keys)])
        cur = rng.choice(c["currents"]) if (c["currents"] and rng.random() < 0.4) else NOCUR
        st = rng.choice(STYLES)
        case = {"id": "g%d" % i, "mappings": c["mappings"], "trees": c["trees"], "req": dict(q, style=st), "cur": cur, "style": st, "naming": rng.choice(("fwd", "rev"))}
        if cur["has"] and q["base"] == "" and not q["abs"] and rng.random() < 0.5:
            others = [o for o in c["currents"] if o["virt"][:-1] != cur["virt"][:-1]]
            if others:
                case["cur2"] = second_includer(rng.choice(others))
        cases.append(case)
    return cases
