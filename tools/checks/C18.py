"""C18 - C API contract: truthful return codes, complete logging, reusable instances.

spec/Api.tla: instances with persistent globals/config, one action per exported function and input
kind, documented return codes, IdleAfterCall / OnlyGlobalsAndConfigPersist / InstancesIndependent;
Api_MC: all call histories up to a depth on two instances (design check + generator);
Api_Trace: the histories replayed through the real exported functions (sqfvm_*), validated by TLC.
"""
import json
import os
import random

import vlib

LEVEL = "model_checking"
SQF = ["setg1", "setg2", "readg", "readcfg", "ppfail", "parsefail", "rterr", "rterr_spawned", "endless", "sleeper", "yielder", "napper", "napper", "empty", "evalerr", "verbose"]
CFG = ["cfgok", "cfgparsefail", "cfgppfail", "cfgevalerr"]


def mc_cfg(name, depth, emit, dead=True, insts="{1, 2}"):
    p = os.path.join(vlib.SPEC, "gen_%s.cfg" % name)
    open(p, "w").write("SPECIFICATION Spec\nCONSTANTS\n  Insts = %s\n  DeadlineIsFailure = %s\n  Depth = %d\n  Emit = %s\nVIEW %s\nINVARIANTS InvIdle InvPersist InvIndependent\n"
                       % (insts, "TRUE" if dead else "FALSE", depth, "TRUE" if emit else "FALSE", "View" if emit else "ViewStep"))
    return os.path.basename(p)


# handles that are no instance: NULL, and readable memory that does not carry the tag "SQFE" (zeros, every tag with one byte off, a shorter tag)
HANDLES = ["null", "zeros", "XQFE", "SXFE", "SQXE", "SQFX", "SQF0", "sqfe"]


def handle_histories():
    """every kind of invalid handle with every entry point, between calls on a live instance"""
    out = []
    for hk in HANDLES:
        for what in ("call", "callempty", "config", "status"):
            out.append([{"op": "create", "i": 1, "limited": False}, {"op": "call", "i": 1, "type": "s", "kind": "setg1"},
                        {"op": "null", "i": 0, "what": what, "hk": hk}, {"op": "status", "i": 1}, {"op": "call", "i": 1, "type": "s", "kind": "readg"}])
    return out


def random_histories(rng, n, length):
    out = []
    for _ in range(n):
        alive = {}
        h = []
        for _ in range(length):
            i = rng.choice([1, 2])
            r = rng.random()
            if i not in alive:
                alive[i] = rng.random() < 0.6
                h.append({"op": "create", "i": i, "limited": alive[i]})
                continue
            if r < 0.05:
                h.append({"op": "destroy", "i": i})
                del alive[i]
            elif r < 0.1:
                h.append({"op": "status", "i": i})
            elif r < 0.15:
                h.append({"op": "null", "i": 0, "what": rng.choice(["call", "callempty", "config", "status"]), "hk": rng.choice(HANDLES)})
            elif r < 0.3:
                h.append({"op": "config", "i": i, "kind": rng.choice(CFG)})
            elif r < 0.4:
                h.append({"op": "call", "i": i, "type": rng.choice(["p", "1", "?"]), "kind": rng.choice(["setg1", "ppfail", "parsefail", "empty", "evalerr"])})
            else:
                k = rng.choice(SQF)
                if k in ("endless", "sleeper", "yielder") and not alive[i]:
                    k = "readg"
                h.append({"op": "call", "i": i, "type": "s", "kind": k})
        out.append(h)
    return out


def run(rep, tier, seed, replay):
    rng = random.Random(seed)
    vlib.build("rel")
    wdir = vlib.workdir("C18")
    rep.assumptions += [
        "time is the guarded virtual clock (1 ms per query, 1 s between calls); the limited instances have max_runtime 0.3 s",
        "an invalid handle is the NULL pointer or readable memory (256 bytes) that does not start with the instance tag: zeros, the tag with one byte changed, a shorter tag, the tag in lower case (a destroyed handle is freed memory and not passed again)",
        "persistence is probed by a later call that logs the probe global / a config entry; callback data are checked for every callback invocation",
        "type 'a' (assembly) is exercised by three hand-written histories only (one valid text, two that are not assembly); 'c' (SQC, not built) counts as unknown type; exit__ inside a call is not asserted",
    ]
    if replay:
        cases = [json.load(open(replay))["case"]]
    else:
        d = 3 if tier == "quick" else 4
        m = vlib.tlc("Api_MC", mc_cfg("api_mc", d + 1 if tier == "quick" else d, False), workers=vlib.NCPU, timeout_s=1500, xmx="16g")
        if not m.ok:
            raise vlib.MachineryError("Api design check failed: %s %s" % (m.violated, (m.error or "")[:400]))
        rep.add_tlc(m, "Api_MC ideal")
        g = vlib.tlc("Api_MC", mc_cfg("api_gen", d, True), workers=vlib.NCPU, timeout_s=1500, xmx="16g")
        if not g.ok:
            raise vlib.MachineryError("Api generator failed: %s" % (g.error or g.violated))
        rep.add_tlc(g, "Api_MC generator depth %d" % d)
        hists = [json.loads(p) for p in g.prints]
        hists += random_histories(rng, 500 if tier == "quick" else 10000, 12)
        hists += handle_histories()
        for k in ("asmok", "asmbad", "asmrecover"):
            hists.append([{"op": "create", "i": 1, "limited": False}, {"op": "call", "i": 1, "type": "a", "kind": k}, {"op": "call", "i": 1, "type": "s", "kind": "readg"}])
        cases = [{"id": "h%d" % i, "ops": h} for i, h in enumerate(hists)]
        rep.exhaustive = True
    rep.evaluations = len(cases)
    rep.rule = "every transition of the bounded Api_MC graph (2 instances) as a call history + seeded random histories of 12 calls; distinct by history; non-trivial = >= 2 calls"
    rep.extra["distinct_nontrivial"] = len({json.dumps(c["ops"], sort_keys=True) for c in cases if len(c["ops"]) >= 2})
    is_asm = lambda c: any(o.get("type") == "a" for o in c["ops"])
    events = vlib.run_driver("api", [c for c in cases if not is_asm(c)], wdir, kind="rel", timeout_s=15)
    if any(is_asm(c) for c in cases):
        # (a short watchdog: the assembly front end is known to hang, see known_findings.json)
        events += vlib.run_driver("api", [c for c in cases if is_asm(c)], wdir, kind="rel", timeout_s=4, tag="asm")
    by = vlib.events_by_case(events)
    execs = [(c["id"], [e for e in by.get(c["id"], []) if e["e"] in ("Api", "Crash")]) for c in cases]
    bad, totals, results = vlib.validate_traces("Api_Trace", "Api_Trace.cfg", execs, wdir, "c18")
    for x in results:
        rep.add_tlc(x)
    rep.traces = len(execs)
    rep.extra["calls_validated"] = totals["ops"]
    cmap = {c["id"]: c for c in cases}
    for c in cases[:2] + cases[-2:]:
        rep.samples.append({"history": c["ops"]})
    groups = {}
    for b in bad:
        if b["why"].startswith("MACHINERY"):
            raise vlib.MachineryError("generator produced a call the spec does not enable: %s" % b)
        opname = b["op"]
        if b["why"] == "NeverCrashes":
            done = len([e for e in by.get(b["id"], []) if e["e"] == "Api"])
            ops = cmap[b["id"]]["ops"]
            o = ops[min(done, len(ops) - 1)]
            opname = o["op"] + (":" + o.get("type", "") + ":" + o.get("kind", "") if o["op"] == "call" else ":" + o.get("kind", "") if o["op"] == "config" else "")
        groups.setdefault("C18/%s/%s" % (b["why"], opname), []).append(b)
    for key, bs in sorted(groups.items()):
        b = min(bs, key=lambda x: len(cmap[x["id"]]["ops"]))
        case = cmap[b["id"]]
        ev2 = vlib.run_driver("api", [case], wdir, kind="rel", timeout_s=15, jobs=1, tag="confirm")
        ex2 = [(case["id"], [e for e in ev2 if e["e"] in ("Api", "Crash")])]
        bad2, _, _ = vlib.validate_traces("Api_Trace", "Api_Trace.cfg", ex2, wdir, "c18confirm", chunks=1)
        if not bad2:
            rep.notes.append("rejection %s did not repeat" % key)
            continue
        rep.finding(key, "%s at %s in history %s" % (b["why"], b["op"], case["ops"]), {"property": "C18", "key": key, "case": case, "observed": ex2[0][1], "verdict": bad2})
        rep.found[key]["count"] += len(bs) - 1
