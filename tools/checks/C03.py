"""C03 - variable scoping: dynamic local lookup, private, namespaces, case-insensitivity.

Same reference semantics (spec/SqfRef.tla) and oracle as C02; the generator adds the scoping alphabet:
reads / assignments / private / params of local and global names in every letter case at every nesting
level, isNil probes, stale bindings across loop iterations, spawned code, with-namespace blocks,
getVariable / setVariable, allVariables.
"""
import json
import os
import random

import gen_prog as G
import vlib
from checks import C02

LEVEL = "model_checking"
LOCALS = ["_a", "_A", "_b"]
GLOBALS = ["g", "G", "h"]
NS = ["mission", "ui"]


def rd(name):
    """marker that prints the value of a variable (nil prints as [nil])"""
    return G.mark(G.arr(G.var(name)))


def probe(name):
    return G.mark({"k": "isnils", "name": name})


class ScopeGen:
    def __init__(self, rng):
        self.rng = rng
        self.n = 0

    def val(self):
        self.n += 1
        # now and then the value is nil: the name stays bound (to nil) where it is
        if self.rng.random() < 0.12:
            return {"k": "nil"}
        return G.num(self.n)

    def stmt(self, d, in_ns):
        r = self.rng
        kinds = ["read", "read", "assign", "assign", "private", "probe", "readg", "assigng", "setvar", "getvar", "privates"]
        if d > 0:
            kinds += ["call", "if", "foreach", "while", "for", "within", "callparams", "count", "switch", "try"]
        k = r.choice(kinds)
        if k == "read":
            return [rd(r.choice(LOCALS))]
        if k == "readg":
            return [rd(r.choice(GLOBALS))]
        if k == "assign":
            return [G.assign(r.choice(LOCALS), self.val())]
        if k == "assigng":
            return [G.assign(r.choice(GLOBALS), self.val())]
        if k == "private":
            return [{"k": "private", "name": r.choice(LOCALS), "x": self.val()}]
        if k == "privates":
            return [{"k": "privates", "name": r.choice(LOCALS)}]
        if k == "probe":
            return [probe(r.choice(LOCALS + GLOBALS))]
        if k == "setvar":
            return [{"k": "setvar", "ns": r.choice(NS), "name": r.choice(GLOBALS), "x": self.val()}]
        if k == "getvar":
            return [G.mark(G.arr({"k": "getvar", "ns": r.choice(NS), "name": r.choice(GLOBALS)}))]
        body = self.block(d - 1, in_ns)
        if k == "call":
            return [G.st_expr(G.call(body))]
        if k == "if":
            return [G.st_expr({"k": "if", "c": G.boolean(True), "th": body, "el": None})]
        if k == "foreach":
            return [{"k": "foreach", "body": [probe(r.choice(LOCALS))] + body, "arr": G.arr(G.num(1), G.num(2))}]
        if k == "count":
            return [G.st_expr({"k": "fcount", "body": [probe(r.choice(LOCALS))] + body + [G.st_expr(G.boolean(True))], "arr": G.arr(G.num(1), G.num(2))})]
        if k == "while":
            self.n += 1
            c = "gw%d" % self.n
            # the condition block may bind locals of its own: they are gone when the body runs
            pre = [{"k": "private", "name": r.choice(LOCALS), "x": self.val()}] if r.random() < 0.4 else []
            return [G.assign(c, G.num(0)), {"k": "while", "c": pre + [G.st_expr(G.binop("<", G.var(c), G.num(2)))],
                                            "body": [probe(r.choice(LOCALS))] + body + [G.assign(c, G.binop("+", G.var(c), G.num(1)))]}]
        if k == "for":
            return [{"k": "for", "var": "_i", "from": G.num(0), "to": G.num(1), "body": [probe(r.choice(LOCALS))] + body}]
        if k == "within":
            ns = r.choice(NS)
            return [G.st_expr({"k": "within", "ns": ns, "body": self.block(d - 1, ns)})]
        if k == "callparams":
            # fewer arguments than names: the missing names are still bound (to nil) in the callee's scope
            args = [self.val() for _ in range(r.choice([0, 1, 2, 2]))]
            return [G.st_expr({"k": "callw", "arg": G.arr(*args), "body": [{"k": "params", "names": [r.choice(LOCALS), r.choice(LOCALS + ["_p2"])]}] + body})]
        if k == "switch":
            return [G.st_expr({"k": "switch", "v": G.num(1), "body": [{"k": "case", "x": G.num(1), "body": body}]})]
        if k == "try":
            return [G.st_expr({"k": "try", "body": body + [{"k": "throw", "x": G.num(0)}], "handler": [rd(r.choice(LOCALS))]})]
        raise ValueError(k)

    def block(self, d, in_ns):
        out = []
        for _ in range(self.rng.randint(1, 4)):
            out += self.stmt(d, in_ns)
        return out

    def program(self):
        prog = self.block(3, "mission")
        if self.rng.random() < 0.3:
            # spawned code sees none of the starter's locals (it runs after the starter: the main script is not preempted)
            sp = {"k": "spawn", "body": [probe("_a"), probe("_A"), rd("g"), G.assign("_a", self.val()), rd("_a"), G.assign("h", self.val()), G.st_expr(G.call([G.assign("g", self.val()), rd("g")]))]}
            if self.rng.random() < 0.5:
                # started inside a with-do block: the new script has no enclosing with-do, its globals are the mission's
                sp = G.st_expr({"k": "within", "ns": self.rng.choice(["ui", "parsing"]), "body": [G.assign("g", self.val()), sp, rd("g")]})
            prog = [{"k": "private", "name": "_a", "x": self.val()}] + prog + [sp]
        prog.append(G.mark(G.arr(G.var("g"), G.var("h"), {"k": "getvar", "ns": "ui", "name": "g"}, {"k": "getvar", "ns": "ui", "name": "h"})))
        return prog


def systematic():
    n, v, A, M = G.num, G.var, G.arr, G.mark
    progs = []
    def P(*st):
        progs.append(list(st))
    # innermost first through the dynamic chain
    P({"k": "private", "name": "_a", "x": n(1)}, G.st_expr(G.call([rd("_a"), {"k": "private", "name": "_a", "x": n(2)}, rd("_a"), G.st_expr(G.call([rd("_A")]))])), rd("_a"))
    # plain assignment updates the nearest holder, otherwise creates in the current scope
    P({"k": "private", "name": "_a", "x": n(1)}, G.st_expr(G.call([G.assign("_A", n(2)), G.assign("_b", n(3)), rd("_b")])), rd("_a"), rd("_b"))
    P(G.st_expr(G.call([G.assign("_a", n(2))])), rd("_a"))
    # bindings disappear with their scope, also per iteration
    P({"k": "foreach", "body": [probe("_s"), {"k": "private", "name": "_s", "x": v("_x")}, rd("_s")], "arr": A(n(1), n(2))}, probe("_s"), probe("_x"))
    P({"k": "for", "var": "_i", "from": n(0), "to": n(1), "body": [probe("_s"), G.assign("_s", n(5)), rd("_s")]}, probe("_i"), probe("_s"))
    P(G.assign("gw", n(0)), {"k": "while", "c": [G.st_expr(G.binop("<", v("gw"), n(2)))], "body": [probe("_s"), G.assign("_s", n(5)), G.assign("gw", G.binop("+", v("gw"), n(1)))]}, probe("_s"))
    # locals bound by the condition block of while are gone in the body; the body's assignment reaches the outer holder
    P({"k": "private", "name": "_a", "x": n(100)}, G.assign("gw", n(0)),
      {"k": "while", "c": [{"k": "private", "name": "_a", "x": n(1)}, {"k": "private", "name": "_b", "x": n(2)}, G.st_expr(G.binop("<", v("gw"), n(2)))],
       "body": [probe("_b"), rd("_a"), G.assign("_a", n(5)), G.assign("gw", G.binop("+", v("gw"), n(1)))]}, rd("_a"))
    # a name assigned nil stays bound where it is
    P({"k": "private", "name": "_a", "x": n(1)}, G.assign("_a", {"k": "nil"}), G.st_expr(G.call([G.assign("_A", n(2))])), rd("_a"))
    P({"k": "private", "name": "_a", "x": n(1)}, G.st_expr(G.call([{"k": "private", "name": "_a", "x": n(2)}, G.assign("_a", {"k": "nil"}), rd("_a"), G.assign("_a", n(3)), rd("_a")])), rd("_a"))
    # params / private bind in the current scope
    P({"k": "private", "name": "_a", "x": n(1)}, G.st_expr({"k": "callw", "arg": A(n(7), n(8)), "body": [{"k": "params", "names": ["_a", "_b"]}, rd("_a"), rd("_b")]}), rd("_a"), probe("_b"))
    P({"k": "private", "name": "_b", "x": n(1)}, G.st_expr({"k": "callw", "arg": A(n(7)), "body": [{"k": "params", "names": ["_a", "_B"]}, probe("_b"), G.assign("_b", n(5)), rd("_b")]}), rd("_b"))
    P({"k": "private", "name": "_a", "x": n(1)}, G.st_expr({"k": "callw", "arg": A(), "body": [{"k": "params", "names": ["_A", "_b"]}, rd("_a"), G.assign("_a", n(5))]}), rd("_a"))
    P({"k": "private", "name": "_a", "x": n(1)}, G.st_expr(G.call([{"k": "privates", "name": "_a"}, probe("_a"), G.assign("_a", n(2)), rd("_a")])), rd("_a"))
    # spawn sees none of the starter's locals
    P({"k": "private", "name": "_a", "x": n(1)}, G.assign("g", n(3)), {"k": "spawn", "body": [probe("_a"), rd("g")]}, rd("_a"))
    # ... and nothing of the starter's with-do: a script started inside `with uiNamespace do` resolves its globals in the mission namespace
    for wrap in ("direct", "call"):
        sp = {"k": "spawn", "body": [rd("g"), G.assign("h", n(7)), rd("h"), G.st_expr(G.call([G.assign("g", n(8)), rd("g")]))]}
        inner = [sp] if wrap == "direct" else [G.st_expr(G.call([sp]))]
        P(G.assign("g", n(1)), {"k": "setvar", "ns": "ui", "name": "g", "x": n(2)}, G.st_expr({"k": "within", "ns": "ui", "body": [rd("g")] + inner + [rd("g")]}), rd("g"),
          M(A({"k": "getvar", "ns": "ui", "name": "g"}, {"k": "getvar", "ns": "ui", "name": "h"}, {"k": "getvar", "ns": "mission", "name": "h"})))
    # globals: case-insensitive, namespace of the innermost dynamically enclosing with-do
    P(G.assign("g", n(1)), rd("G"), G.assign("G", n(2)), rd("g"))
    for inner in ("direct", "call", "if", "foreach", "nested-with"):
        body = [G.assign("g", n(5)), rd("g")]
        if inner == "call":
            body = [G.st_expr(G.call(body))]
        elif inner == "if":
            body = [G.st_expr({"k": "if", "c": G.boolean(True), "th": body, "el": None})]
        elif inner == "foreach":
            body = [{"k": "foreach", "body": body, "arr": A(n(1))}]
        elif inner == "nested-with":
            body = [G.st_expr({"k": "within", "ns": "mission", "body": [G.assign("g", n(6))]}), G.assign("g", n(5)), rd("g")]
        P(G.assign("g", n(1)), G.st_expr({"k": "within", "ns": "ui", "body": body}), rd("g"),
          M(A({"k": "getvar", "ns": "ui", "name": "G"}, {"k": "getvar", "ns": "mission", "name": "g"})))
    # getVariable / setVariable hit the same storage
    P({"k": "setvar", "ns": "mission", "name": "G", "x": n(4)}, rd("g"), G.assign("h", n(5)), M(A({"k": "getvar", "ns": "mission", "name": "H"})),
      {"k": "setvar", "ns": "ui", "name": "g", "x": n(6)}, rd("g"), G.st_expr({"k": "within", "ns": "ui", "body": [rd("g")]}))
    P(M({"k": "allvars", "ns": "ui"}), {"k": "setvar", "ns": "ui", "name": "g", "x": n(1)}, {"k": "setvar", "ns": "ui", "name": "G", "x": n(2)}, M({"k": "allvars", "ns": "ui"}))
    return progs


def run(rep, tier, seed, replay):
    rng = random.Random(seed)
    vlib.build("rel")
    wdir = vlib.workdir("C03")
    rep.assumptions += [
        "same reference semantics and oracle as C02 (spec/SqfRef.tla); values read are observed through marker statements printing [value] or isNil \"name\"",
        "spawned code is placed at the end of the script and the main script is not preempted (slice override H2), so the reference may run it after the starter",
        "allVariables is probed on uiNamespace only (count of names that hold a value)",
    ]
    if replay:
        c = json.load(open(replay))["case"]
        cases = [C02.to_case(c["id"], c["prog"])]
    else:
        C02.design_check(rep)
        r = None
        # named deviation: blocks nested in `with ns do` resolve globals in the default namespace (DESIGN.md F3a) - must change the reference's answer
        cases = [C02.to_case("sys%d" % i, p) for i, p in enumerate(systematic())]
        n = 1500 if tier == "quick" else 30000
        for i in range(n):
            cases.append(C02.to_case("rnd%d" % i, ScopeGen(rng).program()))
    for c in cases:
        c["scripts"] = [{"name": "main", "text": c["text"], "suspend": False}]
        c["slice"] = 1000000
    rep.evaluations = len(cases)
    rep.rule = ("hand-enumerated scoping cases (shadowing, nearest holder, per-iteration clearing, params/private, spawn, case variants, with-do around every block kind, getVariable/setVariable, allVariables) "
                "+ seeded random nestings of the scoping alphabet (depth 3); distinct by text; non-trivial = all")
    rep.extra["distinct_nontrivial"] = len({c["text"] for c in cases})
    lines = C02.validate(rep, cases, wdir, "c03", "C03")
    if not replay:
        # named deviation (the pinned tree before the fix): scopes nested in with-do use the default namespace.
        # The reference with that deviation must disagree with the observed logs of the with-do cases.
        cfgp = os.path.join(vlib.SPEC, "gen_ref_nons.cfg")
        open(cfgp, "w").write("SPECIFICATION TraceSpec\nCONSTANTS\n  Mut = \"none\"\n  LoopFuel = 60\n  NestedBlocksInheritNamespace = FALSE\nCHECK_DEADLOCK FALSE\n")
        sysl = [l for l in lines if l.get("e") == "Prog" and l["id"].startswith("sys")]
        bad, _, _ = vlib.validate_traces("SqfRef_Trace", os.path.basename(cfgp), [("nons", sysl)], wdir, "c03nons", chunks=1, xmx="4g", timeout_s=600)
        if len(bad) < 3:
            raise vlib.MachineryError("non-vacuity: the default-namespace deviation explains the with-do observations (%d rejected)" % len(bad))
        rep.design_runs.append({"what": "deviation NestedBlocksInheritNamespace=FALSE rejects %d of the hand-enumerated cases (non-vacuity of the namespace clause)" % len(bad)})
    for c in cases[:2] + cases[-2:]:
        rep.samples.append({"program": c["text"]})
