"""C11 - execution bounds: maximum runtime per run, loop cap in unscheduled code.

spec/Limits.tla: formulas RunEndsInTime, AbortIsReported, VmEmptyAfterAbort, LaterRunsUnaffected,
WhileCapped; Limits_MC: abstract VM with virtual clock over run histories (ideal holds; deviations
BudgetFromConstruction, NoDeadlineWhileAsleep, EmptyBodyNotCounted are refuted); Limits_Trace: run
records of the real VM under the guarded virtual clock judged by the same formulas.
"""
import json
import os
import random
import re

import vlib

LEVEL = "model_checking"
MAXMS = 3000
SLACK = 10

ENDLESS = {
    "while-unscheduled": ("gA = 0; while {true} do {gA = gA + 1; gA};", False),
    "while-scheduled": ("gA = 0; while {true} do {gA = gA + 1};", True),
    "while-empty-body": ("while {true} do {};", True),
    "for-step0": ('for "_i" from 0 to 1 step 0 do {gA = 1};', False),
    "for-step0-empty-body": ('for "_i" from 0 to 1 step 0 do {};', False),
    "for-huge-empty-body": ('for "_i" from 0 to 100000000 do {};', True),
    "recursion": ("gF = {call gF}; call gF;", False),
    "recursion-args": ("gF = {(_this + 1) call gF}; 0 call gF;", False),
    "mutual-spawn": ("gF = {[] spawn gG}; gG = {[] spawn gF}; [] spawn gF; [] spawn gG;", True),
    "spawn-chain-busy": ("gF = {[] spawn gF; gA = 0; while {true} do {gA = gA + 1}}; [] spawn gF;", True),
    "foreach-growing": ("gL = [1]; {gL pushBack _x} forEach gL;", False),
    "long-sleep": ("sleep 100;", True),
    "sleep-loop": ("while {true} do {sleep 1};", True),
    "two-sleepers": ("[] spawn {sleep 50}; sleep 70;", True),
    # a start request made while the run is in progress is refused; the run's budget is not the requester's to renew
    "start-request-loop": ('for "_i" from 0 to 1 step 0 do {vmctrl__ "start"};', False),
    "start-request-loop-scheduled": ('gA = 0; while {true} do {gA = gA + 1; vmctrl__ "start"};', True),
    # expressions evaluated while the run is in progress (preprocessing a text with __EVAL from a script) belong to that run
    "eval-in-run": ('gA = 0; x = preprocess__ "' + " ".join('__EVAL(call {for \"\"_i\"\" from 0 to 1 step 0 do {}; %d})' % i for i in (1, 2, 3)) + '";', False),
    "eval-in-run-late": ('gT = time; for "_i" from 0 to 1 step 0 do {if (time - gT > 1) exitWith {}}; x = preprocess__ "' + " ".join('__EVAL(call {for \"\"_i\"\" from 0 to 1 step 0 do {}; %d})' % i for i in (1, 2)) + '";', False),
    "start-request-once": ('gT = time; for "_i" from 0 to 1 step 0 do {if (time - gT > 1) exitWith {}}; vmctrl__ "start"; for "_i" from 0 to 1 step 0 do {gA = 1};', False),
}


def short_script(k):
    return "".join('diag_log ["M",%d];' % i for i in range(1, k + 1))


def make_cases(rng, tier):
    cases = []
    n = 0
    for name, (text, susp) in ENDLESS.items():
        for hist in ("alone", "then-short", "after-idle", "short-first", "then-eval"):
            runs = []
            kinds = []
            def endless_run(adv=0):
                runs.append({"advance_ms": adv, "scripts": [{"name": "e", "text": text, "suspend": susp}]})
                kinds.append(("endless:" + name, 0))
            def short_run(adv=0, k=6):
                runs.append({"advance_ms": adv, "scripts": [{"name": "s", "text": short_script(k), "suspend": False}]})
                kinds.append(("short", k))
            def short_eval(adv=0, k=4):
                # the embedder evaluates an expression (runtime::evaluate_expression, what __EVAL uses while the next script is preprocessed)
                runs.append({"advance_ms": adv, "eval": short_script(k) + "1"})
                kinds.append(("short", k))
            def endless_eval(adv=0):
                # the embedder evaluates an expression that never ends by itself: the evaluation is an execution of its own
                runs.append({"advance_ms": adv, "eval": 'for "_i" from 0 to 1 step 0 do {gA = 1}; 1'})
                kinds.append(("endless:eval", 0))
            if hist == "then-eval":
                endless_run(); short_eval(); short_run(); short_eval(adv=MAXMS * 2)
            elif hist == "alone":
                endless_run()
            elif hist == "then-short":
                endless_run(); short_run()
            elif hist == "after-idle":
                short_run(adv=MAXMS * 3); endless_run(adv=MAXMS * 2); short_run(adv=MAXMS * 5, k=3)
            else:
                short_run(); endless_run()
            n += 1
            cases.append({"id": "lim%d-%s-%s" % (n, name, hist), "runs": runs, "kinds": kinds,
                          "conf": {"max_runtime_ms": MAXMS, "clock": {"start_ms": 5000, "tick_us": 1000}, "max_loop": 10000}})
    # an endless evaluation (outside a run) is cut short by the limit; whatever follows executes normally
    for follow in ("short", "eval", "endless"):
        n += 1
        runs = [{"advance_ms": 0, "eval": 'for "_i" from 0 to 1 step 0 do {gA = 1}; 1'}]
        kinds = [("endless:eval", 0)]
        if follow == "short":
            runs += [{"advance_ms": 0, "scripts": [{"name": "s", "text": short_script(4), "suspend": False}]}, {"advance_ms": MAXMS * 2, "eval": short_script(3) + "1"}]
            kinds += [("short", 4), ("short", 3)]
        elif follow == "eval":
            runs += [{"advance_ms": 0, "eval": short_script(3) + "1"}, {"advance_ms": 0, "scripts": [{"name": "s", "text": short_script(4), "suspend": True}]}]
            kinds += [("short", 3), ("short", 4)]
        else:
            runs += [{"advance_ms": 0, "scripts": [{"name": "e", "text": ENDLESS["while-scheduled"][0], "suspend": True}]}, {"advance_ms": 0, "scripts": [{"name": "s", "text": short_script(4), "suspend": False}]}]
            kinds += [("endless:while-scheduled", 0), ("short", 4)]
        cases.append({"id": "evalend%d-%s" % (n, follow), "runs": runs, "kinds": kinds,
                      "conf": {"max_runtime_ms": MAXMS, "clock": {"start_ms": 5000, "tick_us": 1000}, "max_loop": 10000}})
    # only short runs with idle gaps of every size (the VM grows older than the limit)
    for gap in (0, MAXMS - 100, MAXMS + 1, MAXMS * 4):
        for k in (1, 8):
            n += 1
            runs = [{"advance_ms": gap, "scripts": [{"name": "s", "text": short_script(k), "suspend": rng.random() < 0.5}]} for _ in range(3)]
            cases.append({"id": "gap%d-%d-%d" % (n, gap, k), "runs": runs, "kinds": [("short", k)] * 3,
                          "conf": {"max_runtime_ms": MAXMS, "clock": {"start_ms": 5000, "tick_us": 1000}}})
            n += 1
            runs = [{"advance_ms": gap, "eval": short_script(k) + "1"}, {"advance_ms": gap, "scripts": [{"name": "s", "text": short_script(k), "suspend": False}]}, {"advance_ms": gap, "eval": short_script(k) + "1"}]
            cases.append({"id": "gapeval%d-%d-%d" % (n, gap, k), "runs": runs, "kinds": [("short", k)] * 3,
                          "conf": {"max_runtime_ms": MAXMS, "clock": {"start_ms": 5000, "tick_us": 1000}}})
        # short runs that sleep for a fraction of the limit (the deadline is also polled while everything sleeps)
        n += 1
        nap = 'diag_log ["M",1]; sleep %g; diag_log ["M",2]; [] spawn {sleep %g; diag_log ["M",3];}; diag_log ["M",4];' % (MAXMS / 5000.0, MAXMS / 4000.0)
        runs = [{"advance_ms": gap, "scripts": [{"name": "s", "text": nap, "suspend": True}]} for _ in range(3)]
        cases.append({"id": "nap%d-%d" % (n, gap), "runs": runs, "kinds": [("short", 4)] * 3,
                      "conf": {"max_runtime_ms": MAXMS, "clock": {"start_ms": 5000, "tick_us": 1000}}})
    return cases


LOOPS = [
    ("nonempty", "gC = 0; while {true} do {gC = gC + 1}; diag_log [\"C\", gC];", 0),
    ("nonempty-cond-counts", "gC = 0; while {gC = gC + 1; true} do {gA = 1}; diag_log [\"C\", gC];", 1),
    ("empty", "gC = 0; while {gC = gC + 1; true} do {}; diag_log [\"C\", gC];", 1),
    ("nested-inner-empty", "gC = 0; gO = 0; while {gO < 2} do {gO = gO + 1; while {gC = gC + 1; true} do {}}; diag_log [\"C\", gC];", 2),
    ("exits-early", "gC = 0; while {gC < 5} do {gC = gC + 1}; diag_log [\"C\", gC];", 0),
    ("body-exitwith", "gC = 0; while {true} do {gC = gC + 1; if (gC > 1000000) exitWith {}}; diag_log [\"C\", gC];", 0),
]


def loop_cases(tier):
    cases = []
    for cap in (1, 7, 50):
        for name, text, extra in LOOPS:
            cases.append({"id": "loop-%s-%d" % (name, cap), "loop": True, "body": name, "cap": cap, "extra": extra,
                          "runs": [{"scripts": [{"name": "l", "text": text, "suspend": False}]}],
                          "conf": {"max_runtime_ms": 2000, "clock": {"start_ms": 5000, "tick_us": 1000}, "max_loop": cap}})
    return cases


def project(case, evs):
    out = []
    if case.get("loop"):
        iters = None
        for e in evs:
            if e["e"] == "D" and e["code"] == 60019 and "[C," in e["txt"]:
                iters = int(float(re.search(r"\[C,([0-9.e+]+)\]", e["txt"]).group(1)))
            if e["e"] == "Crash":
                out.append(e)
        if iters is None:
            # the loop never ended by itself (deadline fired / hang): count is unbounded for our purposes
            iters = 10 ** 6
        nested = 2 if case["body"].startswith("nested") else 1
        out.append({"e": "Loop", "id": case["id"], "iters": max(0, iters - case["extra"]), "cap": case["cap"] * nested, "body": case["body"]})
        return out
    run = 0
    cur = None
    for e in evs:
        if e["e"] == "RB":
            run = e["run"]
            kind, k = case["kinds"][run - 1]
            cur = {"start": e["clk"], "end": e["clk"], "max": case["conf"]["max_runtime_ms"], "diag": False, "nctx": -1, "state": "?",
                   "executed": 0, "needed": k, "endless": kind.startswith("endless"), "fits": kind == "short", "slack": SLACK, "kind": kind}
        elif e["e"] == "D" and cur is not None:
            if e["code"] == 60019 and "[M," in e["txt"]:
                cur["executed"] += 1
            elif "aximum runtime" in e["txt"] or "axium runtime" in e["txt"]:
                cur["diag"] = True
        elif e["e"] == "R" and cur is not None:
            cur["end"] = e["clk"]
            cur["nctx"] = e["nctx"]
            cur["state"] = e["state"]
            kind = cur.pop("kind")
            out.append({"e": "Run", "id": case["id"], "kind": kind, "r": cur})
            cur = None
        elif e["e"] == "Crash":
            out.append(e)
    return out


def run(rep, tier, seed, replay):
    rng = random.Random(seed)
    vlib.build("rel")
    wdir = vlib.workdir("C11")
    rep.assumptions += [
        "time is the guarded virtual clock (H1): 1 ms per clock query; limit %d ms; slack %d ms (one clock query per instruction plus the operator's own queries)" % (MAXMS, SLACK),
        "'aborted by the time limit' is observed as the MaximumRuntimeReached diagnostic; 'VM empty' as no contexts left and state empty after the run",
        "a hang of the real VM (driver watchdog) counts as RunEndsInTime violation",
        "loop iterations are counted by a variable incremented in the body (or in the condition for empty bodies)",
    ]
    if replay:
        cases = [json.load(open(replay))["case"]]
    else:
        def cfg(name, a, b, c, d="TRUE", e="TRUE", f="TRUE"):
            p = os.path.join(vlib.SPEC, "gen_%s.cfg" % name)
            open(p, "w").write("SPECIFICATION Spec\nCONSTANTS\n  BudgetFromRunStart = %s\n  DeadlineWhileAsleep = %s\n  EmptyBodyCounts = %s\n  EvalIsOwnExecution = %s\n  RefusedStartKeepsBudget = %s\n  NestedEvalSharesBudget = %s\n  Max = 12\n  Slack = 2\n  Cap = 3\n"
                               "INVARIANTS InvRunEndsInTime InvAbortReported InvLaterRuns InvWhileCapped InvRunningInTime\n" % (a, b, c, d, e, f))
            return os.path.basename(p)
        r = vlib.tlc("Limits_MC", cfg("lim_ideal", "TRUE", "TRUE", "TRUE"), workers=vlib.NCPU, timeout_s=900)
        if not r.ok:
            raise vlib.MachineryError("Limits design check failed: %s %s" % (r.violated, (r.error or "")[:400]))
        rep.add_tlc(r, "Limits_MC ideal (runs, evaluations between runs, refused start requests)")
        for nm, a, invs in (("BudgetFromConstruction", ("FALSE", "TRUE", "TRUE"), ("InvLaterRuns",)), ("NoDeadlineWhileAsleep", ("TRUE", "FALSE", "TRUE"), ("InvRunEndsInTime", "InvRunningInTime")),
                            ("EmptyBodyNotCounted", ("TRUE", "TRUE", "FALSE"), ("InvWhileCapped",)),
                            ("EvalFindsStaleExitRequest", ("TRUE", "TRUE", "TRUE", "FALSE", "TRUE"), ("InvRunEndsInTime", "InvLaterRuns")),
                            ("RefusedStartRenewsBudget", ("TRUE", "TRUE", "TRUE", "TRUE", "FALSE"), ("InvRunningInTime", "InvRunEndsInTime")),
                            ("NestedEvalOwnBudget", ("TRUE", "TRUE", "TRUE", "TRUE", "TRUE", "FALSE"), ("InvRunningInTime", "InvRunEndsInTime"))):
            r2 = vlib.tlc("Limits_MC", cfg("lim_dev", *a), workers=4, timeout_s=600)
            if r2.violated not in invs:
                raise vlib.MachineryError("vacuity self-test: deviation %s should violate %s, got %s" % (nm, invs, r2.violated))
            rep.design_runs.append({"what": "deviation %s violates %s (non-vacuity)" % (nm, r2.violated), "generated": r2.generated, "distinct": r2.distinct})
        cases = make_cases(rng, tier) + loop_cases(tier)
    rep.evaluations = len(cases)
    rep.rule = ("every non-terminating program kind (loops of every kind, recursion, mutually spawning scripts, sleepers, waitUntil) x run history "
                "(alone, followed by a short run, after idle gaps longer than the limit, after a short run, followed by expression evaluations) + idle-gap sweeps of short runs and evaluations "
                "+ start requests made during a run + while-loop shapes x caps; "
                "distinct by program+history; non-trivial = all")
    events = vlib.run_driver("run", [{k: c[k] for k in ("id", "conf", "runs")} for c in cases], wdir, kind="rel", timeout_s=25)
    by = vlib.events_by_case(events)
    execs = [(c["id"], project(c, by.get(c["id"], []))) for c in cases]
    bad, totals, results = vlib.validate_traces("Limits_Trace", "Limits_Trace.cfg", execs, wdir, "c11", chunks=4)
    for x in results:
        rep.add_tlc(x)
    rep.traces = len(execs)
    rep.extra["records_judged"] = totals["ops"]
    rep.extra["distinct_nontrivial"] = len(cases)
    cmap = {c["id"]: c for c in cases}
    for c in cases[:2] + cases[-2:]:
        rep.samples.append({"id": c["id"], "runs": [[s["text"] for s in r["scripts"]] for r in c["runs"]], "conf": c["conf"]})
    groups = {}
    for b in bad:
        groups.setdefault("C11/%s/%s" % (b["why"], b["op"]), []).append(b)
    for key, bs in sorted(groups.items()):
        b = min(bs, key=lambda x: len(cmap[x["id"]]["runs"]))
        case = cmap[b["id"]]
        ev2 = vlib.run_driver("run", [{k: case[k] for k in ("id", "conf", "runs")}], wdir, kind="rel", timeout_s=25, jobs=1, tag="confirm")
        ex2 = [(case["id"], project(case, ev2))]
        bad2, _, _ = vlib.validate_traces("Limits_Trace", "Limits_Trace.cfg", ex2, wdir, "c11confirm", chunks=1)
        if not bad2:
            rep.notes.append("rejection %s of %s did not repeat" % (key, b["id"]))
            continue
        rep.finding(key, "%s (%s): runs %s" % (b["why"], b["op"], [[s["text"] for s in r["scripts"]] if "scripts" in r else ["eval: " + r["eval"]] for r in case["runs"]]),
                    {"property": "C11", "key": key, "case": case, "records": ex2[0][1], "verdict": bad2})
        rep.found[key]["count"] += len(bs) - 1
