"""C19 - execution control (start / stop / abort / steps) follows its state machine, thread-safe.

spec/Control.tla: sequential meaning of every action on a VM holding a script given as its dynamic
instruction sequence (lines, depths); spec/Control_MC.tla: the same actions split at every access
to the shared fields, an executor and a controller thread in all interleavings (ideal = critical
sections atomic; the code's non-atomic sections are the refuted deviation); Control_Trace: all
sequential action histories on the real runtime; Control_MC with Observed: every outcome observed
under forced interleavings (H4 sync points) must be an outcome of the ideal model.
"""
import itertools
import json
import os
import random

import vlib

LEVEL = "model_checking"
ACTIONS = ["start", "stop", "abort", "assembly_step", "line_step", "leave_scope"]
SCRIPTS = {
    "none": "",
    "straight": "a = 1 + 2;\nb = 3;\nc = [4,\n 5];",
    "nested": "a = 1;\nb = call {3;\n 4};\nc = call {call {5}; 6};",
    "erroring": "a = 1;\n1 + \"x\";\nb = 2;",
    "error-in-call": "a = call {1;\n [] select 3;\n 2};\nb = 2;",
    # a function called as a statement of its own: behind the callee's last instruction the caller's line has one instruction left
    "call-statement": "f = {a = 1;\n b = 2};\ng = {c = 3;\n call f;\n d = 4};\ncall g;\ne = 5;\nh = 6;",
}
MT_SCRIPTS = {"ok": ("a = 1;", 3, 0), "err": ('1 + "x";', 3, 3), "long": (" ".join("a = %d;" % i for i in range(12)), 6, 0),
              # a loop without instructions in its body: it ends by a stop/abort only (a 1.5 s time limit is the safety net)
              "emptyloop": ('for "_i" from 0 to 1 step 0 do {};', 3, 0)}
MT_SCRIPTS["sliced"] = (MT_SCRIPTS["long"][0], 6, 0)      # the same statements scheduled in slices of 6 instructions: requests are polled between the slices
# every script asleep when the request arrives (the executor polls the requests in its scheduler rounds, too)
MT_SCRIPTS["sleeping"] = ("sleep 2.5; a = 1;", 3, 0)
# one long line under a line step: the executor is a line step, the controller stops / aborts it
MT_SCRIPTS["longline"] = ('for "_i" from 0 to 3000000 do {a = _i}; b = 1;', 3, 0)
MT_SLICE = {"sliced": 6, "sleeping": 6}
MT_LIMIT = {"emptyloop": 3000, "sleeping": 4000, "longline": 4000}
# the same long loop inside a called block, under a leave scope issued from the top level
MT_SCRIPTS["longscope"] = ('call {for "_i" from 0 to 3000000 do {a = _i}; b = 1}; c = 2;', 3, 0)
MT_LIMIT["longscope"] = 4000
# after the two threads are done the embedder loads the script again and single-steps it
MT_SCRIPTS["sliced-then-steps"] = (MT_SCRIPTS["long"][0], 6, 0)
MT_SLICE["sliced-then-steps"] = 6
MT_POST = {"sliced-then-steps": ["load", "assembly_step", "assembly_step", "assembly_step"]}
MT_EXEC = {"longline": [["line_step"]], "longscope": [["leave_scope"], ["line_step", "leave_scope"]]}       # executor call lists of a script (default: start, start+start)
MT_LAG_MS = 1500       # an executor that is still running this long after the request flag was written did not take it up


def mc_cfg(name, ideal, err, calls_e="any", calls_c="any", observed=None, work=3, collect=False):
    """writes spec/gen_<name>.tla (+.cfg): TLC configuration files cannot hold tuples or records, so the
    call lists and the observed outcomes are definitions of a generated module that extends Control_MC"""
    def tl(x):
        return "<<>>" if x == "any" else "<<" + ", ".join('"%s"' % a for a in x) + ">>"
    recs = []
    for o in observed or []:
        recs.append('[e |-> %s, c |-> %s, state |-> "%s", loaded |-> %s, after |-> %d, overlap |-> %d, poststeps |-> %d, postexec |-> %d]'
                    % (tl(o["e"]), tl(o["c"]), o["state"], "TRUE" if o["loaded"] else "FALSE", o.get("after", 0), o.get("overlap", 0), o.get("poststeps", 0), o.get("postexec", 0)))
    mod = "gen_%s" % name
    with open(os.path.join(vlib.SPEC, mod + ".tla"), "w") as f:
        f.write("---- MODULE %s ----\nEXTENDS Control_MC\nDefE == %s\nDefC == %s\nDefObs == {%s}\n====\n" % (mod, tl(calls_e), tl(calls_c), ", ".join(recs)))
    txt = ("SPECIFICATION %s\nCONSTANTS\n  Work = %d\n  ErrAt = %d\n  CallsE <- DefE\n  CallsC <- DefC\n  Observed <- DefObs\n  ReleaseAfterFinalCheckAtomically = %s\n"
           % ("Spec" if collect else "FairSpec", work, err, "TRUE" if ideal else "FALSE"))
    if collect:
        txt += "CONSTRAINT Collect\nPOSTCONDITION AllObservedAllowed\n"
    else:
        txt += "INVARIANTS InvOneExecutor InvStateMachine InvNotStuckRunning InvStopTakesEffect InvAtomicFreeWhenQuiet\nPROPERTY Termination\n"
    with open(os.path.join(vlib.SPEC, mod + ".cfg"), "w") as f:
        f.write(txt)
    return mod


def mc(name, *a, **kw):
    workers = kw.pop("workers", 1)
    timeout_s = kw.pop("timeout_s", 600)
    mod = mc_cfg(name, *a, **kw)
    return vlib.tlc(mod, mod + ".cfg", workers=workers, timeout_s=timeout_s)


def run(rep, tier, seed, replay):
    rng = random.Random(seed)
    vlib.build("rel")
    wdir = vlib.workdir("C19")
    rep.assumptions += [
        "every access to the plain bool/enum control fields is treated as atomic and sequentially consistent (data races as such are outside the model, DESIGN.md 8)",
        "interleavings of the real threads are forced at the guarded sync points H4; between two sync points a thread runs uninterrupted",
        "the sequential oracle fixes: one instruction per assembly step, line step = maximal run of instructions on the first instruction's line, leave scope = until the frame depth drops, stop=action_error when nothing runs, abort on halted discards everything, documented results only, state from the state machine",
    ]
    # ---------------- design check ----------------
    if not replay:
        for err in (0, 3):
            r = mc("ctl_ideal", True, err, workers=8, timeout_s=900)
            if not r.ok:
                raise vlib.MachineryError("Control design check (ideal) failed: %s %s" % (r.violated, (r.error or "")[:400]))
            rep.add_tlc(r, "Control_MC ideal (atomic critical sections), ErrAt=%d, incl. liveness Termination" % err)
        r2 = mc("ctl_code", False, 3, workers=4)
        if r2.violated != "InvStopTakesEffect":
            raise vlib.MachineryError("vacuity self-test: the non-atomic sections must violate InvStopTakesEffect, got %s" % r2.violated)
        rep.design_runs.append({"what": "deviation NonAtomicSections (the code) violates InvStopTakesEffect (non-vacuity; design-level race)", "generated": r2.generated, "distinct": r2.distinct})
    # ---------------- sequential histories ----------------
    if replay:
        obj = json.load(open(replay))
        cases = [obj["case"]] if obj.get("kind") == "seq" else []
        mt_cases = [obj["case"]] if obj.get("kind") == "mt" else []
    else:
        cases = []
        maxlen = 3 if tier == "quick" else 4
        n = 0
        for sname, text in SCRIPTS.items():
            for ln in range(1, maxlen + 1):
                for seq in itertools.product(ACTIONS, repeat=ln):
                    n += 1
                    cases.append({"id": "q%d" % n, "script": sname, "text": text, "actions": list(seq) + ["start"]})
        # every position of every script: k single instructions, then line steps / a leave scope and a line step
        for sname, text in SCRIPTS.items():
            if not text:
                continue
            for k in range(0, 40):
                for tail in (["line_step", "line_step"], ["leave_scope", "line_step"], ["line_step", "leave_scope"]):
                    n += 1
                    cases.append({"id": "p%d" % n, "script": sname, "text": text, "actions": ["assembly_step"] * k + tail + ["start"]})
        # longer random histories
        for i in range(300 if tier == "quick" else 5000):
            sname = rng.choice(list(SCRIPTS))
            cases.append({"id": "r%d" % i, "script": sname, "text": SCRIPTS[sname], "actions": [rng.choice(ACTIONS) for _ in range(rng.randint(5, 12))] + ["start"]})
        rep.exhaustive = True
    events = vlib.run_driver("ctl", [{k: c[k] for k in ("id", "text", "actions")} for c in cases], wdir, kind="rel", timeout_s=10)
    by = vlib.events_by_case(events)
    execs = [(c["id"], [e for e in by.get(c["id"], []) if e["e"] in ("Prog", "Act", "Crash")]) for c in cases]
    bad, totals, results = vlib.validate_traces("Control_Trace", "Control_Trace.cfg", execs, wdir, "c19", chunks=8)
    for x in results:
        rep.add_tlc(x)
    rep.traces = len(execs)
    rep.extra["actions_validated"] = totals["ops"]
    cmap = {c["id"]: c for c in cases}
    groups = {}
    for b in bad:
        c = cmap[b["id"]]
        groups.setdefault("C19/%s/%s" % (b["why"], b["op"] if b["why"] != "NoCrashNoDeadlock" else "crash"), []).append(b)
    for key, bs in sorted(groups.items()):
        b = min(bs, key=lambda x: (len(cmap[x["id"]]["actions"]), len(cmap[x["id"]]["text"])))
        case = cmap[b["id"]]
        ev2 = vlib.run_driver("ctl", [{k: case[k] for k in ("id", "text", "actions")}], wdir, kind="rel", timeout_s=10, jobs=1, tag="confirm")
        ex2 = [(case["id"], [e for e in ev2 if e["e"] in ("Prog", "Act", "Crash")])]
        bad2, _, _ = vlib.validate_traces("Control_Trace", "Control_Trace.cfg", ex2, wdir, "c19confirm", chunks=1)
        if not bad2:
            rep.notes.append("rejection %s did not repeat" % key)
            continue
        rep.finding(key, "%s at %s: script %s, actions %s" % (b["why"], b["op"], case["script"], case["actions"]),
                    {"property": "C19", "kind": "seq", "key": key, "case": case, "observed": ex2[0][1], "verdict": bad2})
        rep.found[key]["count"] += len(bs) - 1
    for c in cases[:2] + cases[-2:]:
        rep.samples.append({"script": c["script"], "actions": c["actions"]})
    # ---------------- forced interleavings of two threads ----------------
    if not replay:
        mt_cases = []
        ce_all = [["start"], ["start", "start"]]
        cc_all = [["stop"], ["abort"], ["stop", "abort"], ["abort", "abort"], ["start"], ["abort", "start"]]
        n = 0
        for sname, (text, work, err) in MT_SCRIPTS.items():
            for ce in MT_EXEC.get(sname, ce_all):
                for cc in cc_all:
                    if sname in MT_LIMIT and ((len(ce) != 1 and sname not in MT_EXEC) or cc not in (["stop"], ["abort"])):
                        continue        # (each case there may last until the time limit)
                    scheds = set()
                    # systematic: controller's steps inserted at every position of the executor's run
                    for pos in range(0, 14):
                        for burst in (1, 2, 3, 4):
                            scheds.add(tuple(["E"] * pos + ["C"] * burst + ["E"] * 3 + ["C"] * 6))
                    if sname not in MT_LIMIT:
                        # every schedule with up to three switches: the executor parks at its a-th scheduling point, the controller
                        # passes b of its own (calls begin and end at scheduling points too), the executor c more, then the
                        # controller runs to its end and the executor after it
                        rb = range(1, 7) if tier == "quick" else range(1, 10)
                        for a in range(0, 13):
                            for b in rb:
                                for c3 in rb:
                                    scheds.add(tuple(["E"] * a + ["C"] * b + ["E"] * c3 + ["C"] * 12 + ["E"] * 12))
                    nsched = len(scheds) + (120 if tier == "quick" else 1500)
                    while len(scheds) < nsched and sname not in MT_LIMIT:
                        scheds.add(tuple(rng.choice("EC") for _ in range(rng.randint(6, 22))))
                    for s in sorted(scheds):
                        n += 1
                        mt_cases.append({"id": "m%d" % n, "script": sname, "text": text, "work": work, "err": err, "E": ce, "C": cc, "schedule": list(s)})
    mev = vlib.run_driver("ctlmt", [dict({k: c[k] for k in ("id", "text", "E", "C", "schedule")}, limit_ms=MT_LIMIT.get(c["script"], 0), slice=MT_SLICE.get(c["script"], 0), **({"post": MT_POST[c["script"]]} if c["script"] in MT_POST else {})) for c in mt_cases], wdir, kind="rel", timeout_s=10, tag="mt")
    mby = vlib.events_by_case(mev)
    # outcome per case, grouped per configuration
    configs = {}
    crashed = []
    for c in mt_cases:
        evs = mby.get(c["id"], [])
        if any(e["e"] == "Crash" for e in evs):
            crashed.append((c, evs))
            continue
        fin = [e for e in evs if e["e"] == "Final"][0]
        crets = [e for e in evs if e["e"] == "Ret" and e["t"] == "C"]
        grant = next((e for e in crets if e["res"] == "ok" and e["a"] in ("stop", "abort")), None)
        out = {"e": [e["res"] for e in evs if e["e"] == "Ret" and e["t"] == "E"], "c": [e["res"] for e in crets],
               "state": fin["state"], "loaded": fin["nctx"] > 0,
               # a thread became executor while the other one was parked inside its own executor section (lockstep schedules: the
               # other thread had not finished what it does as executor)
               "overlap": min(1, fin.get("overlap", 0)),
               # the embedder's post phase (script loaded again, single steps): steps issued / instructions they executed
               # (a step that did not return ok counts as having executed nothing)
               "poststeps": fin.get("post_steps", 0), "postexec": 0 if fin.get("post_bad_res") else fin.get("post_exec", 0),
               # instructions completed after the first acknowledged stop/abort returned (capped: the bound is what matters)
               # (a run that only the time limit ended although a stop/abort was acknowledged counts as "kept executing")
               # (a loop without instructions never advances the instruction count: there the time the executor went on
               #  after the controller had finished writing its request decides)
               "after": (5 if fin.get("lag_ms", -1) > MT_LAG_MS else min(5, fin["instr"] - grant["instr"])) if grant else 0}
        key = (c["script"], tuple(c["E"]), tuple(c["C"]))
        configs.setdefault(key, {}).setdefault(json.dumps(out, sort_keys=True), []).append(c)
    rep.traces += len(mt_cases)
    rep.extra["interleavings_replayed"] = len(mt_cases)
    rep.extra["distinct_outcomes_observed"] = sum(len(v) for v in configs.values())
    for c, evs in crashed[:1]:
        rep.finding("C19/NoCrashNoDeadlock/concurrent", "crash/hang under forced interleaving: %s" % [e for e in evs if e["e"] == "Crash"],
                    {"property": "C19", "kind": "mt", "case": c, "events": evs})
    for (sname, ce, cc), outs in sorted(configs.items()):
        text, work, err = MT_SCRIPTS[sname] if sname in MT_SCRIPTS else (None, 3, 0)
        observed = [json.loads(o) for o in outs]
        r = mc("ctl_obs", True, err, list(ce), list(cc), observed, work, collect=True)
        rep.add_tlc(r, None)
        if r.error and "NOTEFFECTIVE" not in r.out and "KEEPSEXECUTING" not in r.out and "NOTALLOWED" not in r.out and "TWOEXECUTORS" not in r.out and "HALTEDBUTEMPTY" not in r.out and "STEPISNOTONE" not in r.out and not r.ok:
            raise vlib.MachineryError("outcome validation failed without verdict: %s" % (r.error or r.out[-1500:]))
        ndrift = r.out.count("NOTALLOWED")
        if ndrift:
            rep.notes.append("model-drift: %d observed outcome(s) of executor %s / controller %s / script %s are not outcomes of the atomic-sections mechanism model (property oracle holds)" % (ndrift, list(ce), list(cc), sname))
        if "TWOEXECUTORS" in r.out:
            o = next(x for x in observed if x["overlap"])
            c0 = outs[json.dumps(o, sort_keys=True)][0]
            key = "C19/OneExecutor/%s" % sname
            rep.finding(key, "OneExecutor: executor %s, controller %s, script %s under schedule %s: a call was admitted as executor while the other thread was still inside its own executor section (returns E=%s C=%s)"
                        % (list(ce), list(cc), sname, "".join(c0["schedule"]), o["e"], o["c"]), {"property": "C19", "kind": "mt", "key": key, "case": c0, "outcome": o})
        if "STEPISNOTONE" in r.out:
            o = next(x for x in observed if x["postexec"] != x["poststeps"])
            c0 = outs[json.dumps(o, sort_keys=True)][0]
            key = "C19/StepIsOne/after-%s" % ("+".join(a for a, r_ in zip(cc, o["c"]) if r_ == "ok") or "run")
            rep.finding(key, "StepIsOne: executor %s, controller %s, script %s under schedule %s, then the script loaded again and %d assembly steps: they executed %d instructions"
                        % (list(ce), list(cc), sname, "".join(c0["schedule"]), o["poststeps"], o["postexec"]), {"property": "C19", "kind": "mt", "key": key, "case": c0, "outcome": o})
        if "HALTEDBUTEMPTY" in r.out:
            o = next(x for x in observed if x["state"] == "halted" and not x["loaded"])
            c0 = outs[json.dumps(o, sort_keys=True)][0]
            key = "C19/StateMachine/halted-without-script/%s" % sname
            rep.finding(key, "StateMachine: executor %s, controller %s, script %s under schedule %s: the VM reports halted and holds no script (returns E=%s C=%s)"
                        % (list(ce), list(cc), sname, "".join(c0["schedule"]), o["e"], o["c"]), {"property": "C19", "kind": "mt", "key": key, "case": c0, "outcome": o})
        if "NOTEFFECTIVE" not in r.out and "KEEPSEXECUTING" not in r.out:
            continue
        for o in observed:
            r1 = mc("ctl_obs1", True, err, list(ce), list(cc), [o], work, collect=True)
            how = [h for tag, h in (("NOTEFFECTIVE", "scripts-remain"), ("KEEPSEXECUTING", "keeps-executing")) if tag in r1.out]
            if not how:
                continue
            c0 = outs[json.dumps(o, sort_keys=True)][0]
            granted = next((a for a, r_ in zip(cc, o["c"]) if r_ == "ok" and a in ("stop", "abort")), "?")
            # the finding is identified by the acknowledged action, the kind of script and the way the stop fails
            key = "C19/StopTakesEffect/%s/%s/%s" % (granted, sname, "+".join(how))
            rep.finding(key, "StopTakesEffect (%s): executor %s, controller %s, script %s: returns E=%s C=%s, final state %s, scripts left=%s, instructions after the acknowledgement=%s under schedule %s: an acknowledged stop/abort had no effect"
                        % ("+".join(how), list(ce), list(cc), sname, o["e"], o["c"], o["state"], o["loaded"], o["after"], "".join(c0["schedule"])),
                        {"property": "C19", "kind": "mt", "key": key, "case": c0, "outcome": o})
            rep.found[key]["count"] += len(outs[json.dumps(o, sort_keys=True)]) - 1
    rep.evaluations = len(cases) + len(mt_cases)
    rep.extra["distinct_nontrivial"] = len({(c["script"], tuple(c["actions"])) for c in cases if len(c["actions"]) >= 3}) + len({(c["script"], tuple(c["E"]), tuple(c["C"]), tuple(c["schedule"])) for c in mt_cases})
    rep.rule = ("sequential: every action sequence up to length 3-4 (+ final start) from each start state (no script, straight-line, nested calls, erroring) and seeded longer ones; "
                "concurrent: executor call list x controller call list x script x forced schedules over the H4 sync points; non-trivial = >= 3 actions / any interleaving")
