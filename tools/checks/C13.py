"""C13 - preprocessor output equals the reference expansion; strings are inviolate.

spec/Preproc.tla        the reference expander (Apply over lines of lexemes) + the C13 formulas
spec/Preproc_MC.tla     design check of the formulas on the reference, refutation of wrong variants,
                        generator: every well-formed source <= Depth lines over the line alphabet
spec/Preproc_Trace.tla  judges the recorded outputs of the real preprocessor (driver command `pp`)
"""
import concurrent.futures
import json
import os
import random
import shutil

import vlib

LEVEL = "model_checking"
INVS = ["InvInactive", "InvStrings", "InvPassThrough", "InvRefEq", "InvCond", "InvUndef", "InvRun"]
# wrong expander -> the invariant that must refute it (non-vacuity of each formula)
DEVS = [("NestedIfIgnoresParent", "InvInactive"), ("InactiveDirectivesEffective", "InvInactive"),
        ("PrefixMatch", "InvRefEq"), ("ExpandInStrings", "InvStrings"), ("StripWs", "InvPassThrough"),
        ("NestedIfIgnoresParent", "InvCond"), ("InactiveDirectivesEffective", "InvUndef")]
BC_TEXT = {"bc": "/* c1\nc2 */", "bc0": "/* c1\n*/"}
BS_NL = "\\\n"


# ------------------------------------------------------------------------------------------------
# abstract sources (the JSON form of the lines of Preproc.tla) and their text
# ------------------------------------------------------------------------------------------------
def Id(s): return {"k": "id", "s": s}
def P(s): return {"k": "p", "s": s}
def Str(s): return {"k": "str", "s": '"' + s + '"'}
WS = {"k": "ws", "s": " "}


def spell(seq):
    return "".join(l["s"] for l in seq)


def render_line(line):
    k = line["k"]
    if k in ("defobj", "deffn"):
        body = BS_NL.join(spell(s) for s in line["segs"])
        head = "#define " + line["name"]
        if k == "deffn":
            head += "(" + ",".join(line["params"]) + ")"
        return head + (" " + body if body else "")
    if k in ("undef", "ifdef", "ifndef"):
        return "#%s %s" % (k, line["name"])
    if k in ("else", "endif"):
        return "#" + k
    if k == "text":
        return BC_TEXT.get(line["join"], BS_NL).join(spell(s) for s in line["segs"])
    if k == "include":
        return '#include "%s"' % line["name"]
    raise vlib.MachineryError("line kind " + k)


def render(src):
    return "\n".join(render_line(l) for l in src)


def files_of(src, acc=None):
    """the included files of a source (tree of include lines) as {name: text}; one content per name"""
    acc = {} if acc is None else acc
    for l in src:
        if l["k"] == "include" and not l["back"]:
            t = render(l["sub"])
            if acc.setdefault(l["name"], t) != t:
                raise vlib.MachineryError("two contents for include file " + l["name"])
            files_of(l["sub"], acc)
    return acc


def include(tag, name, sub, back=False):
    return {"k": "include", "tag": tag, "rich": False, "name": name, "sub": sub, "back": back}


def headers():
    """a small tree of header files: a guarded common header, an unguarded one, two headers that both
    include the common one (diamond)"""
    common = include("include", "common.hpp", [cond("ifndef", "M2"), defobj("def-obj", "M2", [Id("7")]), cond("endif")])
    plain = include("include-unguarded", "plain.hpp", [defobj("def-obj", "M1", [Id("5")]), text("use-obj", False, [Id("a"), WS, Id("M1"), WS, Id("b")])])
    a = include("include-nested", "a.hpp", [common, text("use-obj", False, [Id("a"), WS, Id("M2")])])
    b = include("include-nested", "b.hpp", [common, plain, text("use-obj-punct", False, [P("["), Id("M1"), P(","), Id("M2"), P("]"), P(";")])])
    return {"common": common, "plain": plain, "a": a, "b": b}


def defobj(tag, name, body):
    return {"k": "defobj", "tag": tag, "rich": False, "name": name, "segs": [body]}


def deffn(tag, name, params, body):
    return {"k": "deffn", "tag": tag, "rich": False, "name": name, "params": params, "segs": [body]}


def cond(k, name=None):
    d = {"k": k, "tag": k, "rich": False}
    if name:
        d["name"] = name
    return d


def text(tag, rich, lex):
    return {"k": "text", "tag": tag, "rich": rich, "segs": [lex], "join": "bs"}


def sep(items, s):
    out = []
    for n, it in enumerate(items):
        if n:
            out.append(s)
        out += it
    return out


def call(name, args):
    return [Id(name), P("(")] + sep(args, P(",")) + [P(")")]


# ---- pools for the seeded deeper sources.  Bodies only use macros later in G > F > M1 > M2 (no
#      recursion, C10); stringifying definitions are marked so that `Specified` can be respected.
def body_pool():
    x, y = Id("x"), Id("y")
    return {
        "M2": [("def-obj", [Id("7")]), ("def-obj-string", [Str("M1 s"), WS, Id("b")]), ("def-obj", [P("["), Id("7"), P(","), Str("M2"), P("]")])],
        "M1": [("def-obj", [Id("5")]), ("def-obj-uses-macro", [Id("M2"), WS, P("+"), WS, Id("1")]), ("def-empty", []),
               ("def-obj-uses-macro", [P("("), Id("M2"), P(")")])],
        "F": [("def-fn1", [x, WS, P("+"), WS, Id("1")]), ("def-fn1-string-and-macro", [P("["), x, P(","), Str("x M1"), P(","), Id("M1"), P("]")]),
              ("def-fn1", [P("("), x, P(")")]), ("def-fn1-repeat", [x, WS, x, WS, x]), ("def-fn1-empty", []),
              ("def-fn1-stringify", [P("#"), x])],
        "G": [("def-fn2-concat", [x, P("##"), y]), ("def-fn2-uses-fn", call("F", [[x]]) + [WS, y]),
              ("def-fn2", [P("["), x, P(","), y, P(","), Id("F"), P("("), y, P(")"), P("]")]),
              ("def-fn2-concat-stringify", [x, P("##"), y, WS, P("#"), y])],
    }


def rand_arg(rng, depth, allow_rich):
    """-> (lexemes, rich)"""
    ch = rng.random()
    if depth > 0 and ch < 0.35:
        if rng.random() < 0.5:
            a, _ = rand_arg(rng, depth - 1, allow_rich)
            return call("F", [a]), True
        a, _ = rand_arg(rng, depth - 1, allow_rich)
        b, _ = rand_arg(rng, depth - 1, allow_rich)
        return call("G", [a, b]), True
    if ch < 0.50:
        return [Id(rng.choice(["a", "b", "c", "7", "_x1"]))], False
    if ch < 0.60 and allow_rich:
        return [Id(rng.choice(["M1", "M2"]))], True
    if ch < 0.72:
        a, r1 = rand_arg(rng, 0, allow_rich)
        b, r2 = rand_arg(rng, 0, allow_rich)
        o, c, s = rng.choice([("[", "]", ","), ("(", ")", ","), ("{", "}", ";")])
        return [P(o)] + a + [P(s)] + b + [P(c)], r1 or r2
    if ch < 0.80 and allow_rich:
        return [Str(rng.choice(["a,b", "x)", "M1", "(", "q // r"]))], True
    if ch < 0.88 and allow_rich:
        return [Id("a"), WS, P("+"), WS, Id("b")], True
    if ch < 0.93:
        return [], False
    return [Id(rng.choice(["M1x", "xM1", "xF", "Gx"]))], False


def compute_rich(lex):
    """an argument of a call contains a macro name, a string or white space"""
    depth = 0
    for n, l in enumerate(lex):
        if l == P("(") and (depth > 0 or (n > 0 and lex[n - 1]["k"] == "id" and lex[n - 1]["s"] in ("F", "G", "H"))):
            depth += 1
        elif l == P(")") and depth > 0:
            depth -= 1
        elif depth > 0 and (l["k"] in ("str", "ws") or (l["k"] == "id" and l["s"] in ("M1", "M2", "F", "G", "H"))):
            return True
    return False


def rand_text(rng, stringify_defined):
    allow_rich = not stringify_defined
    ch = rng.random()
    if ch < 0.45:
        depth = rng.choice([1, 2, 3]) if allow_rich else 1
        if rng.random() < 0.5:
            a, r = rand_arg(rng, depth - 1, allow_rich)
            lex, tag = call("F", [a]), "call-1"
        else:
            a, r1 = rand_arg(rng, depth - 1, allow_rich)
            b, r2 = rand_arg(rng, depth - 1, allow_rich)
            lex, tag, r = call("G", [a, b]), "call-2", r1 or r2
        r = compute_rich(lex)
        if depth > 1 and r:
            tag = "call-nested-%d" % depth
        pre = rng.choice([[], [Id("v"), WS, P("="), WS], [P("[")]])
        post = [P("]")] if pre == [P("[")] else rng.choice([[], [P(";")], [WS, Id("z")]])
        return text(tag, r, pre + lex + post)
    if ch < 0.60:
        return text("use-obj", False, sep([[Id(rng.choice(["M1", "M2", "a", "M1x", "xM2", "F", "G"]))] for _ in range(rng.randint(1, 4))],
                                         rng.choice([WS, P(","), P(";")])))
    if ch < 0.70:
        return text("string-macro-name", False, [Id("x"), WS, Str(rng.choice(["M1", "M2 F(a)", "G(a,b)", "// M1", "/* M1", "*/"])), WS, Id(rng.choice(["M1", "b"]))])
    if ch < 0.78:
        return text("comment-line", False, [Id(rng.choice(["M1", "a"])), WS, {"k": "lc", "s": rng.choice(["// M1", "// \"", "// /* x", "//#define M2 1"])}])
    if ch < 0.85:
        return text("comment-block", False, [Id("a"), WS, {"k": "bc", "s": rng.choice(["/* M1 */", "/* \" */", "/*//*/", "/* #define M1 9 */"])}, WS, Id(rng.choice(["M1", "M2", "b"]))])
    if ch < 0.88:
        # a string directly behind a block comment (the comment is removed, the string stays as it is)
        glue = rng.choice([[], [WS]])
        return text("comment-block-then-string", False, [{"k": "bc", "s": rng.choice(["/* c */", "/* \" */", "/* M1 */"])}] + glue +
                    [Str(rng.choice(["a // b", "M1", "/* x", "x */ y"])), WS, Id(rng.choice(["M1", "b"]))])
    if ch < 0.92:
        if rng.random() < 0.5:
            # the closing marker of the comment is the first thing on its line; behind it text or nothing
            return {"k": "text", "tag": "comment-block-closed-at-line-start", "rich": False, "join": "bc0",
                    "segs": [rng.choice([[Id("a"), WS], []]), rng.choice([[WS, Id(rng.choice(["M1", "b"]))], []])]}
        return {"k": "text", "tag": "comment-block-multiline", "rich": False, "join": "bc", "segs": [[Id("a"), WS], [WS, Id(rng.choice(["M1", "b"]))]]}
    if ch < 0.935:
        # the continued line starts (in column 0) with a string, a comment or another continuation
        head = rng.choice([[Str(rng.choice(["a // b", "x /* y", "M1"])), WS, Id(rng.choice(["M1", "b"]))],
                           [{"k": "lc", "s": rng.choice(["// M1", "// \""])}],
                           [{"k": "bc", "s": rng.choice(["/* M1 */", "/* \" */"])}, WS, Id(rng.choice(["M1", "b"]))]])
        return {"k": "text", "tag": "continuation-then-" + head[0]["k"], "rich": False, "join": "bs", "segs": [[Id("a"), WS, Id(rng.choice(["M1", "c"])), WS], head]}
    if ch < 0.95:
        w = rng.choice(["M1", "M2", "foo"])
        return {"k": "text", "tag": "continuation-in-word", "rich": False, "join": "bs", "segs": [[Id("a"), WS, Id(w[:1])], [Id(w[1:]), WS, Id("b")]]}
    return text("plain", False, [Id("x"), WS, P("="), WS, Id("y"), P(";")])


def random_sources(rng, n, nlines):
    pool = body_pool()
    out = []
    for _ in range(n):
        src = []
        stack = []          # per open conditional: elsed?
        with_inc = rng.random() < 0.2      # this source includes header files, some of them repeatedly
        hdr = list(headers().values())
        strfy = False       # a stringifying macro may be defined (conservative: set on definition, cleared never)
        for q in range(nlines):
            left = nlines - q
            if stack and left <= len(stack):
                stack.pop()
                src.append(cond("endif"))
                continue
            ch = rng.random()
            if ch < 0.30:
                name = rng.choice(["M1", "M2", "F", "G"])
                tag, body = rng.choice(pool[name])
                if any(l == P("#") for l in body):
                    # a stringifying macro: only if no rich text is generated afterwards (tracked by strfy)
                    strfy = True
                if name in ("M1", "M2"):
                    src.append(defobj(tag, name, body))
                else:
                    params = ["x"] if name == "F" else ["x", "y"]
                    if rng.random() < 0.2:
                        # a parameter spelled like a macro: inside the body the word is the parameter
                        ren = {rng.choice(params): rng.choice(["M1", "M2"])}
                        params = [ren.get(q, q) for q in params]
                        body = [Id(ren[l["s"]]) if l["k"] == "id" and l["s"] in ren else l for l in body]
                        tag += "-param-named-like-macro"
                    src.append(deffn(tag, name, params, body))
            elif ch < 0.36:
                src.append({"k": "undef", "tag": "undef", "rich": False, "name": rng.choice(["M1", "M2", "F"])})
            elif ch < 0.48 and len(stack) < 2 and left > len(stack) + 2:
                src.append(cond(rng.choice(["ifdef", "ifndef"]), rng.choice(["M1", "M2", "F"])))
                stack.append(False)
            elif ch < 0.56 and stack and not stack[-1]:
                stack[-1] = True
                src.append(cond("else"))
            elif ch < 0.64 and stack:
                stack.pop()
                src.append(cond("endif"))
            elif with_inc and ch < 0.76:
                src.append(rng.choice(hdr))
            else:
                src.append(rand_text(rng, strfy))
        while stack:
            stack.pop()
            src.append(cond("endif"))
        out.append(src)
    return out


def probes():
    """hand-picked constructs of the quantifier that the alphabets leave out on purpose (each of
    them would otherwise dominate the enumeration): one case each"""
    d_m1 = defobj("def-obj", "M1", [Id("5")])
    d_f = deffn("def-fn1", "F", ["x"], [Id("x"), WS, P("+"), WS, Id("1")])
    h = headers()
    use = text("use-obj-punct", False, [P("["), Id("M1"), P(","), Id("M2"), P("]"), P(";")])
    selfinc = include("include-cycle", "self.hpp", [text("plain", False, [Id("x"), P(";")]), include("include-cycle", "self.hpp", [], True)])
    c1 = include("include-cycle", "c1.hpp", [include("include-cycle", "c2.hpp", [include("include-cycle", "c1.hpp", [], True)])])
    return [
        [h["a"], h["b"], use],                                            # diamond: a.hpp and b.hpp both include common.hpp
        [h["plain"], h["plain"], use],                                    # the same unguarded file twice
        [h["common"], h["common"], h["a"], use],
        [cond("ifdef", "M1"), h["plain"], cond("endif"), h["plain"], h["b"]],   # skipped once, then obeyed
        [selfinc, use],                                                   # genuine cycles: must be refused
        [c1],
        [d_m1, text("use-obj-before-string", False, [Id("M1"), Str("s")])],
        # a continued line that starts with a string / a comment / a second continuation; also as the body of a definition
        [d_m1, {"k": "text", "tag": "continuation-then-str", "rich": False, "join": "bs", "segs": [[Id("x"), WS, P("="), WS], [Str("http://M1 // c"), P(";"), WS, {"k": "lc", "s": "// M1"}]]}],
        [d_m1, {"k": "text", "tag": "continuation-then-lc", "rich": False, "join": "bs", "segs": [[Id("M1"), WS, P("+"), WS], [{"k": "lc", "s": "// gone \""}]]}, text("plain", False, [Id("M1"), P(";")])],
        [d_m1, {"k": "text", "tag": "continuation-twice", "rich": False, "join": "bs", "segs": [[Id("a"), WS], [], [Str("// s"), WS, Id("M1")]]}],
        [{"k": "defobj", "tag": "def-obj-continued-string", "rich": False, "name": "M2", "segs": [[], [Str("u://v"), WS, {"k": "lc", "s": "// home"}]]}, text("use-obj", False, [Id("x"), WS, Id("M2"), P(";")])],
        # a parameter spelled like a defined macro: the body word is the parameter, the macro is untouched elsewhere
        [d_m1, deffn("def-fn1-param-named-like-macro", "F", ["M1"], [P("["), Id("M1"), P(","), Id("M1"), WS, P("*"), WS, Id("2"), P("]")]),
         text("call-1", False, call("F", [[Id("8")]]) + [WS, Id("M1")])],
        [d_m1, defobj("def-obj", "M2", [Id("7")]), deffn("def-fn2-param-named-like-macro", "G", ["M2", "y"], [Id("M2"), P("##"), Id("y"), WS, Id("M1"), WS, Id("M2")]),
         text("call-2", False, call("G", [[Id("a")], [Id("b")]]) + [WS, Id("M2")])],
        [d_f, text("fn-name-bare-in-arg", False, call("F", [[Id("F")]]))],
        [d_m1, d_f, text("fn-name-bare-in-arg-front", True, call("F", [[Id("F"), WS, Id("M1")]]))],
    ]


# ------------------------------------------------------------------------------------------------
def mc_cfg(name, depth, profile, emit, dev=None, invs=None):
    cfg = """SPECIFICATION Spec
CONSTANTS
  Depth = %d
  Emit = %s
  Profile = "%s"
  Dev = {%s}
INVARIANTS %s
""" % (depth, "TRUE" if emit else "FALSE", profile, '"%s"' % dev if dev else "", " ".join(invs or INVS))
    p = os.path.join(vlib.SPEC, "gen_c13_" + name + ".cfg")
    with open(p, "w") as f:
        f.write(cfg)
    return os.path.basename(p)


def nontrivial(src):
    return len(src) >= 2 and any(l["k"] != "text" for l in src)


def last_text_tag(src):
    tags = [l["tag"] for l in src if l["k"] == "text"]
    return tags[-1] if tags else src[-1]["tag"]


def drive_and_validate(cases, wdir, tag, chunks=None, batch=36000):
    """-> (crash reasons by case id, sample observations, bad entries, totals, TLC results); batched so
    that the thorough tier does not hold every event in memory"""
    crashes, samples, bad, results = {}, {}, [], []
    totals = {"lines": 0, "ops": 0, "execs": 0}
    want = {c["id"] for c in cases[:2] + cases[len(cases) // 2:len(cases) // 2 + 3] + cases[-5:-3]} if len(cases) > 1 else {c["id"] for c in cases}
    for b0 in range(0, len(cases), batch):
        part = cases[b0:b0 + batch]
        root = os.path.join(wdir, "files.%s.%d" % (tag, b0))
        for c in part:                       # cases with #include: the files are materialised in a directory of their own
            c.setdefault("files", [])
            c.pop("root", None)
            if c["files"]:
                c["root"] = os.path.join(root, c["id"])
                os.makedirs(c["root"], exist_ok=True)
                for f in c["files"] + [{"name": c["file"], "text": c["text"]}]:
                    with open(os.path.join(c["root"], f["name"]), "w", newline="") as fh:
                        fh.write(f["text"])
        events = vlib.run_driver("pp", part, wdir, kind="rel", timeout_s=5, tag="%s.%d" % (tag, b0))
        by = vlib.events_by_case(events)
        execs = [(c["id"], [e for e in by.get(c["id"], []) if e["e"] in ("Obs", "Crash")]) for c in part]
        for cid, evs in execs:
            for e in evs:
                if e["e"] == "Crash":
                    crashes[cid] = e.get("why", "?")
                elif cid in want:
                    samples[cid] = e
        b, t, r = vlib.validate_traces("Preproc_Trace", "Preproc_Trace.cfg", execs, wdir, "%s.%d" % (tag, b0), chunks=chunks or min(12, max(1, len(execs) // 200)), timeout_s=3000, xmx="2g -Xss128m")
        bad += b
        results += r
        totals["lines"] += t["lines"]
        totals["ops"] += t["ops"]
        totals["execs"] += len(execs)
        shutil.rmtree(root, ignore_errors=True)
        for f in os.listdir(wdir):
            if f.startswith(tag + ".") and (f.endswith(".ndjson") or f.endswith(".stderr")):
                os.remove(os.path.join(wdir, f))
    return crashes, samples, bad, totals, results


def run(rep, tier, seed, replay):
    rng = random.Random(seed)
    vlib.build("rel")
    wdir = vlib.workdir("C13")
    quick = tier == "quick"
    rep.assumptions += [
        "sources are sequences of lines of lexemes (word = [A-Za-z0-9_]+, one punctuation character, double-quoted string, blank, comment); "
        "the text given to the real preprocessor is the concatenation of the spellings (binding re-checked by TLC: text = Render(src))",
        "outputs are compared as lexeme sequences per line, modulo horizontal white space outside strings; trailing empty lines ignored; "
        "for sources with a #define or a text line continued by backslash-newline empty lines are not compared (their number is C14's subject)",
        "spacing conventions taken from tests/preprocess: a directive leaves an empty line, a continued line is one line, "
        "a function-like macro name without '(' directly behind it is left alone",
        "not generated (statement and golden files are silent): stringification of arguments containing macros/strings/blanks, white space "
        "around '##', calls directly followed by a word character, comments glued to words, backslash-newline inside strings, CRLF, "
        "single-quoted strings, built-in macros (__LINE__/__FILE__: C14), "
        "self-referential / mutually recursive macros (C10)",
        "#include: a small tree of header files per case (guarded/unguarded, nested, the same file several times, diamond, genuine cycles), "
        "materialised in a scratch directory mapped to the virtual root like the CLI does; `#line` marker lines and empty lines around "
        "included text are not compared (C14); a file may be included any number of times, only the #include of a file that is being "
        "expanded is a cycle and must be refused",
        "PassThrough is asserted byte for byte (output after the '#line 0' marker line = input) for sources without directive, macro name, comment and continuation",
        "conditionals nested at most 2 deep, 4 macro names (M1, M2 object-like; F(x), G(x,y) function-like; H() in the full profile)",
        "TLC 1.8 / Json+IOUtils community modules; driver projection harness/cmd_pp.cpp (own lexer)",
    ]
    sources = []      # (prefix, abstract source, text or None)
    if replay:
        obj = json.load(open(replay))
        cases = [obj["case"]]
    else:
        # ---- 1. design check of the reference; every wrong variant refuted by its formula
        checks = [("core", 3), ("full", 2), ("cond", 5)] if quick else [("core", 4), ("full", 3), ("cond", 7)]

        def design(pd):
            prof, depth = pd
            return pd, vlib.tlc("Preproc_MC", mc_cfg("mc_%s" % prof, depth, prof, True), workers=max(4, vlib.NCPU // 2), timeout_s=3000, xmx="12g",
                                tag="c13.mc." + prof)

        def refute(di):
            dev, inv = di
            prof, depth = ("cond", 5) if inv in ("InvInactive", "InvCond", "InvUndef") else ("core", 3)
            return di, vlib.tlc("Preproc_MC", mc_cfg("dev_%s_%s" % (dev, inv), depth, prof, False, dev=dev, invs=[inv]), workers=2, timeout_s=600,
                                tag="c13.dev.%s.%s" % (dev, inv))

        with concurrent.futures.ThreadPoolExecutor(max_workers=4) as ex:
            dres = list(ex.map(design, checks))
            rres = list(ex.map(refute, DEVS))
        for (dev, inv), r in rres:
            if r.violated != inv:
                raise vlib.MachineryError("non-vacuity self-test: wrong expander %s should violate %s, TLC said %s %s" % (dev, inv, r.violated, (r.error or "")[:400]))
            rep.design_runs.append({"what": "wrong expander %s refuted by %s (non-vacuity)" % (dev, inv), "generated": r.generated, "distinct": r.distinct})
        # ---- 2. the same runs are the generator: every complete source was printed
        for (prof, depth), r in dres:
            if not r.ok:
                raise vlib.MachineryError("design check of the reference expander failed (%s depth %d): %s %s" % (prof, depth, r.violated, (r.error or r.trace_text or "")[:1500]))
            rep.add_tlc(r, "Preproc_MC reference, profile %s, all sources <= %d lines: 7 invariants hold; generator" % (prof, depth))
            for n, p in enumerate(r.prints):
                o = json.loads(p)
                sources.append(("%s%d_" % (prof[0], depth) + str(n), o["src"], o["text"]))
        rep.exhaustive = True
        rep.extra["enumerated_sources"] = len(sources)
        # ---- 3. seeded deeper sources + probes
        nrand = 6000 if quick else 60000
        for n, s in enumerate(random_sources(rng, nrand, 8 if quick else 10) + random_sources(rng, nrand // 2, 14)):
            sources.append(("r%d" % n, s, None))
        for n, s in enumerate(probes()):
            sources.append(("p%d" % n, s, None))
        seen = set()
        cases = []
        for cid, s, t in sources:
            txt = render(s)
            if t is not None and t != txt:
                raise vlib.MachineryError("python rendering differs from Render of Preproc.tla: %r vs %r" % (txt, t))
            files = [{"name": n, "text": x} for n, x in sorted(files_of(s).items())]
            key = txt if not files else txt + json.dumps(files)
            if key in seen:
                continue
            seen.add(key)
            cases.append({"id": cid, "text": txt, "file": "case.sqf", "src": s, "files": files})
    rep.evaluations = len(cases)
    rep.rule = ("every well-formed source (conditionals balanced) of the bounded line alphabets of Preproc_MC (profiles core/full/cond) "
                "plus seeded random deeper sources (8-14 lines, calls nested to depth 3) and hand-picked probes; distinct by source text; "
                "non-trivial = >= 2 lines with at least one directive")
    rep.extra["distinct_nontrivial"] = len([c for c in cases if nontrivial(c["src"])])
    # ---- 4./5. drive the real preprocessor, validate by TLC
    crashes, sampled, bad, totals, results = drive_and_validate(cases, wdir, "c13")
    for r in results:
        rep.add_tlc(r)
    rep.traces = totals["execs"]
    rep.extra["trace_lines"] = totals["lines"]
    rep.extra["outputs_explained_by_reference"] = totals["ops"]
    cmap = {c["id"]: c for c in cases}
    for cid, e in sampled.items():
        rep.samples.append({"source": cmap[cid]["text"], "output": e["body"]})
    # ---- 6. classify; confirm each distinct key on a fresh single run
    keys = {}
    for b in bad:
        if b["why"].startswith("MACHINERY"):
            raise vlib.MachineryError("generator/binding fault: %s  source=%r" % (b, cmap[b["id"]]["text"]))
        op = b["op"]
        if b["why"] == "Crash":
            op = last_text_tag(cmap[b["id"]]["src"]) + ("" if b["op"] == "timeout" else "/" + b["op"].replace(" ", "-"))
        keys.setdefault("C13/%s/%s" % ("Terminates" if b["why"] == "Crash" else b["why"], op), []).append(b)
    for key, bs in sorted(keys.items()):
        b = min(bs, key=lambda z: (len(cmap[z["id"]]["src"]), len(cmap[z["id"]]["text"])))
        case = cmap[b["id"]]
        crashes2, sampled2, bad2, _, _ = drive_and_validate([case], wdir, "c13confirm", chunks=1)
        if not bad2:
            rep.notes.append("rejection %s of %s did not repeat" % (key, b["id"]))
            continue
        real = sampled2[case["id"]]["body"] if case["id"] in sampled2 else "(no output: %s)" % crashes2.get(case["id"], "?")
        rep.finding(key, "%s at line %s (%s): source %r -> real %r, reference %r" % (b["why"], b.get("at", 0), b["op"], case["text"], real, bad2[0].get("ref", "")),
                    {"property": "C13", "key": key, "case": case, "real_output": real, "reference_output": bad2[0].get("ref", ""), "verdict": bad2})
        rep.found[key]["count"] += len(bs) - 1
