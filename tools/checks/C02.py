"""C02 - control structures execute the statements SQF semantics prescribe (also used by C03).

spec/SqfRef.tla: reference semantics (big-step evaluator over program ASTs with scope chain, namespaces,
marker log), written from the property statements; SqfRef_MC: algebraic laws of the reference on an
enumerated family (call {S} = S, if true = then-branch, single-pass loops = body, ...) with mutated
semantics refuted; SqfRef_Trace: the marker log and script value of every generated program executed by
the real VM must equal the reference's.
"""
import json
import os
import random
import re

import gen_prog as G
import vlib

LEVEL = "model_checking"


def norm_e(e):
    k = e["k"]
    o = {"k": k}
    if k == "num":
        o["n"] = e["n"]
    elif k == "bool":
        o["b"] = e["b"]
    elif k == "str":
        o["s"] = e["s"]
    elif k == "var":
        o["loc"] = e["name"].startswith("_")
        o["ln"] = e["name"].lower()
    elif k == "arr":
        o["els"] = [norm_e(x) for x in e["els"]]
    elif k == "bin":
        o.update(op=e["op"], l=norm_e(e["l"]), r=norm_e(e["r"]))
    elif k == "lazy":
        o.update(op=e["op"], l=norm_e(e["l"]), body=norm_b(e["body"]))
    elif k in ("not", "neg", "cnt"):
        o["x"] = norm_e(e["x"])
    elif k == "sel":
        o.update(x=norm_e(e["x"]), i=norm_e(e["i"]))
    elif k == "call":
        o["body"] = norm_b(e["body"])
    elif k == "callw":
        o.update(arg=norm_e(e["arg"]), body=norm_b(e["body"]))
    elif k == "if":
        o.update(c=norm_e(e["c"]), th=norm_b(e["th"]), hasel=e.get("el") is not None, el=norm_b(e.get("el") or []))
    elif k in ("fcount", "fselect", "fapply", "ffindif"):
        o.update(body=norm_b(e["body"]), arr=norm_e(e["arr"]))
    elif k == "switch":
        o.update(v=norm_e(e["v"]), body=norm_b(e["body"]))
    elif k == "try":
        o.update(body=norm_b(e["body"]), handler=norm_b(e["handler"]))
    elif k == "isnilc":
        o["body"] = norm_b(e["body"])
    elif k == "getvar":
        o.update(ns=e["ns"], ln=e["name"].lower())
    elif k == "isnils":
        o.update(loc=e["name"].startswith("_"), ln=e["name"].lower())
    elif k == "allvars":
        o["ns"] = e["ns"]
    elif k == "within":
        o.update(ns=e["ns"], body=norm_b(e["body"]))
    elif k == "nil":
        pass
    else:
        raise vlib.MachineryError("norm expr " + k)
    return o


def norm_s(s):
    k = s["k"]
    o = {"k": k}
    if k in ("expr", "mark", "throw"):
        o["x"] = norm_e(s["x"])
    elif k == "assign":
        o.update(loc=s["name"].startswith("_"), ln=s["name"].lower(), x=norm_e(s["x"]))
    elif k == "private":
        o.update(ln=s["name"].lower(), x=norm_e(s["x"]))
    elif k == "privates":
        o["ln"] = s["name"].lower()
    elif k == "params":
        o["lns"] = [n.lower() for n in s["names"]]
    elif k == "exitwith":
        o.update(c=norm_e(s["c"]), body=norm_b(s["body"]))
    elif k == "while":
        o.update(c=norm_b(s["c"]), body=norm_b(s["body"]))
    elif k == "for":
        o.update(ln=s["var"].lower(), hasstep=s.get("step") is not None, step=norm_e(s.get("step") or G.num(1)), body=norm_b(s["body"]))
        o["from"] = norm_e(s["from"])
        o["to"] = norm_e(s["to"])
    elif k == "foreach":
        o.update(body=norm_b(s["body"]), arr=norm_e(s["arr"]))
    elif k == "scopename":
        o["s"] = s["s"]
    elif k == "breakout":
        o.update(s=s["s"], hasx=s.get("x") is not None, x=norm_e(s.get("x") or {"k": "nil"}))
    elif k == "case":
        o.update(x=norm_e(s["x"]), hasbody=s.get("body") is not None, body=norm_b(s.get("body") or []))
    elif k == "default":
        o["body"] = norm_b(s["body"])
    elif k == "setvar":
        o.update(ns=s["ns"], ln=s["name"].lower(), x=norm_e(s["x"]))
    elif k == "spawn":
        o["body"] = norm_b(s["body"])
    else:
        raise vlib.MachineryError("norm stmt " + k)
    return o


def norm_b(b):
    return [norm_s(s) for s in b]


CONSTRUCTS = ["if", "exitwith", "while", "for", "foreach", "fcount", "fselect", "fapply", "ffindif", "switch", "call", "callw", "try", "scoped", "lazy"]


def classify(prog_text):
    found = []
    for kw, name in (("exitWith", "exitwith"), ("forEach", "foreach"), ("while", "while"), ('for "', "for"), ("switch", "switch"), ("breakOut", "breakout"),
                     ("try", "try"), (" count ", "count"), ("findIf", "findif"), ("apply", "apply"), ("select {", "select"), ("&& {", "lazy"), ("|| {", "lazy"), ("if (", "if"), ("call", "call")):
        if kw in prog_text and name not in found:
            found.append(name)
    return "+".join(sorted(found)[:3]) or "straight"


def systematic(rng):
    """every construct with its characteristic edge cases, hand-enumerated as ASTs through the generator's constructors"""
    n, b, v, A = G.num, G.boolean, G.var, G.arr
    M = lambda x: G.mark(x)
    E = G.st_expr
    progs = []
    def P(*stmts):
        progs.append(list(stmts))
    # if / else values
    for c in (True, False):
        P(G.assign("gA", {"k": "if", "c": b(c), "th": [E(n(1))], "el": [E(n(2))]}), M(v("gA")))
        P(M(n(0)), E({"k": "if", "c": b(c), "th": [M(n(1))], "el": None}), M(n(2)))
    # exitWith leaves exactly the enclosing scope
    P(G.assign("gA", G.call([M(n(1)), {"k": "exitwith", "c": b(True), "body": [M(n(2)), E(n(5))]}, M(n(3)), E(n(6))])), M(v("gA")), M(n(4)))
    P(G.assign("gA", G.call([{"k": "exitwith", "c": b(False), "body": [E(n(5))]}, M(n(3)), E(n(6))])), M(v("gA")))
    P({"k": "foreach", "body": [M(v("_x")), {"k": "exitwith", "c": G.binop(">", v("_x"), n(1)), "body": [M(n(99))]}, M(n(7))], "arr": A(n(1), n(2), n(3))}, M(n(8)))
    P({"k": "for", "var": "_i", "from": n(0), "to": n(3), "body": [M(v("_i")), {"k": "exitwith", "c": G.binop("==", v("_i"), n(1)), "body": []}, M(n(7))]}, M(n(8)))
    P(G.assign("gW", n(0)), {"k": "while", "c": [E(G.binop("<", v("gW"), n(5)))], "body": [G.assign("gW", G.binop("+", v("gW"), n(1))), {"k": "exitwith", "c": G.binop("==", v("gW"), n(2)), "body": [M(n(50))]}, M(v("gW"))]}, M(n(8)))
    # loops: counts and bindings
    for frm, to, step in ((0, 2, None), (2, 0, None), (0, 0, None), (0, 4, 2), (3, 0, -1), (0, 3, 5), (5, 5, -1)):
        s = {"k": "for", "var": "_i", "from": n(frm), "to": n(to), "body": [M(v("_i"))]}
        if step is not None:
            s["step"] = n(step)
        P(s, M(n(9)))
    P({"k": "for", "var": "_i", "from": n(0), "to": n(5), "body": [M(v("_i")), G.assign("_i", G.binop("+", v("_i"), n(1)))]}, M(n(9)))
    for arr in (A(), A(n(7)), A(n(7), n(8), n(9))):
        P({"k": "foreach", "body": [M(A(v("_x"), v("_forEachIndex")))], "arr": arr}, M(n(9)))
        P(M({"k": "fcount", "body": [E(G.binop(">", v("_x"), n(7)))], "arr": arr}))
        P(M({"k": "fselect", "arr": arr, "body": [E(G.binop(">", v("_x"), n(7)))]}))
        P(M({"k": "fapply", "arr": arr, "body": [E(G.binop("*", v("_x"), n(2)))]}))
        P(M({"k": "ffindif", "arr": arr, "body": [M(v("_x")), E(G.binop(">", v("_x"), n(7)))]}))
    P(G.assign("gW", n(0)), {"k": "while", "c": [M(n(100)), E(G.binop("<", v("gW"), n(3)))], "body": [G.assign("gW", G.binop("+", v("gW"), n(1))), M(v("gW"))]}, M(n(9)))
    # switch: first match wins, fall-through, default anywhere
    for val in (1, 2, 3, 4):
        body = [{"k": "case", "x": n(1), "body": [M(n(10)), E(n(10))]}, {"k": "case", "x": n(2)}, {"k": "case", "x": n(3), "body": [M(n(30)), E(n(30))]},
                {"k": "default", "body": [M(n(40)), E(n(40))]}, {"k": "case", "x": n(1), "body": [M(n(11)), E(n(11))]}]
        P(G.assign("gA", {"k": "switch", "v": n(val), "body": body}), M(v("gA")))
        P(G.assign("gA", {"k": "switch", "v": n(val), "body": [body[3]] + body[:3]}), M(v("gA")))
        P(G.assign("gA", {"k": "switch", "v": n(val), "body": body[:1]}), M({"k": "isnilc", "body": [E(v("gA"))]}))
        # cases executed in a scope nested in the switch block; default outside
        for wrap in ("call", "if"):
            grp = body[:3]
            nested = E(G.call(grp)) if wrap == "call" else E({"k": "if", "c": b(True), "th": grp, "el": None})
            P(G.assign("gA", {"k": "switch", "v": n(val), "body": [nested, M(n(50)), body[3], M(n(51)), body[4]]}), M(v("gA")))
            P(G.assign("gA", {"k": "switch", "v": n(val), "body": [body[3], nested, M(n(50))]}), M(v("gA")))
    # every loop iteration is a scope of its own: it can be named again; a body without a value gives nil
    P({"k": "foreach", "body": [{"k": "scopename", "s": "s"}, M(v("_x"))], "arr": A(n(1), n(2), n(3))}, M(n(9)))
    P({"k": "for", "var": "_i", "from": n(0), "to": n(2), "body": [{"k": "scopename", "s": "s"}, M(v("_i"))]}, M(n(9)))
    P(G.assign("gW", n(0)), {"k": "while", "c": [{"k": "scopename", "s": "c"}, E(G.binop("<", v("gW"), n(2)))], "body": [{"k": "scopename", "s": "b"}, G.assign("gW", G.binop("+", v("gW"), n(1))), M(v("gW"))]}, M(n(9)))
    P(M({"k": "fcount", "body": [{"k": "scopename", "s": "s"}, E(G.binop(">", v("_x"), n(1)))], "arr": A(n(1), n(2), n(3))}))
    P(M({"k": "fapply", "arr": A(n(1), n(2)), "body": [{"k": "scopename", "s": "s"}, G.assign("gA", v("_x"))]}), M(v("gA")))
    P(M({"k": "fapply", "arr": A(n(1), n(2)), "body": []}), M(n(9)))
    # switch over strings: labels are compared exactly (also the letter case)
    S = lambda t: {"k": "str", "s": t}
    for val in ("b", "B", "c"):
        for labels in (("B", "b"), ("b", "B"), ("B",), ("a", "B")):
            sb = [{"k": "case", "x": S(l), "body": [M(S("case " + l)), E(n(10 + i))]} for i, l in enumerate(labels)] + [{"k": "default", "body": [M(S("default")), E(n(40))]}]
            P(G.assign("gA", {"k": "switch", "v": S(val), "body": sb}), M(v("gA")))
        P(G.assign("gA", {"k": "switch", "v": S(val), "body": [{"k": "case", "x": S("B")}, {"k": "case", "x": S("a"), "body": [M(n(1)), E(n(1))]}, {"k": "default", "body": [E(n(2))]}]}), M(v("gA")))
    # an exception thrown by the code of exitWith, taken directly in a try block, is caught by that try
    for c in (True, False):
        P(G.assign("gA", {"k": "try", "body": [M(n(1)), {"k": "exitwith", "c": b(c), "body": [M(n(2)), {"k": "throw", "x": n(7)}, M(n(3))]}, M(n(4)), E(n(5))],
                          "handler": [M(v("_exception")), E(G.binop("+", v("_exception"), n(1)))]}), M(v("gA")))
    P(G.assign("gA", {"k": "try", "body": [{"k": "foreach", "body": [E({"k": "try", "body": [{"k": "exitwith", "c": G.binop("==", v("_x"), n(2)), "body": [{"k": "throw", "x": v("_x")}]}, M(v("_x")), E(n(0))],
                                                                        "handler": [M(A(n(9), v("_exception")))]})], "arr": A(n(1), n(2), n(3))}, M(n(8)), E(n(6))],
                      "handler": [M(n(99))]}), M(v("gA")))
    # try / throw
    P(G.assign("gA", {"k": "try", "body": [M(n(1)), {"k": "throw", "x": n(7)}, M(n(2))], "handler": [M(v("_exception")), E(G.binop("+", v("_exception"), n(1)))]}), M(v("gA")))
    P(G.assign("gA", {"k": "try", "body": [M(n(1)), E(n(3))], "handler": [M(n(2)), E(n(4))]}), M(v("gA")))
    P(G.assign("gA", {"k": "try", "body": [E(G.call([E(G.call([{"k": "throw", "x": n(7)}])), M(n(2))])), M(n(3))], "handler": [E(v("_exception"))]}), M(v("gA")))
    P(G.assign("gA", {"k": "try", "body": [{"k": "foreach", "body": [M(v("_x")), {"k": "throw", "x": v("_x")}], "arr": A(n(4), n(5))}, M(n(3))], "handler": [E(v("_exception"))]}), M(v("gA")))
    # an exception thrown by a handler belongs to the next try further out
    P(G.assign("gA", {"k": "try", "body": [E({"k": "try", "body": [M(n(1)), {"k": "throw", "x": n(7)}], "handler": [M(v("_exception")), {"k": "throw", "x": G.binop("+", v("_exception"), n(1))}, M(n(2))]}), M(n(3))],
                      "handler": [M(v("_exception")), E(G.binop("*", v("_exception"), n(2)))]}), M(v("gA")))
    P(G.assign("gA", {"k": "try", "body": [E(G.call([E({"k": "try", "body": [{"k": "throw", "x": n(1)}], "handler": [E(G.call([{"k": "throw", "x": n(2)}]))]})])), M(n(3))], "handler": [E(v("_exception"))]}), M(v("gA")))
    # breakOut with value while operands of the left scopes are pending
    P(M(G.binop("+", n(1), G.call([{"k": "scopename", "s": "s"}, E(G.binop("+", n(5), G.call([{"k": "breakout", "s": "s", "x": n(9)}])))]))))
    P(M(A(n(0), G.call([{"k": "scopename", "s": "s"}, E(A(n(1), n(2), G.call([E(G.binop("-", n(4), G.call([{"k": "breakout", "s": "s", "x": n(9)}])))])))]))))
    # the body rebinds its own _x
    for kind in ("fselect", "fapply", "fcount", "ffindif"):
        P(M({"k": kind, "arr": A(n(1), n(-3), n(4)), "body": [G.assign("_x", G.binop("*", v("_x"), v("_x"))), E(G.binop(">", v("_x"), n(2)) if kind != "fapply" else v("_x"))]}))
    P({"k": "foreach", "body": [G.assign("_x", G.binop("+", v("_x"), n(10))), M(A(v("_x"), v("_forEachIndex")))], "arr": A(n(1), n(2))}, M(n(9)))
    # scopeName / breakOut
    P(G.assign("gA", G.call([{"k": "scopename", "s": "s"}, M(n(1)), E(G.call([M(n(2)), {"k": "breakout", "s": "s", "x": n(7)}, M(n(3))])), M(n(4)), E(n(8))])), M(v("gA")))
    P(G.assign("gA", G.call([{"k": "scopename", "s": "s"}, E(G.call([E(G.call([{"k": "breakout", "s": "s", "x": n(7)}])), M(n(3))])), M(n(4)), E(n(8))])), M(v("gA")))
    P(E(G.call([{"k": "scopename", "s": "s"}, {"k": "foreach", "body": [M(v("_x")), E({"k": "if", "c": G.binop("==", v("_x"), n(2)), "th": [{"k": "breakout", "s": "s"}], "el": None})], "arr": A(n(1), n(2), n(3))}, M(n(4))])), M(n(5)))
    P(E(G.call([{"k": "scopename", "s": "o"}, E(G.call([{"k": "scopename", "s": "i"}, E(G.call([{"k": "breakout", "s": "i", "x": n(1)}])), M(n(2))])), M(n(3))])), M(n(4)))
    # lazy evaluation
    for l in (True, False):
        for op, sp in (("&&", "&&"), ("||", "||"), ("&&", "and"), ("||", "or")):
            for rv in (True, False):
                P(M({"k": "lazy", "op": op, "sp": sp, "l": b(l), "body": [M(n(1)), E(b(rv))]}), M(n(2)))
            P(M({"k": "bin", "op": op, "sp": sp, "l": b(l), "r": b(not l)}))
        # as the guard of count and as the condition of while
        P(M({"k": "fcount", "arr": A(n(3), n(0), n(5)), "body": [E({"k": "lazy", "op": "||", "sp": "or" if l else "||", "l": G.binop("==", v("_x"), n(0)), "body": [M(v("_x")), E(G.binop("<", v("_x"), n(4)))]})]}))
        P(G.assign("gW", n(0)), {"k": "while", "c": [E({"k": "lazy", "op": "&&", "sp": "and" if l else "&&", "l": G.binop("<", v("gW"), n(2)), "body": [M(n(5)), E(b(True))]})], "body": [G.assign("gW", G.binop("+", v("gW"), n(1))), M(v("gW"))]}, M(n(9)))
    # the value of a block whose last statement is a loop: while yields nothing, for / forEach the value of the last pass
    def loops():
        yield [G.assign("gW", n(0)), {"k": "while", "c": [E(G.binop("<", v("gW"), n(3)))], "body": [G.assign("gW", G.binop("+", v("gW"), n(1))), E(G.binop("*", v("gW"), n(10)))]}]
        yield [G.assign("gW", n(0)), {"k": "while", "c": [M(n(100)), E(G.binop("<", v("gW"), n(2)))], "body": [G.assign("gW", G.binop("+", v("gW"), n(1))), E(v("gW"))]}]
        yield [{"k": "while", "c": [E(b(False))], "body": [E(n(99))]}]
        yield [{"k": "for", "var": "_i", "from": n(0), "to": n(2), "body": [E(G.binop("*", v("_i"), n(10)))]}]
        yield [{"k": "for", "var": "_i", "from": n(2), "to": n(0), "body": [E(n(99))]}]
        yield [{"k": "foreach", "body": [E(G.binop("*", v("_x"), n(10)))], "arr": A(n(1), n(2))}]
        yield [{"k": "foreach", "body": [E(n(99))], "arr": A()}]
        yield [{"k": "foreach", "body": [G.assign("gA", v("_x"))], "arr": A(n(1), n(2))}]
    for lp in loops():
        P(M(A(n(7), G.call([E(n(5))] + lp))), M(n(9)))
        P(M(A(n(7), {"k": "if", "c": b(True), "th": [E(n(5))] + lp, "el": [E(n(0))]})), M(n(9)))
        P(M(A(n(7), {"k": "if", "c": b(False), "th": [E(n(0))], "el": lp})), M(n(9)))
        P(M(A(n(7), {"k": "try", "body": lp, "handler": [E(n(0))]})), M(n(9)))
        P(M(A(n(7), {"k": "try", "body": [{"k": "throw", "x": n(1)}], "handler": [E(n(5))] + lp})), M(n(9)))
        P(M(A(n(7), {"k": "switch", "v": n(1), "body": [{"k": "case", "x": n(1), "body": [E(n(5))] + lp}]})), M(n(9)))
        P(M(A(n(7), G.call([{"k": "exitwith", "c": b(True), "body": [E(n(5))] + lp}, E(n(6))]))), M(n(9)))
        P({"k": "foreach", "body": [M(A(v("_x"), G.call(lp)))], "arr": A(n(0), n(1))}, M(n(9)))
    # call: value, _this
    P(M(G.call([E(n(1)), E(n(2))])), M({"k": "isnilc", "body": [E(G.call([G.assign("gA", n(1))]))]}), M({"k": "callw", "arg": n(5), "body": [E(G.binop("+", v("_this"), n(1)))]}))
    P(M({"k": "callw", "arg": n(5), "body": [E(G.call([E(v("_this"))]))]}))
    return progs


def to_case(cid, prog):
    text = G.render(prog)
    return {"id": cid, "prog": prog, "text": text, "ast": norm_b(prog), "class": classify(text)}


_DL = re.compile(r"\[DIAG_LOG\] (.*)$", re.S)
_NEG0 = re.compile(r"(?<![\d.\w])-0(?![\d.])")     # negative zero is a float artefact, the reference computes on integers
_CV = re.compile(r"return value `(.*)`", re.S)


def observe(case, evs, script="main"):
    log = []
    value = "nil"
    res = "?"
    for e in evs:
        if e["e"] == "D" and e["code"] == 60019:
            m = _DL.search(e["full"] if "full" in e else e["txt"])
            if m:
                log.append(_NEG0.sub("0", m.group(1).strip()))
        elif e["e"] == "D" and e["code"] == 60095:
            m = _CV.search(e["txt"])
            if m:
                value = _NEG0.sub("0", m.group(1))
        elif e["e"] == "R":
            res = e["res"]
        elif e["e"] == "Crash":
            return dict(e)
    return {"e": "Prog", "id": case["id"], "ast": case["ast"], "log": log, "hasvalue": True, "value": value, "res": res, "class": case["class"]}


def validate(rep, cases, wdir, tag, pid):
    drv = [{"id": c["id"], "conf": {"max_runtime_ms": 4000, "slice": c.get("slice", 0)}, "runs": [{"scripts": c.get("scripts") or [{"name": "main", "text": c["text"], "suspend": c.get("suspend", False)}]}]} for c in cases]
    events = vlib.run_driver("run", drv, wdir, kind="rel", timeout_s=20, tag=tag)
    by = vlib.events_by_case(events)
    lines = [observe(c, by.get(c["id"], [])) for c in cases]
    per = max(1, len(lines) // 14)
    execs = [("chunk%d" % i, lines[i:i + per]) for i in range(0, len(lines), per)]
    bad, totals, results = vlib.validate_traces("SqfRef_Trace", "SqfRef_Trace.cfg", execs, wdir, tag, chunks=len(execs), xmx="6g", timeout_s=1800)
    for x in results:
        rep.add_tlc(x)
    rep.traces += len(lines)
    rep.extra["programs_judged"] = rep.extra.get("programs_judged", 0) + totals["ops"]
    rep.extra["programs_outside_number_domain"] = rep.extra.get("programs_outside_number_domain", 0) + totals.get("outside", 0)
    cmap = {c["id"]: c for c in cases}
    obs = {l["id"]: l for l in lines}
    groups = {}
    for b in bad:
        if b["why"].startswith("MACHINERY"):
            raise vlib.MachineryError("reference evaluation failed on a generated program: %s\n%s" % (b, cmap[b["id"]]["text"]))
        groups.setdefault("%s/%s/%s" % (pid, b["why"], b["op"]), []).append(b)
    for key, bs in sorted(groups.items()):
        b = min(bs, key=lambda x: len(cmap[x["id"]]["text"]))
        c = cmap[b["id"]]
        rep.finding(key, "%s in `%s`: observed log %s value %s, reference log %s value %s" % (b["why"], c["text"].replace("\n", " "), obs[b["id"]].get("log"), obs[b["id"]].get("value"), b.get("reflog"), b.get("refvalue")),
                    {"property": pid, "key": key, "case": {k: c[k] for k in ("id", "prog", "text", "class")}, "verdict": b})
        rep.found[key]["count"] += len(bs) - 1
    if len(lines) > 50:
        binding_selftest(rep, [l for l in lines if l.get("e") == "Prog" and l["id"] not in {b["id"] for b in bad}], wdir, tag)
    return lines


def binding_selftest(rep, accepted, wdir, tag):
    """The oracle must reject what the code did not do: recorded logs with one entry altered, one entry dropped,
    and a changed final value are all unexplained by the reference."""
    import copy
    pick = [l for l in accepted if len(l["log"]) >= 2][:30]
    corrupted = []
    for i, l in enumerate(pick):
        m = copy.deepcopy(l)
        if i % 3 == 0:
            m["log"][-1] = "[424242]"
        elif i % 3 == 1:
            del m["log"][len(m["log"]) // 2]
        else:
            m["log"][0], m["log"][-1] = m["log"][-1] + "0", m["log"][0]
        corrupted.append(m)
    bad, totals, results = vlib.validate_traces("SqfRef_Trace", "SqfRef_Trace.cfg", [("self", corrupted)], wdir, tag + "self", chunks=1, xmx="4g", timeout_s=600)
    missed = {m["id"] for m in corrupted} - {b["id"] for b in bad}
    if missed or not corrupted:
        raise vlib.MachineryError("binding self-test: %d corrupted logs were accepted (%s)" % (len(missed), sorted(missed)[:3]))
    rep.design_runs.append({"what": "binding self-test: %d recorded logs with one entry altered / dropped / swapped are all rejected by SqfRef_Trace" % len(corrupted)})


def design_check(rep):
    def cfg(name, mut):
        # C03 runs this design check too: the file name carries the process id, so that the two checks may run side by side
        p = os.path.join(vlib.SPEC, "gen_%s_%d.cfg" % (name, os.getpid()))
        open(p, "w").write("SPECIFICATION Spec\nCONSTANTS\n  Mut = \"%s\"\n  LoopFuel = 20\n  NestedBlocksInheritNamespace = TRUE\n"
                           "INVARIANTS LawCallTransparent LawSequence LawIfTrue LawForSingle LawForEachUnroll LawExitWithSkipsRest LawExitWithFalse LawWhileFalse LawLazy LawSwitchFirstMatch\n" % mut)
        return os.path.basename(p)
    r = vlib.tlc("SqfRef_MC", cfg("ref_ideal", "none"), workers=8, timeout_s=900)
    if not r.ok:
        raise vlib.MachineryError("SqfRef design check (laws) failed: %s %s" % (r.violated, (r.error or "")[:300]))
    rep.add_tlc(r, "SqfRef_MC: 10 algebraic laws on all pairs of statement lists")
    for mut, law in (("exit-continues", "LawExitWithSkipsRest"), ("foreach-skips-last", "LawForEachUnroll"), ("switch-last-match", "LawSwitchFirstMatch")):
        r2 = vlib.tlc("SqfRef_MC", cfg("ref_mut", mut), workers=4, timeout_s=600)
        if r2.violated != law:
            raise vlib.MachineryError("vacuity self-test: mutated semantics %s must violate %s, got %s" % (mut, law, r2.violated))
        rep.design_runs.append({"what": "mutated semantics %s violates %s (non-vacuity)" % (mut, law)})
    for name in ("ref_ideal", "ref_mut"):
        try:
            os.remove(os.path.join(vlib.SPEC, "gen_%s_%d.cfg" % (name, os.getpid())))
        except OSError:
            pass


def run(rep, tier, seed, replay):
    rng = random.Random(seed)
    vlib.build("rel")
    wdir = vlib.workdir("C02")
    rep.assumptions += [
        "the reference semantics is my reading of the property statement and DESIGN.md appendix A (integers, booleans, strings, arrays by value)",
        "observations: the marker log (diag_log str x) and the script's final value ('Context dropped with return value'); values of constructs are observed through marker statements",
        "negative zero is printed as 0 (the reference computes on integers of at most six digits; a generated program whose arithmetic leaves that range is not judged and counted in programs_outside_number_domain)",
        "generated programs are type-correct and terminating",
    ]
    if replay:
        c = json.load(open(replay))["case"]
        cases = [to_case(c["id"], c["prog"])]
    else:
        design_check(rep)
        cases = [to_case("sys%d" % i, p) for i, p in enumerate(systematic(rng))]
        n = 1200 if tier == "quick" else 30000
        for i in range(n):
            g = G.Gen(rng, depth=rng.choice([2, 3, 3, 4]))
            cases.append(to_case("rnd%d" % i, g.program(nstmts=rng.randint(2, 5))))
    rep.evaluations = len(cases)
    rep.rule = ("hand-enumerated edge cases of every construct (iteration counts and bindings, empty ranges, first match / fall-through / default, early exits at every level, throw across frames, breakOut across scopes, lazy evaluation) "
                "+ seeded random nestings of all constructs (depth 2-4); distinct by text; non-trivial = at least two constructs")
    rep.extra["distinct_nontrivial"] = len({c["text"] for c in cases if "+" in c["class"]})
    validate(rep, cases, wdir, "c02", "C02")
    for c in cases[:2] + cases[-2:]:
        rep.samples.append({"program": c["text"]})
