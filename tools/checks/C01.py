"""C01 - expressions group by precedence, left-assoc, unary tightest, operands in order.

spec/SqfExpr.tla: trees, PostOrder, Render (4 parenthesisation styles) and Parse (transcribed grammar);
SqfExpr_MC: for every tree up to a depth over one operator per class and level the grammar reads every
rendering as the tree (mutated grammars are refuted); the same trees are rendered to SQF text with
synthetic operators registered through the public register_sqfop, compiled and executed by the real
parser/VM, and TLC judges listing = PostOrder(tree) and value = grouping. The real registry is dumped:
single precedence per name, and every registered name is compiled in grouping templates.
"""
import json
import os
import random

import vlib

LEVEL = "model_checking"
DUMMY = ([{"cls": "b", "n": "vb%d" % k, "prec": k} for k in range(1, 11)] +
         [{"cls": "u", "n": "vu"}, {"cls": "b", "n": "vbu6", "prec": 6}, {"cls": "u", "n": "vbu6"}, {"cls": "b", "n": "vbu4", "prec": 4}, {"cls": "u", "n": "vbu4"},
          {"cls": "n", "n": "vn"},
          # names registered in several classes at once (the lexer picks one of seven token classes per level)
          {"cls": "b", "n": "vbn3", "prec": 3}, {"cls": "n", "n": "vbn3"},
          {"cls": "b", "n": "vbun4", "prec": 4}, {"cls": "u", "n": "vbun4"}, {"cls": "n", "n": "vbun4"},
          {"cls": "b", "n": "vbun9", "prec": 9}, {"cls": "u", "n": "vbun9"}, {"cls": "n", "n": "vbun9"}])
# (the class unary+nular is represented by a registered name: dynamicSimulationEnabled)
LEAF = {"x": "1", "y": "2"}


def real(tree):
    """model tree -> tree over the names the real VM knows"""
    k = tree["k"]
    if k == "lit":
        return {"k": "lit", "v": LEAF.get(tree["v"], tree["v"])}
    if k == "nul":
        return {"k": "nul", "op": tree["op"]}
    if k == "un":
        return {"k": "un", "op": "v" + tree["op"], "x": real(tree["x"])}
    if k == "bin":
        return {"k": "bin", "op": "v" + tree["op"], "lv": tree["lv"], "l": real(tree["l"]), "r": real(tree["r"])}
    return {"k": "arr", "els": [real(e) for e in tree["els"]]}


def needs(c, lv, right):
    return c["k"] == "bin" and (c["lv"] < lv or (right and c["lv"] == lv))


def render(t, st, rng):
    """SQF text of a (real-name) tree; st: min | full | left | right; random case and whitespace"""
    def ws():
        return rng.choice([" ", "  ", " \t", "\n", "\r\n", "\t\t "]) if rng.random() < 0.3 else " "

    def name(n):
        if rng.random() < 0.3:
            return "".join(ch.upper() if rng.random() < 0.5 else ch for ch in n)
        return n

    def wrap(c, need, side):
        s = go(c)
        compound = c["k"] in ("bin", "un")
        if need or (st == "full" and compound) or (st == side and compound):
            return "(" + s + ")"
        return s

    def go(t):
        k = t["k"]
        if k == "lit":
            return t["v"]
        if k == "nul":
            return name(t["op"])
        if k == "un":
            return name(t["op"]) + ws() + wrap(t["x"], t["x"]["k"] == "bin", "right")
        if k == "bin":
            return wrap(t["l"], needs(t["l"], t["lv"], False), "left") + ws() + name(t["op"]) + ws() + wrap(t["r"], needs(t["r"], t["lv"], True), "right")
        return "[" + ("," + ws()).join(go(e) for e in t["els"]) + "]"
    return go(t)


def project(code):
    """driver listing -> instruction records of SqfExpr.tla (pure projection)"""
    out = []
    for i in code:
        op = i["op"]
        if op == "PUSH":
            v = i.get("v", {})
            if i.get("k") == "code":
                out.append({"i": "PUSH", "v": "{code}"})
            elif v.get("t") == "n":
                out.append({"i": "PUSH", "v": str(v["n"])})
            elif v.get("t") == "s":
                out.append({"i": "PUSH", "v": '"' + v["s"] + '"'})
            else:
                out.append({"i": "PUSH", "v": json.dumps(v, sort_keys=True)})
        elif op == "GETVARIABLE":
            out.append({"i": "PUSH", "v": i["n"]})
        elif op == "CALLNULAR":
            out.append({"i": "NUL", "op": i["n"]})
        elif op == "CALLUNARY":
            out.append({"i": "UN", "op": i["n"]})
        elif op == "CALLBINARY":
            out.append({"i": "BIN", "op": i["n"], "lv": i["prec"]})
        elif op == "MAKEARRAY":
            out.append({"i": "ARR", "n": i["k"]})
        else:
            out.append({"i": op, "op": i.get("n", "")})
    return out


def shape(t):
    k = t["k"]
    if k == "bin":
        return "bin%d(%s,%s)" % (t["lv"], shape(t["l"])[:4], shape(t["r"])[:4])
    if k == "un":
        return "un(%s)" % shape(t["x"])[:8]
    if k == "arr":
        return "arr"
    return k


def mc_cfg(name, depth, emit, variant="ideal", levels="{1, 4, 6, 7, 10}"):
    p = os.path.join(vlib.SPEC, "gen_%s.cfg" % name)
    open(p, "w").write("SPECIFICATION Spec\nCONSTANTS\n  BinLevel <- MBinLevel\n  IsUnary <- MIsUnary\n  Depth = %d\n  Emit = %s\n  Levels = %s\n  Variant = \"%s\"\nINVARIANTS InvReading InvRoundTrip\n"
                       % (depth, "TRUE" if emit else "FALSE", levels, variant))
    return os.path.basename(p)


def random_tree(rng, d, levels):
    r = rng.random()
    if d == 0 or r < 0.25:
        return {"k": "lit", "v": rng.choice(["x", "y"])}
    if r < 0.4:
        return {"k": "un", "op": rng.choice(["u", "bu6", "bu4"]), "x": random_tree(rng, d - 1, levels)}
    if r < 0.5:
        return {"k": "arr", "els": [random_tree(rng, d - 1, levels) for _ in range(rng.randint(0, 3))]}
    if rng.random() < 0.2:
        op, lv = rng.choice([("bu6", 6), ("bu4", 4)])
    else:
        lv = rng.choice(levels)
        op = "b%d" % lv
    return {"k": "bin", "op": op, "lv": lv, "l": random_tree(rng, d - 1, levels), "r": random_tree(rng, d - 1, levels)}


def registry_cases(ops, rng, tier):
    """grouping templates over every registered name (compile only)"""
    bins = {}
    unary = set()
    nular = set()
    for o in ops:
        if o["cls"] == "b":
            bins.setdefault(o["n"], set()).add(o["prec"])
        elif o["cls"] == "u":
            unary.add(o["n"])
        else:
            nular.add(o["n"])
    rep = {}
    for n, ps in sorted(bins.items()):
        if len(ps) == 1 and n not in unary and n.isalpha():
            rep.setdefault(next(iter(ps)), n)
    # operands are variables: a sign in front of a number literal is folded into the literal by the parser
    L1, L2 = {"k": "lit", "v": "xa"}, {"k": "lit", "v": "xb"}
    L3 = {"k": "lit", "v": "xc"}
    cases = []
    skip = {"private", "true", "false"}
    for b, ps in sorted(bins.items()):
        if len(ps) != 1 or b in skip:
            continue
        lv = next(iter(ps))
        B = lambda l, r, op=b, lv=lv: {"k": "bin", "op": op, "lv": lv, "l": l, "r": r}
        trees = [B(B(L1, L2), L3)]                                     # left associative
        for ol, on in sorted(rep.items()):
            if on == b:
                continue
            O = lambda l, r, op=on, lv=ol: {"k": "bin", "op": op, "lv": lv, "l": l, "r": r}
            trees.append(O(L1, B(L2, L3)) if ol < lv else B(O(L1, L2), L3) if ol >= lv else None)     # 1 o 2 b 3
            trees.append(B(L1, O(L2, L3)) if ol > lv else O(B(L1, L2), L3))                            # 1 b 2 o 3
        if b in unary:
            trees.append(B(L1, {"k": "un", "op": b, "x": L2}))         # 1 b b 2
            trees.append(B({"k": "un", "op": b, "x": L1}, L2))         # b 1 b 2
        trees.append(B({"k": "un", "op": "str", "x": L1}, L2))         # str 1 b 2 : unary binds tighter
        if tier == "quick":
            trees = trees[:1] + rng.sample(trees[1:], min(3, len(trees) - 1))
        for t in trees:
            if t is not None:
                cases.append((b, t))
    plus = lambda l, r: {"k": "bin", "op": "+", "lv": 6, "l": l, "r": r}
    for u in sorted(unary):
        if u in skip:
            continue
        cases.append((u, plus(L1, {"k": "un", "op": u, "x": L2})))          # 1 + u 2
        cases.append((u, {"k": "un", "op": u, "x": {"k": "un", "op": "str", "x": L1}}))
    for n in sorted(nular):
        if n in skip:
            continue
        # a nular operator is an operand - also when the same name is a unary and/or binary operator as well
        cases.append((n, plus(L1, {"k": "nul", "op": n})))
        cases.append((n, {"k": "arr", "els": [{"k": "nul", "op": n}, L2]}))
        cases.append((n, {"k": "arr", "els": [L1, {"k": "nul", "op": n}]}))
        if n in bins and len(bins[n]) == 1:
            lv = next(iter(bins[n]))
            cases.append((n, {"k": "bin", "op": n, "lv": lv, "l": {"k": "arr", "els": [{"k": "nul", "op": n}]}, "r": L2}))      # [n] n 2
    return cases


def run(rep, tier, seed, replay):
    rng = random.Random(seed)
    vlib.build("rel")
    wdir = vlib.workdir("C01")
    rep.assumptions += [
        "levels 8 and 10 carry no registered operator, and no registered name is binary+nular: all ten levels and the binary/unary overlap are exercised with synthetic operators registered through the public register_sqfop (as --command-dummy-* does)",
        "leaves are the number literals 1 and 2 (the synthetic operators return [name, operands...], so the computed value spells the grouping)",
        "registered names are swept in grouping templates by compilation only (their implementations are not run)",
        "parser.tab.cc is bound to the grammar model by replay only",
    ]
    if replay:
        cases = [json.load(open(replay))["case"]]
        reg_lines = []
    else:
        d = 2
        r = vlib.tlc("SqfExpr_MC", mc_cfg("expr_ideal", d, False), workers=vlib.NCPU, timeout_s=1500, xmx="12g")
        if not r.ok:
            raise vlib.MachineryError("SqfExpr design check failed: %s %s" % (r.violated, (r.error or "")[:400]))
        rep.add_tlc(r, "SqfExpr_MC ideal grammar, all trees depth %d x 4 styles" % d)
        if tier == "thorough":
            # (all trees of depth 3 are more than TLC builds as one set; the thorough tier covers all ten levels at depth 2)
            r3 = vlib.tlc("SqfExpr_MC", mc_cfg("expr_ideal3", 2, False, levels="{1, 2, 3, 4, 5, 6, 7, 8, 9, 10}"), workers=vlib.NCPU, timeout_s=3000, xmx="24g")
            if not r3.ok:
                raise vlib.MachineryError("SqfExpr design check over all levels failed: %s" % (r3.violated or r3.error))
            rep.add_tlc(r3, "SqfExpr_MC ideal grammar, depth 2 over all ten levels")
        for v in ("rightassoc", "unaryloose"):
            r2 = vlib.tlc("SqfExpr_MC", mc_cfg("expr_dev", 2, False, v), workers=8, timeout_s=900)
            if r2.violated != "InvReading":
                raise vlib.MachineryError("vacuity self-test: mutated grammar %s must be refuted, got %s" % (v, r2.violated))
            rep.design_runs.append({"what": "mutated grammar %s violates InvReading (non-vacuity)" % v})
        g = vlib.tlc("SqfExpr_MC", mc_cfg("expr_gen", 2, True, levels="{1, 2, 3, 4, 5, 6, 7, 8, 9, 10}" if tier == "thorough" else "{1, 4, 6, 7, 10}"),
                     workers=vlib.NCPU, timeout_s=3000, xmx="16g")
        if not g.ok:
            raise vlib.MachineryError("SqfExpr generator failed: %s" % (g.error or g.violated))
        rep.add_tlc(g, "SqfExpr_MC generator")
        trees = [json.loads(p) for p in g.prints]
        levels = list(range(1, 11))
        trees += [random_tree(rng, rng.randint(3, 6), levels) for _ in range(2000 if tier == "quick" else 40000)]
        cases = []
        n = 0
        for t in trees:
            rt = real(t)
            for st in (["min", "full"] if tier == "quick" else ["min", "full", "left", "right"]):
                n += 1
                cases.append({"id": "e%d" % n, "tree": rt, "style": st, "text": "vd__v = " + render(rt, st, rng), "run": True, "dummy": DUMMY})
        rep.exhaustive = True
        # operators without a result in operand position: every operand instruction leaves exactly one value (nil here),
        # so the enclosing array / operator gets the operands of its own reading
        VOID = DUMMY + [{"cls": "uv", "n": "vuv"}, {"cls": "nv", "n": "vnv"}]
        one, two = {"k": "lit", "v": "1"}, {"k": "lit", "v": "2"}
        uv = lambda x: {"k": "un", "op": "vuv", "x": x}
        nv = {"k": "nul", "op": "vnv"}
        A = lambda *els: {"k": "arr", "els": list(els)}
        B3 = lambda l, r: {"k": "bin", "op": "vb3", "lv": 3, "l": l, "r": r}
        for t in (A(one, uv(two), one), A(uv(one)), A(uv(one), uv(two)), A(one, A(two, uv(one)), two), A(nv, one), A(one, nv), A(nv), A(one, uv(B3(one, two)), two),
                  B3(A(one, uv(two)), A(nv, two)), A(one, uv(A(nv)), two), A({"k": "un", "op": "vu", "x": A(uv(one))}, two)):
            for st in ("min", "full"):
                n += 1
                cases.append({"id": "v%d" % n, "tree": t, "style": st, "text": "vd__v = " + render(t, st, rng), "run": True, "dummy": VOID})
        # an operator defined for (number, array) only: the operands reach it in the order of the reading (the other order has no value)
        TYPED = DUMMY + [{"cls": "bt", "n": "vbt", "prec": 4}]
        BT = lambda l, r: {"k": "bin", "op": "vbt", "lv": 4, "l": l, "r": r}
        for t in (BT(one, A(two)), BT(A(two), one), BT(one, A(one, two, one)), BT(A(), two)):
            for st in ("min", "full"):
                n += 1
                cases.append({"id": "v%d" % n, "tree": t, "style": st, "text": "vd__v = " + render(t, st, rng), "run": True, "dummy": TYPED})
        # registry
        regev = vlib.run_driver("registry", [{"id": "reg"}], wdir, kind="rel", timeout_s=60, jobs=1, tag="reg")
        ops = [e for e in regev if e["e"] == "Op"]
        reg_lines = [{"e": "Registry", "id": "reg", "ops": [{"n": o["n"], "prec": o["prec"]} for o in ops if o["cls"] == "b"]}]
        rep.extra["registry"] = {"binary_overloads": len(reg_lines[0]["ops"]), "names": len({o["n"] for o in ops})}
        for focus, t in registry_cases(ops, rng, tier):
            n += 1
            cases.append({"id": "r%d" % n, "tree": t, "style": "min", "text": "vd__v = " + render(t, "min", rng), "run": False, "focus": focus})
        # `private` is a keyword token of its own in the lexer: its unary use in every letter case
        if any(o["n"] == "private" and o["cls"] == "u" for o in ops):
            L2 = {"k": "lit", "v": "xb"}
            for sp in ("private", "PRIVATE", "Private", "pRIVATE"):
                for t in ({"k": "un", "op": "private", "x": L2}, {"k": "arr", "els": [{"k": "lit", "v": "xa"}, {"k": "un", "op": "private", "x": L2}]}):
                    n += 1
                    cases.append({"id": "r%d" % n, "tree": t, "style": "min", "text": "vd__v = " + render(t, "min", random.Random(0)).replace("private", sp), "run": False, "focus": "private"})
        # the same templates over the synthetic operators (the classes and levels no registered name has)
        for focus, t in registry_cases(DUMMY, rng, "thorough"):
            n += 1
            cases.append({"id": "r%d" % n, "tree": t, "style": "min", "text": "vd__v = " + render(t, "min", rng), "run": False, "focus": focus, "dummy": DUMMY})
    rep.evaluations = len(cases)
    rep.rule = ("every tree of depth <= 2 over one operator per class/level (TLC-enumerated) x parenthesisation styles with random case/whitespace/comments, seeded random trees of depth 3-6 over all ten levels, "
                "and grouping templates over every registered binary/unary/nular name; distinct by text; non-trivial = at least one operator")
    rep.extra["distinct_nontrivial"] = len({c["text"] for c in cases if c["tree"]["k"] != "lit"})
    events = vlib.run_driver("asm", [{k: c[k] for k in ("id", "text", "run", "dummy") if k in c} for c in cases], wdir, kind="rel", timeout_s=20)
    by = vlib.events_by_case(events)
    lines = list(reg_lines)
    for c in cases:
        evs = by.get(c["id"], [])
        crash = [e for e in evs if e["e"] == "Crash"]
        if crash:
            lines.append(dict(crash[0]))
            continue
        a = [e for e in evs if e["e"] == "Asm"][0]
        v = [e for e in evs if e["e"] == "Value"]
        listing = project(a.get("code", []))
        if listing and listing[-1]["i"] == "ASSIGNTO":
            listing = listing[:-1]
        ok = a["ok"] and not [d for d in a["diags"] if d["lvl"] <= 1]
        lines.append({"e": "Case", "id": c["id"], "tree": c["tree"], "style": c["style"], "ok": ok, "listing": listing,
                      "hasval": bool(v) and c["run"], "val": v[0]["val"] if v else "", "shape": shape(c["tree"])})
    chunks = []
    per = max(1, len(lines) // 12)
    execs = [("chunk%d" % i, lines[i:i + per]) for i in range(0, len(lines), per)]
    bad, totals, results = vlib.validate_traces("SqfExpr_Trace", "SqfExpr_Trace.cfg", execs, wdir, "c01", chunks=len(execs), xmx="6g")
    for x in results:
        rep.add_tlc(x)
    rep.traces = len(cases)
    rep.extra["records_judged"] = totals["ops"]
    cmap = {c["id"]: c for c in cases}
    for c in cases[:3] + cases[-3:]:
        rep.samples.append({"text": c["text"], "style": c["style"]})
    groups = {}
    for b in bad:
        c = cmap.get(b["id"]) or {}
        what = "name:" + c["focus"] if c.get("focus") else b["op"].split("(")[0]
        groups.setdefault("C01/%s/%s" % (b["why"], what), []).append(b)
    for key, bs in sorted(groups.items()):
        b = min(bs, key=lambda x: len(cmap[x["id"]]["text"]) if x["id"] in cmap else 0)
        c = cmap.get(b["id"])
        rep.finding(key, "%s: %s" % (b["why"], c["text"] if c else b["op"]), {"property": "C01", "key": key, "case": c, "verdict": b})
        rep.found[key]["count"] += len(bs) - 1
