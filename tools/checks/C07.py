"""C07 - equality is an equivalence consistent with hashing; HashMap is a finite map.

(a) spec/Equality.tla: laws + reference equality, evaluated by TLC on tables recorded from the real
    operators (isEqualTo, ==, in, find, value::hash) over all ordered pairs / triples of a value pool.
(b) spec/HashMap.tla (+_MC, +_Trace): the finite map; exhaustive design check, one replayed history
    per transition, TLC trace validation of the observed map contents and results.
"""
import json
import os
import random

import vlib

LEVEL = "model_checking"
MAPS = ["m", "n"]


# ---------------- value trees <-> SQF text ----------------
def N(k): return {"t": "n", "n": k}
def S(s): return {"t": "s", "s": s}
def B(b): return {"t": "b", "b": b}
def A(*e): return {"t": "a", "a": list(e)}
NIL = {"t": "nil"}


def sqf_tree(t):
    k = t["t"]
    if k == "n":
        return t.get("txt", str(t["n"]))
    if k == "s":
        return t.get("txt") or ('"' + t["s"].replace('"', '""') + '"')
    if k == "b":
        return "true" if t["b"] else "false"
    if k == "nil":
        return "nil"
    if k == "a":
        return "[" + ",".join(sqf_tree(e) for e in t["a"]) + "]"
    if k == "c":
        return t["c"]
    if k == "h":
        return "createHashMapFromArray [" + ",".join("[%s,%s]" % (sqf_tree(p[0]), sqf_tree(p[1])) for p in t["src"]) + "]"
    raise vlib.MachineryError("tree " + k)


NEG0 = {"t": "n", "n": 0, "txt": "-0"}      # negative zero: another denotation of the scalar 0


def fold(t):
    k = t["t"]
    if k == "s":
        return S(t["s"].lower())
    if k == "a":
        return {"t": "a", "a": [fold(e) for e in t["a"]]}
    if k == "h":
        return {"t": "h", "h": [[fold(p[0]), fold(p[1])] for p in t["h"]]}
    return t


def want(t):
    """projection the driver is expected to produce for the value denoted by t"""
    k = t["t"]
    if k == "a":
        return {"t": "a", "a": [want(e) for e in t["a"]]}
    if k == "h":
        # the driver sorts entries by the printed JSON of the key
        items = [[want(p[0]), want(p[1])] for p in t["h"]]
        items.sort(key=lambda p: json.dumps(p[0], separators=(",", ":")))
        return {"t": "h", "h": items}
    if k == "c":
        return {"t": "c", "c": t["print"]}
    if k == "n":
        return {"t": "n", "n": t["n"]}
    if k == "s":
        return {"t": "s", "s": t["s"]}
    return t


def H(*pairs):
    # dictionary semantics applied by the generator: later pairs overwrite
    d = []
    for k, v in pairs:
        old = [p for p in d if json.dumps(want(p[0])) == json.dumps(want(k))]
        # an existing entry keeps its stored key, the value is overwritten
        d = [p if p not in old else [p[0], v] for p in d] if old else d + [[k, v]]
    return {"t": "h", "h": d, "src": [list(p) for p in pairs]}


def C(text, printed):
    return {"t": "c", "c": text, "print": printed}


def value_pools(rng, tier):
    base = [N(0), N(0), NEG0, A(NEG0), A(N(1), A(NEG0)), H((NEG0, N(1))), N(1), N(-1), S("a"), S("A"), S("a"), S(""), S("ab"), S("aB"), B(True), B(False), B(True),
            A(), A(), A(N(0)), A(N(0)), A(N(1)), A(S("a")), A(S("A")), A(A(N(0))), A(A(N(0))), A(N(0), N(1)), A(N(1), N(0)),
            A(NIL), A(N(0), NIL), A(B(True)), A(A()), A(A(), A()),
            C("{1}", "{ 1 }"), C("{1}", "{ 1 }"), C("{2}", "{ 2 }"), C("{_x + 1}", "{ _x + 1 }"),
            # code that differs in the letter case of a name only: whatever equality says about it, the hash must say the same
            C("{_X + 1}", "{ _X + 1 }"), C("{gA = _x}", "{ gA = _x }"), C("{ga = _x}", "{ ga = _x }"), A(C("{_x + 1}", "{ _x + 1 }")), A(C("{_X + 1}", "{ _X + 1 }")),
            H((C("{_x + 1}", "{ _x + 1 }"), N(1))), H((C("{_X + 1}", "{ _X + 1 }"), N(1))),
            H(), H(), H((N(1), N(2)), (N(3), N(4))), H((N(3), N(4)), (N(1), N(2))), H((S("a"), N(1))), H((S("A"), N(1))),
            H((A(N(0)), N(1))), H((N(1), A(N(2)))), H((N(1), A(N(2)))),
            H((N(1), N(2)), (N(3), N(4)), (N(5), N(6)), (N(7), N(8))), H((N(7), N(8)), (N(5), N(6)), (N(3), N(4)), (N(1), N(2)))]
    # strings with an embedded character 0: compared (and hashed) over their whole length
    nul = lambda codes: {"t": "s", "s": "".join(chr(c) for c in codes), "txt": "(toString %s)" % json.dumps(codes)}
    base += [nul([65, 0, 66]), nul([65, 0, 67]), nul([65, 0, 66]), S("A"), A(nul([65, 0, 66])), A(nul([65, 0, 67])), H((nul([65, 0, 66]), N(1))), H((nul([65, 0, 67]), N(1)))]
    # neighbouring single-precision numbers (one unit in the last place apart) are different numbers
    near = [N(8388608), N(8388609), N(8388610), N(16777216), N(16777218), N(16777220), N(-16777216), N(-16777218)]
    base += near + [A(near[0]), A(near[1]), A(N(1), near[3]), A(N(1), near[4]), H((near[0], N(1))), H((near[1], N(1))), H((N(1), near[3])), H((N(1), near[4]))]
    pools = [base]
    # random pools of nested values (seeded)
    atoms = [N(0), NEG0, N(1), N(2), S("a"), S("A"), S("b"), B(True), B(False)]

    def rnd(depth):
        r = rng.random()
        if depth == 0 or r < 0.45:
            return rng.choice(atoms)
        if r < 0.9:
            return A(*[rnd(depth - 1) for _ in range(rng.randint(0, 3))])
        return H(*[(rnd(depth - 1), rnd(depth - 1)) for _ in range(rng.randint(0, 3))])
    for _ in range(4 if tier == "quick" else 60):
        vals = [rnd(2) for _ in range(14)]
        vals += [json.loads(json.dumps(v)) for v in rng.sample(vals, 6)]  # equal-but-distinct duplicates
        pools.append(vals)
    return pools


# ---------------- map histories ----------------
def key_sqf(key):
    return "k" if key["k"] == "kvar" else key.get("txt") or sqf_tree(key["v"])


def map_sqf(op):
    k = op["op"]
    if k == "create":
        return "%s = createHashMap" % op["m"], False
    if k == "set":
        return "%s set [%s, %s]" % (op["m"], key_sqf(op["key"]), sqf_tree(op["val"])), False
    if k == "get":
        return "%s get %s" % (op["m"], key_sqf(op["key"])), True
    if k == "del":
        return "%s deleteAt %s" % (op["m"], key_sqf(op["key"])), True
    if k == "in":
        return "%s in %s" % (key_sqf(op["key"]), op["m"]), True
    if k == "count":
        return "count %s" % op["m"], True
    if k == "fromArray":
        return "%s = createHashMapFromArray [%s]" % (op["m"], ",".join("[%s,%s]" % (key_sqf(p[0]), sqf_tree(p[1])) for p in op["pairs"])), False
    if k == "copy":
        return "%s = +%s" % (op["m"], op["src"]), False
    if k == "newk":
        return "k = [%s]" % ",".join(sqf_tree(e) for e in op["elems"]), False
    if k == "mutk":
        return "k pushBack 9", False
    if k == "newkj":
        return "k = [j, 0]", False
    if k == "mutj":
        return "j pushBack 9", False
    if k == "mutval":
        m, ks = op["m"], key_sqf(op["key"])
        return "if (%s in %s && {(%s get %s) isEqualType []}) then { (%s get %s) pushBack 9 }" % (ks, m, m, ks, m, ks), False
    if k == "mutkeys":
        return "{ if (_x isEqualType []) then { _x pushBack 9; if (count _x > 0 && {(_x select 0) isEqualType []}) then { (_x select 0) pushBack 9 } } } forEach (keys %s)" % op["m"], False
    raise vlib.MachineryError("map op " + k)


SETUP = {"sqf": "m = createHashMap; n = createHashMap; k = []; j = [3]", "op": {"op": "setup"}}


def map_cases(hists, prefix):
    cases = []
    for i, h in enumerate(hists):
        steps = [SETUP]
        for op in h:
            text, ret = map_sqf(op)
            steps.append({"sqf": text, "op": op, "ret": ret})
        cases.append({"id": "%s%d" % (prefix, i), "watch": MAPS, "steps": steps})
    return cases


def random_map_histories(rng, n, length):
    lit = lambda t: {"k": "lit", "v": t}
    keys = [lit(N(0)), lit(N(1)), lit(S("a")), lit(S("A")), lit(B(True)), lit(A(N(0))), lit(A(N(0), N(9))), lit(A(A(N(0)))),
            lit(A(N(0), N(9), N(9))), lit(A()), {"k": "kvar"}, {"k": "kvar"},
            {"k": "lit", "v": N(0), "txt": "-0"}, {"k": "lit", "v": A(N(0)), "txt": "[-0]"}, {"k": "lit", "v": A(A(N(0))), "txt": "[[-0]]"},
            lit(N(16777216)), lit(N(16777218)), lit(A(N(8388608))), lit(A(N(8388609))),
            lit(A(A(N(3)), N(0))), lit(A(A(N(3), N(9)), N(0))), lit(A(A(N(3), N(9), N(9)), N(0))), lit(A(A(N(3)), N(0), N(9)))]
    vals = [N(5), N(6), S("x"), A(N(1))]
    out = []
    for _ in range(n):
        h = []
        for _ in range(length):
            k = rng.choice(["set", "set", "set", "get", "del", "in", "count", "fromArray", "copy", "newk", "mutk", "mutk", "newkj", "newkj", "mutj", "mutj", "create", "mutkeys", "mutkeys", "mutval", "mutval"])
            m = rng.choice(MAPS)
            if k in ("get", "del", "in", "mutval"):
                op = {"op": k, "m": m, "key": rng.choice(keys)}
            elif k == "set":
                op = {"op": k, "m": m, "key": rng.choice(keys), "val": rng.choice(vals)}
            elif k in ("count", "create", "mutkeys"):
                op = {"op": k, "m": m}
            elif k == "fromArray":
                op = {"op": k, "m": m, "pairs": [[rng.choice(keys), rng.choice(vals)] for _ in range(rng.randint(0, 4))]}
            elif k == "copy":
                op = {"op": k, "m": m, "src": [x for x in MAPS if x != m][0]}
            elif k == "newk":
                op = {"op": k, "elems": [N(0)] * rng.randint(0, 2)}
            else:
                op = {"op": k}
            h.append(op)
        out.append(h)
    return out


def directed_map_histories():
    """a key array that is looked up, changed in place at depth 1 or 2, and looked up again: every lookup must see
    the key's current contents (a hash remembered from before the change is stale)"""
    lit = lambda t, txt=None: {"k": "lit", "v": t, **({"txt": txt} if txt else {})}
    KV = {"k": "kvar"}
    out = []
    for look in ("in", "get", "del"):
        # inner array j = [3] inside k = [j, 0]
        for before, after in ((A(A(N(3)), N(0)), A(A(N(3), N(9)), N(0))),):
            for stored in (before, after):
                out.append([{"op": "newkj"}, {"op": "set", "m": "m", "key": lit(stored), "val": N(5)}, {"op": look, "m": "m", "key": KV},
                            {"op": "mutj"}, {"op": look, "m": "m", "key": KV}, {"op": "count", "m": "m"}])
                out.append([{"op": "newkj"}, {"op": "set", "m": "m", "key": lit(stored), "val": N(5)}, {"op": "set", "m": "n", "key": KV, "val": N(6)},
                            {"op": "mutj"}, {"op": look, "m": "m", "key": KV}, {"op": look, "m": "n", "key": KV}, {"op": look, "m": "n", "key": lit(before)}])
        # an array stored as value is changed through get: the map it was copied to / from holds an array of its own
        for first, second in (("m", "n"), ("n", "m")):
            out.append([{"op": "set", "m": "m", "key": lit(S("a")), "val": A(N(1))}, {"op": "copy", "m": "n", "src": "m"}, {"op": "mutval", "m": first, "key": lit(S("a"))},
                        {"op": look, "m": second, "key": lit(S("a"))}, {"op": "mutval", "m": second, "key": lit(S("a"))}, {"op": "mutval", "m": second, "key": lit(S("a"))}, {"op": "count", "m": first}])
        # the arrays handed out by `keys` are changed in place: the stored keys are not
        for stored in (A(N(0)), A(A(N(3)), N(0))):
            out.append([{"op": "set", "m": "m", "key": lit(stored), "val": N(5)}, {"op": "mutkeys", "m": "m"}, {"op": look, "m": "m", "key": lit(stored)}, {"op": "count", "m": "m"},
                        {"op": "set", "m": "m", "key": lit(stored), "val": N(6)}, {"op": "count", "m": "m"}])
        # outer array k = [0] changed by pushBack
        for stored in (A(N(0)), A(N(0), N(9))):
            out.append([{"op": "newk", "elems": [N(0)]}, {"op": "set", "m": "m", "key": lit(stored), "val": N(5)}, {"op": look, "m": "m", "key": KV},
                        {"op": "mutk"}, {"op": look, "m": "m", "key": KV}, {"op": "count", "m": "m"}])
    return out


def mc_cfg(name, depth, emit, captured=True, deep=True):
    cfg = """SPECIFICATION Spec
CONSTANTS
  MapVars = {"m", "n"}
  KeysCapturedByValue = %s
  KeysCapturedDeep = %s
  Depth = %d
  Emit = %s
VIEW %s
INVARIANTS InvDict InvKeyCaptured InvCopyIndependent
""" % ("TRUE" if captured else "FALSE", "TRUE" if deep else "FALSE", depth, "TRUE" if emit else "FALSE", "View" if emit else "ViewStep")
    p = os.path.join(vlib.SPEC, "gen_" + name + ".cfg")
    open(p, "w").write(cfg)
    return os.path.basename(p)


def run(rep, tier, seed, replay):
    rng = random.Random(seed)
    vlib.build("rel")
    wdir = vlib.workdir("C07")
    rep.assumptions += [
        "value pool: numbers (incl. 0/-0 as equal scalars), strings, booleans, nested arrays (with nil elements), code, hashmaps; no NaN (not denotable)",
        "case folding of the pool's strings is computed by the generator (ASCII)",
        "hash values are compared as decimal strings (64-bit does not fit TLC integers)",
        "map histories: 2 maps, literal keys + one mutable key array; exhaustive to the stated depth, seeded random beyond",
    ]
    # ================= (a) relation tables =================
    if replay:
        obj = json.load(open(replay))
        table_cases = obj.get("table_cases", [])
        mcases = obj.get("map_cases", [])
        pools = obj.get("pools", [])
    else:
        pools = value_pools(rng, tier)
        table_cases = [{"id": "p%d" % i, "exprs": [sqf_tree(v) for v in p]} for i, p in enumerate(pools)]
    tev = vlib.run_driver("eqtable", table_cases, wdir, kind="rel", timeout_s=120, tag="eq")
    tby = vlib.events_by_case(tev)
    lines = []
    for c, pool in zip(table_cases, pools):
        t = [e for e in tby.get(c["id"], []) if e["e"] == "Table"]
        if not t:
            rep.finding("C07/Crash/eqtable", "tabulating equality crashed: %s" % tby.get(c["id"]), {"property": "C07", "table_cases": [c], "pools": [pool]})
            continue
        t = dict(t[0])
        t["want"] = [want(v) for v in pool]
        t["fold"] = [fold(want(v)) for v in pool]
        lines.append(t)
    tp = os.path.join(wdir, "eq.trace.ndjson")
    vlib.write_ndjson(tp, lines)
    r = vlib.tlc("Equality", "Equality.cfg", env={"TRACE": tp}, workers=1, timeout_s=900)
    if r.error or not r.verdicts:
        raise vlib.MachineryError("Equality validation failed: %s" % (r.error or r.out[-2000:]))
    rep.add_tlc(r, "Equality laws on %d recorded tables" % len(lines))
    pairs = sum(len(p) ** 2 for p in pools)
    rep.extra["pairs_tabulated"] = pairs
    rep.extra["triples_checked"] = sum(len(p) ** 3 for p in pools)
    cmap = {c["id"]: (c, p) for c, p in zip(table_cases, pools)}
    for b in r.verdicts[-1]["bad"]:
        c, p = cmap[b["id"]]
        if b["why"].startswith("MACHINERY"):
            # which pool value is not the denoted tree? A map literal that does not come out as the dictionary of its
            # pairs is a violation of the finite-map clause; anything else is a defect of the generator / projection.
            t = [x for x in lines if x["id"] == b["id"]][0]
            off = [i for i in range(len(p)) if t["vals"][i] != t["want"][i]]
            if off and all('"t": "h"' in json.dumps(p[i]) for i in off):
                key = "C07/MapIsDict-content/fromArray"
                rep.finding(key, "MapIsDict-content: %s evaluates to %s" % (c["exprs"][off[0]], json.dumps(t["vals"][off[0]])[:300]),
                            {"property": "C07", "key": key, "table_cases": [c], "pools": [p], "verdict": b})
                continue
            raise vlib.MachineryError("pool value did not evaluate to the intended tree: %s %s" % (b, [c["exprs"][i] for i in off][:3]))
        key = "C07/%s/%s" % (b["why"], b["op"])
        wi, wj = b.get("i", 0), b.get("j", 0)
        what = "%s: %s vs %s" % (b["why"], c["exprs"][wi - 1] if wi else "?", c["exprs"][wj - 1] if wj else "?")
        rep.finding(key, what, {"property": "C07", "key": key, "table_cases": [c], "pools": [p], "verdict": b})
    rep.samples.append({"pool": table_cases[0]["exprs"][:12]} if table_cases else {})
    # ================= (b) map histories =================
    if not replay:
        d = 3 if tier == "quick" else 4
        m = vlib.tlc("HashMap_MC", mc_cfg("hm_mc", d + 1, False), workers=vlib.NCPU, timeout_s=1500, xmx="16g")
        if not m.ok:
            raise vlib.MachineryError("HashMap design check failed: %s %s" % (m.violated, (m.error or "")[:400]))
        rep.add_tlc(m, "HashMap_MC ideal depth %d" % (d + 1))
        m2 = vlib.tlc("HashMap_MC", mc_cfg("hm_dev", 4, False, captured=False), workers=4, timeout_s=600)
        if m2.violated not in ("InvDict", "InvKeyCaptured"):
            raise vlib.MachineryError("vacuity self-test: deviation HSetAliasKey must be refuted, TLC said %s" % m2.violated)
        rep.design_runs.append({"what": "deviation HSetAliasKey violates %s (non-vacuity)" % m2.violated, "generated": m2.generated, "distinct": m2.distinct})
        m3 = vlib.tlc("HashMap_MC", mc_cfg("hm_dev2", 4, False, deep=False), workers=4, timeout_s=600)
        if m3.violated not in ("InvDict", "InvKeyCaptured"):
            raise vlib.MachineryError("vacuity self-test: deviation shallow key capture must be refuted, TLC said %s" % m3.violated)
        rep.design_runs.append({"what": "deviation KeysCapturedDeep=FALSE (inner arrays of a key stay aliased) violates %s (non-vacuity)" % m3.violated, "generated": m3.generated, "distinct": m3.distinct})
        g = vlib.tlc("HashMap_MC", mc_cfg("hm_gen", d, True), workers=vlib.NCPU, timeout_s=1500, xmx="16g")
        if not g.ok:
            raise vlib.MachineryError("HashMap generator failed")
        rep.add_tlc(g, "HashMap_MC generator depth %d" % d)
        hists = [json.loads(p) for p in g.prints]
        mcases = map_cases(hists, "t")
        nrand, ln = (2000, 10) if tier == "quick" else (30000, 14)
        mcases += map_cases(random_map_histories(rng, nrand, ln), "r")
        mcases += map_cases(directed_map_histories(), "d")
        rep.exhaustive = True
    mev = vlib.run_driver("steps", mcases, wdir, kind="rel", timeout_s=20, tag="hm")
    mby = vlib.events_by_case(mev)
    execs = [(c["id"], [e for e in mby.get(c["id"], []) if e["e"] in ("Obs", "Crash")]) for c in mcases]
    bad, totals, results = vlib.validate_traces("HashMap_Trace", "HashMap_Trace.cfg", execs, wdir, "c07")
    for x in results:
        rep.add_tlc(x)
    rep.traces = len(execs) + len(lines)
    rep.evaluations = len(mcases) + pairs
    rep.extra["distinct_nontrivial"] = len({json.dumps([s["op"] for s in c["steps"]], sort_keys=True) for c in mcases if len(c["steps"]) >= 3}) + len(pools)
    rep.extra["ops_explained_by_spec"] = totals["ops"]
    rep.rule = ("(a) all ordered pairs/triples of each value pool tabulated through the real operators and judged by Equality.tla; "
                "(b) every transition of the bounded HashMap_MC graph replayed as a history + seeded random histories; "
                "non-trivial = history with >=2 operations or a pool; distinct by operation sequence")
    mmap = {c["id"]: c for c in mcases}
    for c in mcases[:2] + mcases[-2:]:
        rep.samples.append({"history": [s["sqf"] for s in c["steps"]]})
    groups = {}
    for b in bad:
        opname = b["op"]
        if b["why"] == "Crash":
            done = len([e for e in mby.get(b["id"], []) if e["e"] == "Obs"])
            steps = mmap[b["id"]]["steps"]
            opname = steps[min(done, len(steps) - 1)]["op"]["op"]
        groups.setdefault("C07/%s/%s" % (b["why"], opname), []).append(b)
    for key, bs in sorted(groups.items()):
        b = min(bs, key=lambda x: len(mmap[x["id"]]["steps"]))
        case = mmap[b["id"]]
        ev2 = vlib.run_driver("steps", [case], wdir, kind="rel", timeout_s=20, jobs=1, tag="confirm")
        ex2 = [(case["id"], [e for e in ev2 if e["e"] in ("Obs", "Crash")])]
        bad2, _, _ = vlib.validate_traces("HashMap_Trace", "HashMap_Trace.cfg", ex2, wdir, "c07confirm", chunks=1)
        if not bad2:
            rep.notes.append("rejection %s did not repeat" % key)
            continue
        rep.finding(key, "%s: history %s" % (b["why"], "; ".join(s["sqf"] for s in case["steps"][1:])),
                    {"property": "C07", "key": key, "map_cases": [case], "observed": ex2[0][1], "verdict": bad2})
        rep.found[key]["count"] += len(bs) - 1
