"""C04 - runtime errors are never silent, never skipped over, never leak into later code.

spec/Errors.tla: the property as a monitor over the observable event stream (markers, error
diagnostics, stack traces, run begin/end) + static script structure; Errors_MC: abstract machine of
the VM's error flag, all error positions x scripts x runs x interleavings, judged by the monitor
(ideal holds, the deviation "flag examined only after the next instruction" is refuted);
Errors_Trace: event streams of real executions judged by the same monitor.
"""
import json
import os
import random
import re

import vlib

LEVEL = "model_checking"

ERRX = ['1 + "a"', "[1] select 7", "call 5", '[] deleteAt "x"', "(1 + nil2__) + {}"]
ERRX = ['1 + "a"', "[1] select 7", "call 5", '[] deleteAt "x"']
ERRN = ["{5} count [1]", "[1] select {5}", "while {5} do {}", "[1] findIf {5}", "[1, 2] apply {1 + \"a\"}"]
ERRN = ["{5} count [1]", "[1] select {5}", "while {5} do {}", "[1] findIf {5}"]
NESTS = ["call", "if", "foreach", "for", "switch", "while", "try", "callarg", "count", "exitwith"]


class Builder:
    """Builds one script: text (one statement per line) + static table line -> item."""

    def __init__(self, rng, name):
        self.rng = rng
        self.name = name
        self.lines = []
        self.table = {}
        self.nh = 0
        self.nw = 0
        self.features = set()

    def emit(self, text, item=None):
        self.lines.append(text)
        if item:
            self.table[len(self.lines)] = item

    def item(self, kind, hs, h=0, inh=0):
        return {"kind": kind, "hs": list(hs), "h": h, "inh": inh}

    def mark(self, hs, inh, indent, kind="mark", h=0):
        ln = len(self.lines) + 1
        if kind == "hmark":
            # _exception holds the error that was caught: set, and free of the stack-trace report of an (earlier) failed
            # run - "H,true" is printed otherwise
            self.emit('%sdiag_log ["H", (isNil "_exception") || {((str _exception) find "Stacktrace") >= 0}];' % indent, self.item("hmark", hs, h, inh))
        else:
            self.emit("%sdiag_log %d;" % (indent, ln), self.item(kind, hs, h, inh))

    def err(self, kind, hs, inh, indent, semi=True):
        text = self.rng.choice(ERRX if kind == "errx" else ERRN)
        self.features.add(kind + ":" + text.split(" ")[0 if kind == "errn" else 1])
        self.emit("%s%s%s" % (indent, text, ";" if semi else ""), self.item(kind, hs, 0, inh))

    def block(self, depth, hs, inh, indent, plan):
        """plan: list of node kinds to place at this level, consumed left to right"""
        for node in plan:
            k = node[0]
            if k == "mark":
                self.mark(hs, inh, indent)
            elif k in ("errx", "errn"):
                self.err(k, hs, inh, indent, semi=node[1] if len(node) > 1 else True)
            elif k == "handled":
                self.nh += 1
                h = self.nh
                self.features.add("handler-depth-%d" % (len(hs) + 1))
                self.emit(indent + "{")
                self.block(depth + 1, hs + [h], inh, indent + "  ", node[1])
                self.emit(indent + "} except__ {")
                self.mark(hs, inh, indent + "  ", "hmark", h)
                self.block(depth + 1, hs, h, indent + "  ", node[2])
                self.emit(indent + "};")
                self.mark(hs, inh, indent, "cmark", h)
            elif k == "nest":
                kind = node[1]
                self.features.add("nest-" + kind)
                if kind == "call":
                    self.emit(indent + "call {")
                    close = "};"
                elif kind == "callarg":
                    self.emit(indent + "[1, 2] call {")
                    close = "};"
                elif kind == "if":
                    self.emit(indent + "if (true) then {")
                    close = "};"
                elif kind == "foreach":
                    self.emit(indent + "{")
                    close = "} forEach [1];"
                elif kind == "count":
                    self.emit(indent + "{")
                    close = "true } count [1];"
                elif kind == "for":
                    self.emit(indent + 'for "_i" from 0 to 0 do {')
                    close = "};"
                elif kind == "switch":
                    self.emit(indent + "switch (1) do { case 1: {")
                    close = "}; };"
                elif kind == "while":
                    self.nw += 1
                    self.emit(indent + "gW%d = 0; while {gW%d < 1} do { gW%d = gW%d + 1;" % ((self.nw,) * 4))
                    close = "};"
                elif kind == "exitwith":
                    # early-out idiom: the rest of the enclosing block is not executed (markers are optional for the monitor)
                    self.emit(indent + "if (true) exitWith {")
                    close = "};"
                elif kind == "try":
                    self.emit(indent + "try {")
                    close = "} catch { };"
                self.block(depth + 1, hs, inh, indent + "  ", node[2])
                self.emit(indent + close)
            else:
                raise ValueError(k)

    def finish(self):
        n = len(self.lines) + 2
        tab = []
        for ln in range(1, n + 1):
            tab.append(self.table.get(ln, {"kind": "none", "hs": [], "h": 0, "inh": 0}))
        return "\n".join(self.lines), tab


def random_plan(rng, depth, budget):
    """random nesting of marks / one or two errors / handlers / nests"""
    plan = []
    n = rng.randint(1, 3)
    for _ in range(n):
        r = rng.random()
        if depth < 3 and r < 0.25:
            plan.append(("handled", random_plan(rng, depth + 1, budget), random_plan(rng, depth + 2, budget) if rng.random() < 0.5 else [("mark",)]))
        elif depth < 3 and r < 0.5:
            plan.append(("nest", rng.choice(NESTS), random_plan(rng, depth + 1, budget)))
        elif r < 0.7 and budget[0] > 0:
            budget[0] -= 1
            plan.append((rng.choice(["errx", "errn"]),))
        else:
            plan.append(("mark",))
    return plan


def systematic_plans():
    """an erroring statement of each kind at each structural position"""
    plans = []
    for ek in ("errx", "errn"):
        E = (ek,)
        M = ("mark",)
        plans += [
            ("straight", [M, E, M]),
            ("last-statement", [M, E]),
            ("last-statement-nosemi", [M, (ek, False)]),
            ("first-statement", [E, M]),
            ("in-handled", [M, ("handled", [M, E, M], [M]), M]),
            ("in-handled-last", [("handled", [M, E], [M])]),
            ("in-nested-handled", [("handled", [M, ("handled", [E, M], [M]), M], [M]), M]),
            ("in-handler", [("handled", [E], [M, E, M]), M]),
            ("in-handler-of-nested", [("handled", [("handled", [E], [E, M]), M], [M]), M]),
            ("after-handled", [("handled", [M], [M]), E, M]),
        ]
        for nk in NESTS:
            plans += [
                ("nest-%s" % nk, [M, ("nest", nk, [M, E, M]), M]),
                ("nest-%s-last" % nk, [M, ("nest", nk, [M, E]), M]),
                ("handled-nest-%s" % nk, [("handled", [("nest", nk, [M, E, M]), M], [M]), M]),
                ("nest-%s-handled" % nk, [("nest", nk, [("handled", [E, M], [M]), M]), M]),
                ("nest-%s-at-end-of-script" % nk, [M, ("nest", nk, [E])]),
            ]
    return [("%s-%s" % (p[1][1][0] if False else n, i), pl) for i, (n, pl) in enumerate(plans)]


def build_script(rng, name, plan):
    b = Builder(rng, name)
    b.block(0, [], 0, "", plan)
    text, tab = b.finish()
    return text, tab, b.features


EVALFILE = "__evaluate_expression__"
CLEAN_PLAN = [("mark",), ("nest", "call", [("mark",)]), ("mark",)]


def make_case(rng, cid, plan, layout):
    """layout: 'single' | 'then-clean' (erroring run, then a clean script in a 2nd run) |
               'beside-clean' (two scripts scheduled in one run) | 'clean-then' """
    text, tab, feats = build_script(rng, "a", plan)
    ctext, ctab, _ = build_script(rng, "b", CLEAN_PLAN)
    sa = {"name": "a", "text": text, "suspend": layout == "beside-clean"}
    sb = {"name": "b", "text": ctext, "suspend": layout == "beside-clean"}
    if layout == "single":
        runs = [{"scripts": [sa]}]
        tabs = {"a": tab}
    elif layout in ("then-clean", "cli-then-clean"):
        runs = [{"scripts": [sa]}, {"scripts": [sb]}]
        tabs = {"a": tab, "b": ctab}
    elif layout in ("after-failed", "cli-after-failed"):
        # a run that failed (unhandled error) comes first: nothing of it may show in the run under test
        ftext, ftab, _ = build_script(rng, "f", [("mark",), ("errx",), ("mark",)])
        runs = [{"scripts": [{"name": "f", "text": ftext, "suspend": False}]}, {"scripts": [sa]}]
        tabs = {"f": ftab, "a": tab}
    elif layout in ("clean-then", "cli-clean-then"):
        runs = [{"scripts": [sb]}, {"scripts": [sa]}]
        tabs = {"a": tab, "b": ctab}
    elif layout == "eval":
        # the same statements evaluated as an expression by the embedder (runtime::evaluate_expression, what __EVAL uses)
        runs = [{"eval": text}]
        tabs = {EVALFILE: tab}
    elif layout == "eval-then-clean":
        runs = [{"eval": text}, {"scripts": [sb]}]
        tabs = {EVALFILE: tab, "b": ctab}
    elif layout == "eval-after-failed":
        ftext, ftab, _ = build_script(rng, "f", [("mark",), ("errx",), ("mark",)])
        runs = [{"scripts": [{"name": "f", "text": ftext, "suspend": False}]}, {"eval": text}]
        tabs = {"f": ftab, EVALFILE: tab}
    else:
        runs = [{"scripts": [sa, sb]}]
        tabs = {"a": tab, "b": ctab}
    return {"id": cid, "runs": runs, "tab": tabs, "conf": {"max_runtime_ms": 4000, "slice": 3 if layout == "beside-clean" else 0},
            "features": sorted(feats) + ["layout-" + layout], "text": text}


_CLI_DIAG = re.compile(r"^\[(INF|WRN|ERR|FAT)\] \[L(\d+)\|C(\d+)\|([^\]]*)\]\t(.*)$")


def cli_events(case):
    """the same runs through the command line tool's prompt loop (one VM, one input after the other): its printed
    output is projected onto the driver's event vocabulary (RB / D / R); no judgement here"""
    import subprocess
    names = [r["scripts"][0]["name"] for r in case["runs"]]
    texts = [r["scripts"][0]["text"].strip("\n") for r in case["runs"]]
    if any("\n\n" in t for t in texts):
        raise vlib.MachineryError("a script for the prompt loop contains an empty line")
    feed = "".join(t + "\n\n" for t in texts) + "exit__;\n\n"
    try:
        p = subprocess.run([vlib.sqfvm_cli("rel"), "--suppress-welcome", "--no-execute-print", "--no-load-executable-dir", "--max-runtime", "4000"],
                           input=feed, stdout=subprocess.PIPE, stderr=subprocess.STDOUT, text=True, timeout=60, errors="replace")
    except subprocess.TimeoutExpired:
        return [{"e": "Crash", "id": case["id"], "why": "timeout (prompt loop)"}]
    evs, run = [], -1
    lvl = {"FAT": 0, "ERR": 1, "WRN": 2, "INF": 3}
    for line in p.stdout.splitlines():
        if re.match(r"^1:\t", line):
            run += 1
            if run < len(names):
                evs.append({"e": "RB", "id": case["id"]})
            continue
        if run < 0 or run >= len(names):
            continue
        m = _CLI_DIAG.match(line)
        if m:
            msg = m.group(5)
            code = 60019 if msg.startswith("[DIAG_LOG]") else 60001 if msg.startswith("Stacktrace") else 0
            evs.append({"e": "D", "id": case["id"], "file": names[run] + ".sqf", "L": int(m.group(2)), "code": code, "lvl": lvl[m.group(1)], "txt": msg})
        elif line.startswith("Runtime Error occured"):
            evs.append({"e": "R", "id": case["id"], "res": "runtime_error"})
        elif line.startswith("Ran to completion"):
            evs.append({"e": "R", "id": case["id"], "res": "ok"})
    if p.returncode < 0:
        evs.append({"e": "Crash", "id": case["id"], "why": "signal %d (prompt loop)" % -p.returncode})
    return evs


def to_events(case, evs):
    """driver events -> monitor events (pure projection, no judgement)"""
    out = []
    nlines = {f: len(t) for f, t in case["tab"].items()}
    for e in evs:
        if e["e"] == "RB":
            out.append({"e": "Ev", "id": e["id"], "t": "RunBegin"})
        elif e["e"] == "R":
            out.append({"e": "Ev", "id": e["id"], "t": "RunEnd", "res": e["res"]})
        elif e["e"] == "D":
            f = e["file"][:-4] if e["file"].endswith(".sqf") else e["file"]
            if f not in nlines:
                continue
            L = e["L"] + 1 if f == EVALFILE else e["L"]       # an evaluated expression is not preprocessed: its lines count from 0
            line = L if 1 <= L <= nlines[f] else nlines[f]
            if e["code"] == 60019:
                out.append({"e": "Ev", "id": e["id"], "t": "Mark", "file": f, "line": line, "exc": "true" not in e["txt"].split("[DIAG_LOG]")[-1]})
            elif e["code"] == 60001:
                out.append({"e": "Ev", "id": e["id"], "t": "Trace", "file": f, "line": line})
            elif e["lvl"] <= 1:
                out.append({"e": "Ev", "id": e["id"], "t": "Err", "file": f, "line": line})
        elif e["e"] == "Crash":
            out.append(e)
    return out


def run(rep, tier, seed, replay):
    rng = random.Random(seed)
    vlib.build("rel")
    wdir = vlib.workdir("C04")
    rep.assumptions += [
        "scripts are generated with one statement per line; the diagnostic's line identifies the statement (a notice that is late within the same line is not observable and not demanded)",
        "erroring statements are drawn from a pool of operations that emit exactly one error-level diagnostic",
        "handlers are except__ blocks; their first statement logs whether _exception is set and free of the stack-trace report of another failure",
        "'reported as failed' is read as runtime::execute returning runtime_error plus a stack trace diagnostic (the CLI process status is not asserted)",
    ]
    if replay:
        cases = [json.load(open(replay))["case"]]
    else:
        def cfg(name, a, b, t, ev="FALSE", stops="TRUE"):
            p = os.path.join(vlib.SPEC, "gen_%s.cfg" % name)
            open(p, "w").write("SPECIFICATION Spec\nCONSTANTS\n  NoticeAfterNext = %s\n  FlagClearedAtRunStart = %s\n  Together = %s\n  RunIsEval = %s\n  EvalStopsAtError = %s\nINVARIANTS InvMonitor\n" % (a, b, t, ev, stops))
            return os.path.basename(p)
        for t in ("FALSE", "TRUE"):
            r = vlib.tlc("Errors_MC", cfg("err_ideal", "TRUE", "TRUE", t), workers=vlib.NCPU, timeout_s=900)
            if not r.ok:
                raise vlib.MachineryError("Errors design check failed: %s %s" % (r.violated, (r.error or "")[:400]))
            rep.add_tlc(r, "Errors_MC ideal, scripts %s" % ("scheduled together" if t == "TRUE" else "in consecutive runs"))
        r = vlib.tlc("Errors_MC", cfg("err_ideal", "TRUE", "TRUE", "FALSE", ev="TRUE"), workers=vlib.NCPU, timeout_s=900)
        if not r.ok:
            raise vlib.MachineryError("Errors design check (evaluations) failed: %s %s" % (r.violated, (r.error or "")[:400]))
        rep.add_tlc(r, "Errors_MC ideal, consecutive expression evaluations")
        r2 = vlib.tlc("Errors_MC", cfg("err_dev", "TRUE", "TRUE", "FALSE", ev="TRUE", stops="FALSE"), workers=4, timeout_s=600)
        if r2.violated != "InvMonitor":
            raise vlib.MachineryError("vacuity self-test: deviation EvalIgnoresError must be refuted, got %s" % r2.violated)
        rep.design_runs.append({"what": "deviation EvalIgnoresError (the evaluation loop goes on after an unhandled error) refuted (non-vacuity)", "generated": r2.generated, "distinct": r2.distinct})
        for t in ("FALSE", "TRUE"):
            r2 = vlib.tlc("Errors_MC", cfg("err_dev", "FALSE", "FALSE", t), workers=4, timeout_s=600)
            if r2.violated != "InvMonitor":
                raise vlib.MachineryError("vacuity self-test: deviation ErrorNoticedLate must be refuted, got %s" % r2.violated)
            rep.design_runs.append({"what": "deviation ErrorNoticedLate/flag-survives refuted (non-vacuity), together=%s" % t, "generated": r2.generated, "distinct": r2.distinct})
        cases = []
        for n, plan in systematic_plans():
            for layout in ("single", "then-clean", "beside-clean", "clean-then", "after-failed", "cli-then-clean", "cli-clean-then", "cli-after-failed", "eval", "eval-then-clean", "eval-after-failed"):
                cases.append(make_case(rng, "sys-%s-%s" % (n, layout), plan, layout))
        nrand = 400 if tier == "quick" else 8000
        for i in range(nrand):
            cases.append(make_case(rng, "rnd%d" % i, random_plan(rng, 0, [2]), rng.choice(["single", "then-clean", "beside-clean", "clean-then", "after-failed", "eval", "eval-then-clean"])))
    rep.evaluations = len(cases)
    rep.rule = ("an erroring statement of each kind (raised by the executing instruction / inside an iteration behaviour) at each structural position "
                "(straight-line, last statement, inside each loop/call construct, inside handled blocks, inside handlers, nested handlers) x run layout "
                "(alone, followed by a clean run, beside a clean script, after a clean run) + seeded random nestings; distinct by script text+layout; non-trivial = contains an erroring statement")
    def is_cli(c):
        return c["features"][-1].startswith("layout-cli-")
    events = vlib.run_driver("run", [{"id": c["id"], "runs": c["runs"], "conf": c["conf"]} for c in cases if not is_cli(c)], wdir, kind="rel", timeout_s=20)
    by = vlib.events_by_case(events)
    import concurrent.futures
    with concurrent.futures.ThreadPoolExecutor(max_workers=8) as ex:
        for c, evs in zip([c for c in cases if is_cli(c)], ex.map(cli_events, [c for c in cases if is_cli(c)])):
            by[c["id"]] = evs
    execs = []
    for c in cases:
        execs.append((c["id"], to_events(c, by.get(c["id"], []))))
    # Reset lines must carry the table: validate_traces writes {"e":"Reset","id":..}; extend it
    tabs = {c["id"]: c["tab"] for c in cases}
    bad, totals, results = vlib.validate_traces("Errors_Trace", "Errors_Trace.cfg", execs, wdir, "c04",
                                                reset_fields={cid: {"tab": t} for cid, t in tabs.items()})
    for x in results:
        rep.add_tlc(x)
    rep.traces = len(execs)
    rep.extra["events_judged"] = totals["ops"]
    rep.extra["distinct_nontrivial"] = len({c["text"] + c["features"][-1] for c in cases if any(f.startswith("err") for f in c["features"])})
    feats = {}
    for c in cases:
        for f in c["features"]:
            feats[f] = feats.get(f, 0) + 1
    rep.extra["feature_counts"] = feats
    cmap = {c["id"]: c for c in cases}
    for c in cases[:2] + cases[-2:]:
        rep.samples.append({"id": c["id"], "script_a": c["text"], "layout": c["features"][-1]})
    groups = {}
    for b in bad:
        c = cmap[b["id"]]
        # signature: formula / event kind@line kind / innermost construct features of the case
        key = "C04/%s/%s" % (b["why"], b["op"])
        groups.setdefault(key, []).append(b)
    for key, bs in sorted(groups.items()):
        b = min(bs, key=lambda x: (len(cmap[x["id"]]["runs"]), len(cmap[x["id"]]["text"])))
        case = cmap[b["id"]]
        ev2 = cli_events(case) if is_cli(case) else vlib.run_driver("run", [{"id": case["id"], "runs": case["runs"], "conf": case["conf"]}], wdir, kind="rel", timeout_s=20, jobs=1, tag="confirm")
        ex2 = [(case["id"], to_events(case, ev2))]
        bad2, _, _ = vlib.validate_traces("Errors_Trace", "Errors_Trace.cfg", ex2, wdir, "c04confirm", chunks=1,
                                          reset_fields={case["id"]: {"tab": case["tab"]}})
        if not bad2:
            rep.notes.append("rejection %s of %s did not repeat" % (key, b["id"]))
            continue
        rep.finding(key, "%s (%s) in %s: %s" % (b["why"], b["op"], case["features"][-1], case["text"].replace("\n", " ")),
                    {"property": "C04", "key": key, "case": case, "events": ex2[0][1], "verdict": bad2})
        rep.found[key]["count"] += len(bs) - 1
