"""C17 - PBO archives are read faithfully; damaged ones are rejected safely.

spec/Pbo.tla        abstract archive, Layout (byte offsets of every record), the faults Truncate(n),
                    CorruptLen(i, delta), Absent, the reader phases VersionHeader / Prop / PropsEnd /
                    EntryHeader / EntriesEnd / DataOffsets as steps of Apply, Read = the reference outcome
                    (Rejected | Exposes(S)), and the formulas Faithful, OnlyIntactExposed, NoSideEffects,
                    NeverCrashes
spec/Pbo_MC.tla     design check (the reference satisfies the formulas; four deliberately wrong readers are
                    refuted = non-vacuity) and generator: TLC enumerates archives x every truncation point x
                    length corruptions and prints one case per (archive, fault) with layout + reference outcome
spec/Pbo_Trace.tla  judges every observation of the real code
harness/cmd_pbo.cpp the driver: rvutils::pbo::pbofile, impl_default::add_pbo_mapping, loadFile (ASan build)

This module holds the INDEPENDENT packer (the repository's own writer is not used): it writes the PBO
byte layout from the abstract archive, applies the fault, records directory listing + hashes before /
after, runs the sanitizer build of the driver and hands everything to TLC.  The packer's own offsets
are compared with TLC's Layout for every case (a mismatch is a machinery error, never a verdict).
"""
import hashlib
import json
import os
import random
import shutil
import struct
import subprocess
import time
import concurrent.futures

import vlib

LEVEL = "model_checking"
NAMES = ["a.sqf", "d/b.txt", "config.cpp"]
SIZES = [0, 1, 5]
DELTAS_QUICK = [-2, -1, 1, 7, 2000000000]
DELTAS_THOROUGH = [-5, -1, 1, 2, 7, 100000, 2000000000]
WRONG_READERS = [("exposeCut", "InvOnlyIntactExposed"), ("crashOnCutTable", "InvNeverCrashes"),
                 ("createsAbsent", "InvNoSideEffects"), ("dropsEmptyEntries", "InvFaithful")]
ALL_INVARIANTS = ["InvFaithful", "InvOnlyIntactExposed", "InvNoSideEffects", "InvNeverCrashes", "InvNoViolation",
                  "InvReference", "InvPosition", "InvLayout"]
PHASE_ACTIONS = ["AVersionHeader", "AProp", "APropsEnd", "AEntryHeader", "AEntriesEnd", "ADataOffsets"]
# a single allocation of more than 4 MB for archives of at most a few KB is "memory unrelated to the file
# size": the sanitizer's allocator aborts the child, which main.cpp reports as a Crash event (sensed, DESIGN.md 8)
ALLOC_LIMIT_MB = 4
ASAN_ENV = {"ASAN_OPTIONS": "detect_leaks=0:abort_on_error=1:handle_abort=0:max_allocation_size_mb=%d:allocator_may_return_null=0:symbolize=0" % ALLOC_LIMIT_MB,
            "UBSAN_OPTIONS": "halt_on_error=1:abort_on_error=1:print_stacktrace=0"}
ASAN_ENV_SOLO = {"ASAN_OPTIONS": ASAN_ENV["ASAN_OPTIONS"].replace("symbolize=0", "symbolize=1"),
                 "UBSAN_OPTIONS": "halt_on_error=1:abort_on_error=1:print_stacktrace=1"}
CASE_TIMEOUT_S = 5


# ------------------------------------------------------------------------------------------------
# TLC configurations (tuples / records cannot be written in a .cfg: generated module)
# ------------------------------------------------------------------------------------------------
def tla_str(s):
    if '"' in s or any(ord(c) < 32 or ord(c) > 126 for c in s):
        raise vlib.MachineryError("string not representable in a generated TLA+ module: %r" % s)
    return '"%s"' % s.replace("\\", "\\\\")


def tla_arch(a):
    props = ", ".join("<<%s, %s>>" % (tla_str(k), tla_str(v)) for k, v in a["props"])
    ents = ", ".join("[name |-> %s, size |-> %d, blob |-> %s]" % (tla_str(e["name"]), e["size"], tla_str(e["blob"])) for e in a["entries"])
    return "[props |-> <<%s>>, entries |-> <<%s>>]" % (props, ents)


def mc_cfg(name, mode="space", variant="reference", emit=False, names=NAMES, sizes=SIZES, maxentries=2, maxprops=2,
           allpoints=True, deltas=DELTAS_QUICK, given=(), invariants=None):
    mod = "gen_pbo_" + name
    with open(os.path.join(vlib.SPEC, mod + ".tla"), "w") as f:
        f.write("---- MODULE %s ----\nEXTENDS Pbo_MC\nDefDeltas == {%s}\nDefGiven == <<%s>>\n====\n"
                % (mod, ", ".join(str(d) for d in deltas), ",\n  ".join(tla_arch(a) for a in given)))
    cfg = """SPECIFICATION Spec
CONSTANTS
  Mode = "%s"
  Variant = "%s"
  Emit = %s
  Names = {%s}
  Sizes = {%s}
  MaxEntries = %d
  MaxProps = %d
  AllPoints = %s
  Deltas <- DefDeltas
  Given <- DefGiven
CHECK_DEADLOCK FALSE
""" % (mode, variant, "TRUE" if emit else "FALSE", ", ".join(tla_str(n) for n in names), ", ".join(str(s) for s in sizes),
       maxentries, maxprops, "TRUE" if allpoints else "FALSE")
    inv = ALL_INVARIANTS if invariants is None else invariants
    if inv:
        cfg += "INVARIANTS " + " ".join(inv) + "\n"
    with open(os.path.join(vlib.SPEC, mod + ".cfg"), "w") as f:
        f.write(cfg)
    return mod


def mc(name, workers=vlib.NCPU, timeout_s=1500, coverage=False, xmx="8g", **kw):
    mod = mc_cfg(name, **kw)
    return vlib.tlc(mod, mod + ".cfg", workers=workers, timeout_s=timeout_s, coverage=coverage, xmx=xmx)


# ------------------------------------------------------------------------------------------------
# the independent packer
# ------------------------------------------------------------------------------------------------
def blob_bytes(blob, size):
    """content of an entry: a pure function of the entry's abstract blob id and size.  Binary: holds a NUL
    and a 0xFF where there is room; never ends in 0x00 (a reader that pads a cut block with zeros must
    not reproduce the packed bytes by accident); different blob ids give different bytes."""
    out = bytearray()
    ctr = 0
    while len(out) < size:
        out += hashlib.sha256(("%s/%d" % (blob, ctr)).encode()).digest()
        ctr += 1
    out = out[:size]
    if size >= 1:
        tag = int(hashlib.md5(blob.encode()).hexdigest(), 16)
        out[0] = 1 + tag % 254
    if size >= 3:
        out[1] = 0x00
    if size >= 4:
        out[2] = 0xFF
    if size >= 4 and int(hashlib.md5(blob.encode()).hexdigest(), 16) % 3 == 0:
        # every third blob starts like a text file saved with a byte order mark: bytes like any other inside an archive
        out[0:3] = b"\xEF\xBB\xBF"
        if size >= 6:
            out[3], out[4] = 0x00, 0xFF
    if size >= 2 and out[-1] == 0:
        out[-1] = 0x5A
    return bytes(out)


def u32(x):
    return struct.pack("<I", x & 0xFFFFFFFF)      # a negative stated size wraps (Huge in Pbo.tla)


def pack(arch):
    """abstract archive -> (bytes, offsets).  PBO layout: entry "" NUL + "sreV" + 4 zero uint32, the
    properties as NUL-terminated strings, a NUL, per entry name NUL + packing method, original size,
    reserved, timestamp, data size (little-endian uint32), a terminating empty entry, the data blocks,
    0x00 + sha1 of everything before."""
    off = {"props": [], "hdrs": [], "sizeField": [], "data": []}
    out = bytearray()
    out += b"\x00" + b"sreV" + u32(0) + u32(0) + u32(0) + u32(0)
    for k, v in arch["props"]:
        start = len(out)
        out += k.encode("latin-1") + b"\x00" + v.encode("latin-1") + b"\x00"
        off["props"].append([start, len(out)])
    off["propsEnd"] = len(out)
    out += b"\x00"
    datas = []
    for e in arch["entries"]:
        data = blob_bytes(e["blob"], e["size"])
        datas.append(data)
        start = len(out)
        out += e["name"].encode("latin-1") + b"\x00"
        out += u32(0) + u32(len(data)) + u32(0) + u32(0x5F000000 + len(off["hdrs"]))
        off["sizeField"].append(len(out))
        out += u32(len(data))
        off["hdrs"].append([start, len(out)])
    off["hdrsEnd"] = len(out)
    out += b"\x00" + u32(0) * 5
    for data in datas:
        off["data"].append([len(out), len(out) + len(data)])
        out += data
    off["checksum"] = len(out)
    out += b"\x00" + hashlib.sha1(bytes(out)).digest()
    off["total"] = len(out)
    return bytes(out), off, datas


def check_layout(case, off):
    """the packer's offsets against TLC's Layout(archive) (binding of packer and specification)"""
    lay = case.get("layout")
    if lay is None:
        return
    mine = {"props": off["props"], "propsEnd": off["propsEnd"], "hdrs": off["hdrs"], "sizeField": off["sizeField"],
            "hdrsEnd": off["hdrsEnd"], "data": off["data"], "checksum": off["checksum"], "total": off["total"]}
    theirs = {"props": [[r["start"], r["end"]] for r in lay["props"]], "propsEnd": lay["propsEnd"]["start"],
              "hdrs": [[r["start"], r["end"]] for r in lay["hdrs"]], "sizeField": list(lay["sizeField"]),
              "hdrsEnd": lay["hdrsEnd"]["start"], "data": [[r["start"], r["end"]] for r in lay["data"]],
              "checksum": lay["checksum"]["start"], "total": lay["total"]}
    if mine != theirs:
        raise vlib.MachineryError("packer and Layout disagree for %s: packer %s, Layout %s" % (json.dumps(case["arch"]), mine, theirs))


def apply_fault(data, off, fault):
    """-> bytes of the file to materialise, or None (absent)"""
    k = fault["kind"]
    if k == "none":
        return data
    if k == "absent":
        return None
    if k == "truncate":
        return data[:fault["n"]]
    if k == "corruptlen":
        at = off["sizeField"][fault["i"] - 1]
        old = struct.unpack("<I", data[at:at + 4])[0]
        return data[:at] + u32(old + fault["delta"]) + data[at + 4:]
    if k == "corruptorig":
        at = off["sizeField"][fault["i"] - 1] - 12          # record: method, original size, reserved, timestamp, data size
        old = struct.unpack("<I", data[at:at + 4])[0]
        return data[:at] + u32(old + fault["delta"]) + data[at + 4:]
    raise vlib.MachineryError("unknown fault " + k)


def listing(d):
    """directory listing + hashes: [{"name": relative path, "sha": sha1}] sorted by name"""
    out = []
    for root, dirs, files in os.walk(d):
        dirs.sort()
        for fn in sorted(files):
            p = os.path.join(root, fn)
            with open(p, "rb") as f:
                out.append({"name": os.path.relpath(p, d), "sha": hashlib.sha1(f.read()).hexdigest()})
        for dn in dirs:
            if not os.listdir(os.path.join(root, dn)):
                out.append({"name": os.path.relpath(os.path.join(root, dn), d) + "/", "sha": "dir"})
    return sorted(out, key=lambda x: x["name"])


def prefix_of(arch):
    for k, v in arch["props"]:
        if k == "prefix":
            return v
    return ""


def materialise(case, base):
    """writes <base>/<id>/x.pbo (or nothing: absent).  -> (driver case, trace archive, file length, listing before)"""
    d = os.path.join(base, case["id"])
    shutil.rmtree(d, ignore_errors=True)
    os.makedirs(d)
    data, off, datas = pack(case["arch"])
    check_layout(case, off)
    content = apply_fault(data, off, case["fault"])
    path = os.path.join(d, "x.pbo")
    if content is not None:
        with open(path, "wb") as f:
            f.write(content)
    dcase = {"id": case["id"], "path": path, "prefix": prefix_of(case["arch"]), "names": [e["name"] for e in case["arch"]["entries"]]}
    tarch = {"props": [list(p) for p in case["arch"]["props"]],
             "entries": [{"name": e["name"], "size": e["size"], "blob": datas[i].hex()} for i, e in enumerate(case["arch"]["entries"])]}
    return dcase, tarch, (0 if content is None else len(content)), listing(d), d


# ------------------------------------------------------------------------------------------------
# observations
# ------------------------------------------------------------------------------------------------
def observation(events, before, after):
    obs = {"good": False, "props": [], "entries": [], "direct": [], "vfs": [], "crash": "", "stage": "", "before": before, "after": after}
    stage = ""
    detail = {"codes": [], "mount": []}
    for e in events:
        k = e.get("e")
        if k == "Begin":
            stage = e.get("stage", "")
        elif k == "Open":
            obs["good"] = bool(e["good"])
            obs["props"] = [[str(p[0]), str(p[1])] for p in e["props"]]
            obs["entries"] = [{"name": str(x["name"]), "size": min(int(x["size"]), 2147483647)} for x in e["entries"]]
        elif k == "Direct":
            obs["direct"] = [{"name": g["name"], "st": g["st"], "hex": g["hex"]} for g in e["got"]]
        elif k == "Vfs":
            obs["vfs"] = [{"name": g["name"], "st": g["st"], "hex": g["hex"]} for g in e["got"]]
            detail["codes"] = [g.get("codes", []) for g in e["got"]]
            detail["mount"] = e.get("mount", [])
            stage = ""
        elif k == "Crash":
            obs["crash"] = e.get("why", "crash") or "crash"
            obs["stage"] = stage or "start"
    return obs, detail


def clip(t):
    return t if len(t) <= 28 else "%s..(%d chars)" % (t[:24], len(t))


def describe(case):
    a, f = case["arch"], case["fault"]
    s = "props [%s] entries [%s]" % (", ".join("%s=%s" % (clip(k), clip(v)) for k, v in a["props"]),
                                     ", ".join("%s:%d" % (clip(e["name"]), e["size"]) for e in a["entries"]))
    total = case.get("layout", {}).get("total")
    if f["kind"] == "truncate":
        s += " fault Truncate(%d)%s" % (f["n"], " of %d bytes" % total if total else "")
    elif f["kind"] == "corruptlen":
        s += " fault CorruptLen(entry %d, %+d)" % (f["i"], f["delta"])
    elif f["kind"] == "corruptorig":
        s += " fault CorruptOrig(entry %d, %+d)" % (f["i"], f["delta"])
    elif f["kind"] == "absent":
        s += " fault Absent"
    else:
        s += " no fault"
    return s


def short(h):
    return (h or "(empty)") if len(h) <= 40 else "%s..(%d bytes)" % (h[:40], len(h) // 2)


def observed_text(why, line, detail):
    o = line["obs"]
    ents = line["arch"]["entries"]
    if why == "NeverCrashes":
        return "the run died in stage '%s': %s%s" % (o["stage"], o["crash"], (" (%s)" % detail["sanitizer"]) if detail and detail.get("sanitizer") else "")
    if why == "NoSideEffects":
        return "directory before %s, after %s" % (json.dumps(o["before"]), json.dumps(o["after"]))
    parts = []
    if why == "Faithful":
        if not o["good"]:
            parts.append("archive not accepted")
        if o["props"] != line["arch"]["props"]:
            parts.append("props reported %s" % json.dumps(o["props"])[:300])
        if o["entries"] != [{"name": e["name"], "size": e["size"]} for e in ents]:
            parts.append("entries reported %s" % json.dumps(o["entries"])[:300])
    for path in ("direct", "vfs"):
        for j, g in enumerate(o[path]):
            if j >= len(ents):
                break
            want = ents[j]["blob"]
            if why == "Faithful" and (g["st"] != "ok" or g["hex"] != want):
                parts.append("%s %s: %s%s, packed %s" % (path, g["name"], g["st"], (" " + short(g["hex"])) if g["st"] == "ok" else "", short(want)))
            if why == "OnlyIntactExposed" and g["st"] == "ok":
                parts.append("%s %s returned %s (packed %s)" % (path, g["name"], short(g["hex"]), short(want)))
    if detail and detail.get("codes"):
        parts.append("loadFile diagnostics %s" % json.dumps(detail["codes"]))
    return "; ".join(parts[:8])


def sanitizer_report(path):
    """the sanitizer's own words from the stderr of a single-case driver run: summary + the frames in the code under test"""
    try:
        text = open(path, errors="replace").read()
    except OSError:
        return ""
    summary = [ln.strip() for ln in text.splitlines() if ln.startswith("SUMMARY:") or "runtime error:" in ln]
    frames = []
    for ln in text.splitlines():
        ln = ln.strip()
        if ln.startswith("#") and (vlib.REPO + "/src" in ln or "rvutils::" in ln or "sqf::" in ln):
            parts = ln.split(" in ", 1)
            if len(parts) == 2:
                fn = parts[1]
                fn = fn.split(" (/")[0]
                frames.append(fn[:160])
    if not summary:
        return ""
    return (summary[0][:200] + (" @ " + " <- ".join(frames[:3]) if frames else ""))


def run_cases(cases, wdir, tag, chunks=None, solo=False):
    """materialise, drive (sanitizer build), validate.  solo: one driver process per case with symbolised sanitizer
    reports (confirmation runs).  -> (bad, totals, tlc results, trace lines by id, details by id)"""
    t0 = time.time()
    base = os.path.join(wdir, "cases_" + tag)
    shutil.rmtree(base, ignore_errors=True)
    os.makedirs(base)
    mats = [materialise(c, base) for c in cases]
    t1 = time.time()
    reports = {}
    if solo:
        events = []
        for m in mats:
            t = "%s.%s" % (tag, m[0]["id"])
            events += vlib.run_driver("pbo", [m[0]], wdir, kind="asan", timeout_s=2 * CASE_TIMEOUT_S, jobs=1, tag=t, env=ASAN_ENV_SOLO)
            reports[m[0]["id"]] = sanitizer_report(os.path.join(wdir, "%s.0.out.ndjson.stderr" % t))
    else:
        events = vlib.run_driver("pbo", [m[0] for m in mats], wdir, kind="asan", timeout_s=CASE_TIMEOUT_S, tag=tag, env=ASAN_ENV)
    t2 = time.time()
    by = vlib.events_by_case(events)
    # the command line tool's own loading loop (--input-pbo) over a sample of the damaged archives: it must not die either
    cli_died = {}
    sample = [m for c, m in zip(cases, mats) if c["fault"]["kind"] in ("truncate", "corruptlen") and prefix_of(c["arch"])]
    sample = sample if solo else sample[::max(1, len(sample) // 160)]
    def cli_one(m):
        try:
            r = subprocess.run([vlib.sqfvm_cli("rel"), "-a", "--no-execute-print", "--input-pbo", m[0]["path"], "--sqf", "diag_log 1"],
                               stdin=subprocess.DEVNULL, stdout=subprocess.PIPE, stderr=subprocess.STDOUT, timeout=20, cwd=m[4])
            out = r.stdout.decode("utf-8", "replace")
            if r.returncode < 0 or "Error: signal" in out:
                return m[0]["id"], "cli --input-pbo: " + (("signal %d" % -r.returncode) if r.returncode < 0 else out[out.find("Error: signal"):][:40].strip())
        except subprocess.TimeoutExpired:
            return m[0]["id"], "cli --input-pbo: timeout"
        return m[0]["id"], ""
    with concurrent.futures.ThreadPoolExecutor(max_workers=8) as ex:
        for cid, why in ex.map(cli_one, sample):
            if why:
                cli_died[cid] = why
    lines, details, execs = {}, {}, []
    for c, (dcase, tarch, flen, before, d) in zip(cases, mats):
        obs, detail = observation(by.get(c["id"], []), before, listing(d))
        if not obs["crash"] and c["id"] in cli_died:
            obs["crash"], obs["stage"] = cli_died[c["id"]], "cli"
        detail["sanitizer"] = reports.get(c["id"], "")
        ln = {"e": "Case", "id": c["id"], "arch": tarch, "fault": c["fault"], "filelen": flen, "obs": obs}
        lines[c["id"]] = ln
        details[c["id"]] = detail
        execs.append((c["id"], [ln]))
    t3 = time.time()
    bad, totals, results = vlib.validate_traces("Pbo_Trace", "Pbo_Trace.cfg", execs, wdir, tag, chunks=chunks)
    vlib.log("[C17] %s: %d cases, materialise %.1fs, driver (asan) %.1fs, listing %.1fs, TLC validation %.1fs"
             % (tag, len(cases), t1 - t0, t2 - t1, t3 - t2, time.time() - t3))
    shutil.rmtree(base, ignore_errors=True)
    for fn in os.listdir(wdir):
        if fn.startswith(tag + ".") and (fn.endswith(".ndjson") or fn.endswith(".stderr")):
            try:
                os.remove(os.path.join(wdir, fn))
            except OSError:
                pass
    return bad, totals, results, lines, details


def refine(b, line):
    """classification only (the verdict is TLC's): a Faithful/Vfs rejection in which every entry that did not come back
    through the virtual file system lies in a sub-directory of the archive, while an entry at its top level did come back,
    gets the place Vfs.subdir"""
    if b["why"] == "Faithful" and b["op"] == "Vfs":
        ents, got = line["arch"]["entries"], line["obs"]["vfs"]
        def nested(n):
            return "/" in n or "\\" in n
        failing = [e["name"] for j, e in enumerate(ents) if j >= len(got) or got[j]["st"] != "ok" or got[j]["hex"] != e["blob"]]
        fine = [e["name"] for e in ents if e["name"] not in failing]
        if failing and all(nested(n) for n in failing) and any(not nested(n) for n in fine):
            return "Vfs.subdir"
    return b["op"]


def weight(case):
    """smaller = the better witness; an empty entry is a less telling witness than one with a few bytes"""
    a, f = case["arch"], case["fault"]
    return (len(a["entries"]), sum(e["size"] if e["size"] else 9 for e in a["entries"]) + sum(len(e["name"]) for e in a["entries"]),
            len(a["props"]), sum(len(k) + len(v) for k, v in a["props"]), abs(f["delta"]), f["n"])


# ------------------------------------------------------------------------------------------------
def run(rep, tier, seed, replay):
    rng = random.Random(seed)
    vlib.build("rel")
    vlib.build("asan")
    wdir = vlib.workdir("C17")
    rep.assumptions += [
        "small scope: archives of 0-3 entries with distinct names from {a.sqf, d/b.txt, config.cpp}, sizes {0,1,5}, 0-2 distinct "
        "properties from {prefix=pfx, version=12, x=(empty)}; plus seeded random larger archives (more entries, names and values "
        "longer than the reader's 256-byte scan buffer and than 15 characters, blocks of several KB)",
        "faults: Truncate(n) for every n < file length (for the larger archives the structural points: around the borders of every "
        "record, around the NUL behind keys and names, around the size field, and 255..257 bytes into a record), CorruptLen of every entry's data-size field by the listed deltas, "
        "Absent; arbitrary byte corruption outside the size fields is not generated",
        "entry contents are binary (contain 0x00 and 0xFF; every third starts with the bytes EF BB BF), pairwise different and never end in 0x00; TLC treats them as opaque "
        "texts (hex of the packed bytes) - byte fidelity is decided by equality of these texts",
        "Faithful is asserted for the virtual file system only when the archive has a non-empty prefix property; loadFile is asked "
        "for \\<prefix>\\<name with backslashes>",
        "OnlyIntactExposed judges the bytes returned by pbofile::reader (buffer sized by descriptor().size, as read_file and cli.cpp "
        "do) and by loadFile; the entry list reported for a damaged archive is not judged (the statement speaks of exposed entries)",
        "an empty entry whose header is inside the file may be exposed (it has no byte that could be missing)",
        "the archive's trailing sha1 is written by the packer; a reader is not required to verify it - but a length field corrupted "
        "within the bounds of the file can only be noticed through it (fault class CorruptLen.inbounds is reported separately)",
        "SENSED, not proved (DESIGN.md 8): reads outside buffers, use of freed memory and undefined behaviour are sensed by the "
        "ASan+UBSan build of the driver, 'memory unrelated to the file size' by the sanitizer allocator limit of %d MB per allocation " % ALLOC_LIMIT_MB +
        "(max_allocation_size_mb) - each aborts the forked child and arrives as a Crash event judged by NeverCrashes; reads of "
        "uninitialised memory are not sensed",
        "directory listing + sha1 of every file of the case's own directory before/after; files created elsewhere are not seen",
        "TLC 1.8 / Json+IOUtils community modules; driver harness/cmd_pbo.cpp",
    ]
    rep.rule = ("TLC enumerates (archive, fault) cases with layout and reference outcome; a small space (<=1 entry) is replayed "
                "completely, the <=3-entry space is sampled per (entries, properties) stratum (seeded) with ALL faults of each sampled "
                "archive, plus seeded random larger archives; every case is packed by the independent packer, damaged, opened by the "
                "ASan driver (pbofile, add_pbo_mapping, loadFile) and judged by Pbo_Trace; non-trivial = >=1 entry and a fault; "
                "distinct by (archive, fault)")
    try:
        if replay:
            obj = json.load(open(replay))
            cases = obj["cases"]
        else:
            cases = generate(rep, tier, rng)
        rep.evaluations = len(cases)
        rep.extra["cases"] = len(cases)
        rep.extra["distinct_nontrivial"] = len({json.dumps([c["arch"], c["fault"]], sort_keys=True) for c in cases
                                                if c["arch"]["entries"] and c["fault"]["kind"] != "none"})
        bad, totals, results, lines, details = run_cases(cases, wdir, "c17")
        for r in results:
            rep.add_tlc(r)
        rep.traces = len(cases)
        stats = {}
        for r in results:
            for k, v in r.verdicts[-1].get("stats", {}).items():
                stats[k] = stats.get(k, 0) + v
        rep.extra["cases_by_class"] = stats     # antecedents of the formulas met on real executions (non-vacuity)
        if not replay and not (stats.get("noFaultWithPrefixAndEntries") and stats.get("absent") and stats.get("refRejects")
                               and stats.get("refExposesSome") and stats.get("refExposesAll") and stats.get("corruptLen")):
            raise vlib.MachineryError("vacuous run: some formula's antecedent was never met: %s" % stats)
        cmap = {c["id"]: c for c in cases}
        for c in cases[:2] + cases[len(cases) // 2:len(cases) // 2 + 2] + cases[-2:]:
            o = lines[c["id"]]["obs"]
            rep.samples.append({"case": describe(c), "class": c.get("cls", ""), "reference": c.get("expect", {}),
                                "observed": {"good": o["good"], "crash": o["crash"], "direct": [[g["name"], g["st"], g["hex"][:24]] for g in o["direct"]],
                                             "vfs": [[g["name"], g["st"], g["hex"][:24]] for g in o["vfs"]]}})
        with open(os.path.join(wdir, "c17.bad.json"), "w") as f:
            json.dump([{"bad": b, "case": cmap[b["id"]], "line": lines[b["id"]]} for b in bad[:200]], f)
        groups = {}
        for b in bad:
            if b["why"].startswith("MACHINERY"):
                raise vlib.MachineryError("case void (binding): %s %s" % (b, json.dumps(lines[b["id"]])[:1500]))
            b["op"] = refine(b, lines[b["id"]])
            groups.setdefault("C17/%s/%s" % (b["why"], b["op"]), []).append(b)
        if len(groups) > 40:
            raise vlib.MachineryError("more than 40 distinct finding keys - something systematic is wrong: %s" % sorted(groups))
        rep.extra["finding_keys"] = {k: len(v) for k, v in sorted(groups.items())}
        # ---- confirm every key on a fresh single-case run in its own directory.  Behaviour on damaged input partly depends
        # on stale stack content (the defects are of that kind), so up to three smallest witnesses are tried per key.
        cands = {}
        n = 0
        for key, bs in sorted(groups.items()):
            seen = set()
            for b in sorted(bs, key=lambda x: weight(cmap[x["id"]])):
                sig = json.dumps([cmap[b["id"]]["arch"], cmap[b["id"]]["fault"]], sort_keys=True)
                if sig in seen:
                    continue
                seen.add(sig)
                w = dict(cmap[b["id"]])
                w["id"] = "w%d" % n
                n += 1
                cands.setdefault(key, []).append(w)
                if len(cands[key]) == 3:
                    break
        if cands:
            allw = [w for ws in cands.values() for w in ws]
            bad2, _, _, lines2, details2 = run_cases(allw, wdir, "c17confirm", chunks=1, solo=True)
            again = {}
            for b in bad2:
                b["op"] = refine(b, lines2[b["id"]])
                again.setdefault((b["id"], "C17/%s/%s" % (b["why"], b["op"])), b)
            for key, ws in sorted(cands.items()):
                hit = [w for w in ws if (w["id"], key) in again]
                if not hit:
                    rep.notes.append("rejection %s (x%d) did not repeat on single re-runs of %s" % (key, len(groups[key]), "; ".join(describe(w) for w in ws)))
                    continue
                w = hit[0]
                why = key.split("/")[1]
                what = "%s [%s]: %s -> %s" % (why, key.split("/", 2)[2], describe(w), observed_text(why, lines2[w["id"]], details2[w["id"]]))
                w2 = {k: v for k, v in w.items() if k != "layout"}
                rep.finding(key, what, {"property": "C17", "key": key, "cases": [w2], "observed": lines2[w["id"]],
                                        "verdict": again[(w["id"], key)], "sanitizer": details2[w["id"]].get("sanitizer", ""),
                                        "note": "the archive is re-packed from cases[0].arch (entry bytes are a function of blob id and size) "
                                                "and damaged by cases[0].fault on replay"})
                rep.found[key]["count"] += len(groups[key]) - 1
    finally:
        for fn in os.listdir(wdir):
            p = os.path.join(wdir, fn)
            if os.path.isdir(p):
                shutil.rmtree(p, ignore_errors=True)


# ------------------------------------------------------------------------------------------------
def random_archive(rng, k, big):
    """larger archives: more entries, long names / values (beyond the reader's 256-byte scan buffer and beyond
    15 characters), blocks of several KB"""
    alphabet = "abcdefghijklmnopqrstuvwxyz0123456789_-."

    def word(n):
        w = "".join(rng.choice(alphabet) for _ in range(n))
        # "." and ".." are path navigation, not names
        return w if w.strip(".") else "d" + w[1:]
    props = []
    if rng.random() < 0.85:
        props.append(["prefix", rng.choice(["pfx", "x/addons/main", "X\\Main", "Mod/Addons", word(rng.choice([3, 20])) if big else "pfx"])])
    for _ in range(rng.randint(0, 3)):
        key = rng.choice(["version", "author", "product", word(rng.choice([1, 8, 17]))])
        if key in [p[0] for p in props]:
            continue
        props.append([key, rng.choice(["", "1", word(rng.choice([5, 40])), word(300) if big else word(30)])])
    rng.shuffle(props)
    names = []
    sep = rng.choice(["/", "\\"])       # PBO tools write backslashes; both must come back unchanged
    for _ in range(rng.randint(1, 6 if big else 4)):
        depth = rng.randint(0, 2)
        nm = sep.join([word(rng.choice([1, 4, 12])) for _ in range(depth)] +
                      [word(rng.choice([1, 6, 18, 270 if big and rng.random() < 0.3 else 9])) + rng.choice([".sqf", ".txt", ".paa", ""])])
        if nm not in names:
            names.append(nm)
    # names related to each other: one the suffix / prefix of another, the same file name in a sub-directory
    for nm in list(names):
        r = rng.random()
        rel = ("fn_" + nm) if r < 0.2 else ("ui" + sep + nm) if r < 0.4 else (nm + "x") if r < 0.5 else None
        if rel and rel not in names and len(rel) < 250:
            names.insert(rng.randint(0, len(names)), rel)
    entries = []
    for j, nm in enumerate(names):
        size = rng.choice([0, 1, 2, 16, 255, 256, 257, 1000, 5000] if big else [0, 1, 3, 16, 40])
        entries.append({"name": nm, "size": size, "blob": "rnd-%d-%d-%d" % (k, j + 1, size)})
    return {"props": props, "entries": entries}


def generate(rep, tier, rng):
    quick = tier == "quick"
    t0 = time.time()
    deltas = DELTAS_QUICK if quick else DELTAS_THOROUGH
    # ---- 1. design check: the reference satisfies every formula on the complete bounded space; every phase is exercised
    r = mc("mc_ref", maxentries=2 if quick else 3, maxprops=1 if quick else 2, deltas=deltas, coverage=True, timeout_s=3000, xmx="16g")
    if not r.ok:
        raise vlib.MachineryError("design check: the reference violates %s\n%s" % (r.violated, (r.error or r.trace_text)[:1500]))
    idle = [a for a in PHASE_ACTIONS if not r.coverage.get(a, (0, 0))[0]]
    if idle:
        raise vlib.MachineryError("design check vacuous: reader phases never taken: %s" % idle)
    rep.add_tlc(r, "Pbo_MC reference: all formulas + InvReference/InvPosition/InvLayout on the complete space "
                   "(<=%d entries, <=%d properties, every truncation point, %d deltas)" % (2 if quick else 3, 1 if quick else 2, len(deltas)))
    rep.extra["phase_coverage"] = {a: r.coverage[a][0] for a in PHASE_ACTIONS}

    # deliberately wrong readers: each must be refuted on its formula (non-vacuity self-test)
    def refute(vi):
        v, inv = vi
        return v, inv, mc("mc_dev_" + v, variant=v, maxentries=1, maxprops=1, workers=2, timeout_s=600,
                          invariants=["InvFaithful", "InvOnlyIntactExposed", "InvNoSideEffects", "InvNeverCrashes"])
    with concurrent.futures.ThreadPoolExecutor(max_workers=4) as ex:
        for v, inv, r2 in ex.map(refute, WRONG_READERS):
            if r2.violated != inv:
                raise vlib.MachineryError("vacuity self-test: the wrong reader %s must be refuted on %s, TLC said %s %s" % (v, inv, r2.violated, r2.error))
            rep.design_runs.append({"what": "wrong reader %s refuted on %s (non-vacuity)" % (v, inv), "generated": r2.generated, "distinct": r2.distinct})
    vlib.log("[C17] design checks %.1fs" % (time.time() - t0))

    cases = []

    def take(g, prefix):
        for p in g.prints:
            c = json.loads(p)
            c["id"] = "%s%d" % (prefix, len(cases))
            c["arch"]["props"] = [list(x) for x in c["arch"]["props"]]
            cases.append(c)

    # ---- 2. a small space replayed completely
    g = mc("gen_small", emit=True, names=NAMES[:2], maxentries=1, maxprops=1, deltas=deltas, invariants=[], workers=4)
    if not g.ok:
        raise vlib.MachineryError("generator (small space) failed: %s" % (g.error or g.violated))
    rep.add_tlc(g, "Pbo_MC generator: complete small space (<=1 entry of {a.sqf, d/b.txt}, sizes {0,1,5}, <=1 property), every fault emitted")
    take(g, "s")
    rep.exhaustive = True
    rep.extra["small_space_cases"] = len(cases)
    # ---- 3. the <=3-entry space: archives enumerated by TLC, sampled per stratum, all faults of the sampled archives by TLC
    ga = mc("gen_archives", mode="archives", emit=True, maxentries=3, maxprops=2, invariants=[], workers=4)
    if not ga.ok:
        raise vlib.MachineryError("generator (archives) failed: %s" % (ga.error or ga.violated))
    rep.add_tlc(ga, "Pbo_MC generator: all archives of the <=3-entry space")
    archives = [json.loads(p) for p in ga.prints]
    rep.extra["archives_in_space"] = len(archives)
    rep.extra["space_size_cases"] = sum(a["total"] + 2 + len(deltas) * len(a["arch"]["entries"]) for a in archives)
    strata = {}
    for a in archives:
        a["arch"]["props"] = [list(x) for x in a["arch"]["props"]]
        if len(a["arch"]["entries"]) >= 2:
            strata.setdefault((len(a["arch"]["entries"]), len(a["arch"]["props"])), []).append(a["arch"])
    per = 4 if quick else 60
    chosen = []
    for key in sorted(strata):
        pool = sorted(strata[key], key=lambda x: json.dumps(x, sort_keys=True))
        rng.shuffle(pool)
        chosen += pool[:per]
    gs = mc("gen_sample", mode="given", emit=True, given=chosen, deltas=deltas, invariants=[], workers=vlib.NCPU, timeout_s=3000, xmx="16g")
    if not gs.ok:
        raise vlib.MachineryError("generator (sampled archives) failed: %s" % (gs.error or gs.violated))
    rep.add_tlc(gs, "Pbo_MC generator: %d sampled archives x every truncation point x corruptions" % len(chosen))
    take(gs, "g")
    # ---- 4. seeded random larger archives: structural truncation points + block boundaries
    nbig = 6 if quick else 120
    rnd = [random_archive(rng, k, big=(k % 2 == 0)) for k in range(nbig)]
    for k, sep in enumerate(["\\", "/"]):
        nms = ["init.sqf", "fn_init.sqf", "ui" + sep + "init.sqf", "config.txt", "ui" + sep + "config.txt", "init.sqfx"]
        rnd.append({"props": [["prefix", "pfx"]], "entries": [{"name": nm, "size": 3 + j, "blob": "rel-%d-%d" % (k, j)} for j, nm in enumerate(nms)]})
    # names that differ in letter case only are different entries
    for k, sep in enumerate(["\\", "/"]):
        nms = ["Readme.txt", "readme.txt", "data" + sep + "Init.sqf", "data" + sep + "init.sqf", "DATA" + sep + "init.sqf", "README.TXT"]
        rnd.append({"props": [["prefix", "pfx" if k == 0 else "X" + sep + "Main"]], "entries": [{"name": nm, "size": 4 + j, "blob": "case-%d-%d" % (k, j)} for j, nm in enumerate(nms)]})
    gr = mc("gen_random", mode="given", emit=True, given=rnd, allpoints=False, deltas=deltas, invariants=[], workers=vlib.NCPU, timeout_s=3000, xmx="16g")
    if not gr.ok:
        raise vlib.MachineryError("generator (random archives) failed: %s" % (gr.error or gr.violated))
    rep.add_tlc(gr, "Pbo_MC generator: %d random larger archives x structural truncation points x corruptions" % len(rnd))
    take(gr, "r")
    vlib.log("[C17] generators done at %.1fs: %d cases" % (time.time() - t0, len(cases)))
    return cases
