"""C12 - the scheduler is fair and isolating; sleep, scriptDone, terminate work as documented.

spec/Sched.tla: the context list + cursor machine of runtime::execute(start) and the formulas
RoundRobin / NoSkipNoStarve / NoEarlyWake; Sched_MC: all small schedules of abstract scripts
(ideal holds; deviations NoIndexFixup, TerminateIgnored, WakeEarly are refuted); Sched_Trace:
slice/erase/marker observations of the real VM (virtual clock H1, slice length H2, observer H3)
validated against the same machine.
"""
import itertools
import json
import os
import random
import re

import vlib

LEVEL = "model_checking"


def render_script(label, body, bodies):
    """body: list of abstract instructions; returns SQF text (one line)"""
    out = []
    n = len(body)
    for i, ins in enumerate(body):
        step = i + 1
        last = "true" if i == n - 1 else "false"
        k = ins[0]
        if k == "m":
            out.append('diag_log ["M",%d,%d,%s]' % (label, step, last))
        elif k == "sl":
            out.append('diag_log ["M",%d,%d,%s]' % (label, step, last))
            out.append("sleep %s" % (ins[1] / 1000.0))
        elif k == "lp":      # a loop of several instructions per iteration
            out.append('diag_log ["M",%d,%d,%s]' % (label, step, last))
            out.append('for "_q" from 1 to %d do {gQ%d = _q}' % (ins[1], label))
        elif k == "ls":      # a loop whose blocks are one instruction each: the slice bound has to hold there too
            out.append('diag_log ["M",%d,%d,%s]' % (label, step, last))
            out.append('for "_q" from 1 to %d do {gQ%d}' % (ins[1], label))
        elif k == "sp":
            j = ins[1]
            out.append('diag_log ["M",%d,%d,%s]' % (label, step, last))
            out.append("h%d = [] spawn {%s}" % (j, render_script(j, bodies[j], bodies)))
        elif k == "te":
            out.append('diag_log ["M",%d,%d,%s]' % (label, step, last))
            out.append('terminate h%d' % ins[1])
            out.append('diag_log ["TD",%d,%d]' % (label, ins[1]))
        elif k == "sd":
            out.append('diag_log ["SD",%d,%d,%s,%d,scriptDone h%d]' % (label, step, last, ins[1], ins[1]))
        elif k == "fs":      # make the condition another script waits for true (the marker comes first: a waiter seen
            out.append('diag_log ["M",%d,%d,%s]' % (label, step, last))      # going on before it went on too early)
            out.append('gF%d = true' % ins[1])
        elif k == "wu":      # wait for that condition
            out.append('diag_log ["M",%d,%d,%s]' % (label, step, last))
            out.append('waitUntil {!isNil "gF%d"}' % ins[1])
    return "; ".join(out) + ";"


def make_case(cid, initial, bodies, slice_len):
    scripts = [{"name": "p%d" % k, "suspend": True, "text": render_script(k, bodies[k], bodies)} for k in initial]
    return {"id": cid, "sched": True, "conf": {"slice": slice_len, "clock": {"start_ms": 1000, "tick_us": 1000}, "max_runtime_ms": 0},
            "runs": [{"scripts": scripts}], "slice": slice_len if slice_len else 150, "tick": 1,
            "desc": {"initial": initial, "bodies": {str(k): v for k, v in bodies.items()}, "slice": slice_len}}


_ARR = re.compile(r"\[DIAG_LOG\] \[(.*)\]\s*$")


def project(case, evs):
    out = []
    for e in evs:
        if e["e"] == "C":
            if e["k"] == "begin":
                out.append({"e": "Ev", "id": e["id"], "t": "begin", "ctx": e.get("ctx", 0), "susp": e.get("susp", False),
                            "wake": max(0, e.get("wake", 0)) if e.get("susp") else 0, "clk": e["clk"], "n": e["n"], "order": e["order"]})
            elif e["k"] == "end":
                out.append({"e": "Ev", "id": e["id"], "t": "end", "ctx": e.get("ctx", 0), "n": e["n"], "empty": e.get("empty", False), "order": e["order"]})
            elif e["k"] == "erase":
                out.append({"e": "Ev", "id": e["id"], "t": "erase", "order": e["order"]})
        elif e["e"] == "D" and e["code"] == 60019:
            m = _ARR.search(e["txt"])
            if not m:
                continue
            f = m.group(1).split(",")
            if f[0] in ("M", "SD"):
                # the duration the script asks to sleep for right after this statement (0: none) - from the generated
                # script, not from the VM: the requested wake-up time is what the property speaks of
                body = case["desc"]["bodies"].get(f[1], [])
                ins = body[int(f[2]) - 1] if 1 <= int(f[2]) <= len(body) else ["m"]
                nap = ins[1] if ins[0] == "sl" else 0
                waits = ins[1] if ins[0] == "wu" else 0
                sets = ins[1] if ins[0] == "fs" else 0
            if f[0] == "M":
                out.append({"e": "Ev", "id": e["id"], "t": "mark", "ctx": e["ctx"], "label": int(f[1]), "step": int(f[2]), "last": f[3] == "true", "clk": e.get("clk", 0), "nap": nap, "waits": waits, "sets": sets})
            elif f[0] == "SD":
                out.append({"e": "Ev", "id": e["id"], "t": "mark", "ctx": e["ctx"], "label": int(f[1]), "step": int(f[2]), "last": f[3] == "true", "clk": e.get("clk", 0), "nap": nap, "waits": waits, "sets": sets})
                out.append({"e": "Ev", "id": e["id"], "t": "sd", "ctx": e["ctx"], "target": int(f[4]), "val": f[5] == "true"})
            elif f[0] == "TD":
                out.append({"e": "Ev", "id": e["id"], "t": "td", "target": int(f[2])})
        elif e["e"] == "P":
            out.append({"e": "Ev", "id": e["id"], "t": "poll", "ctx": e["ctx"]})
        elif e["e"] == "D" and e["lvl"] <= 1:
            out.append({"e": "Crash", "id": e["id"], "why": "unexpected error diagnostic: " + e["txt"][:80]})
        elif e["e"] == "R":
            out.append({"e": "Ev", "id": e["id"], "t": "runend", "res": e["res"]})
        elif e["e"] == "Crash":
            out.append(e)
    return out


def systematic(tier):
    """all configurations of the design check's shape family, each with every slice length"""
    M = ("m",)
    shapes = []
    # lengths relative to the slice; finish / spawn / sleep / terminate at every position of script 1
    fillers = [[M], [M, M], [M, M, M, M]]
    events = [("sl", 5), ("sp", 4), None]
    for ev in events:
        for pos in range(0, 4):
            for f2 in fillers:
                b1 = [M, M, M]
                if ev is not None:
                    b1 = b1[:pos] + [ev] + b1[pos:]
                elif pos > 0:
                    continue
                shapes.append(([1, 2, 3], {1: b1, 2: f2, 3: [M, M], 4: [M, ("sl", 3), M]}))
    # terminate / scriptDone at every position after the spawn
    for tpos in range(1, 4):
        for target_len in (2, 6):
            b1 = [("sp", 4), M, M, M]
            b1 = b1[:tpos] + [("te", 4)] + b1[tpos:] + [("sd", 4), ("sl", 4), ("sd", 4)]
            shapes.append(([1, 2], {1: b1, 2: [M, M, M], 4: [M] * target_len}))
    for spos in range(1, 4):
        b1 = [("sp", 4), M, M, M]
        b1 = b1[:spos] + [("sd", 4)] + b1[spos:] + [("sl", 6), ("sd", 4)]
        shapes.append(([1, 2], {1: b1, 2: [M, ("sl", 2), M], 4: [M, M]}))
    # several sleepers with different wake-up times, scripts finishing meanwhile
    for d1, d2 in itertools.product((2, 6), (3, 9)):
        shapes.append(([1, 2, 3], {1: [M, ("sl", d1), M], 2: [("sl", d2), M, M], 3: [M]}))
    # loops: a slice ends after its number of instructions also inside a loop, the other scripts get their turns
    shapes.append(([1, 2], {1: [M, ("lp", 12), M], 2: [M, M, M, M]}))
    shapes.append(([1, 2], {1: [M, ("ls", 25), M], 2: [M, M, M, M]}))
    shapes.append(([1, 2, 3], {1: [("ls", 15), M], 2: [("lp", 6), M], 3: [M, M]}))
    # terminate followed at once (same slice) by scriptDone of the target, which has started, sleeps and still has
    # statements: it is not done before its next scheduling point has come
    shapes.append(([1], {1: [("sp", 2), ("sl", 5), ("te", 2), ("sd", 2), M, ("sl", 30), ("sd", 2)], 2: [M, ("sl", 50), M]}))
    shapes.append(([1], {1: [("sp", 2), ("sl", 5), ("te", 2), ("sd", 2), ("sd", 2)], 2: [M, ("sl", 8), M, M]}))
    # naps long enough that nothing but the wake-up time explains the delay (fractions of a second)
    shapes.append(([1, 2], {1: [M, ("sl", 40), M, M], 2: [M, ("sl", 75), M]}))
    # waitUntil: the waiting script goes on only after the statement that makes its condition true (set by a script that
    # runs, sleeps or loops first; two waiters on one condition; a waiter spawned late; the condition true already)
    for wpos in range(0, 3):
        for sbody in ([M, M, ("fs", 1), M], [("sl", 6), ("fs", 1)], [("lp", 9), M, ("fs", 1), M], [("fs", 1)],
                      [M, ("sl", 35), ("fs", 1), M]):      # several rounds of waiting whatever the slice length is
            b1 = [M, M]
            b1 = b1[:wpos] + [("wu", 1)] + b1[wpos:]
            shapes.append(([1, 2], {1: b1, 2: sbody}))
            shapes.append(([2, 1, 3], {1: b1, 2: sbody, 3: [M, ("wu", 1), M]}))
    shapes.append(([1, 2], {1: [("sp", 4), M, ("sl", 4), ("fs", 2), M], 2: [M, ("sl", 9), ("fs", 1)], 4: [M, ("wu", 1), M, ("wu", 2), M]}))
    shapes.append(([1, 2, 3], {1: [("wu", 1), ("fs", 2), M], 2: [M, ("wu", 2), M], 3: [M, M, M, ("sl", 3), ("fs", 1)]}))
    slices = (1, 2, 3) if tier == "quick" else (1, 2, 3, 4, 7)
    cases = []
    for n, (init, bodies) in enumerate(shapes):
        for sl in slices + (0,):
            cases.append(make_case("sys%d-s%d" % (n, sl), init, bodies, sl))
    return cases


def random_cases(rng, n):
    cases = []
    M = ("m",)
    for i in range(n):
        nin = rng.randint(1, 4)
        labels = list(range(1, nin + 1))
        bodies = {}
        spawned = []
        nextl = nin + 1
        for k in labels:
            body = []
            mine = []
            for _ in range(rng.randint(1, 6)):
                r = rng.random()
                if r < 0.5:
                    body.append(M)
                elif r < 0.65:
                    body.append(("sl", rng.randint(1, 8)))
                elif r < 0.8 and nextl <= 8:
                    body.append(("sp", nextl))
                    mine.append(nextl)
                    spawned.append(nextl)
                    nextl += 1
                elif mine and r < 0.9:
                    body.append(("sd", rng.choice(mine)))
                elif mine:
                    t = rng.choice(mine)
                    body.append(("te", t))
                else:
                    body.append(M)
            bodies[k] = body
        if nin >= 2 and rng.random() < 0.3:      # script 1 waits for a condition the last initial script makes true
            bodies[1].insert(rng.randint(0, len(bodies[1])), ("wu", 1))
            bodies[nin].insert(rng.randint(0, len(bodies[nin])), ("fs", 1))
        for j in spawned:
            bodies[j] = [M if rng.random() < 0.7 else ("sl", rng.randint(1, 5)) for _ in range(rng.randint(1, 5))]
        cases.append(make_case("rnd%d" % i, labels, bodies, rng.choice([1, 2, 3, 5, 0])))
    return cases


def run(rep, tier, seed, replay):
    rng = random.Random(seed)
    vlib.build("rel")
    wdir = vlib.workdir("C12")
    rep.assumptions += [
        "time is the guarded virtual clock (H1): one tick (1 ms) per clock query; slice length via the guarded override (H2); slices/erases via the guarded observer (H3)",
        "a scriptDone poll is judged against the state at the moment the poll instruction executed (guarded observer), not when its result is logged",
        "scriptDone is required to be false while a statement of the target has not run yet and true once the target was removed by the scheduler; the window between the last statement and the removal is not constrained",
        "terminate/scriptDone are exercised on handles of spawned scripts from the spawning script",
    ]
    if replay:
        cases = [json.load(open(replay))["case"]]
    else:
        def cfg(name, fix, term, wake, sl, wait="TRUE"):
            p = os.path.join(vlib.SPEC, "gen_%s.cfg" % name)
            open(p, "w").write("SPECIFICATION Spec\nCONSTANTS\n  IndexFixup = %s\n  TerminateStops = %s\n  WakeCheck = %s\n  Slice = %d\n  MaxVisits = 14\n  WaitCheck = %s\n"
                               "INVARIANTS InvRoundRobin InvNoEarlyWake InvScriptDoneTruth InvTerminateEffective InvWaitHolds InvIsolation\n" % (fix, term, wake, sl, wait))
            return os.path.basename(p)
        for sl in (1, 2, 3):
            r = vlib.tlc("Sched_MC", cfg("sched_ideal", "TRUE", "TRUE", "TRUE", sl), workers=8, timeout_s=900)
            if not r.ok:
                raise vlib.MachineryError("Sched design check failed: %s %s" % (r.violated, (r.error or "")[:400]))
            rep.add_tlc(r, "Sched_MC ideal, slice %d" % sl)
        for nm, a, inv in (("NoIndexFixup", ("FALSE", "TRUE", "TRUE", 2), "InvRoundRobin"), ("TerminateIgnored", ("TRUE", "FALSE", "TRUE", 2), "InvTerminateEffective"),
                           ("WakeEarly", ("TRUE", "TRUE", "FALSE", 1), "InvNoEarlyWake"),
                           ("WaitEndsOnFalse", ("TRUE", "TRUE", "TRUE", 2, "FALSE"), "InvWaitHolds")):
            r2 = vlib.tlc("Sched_MC", cfg("sched_dev", *a), workers=4, timeout_s=600)
            if r2.violated != inv:
                raise vlib.MachineryError("vacuity self-test: deviation %s should violate %s, got %s" % (nm, inv, r2.violated))
            rep.design_runs.append({"what": "deviation %s violates %s (non-vacuity)" % (nm, inv), "generated": r2.generated, "distinct": r2.distinct})
        cases = systematic(tier) + random_cases(rng, 300 if tier == "quick" else 6000)
    rep.evaluations = len(cases)
    rep.rule = ("script sets (count, lengths relative to the slice, spawn/finish/sleep/terminate/scriptDone/waitUntil at every position) x slice lengths 1-3 (+150), "
                "plus seeded random sets; every slice/erase/marker observation is validated; distinct by configuration; non-trivial = >= 2 scripts")
    events = vlib.run_driver("run", [{k: c[k] for k in ("id", "sched", "conf", "runs")} for c in cases], wdir, kind="rel", timeout_s=20)
    by = vlib.events_by_case(events)
    execs = [(c["id"], project(c, by.get(c["id"], []))) for c in cases]
    reset = {c["id"]: {"slice": c["slice"], "tick": c["tick"]} for c in cases}
    bad, totals, results = vlib.validate_traces("Sched_Trace", "Sched_Trace.cfg", execs, wdir, "c12", reset_fields=reset)
    for x in results:
        rep.add_tlc(x)
    rep.traces = len(execs)
    rep.extra["events_validated"] = totals["ops"]
    rep.extra["distinct_nontrivial"] = len({json.dumps(c["desc"], sort_keys=True) for c in cases if len(c["desc"]["bodies"]) >= 2})
    cmap = {c["id"]: c for c in cases}
    for c in cases[:2] + cases[-2:]:
        rep.samples.append({"id": c["id"], "config": c["desc"], "scripts": [s["text"] for s in c["runs"][0]["scripts"]]})
    # binding demonstration: drop one visit from a real trace -> must be rejected
    if not replay:
        donor = next((x for x in execs if len([e for e in x[1] if e.get("t") == "begin"]) > 6), None)
        if donor:
            evs = list(donor[1])
            idx = [i for i, e in enumerate(evs) if e.get("t") == "begin"][3]
            j = idx + 1
            while j < len(evs) and evs[j].get("t") != "begin":
                j += 1
            cut = [dict(e, id="dropped") for e in evs[:idx] + evs[j:]]
            badc, _, _ = vlib.validate_traces("Sched_Trace", "Sched_Trace.cfg", [("dropped", cut)], wdir, "c12drop", chunks=1, reset_fields={"dropped": reset[donor[0]]})
            if not badc:
                raise vlib.MachineryError("binding self-test: a trace with a dropped slice was accepted")
            rep.extra["binding_selftest"] = "trace with one visit removed rejected: " + badc[0]["why"]
    groups = {}
    for b in bad:
        groups.setdefault("C12/%s/%s" % (b["why"], b["op"]), []).append(b)
    for key, bs in sorted(groups.items()):
        b = min(bs, key=lambda x: len(json.dumps(cmap[x["id"]]["desc"])))
        case = cmap[b["id"]]
        ev2 = vlib.run_driver("run", [{k: case[k] for k in ("id", "sched", "conf", "runs")}], wdir, kind="rel", timeout_s=20, jobs=1, tag="confirm")
        bad2, _, _ = vlib.validate_traces("Sched_Trace", "Sched_Trace.cfg", [(case["id"], project(case, ev2))], wdir, "c12confirm", chunks=1,
                                          reset_fields={case["id"]: reset[case["id"]]})
        if not bad2:
            rep.notes.append("rejection %s of %s did not repeat" % (key, b["id"]))
            continue
        rep.finding(key, "%s (%s): %s; scripts %s slice %s" % (b["why"], b.get("what", ""), b["op"], [s["text"] for s in case["runs"][0]["scripts"]], case["conf"]["slice"]),
                    {"property": "C12", "key": key, "case": case, "verdict": bad2})
        rep.found[key]["count"] += len(bs) - 1
