"""C06 - str / literals round-trip: printed values and code compile back to equal values.

spec/SqfExpr.tla (Reconstruct = transcription of instruction::reconstruct; RoundTrips checked for every
tree by SqfExpr_MC), spec/Values.tla (Quote/Unquote on character sequences; Values_MC), Values_Trace:
recorded round trips of the real VM - str of compiled code recompiled, the CLI pretty-printer's output
recompiled, (call compile str v) isEqualTo v for generated values, the printed form of strings, and the
single-precision value of numeric literal spellings - judged by TLC.
"""
import json
import os
import random
import struct

import vlib
from checks import C01

LEVEL = "model_checking"


def f32bits(x):
    return "%08x" % struct.unpack("<I", struct.pack("<f", x))[0]


def literal_cases(rng, tier):
    """spelling -> the single-precision value it denotes (computed by the generator)"""
    out = []
    def add(text, val, form):
        out.append({"text": text, "want": f32bits(val), "form": form})
    for n in [0, 1, 2, 7, 10, 255, 256, 1000, 65535, 123456, 999999, 16777215, 16777217, 2 ** 31 - 1, 2 ** 31, 2 ** 32 - 1, 2 ** 32, 2 ** 40 + 12345]:
        add(str(n), float(n), "integer")
        add("$%x" % n, float(n), "hex-dollar")
        add("0x%X" % n, float(n), "hex-0x")
    for text in ["0.5", ".5", "1.5", "0.25", "3.75", "0.1", "0.2", "0.3", "1.1", "2.675", "123.456", "0.000123456", "99999.9", "1.17549e-38", "3.40282e+38"]:
        add(text, float(text), "leading-dot" if text.startswith(".") else "decimal")
    for text in ["1e3", "1E3", "1e+3", "1.5e2", "2e-2", "1e0", "5e-1", "1.25e-3", "9.99999e5", "1e10", "1e-10"]:
        add(text, float(text), "exponent")
    n = 150 if tier == "quick" else 3000
    for _ in range(n):
        digits = rng.randint(1, 6)
        mant = rng.randint(1, 10 ** digits - 1)
        exp = rng.randint(-8, 8)
        form = rng.choice(["decimal", "exponent"])
        if form == "decimal":
            text = ("%.*f" % (max(0, rng.randint(0, 6)), mant / (10 ** rng.randint(0, digits)))).rstrip("0").rstrip(".") or "0"
        else:
            text = "%de%d" % (mant, exp)
        add(text, float(text), form)
    return out


def value_cases(rng, tier):
    out = []
    chars = ["a", "B", " ", '"', "'", "\n", "\t", "\\", "{", "}", ";", "/", "*", "#", "\x01", "\x7f", "\xc3\xa4"]
    def sqf_string(s):
        return '"' + s.replace('"', '""') + '"'
    strs = ["", '"', '""', "'", "a\"b", "line\nbreak", "tab\there", "// not a comment", "/* x */", "#define X", "\\", "{}"]
    for _ in range(60 if tier == "quick" else 1500):
        strs.append("".join(rng.choice(chars) for _ in range(rng.randint(0, 8))))
    for s in strs:
        out.append({"expr": sqf_string(s), "kind": "string", "chars": list(s)})
        # the same characters spelled between single quotes (a doubled single quote denotes one)
        out.append({"expr": "'" + s.replace("'", "''") + "'", "kind": "string", "chars": list(s)})
    for b in ("true", "false"):
        out.append({"expr": b, "kind": "bool"})
    nums = ["0", "1", "-1", "0.5", "123456", "-123456", "1.5", "0.000123", "1e6", "1e7", "123456e3", "1e-5", "99999.9", "0.1", "3.14159", "-0",
            # the longest printed forms: sign, six digits, exponent
            "-1.23456e+20", "-9.87654e+30", "-1.23456e-20", "1.23456e+20", "-123456e3", "-1e10", "-1.17549e-38", "-3.40282e+38", "-0.000123456", "-999999"]
    for _ in range(60 if tier == "quick" else 1500):
        nums.append(("%g" % (rng.randint(-999999, 999999) * (10.0 ** rng.randint(-12, 12)))))
    for n in nums:
        out.append({"expr": "(" + n + ")", "kind": "number"})
    def rnd_val(d):
        r = rng.random()
        if d == 0 or r < 0.4:
            return rng.choice(["1", "0.5", "true", sqf_string(rng.choice(strs[:12])), "{_x + 1}"])
        return "[" + ",".join(rnd_val(d - 1) for _ in range(rng.randint(0, 3))) + "]"
    for _ in range(60 if tier == "quick" else 1500):
        out.append({"expr": rnd_val(3), "kind": "array"})
    for t in ["{}", "{1}", "{a = 1; b = 2}", "{private _x = 1; _x + 1}", "{[1,2] select 0}", "{if (a) then {b} else {c}}", "{{_x} forEach [1,2]}", '{"s""q"}',
              "{(1 + 2) * 3}", "{1 + 2 * 3}", "{1 - (2 - 3)}", "{-(1 + 2)}", "{!(a && b)}", "{a = (b = 1)}" if False else "{a select (b + 1)}", "{(a select b) select c}", "{[a, (b + 1) * 2]}"]:
        out.append({"expr": t, "kind": "code"})
    return out


def code_texts(rng, tier, trees):
    """statement lists used as code bodies: C01 trees (with required parentheses) and statement shapes"""
    texts = []
    for t in trees:
        rt = C01.real(t)
        texts.append(("expr:" + C01.shape(rt).split("(")[0], "vd__v = " + C01.render(rt, "min", rng)))
    stm = ["a = 1; b = a + 2", "private _x = 1; _x", "if (a > 1) then {b = 2} else {b = 3}", "{_x + 1} forEach [1,2,3]", "[1, [2, 3], \"s\"\"q\"] select 1",
           "a = {b = {c}}", "x = !(a && {b})", "x = -(1 + 2)", "x = (1 + 2) * 3", "x = 1 - (2 - 3)", "x = (a select 0) select 1", "x = a select (0 + 1)",
           "x = if (a) then {1}", "while {a < 3} do {a = a + 1}", "x = [(1 + 2) * 3, -(4)]", "x = (y = 1)" if False else "x = str (1 + 2)", "x = count (a + b)", "x = (count a) + b",
           "x = $ff + 0x10", "x = .5 + 1e3", "hint \"a\"", "x = not (a || b)"]
    # right- and left-nested pairs of registered operators, same operator and neighbours of its level
    real = ["+", "-", "*", "/", "%", "mod", "&&", "||", "and", "or", "min", "max", "select", "^", "==", "isEqualTo", "atan2", ">>"]
    for a in real:
        for b in ([a] + rng.sample(real, 3) if tier == "quick" else real):
            stm.append("x = p %s (q %s r)" % (a, b))
            stm.append("x = (p %s q) %s r" % (a, b))
    for s in stm:
        texts.append(("stmt", s))
    return texts


def run(rep, tier, seed, replay):
    rng = random.Random(seed)
    vlib.build("rel")
    wdir = vlib.workdir("C06")
    rep.assumptions += [
        "float clause: only spellings whose nearest single-precision value the generator can compute (python double -> float32 rounding) with at most 6 significant digits are checked; %g shortest forms of arbitrary floats are outside the technique (DESIGN.md 8)",
        "strings contain any byte except NUL; they are compared character-wise as byte sequences",
        "code round trips compare instruction listings position-independently (opcode, operand, operator name, precedence)",
    ]
    if replay:
        obj = json.load(open(replay))
        texts, vals, lits = obj.get("texts", []), obj.get("vals", []), obj.get("lits", [])
    else:
        for q, exp in (("TRUE", None), ("FALSE", "InvQuote")):
            p = os.path.join(vlib.SPEC, "gen_values.cfg")
            open(p, "w").write("SPECIFICATION Spec\nCONSTANTS\n  MaxLen = 5\n  QuoteDoubles = %s\nINVARIANTS InvQuote InvSingle\n" % q)
            r = vlib.tlc("Values_MC", "gen_values.cfg", workers=8, timeout_s=600)
            if exp is None and not r.ok:
                raise vlib.MachineryError("Values design check failed: %s" % (r.violated or r.error))
            if exp is not None and r.violated != exp:
                raise vlib.MachineryError("vacuity self-test: printer without doubling must violate %s" % exp)
            if exp is None:
                rep.add_tlc(r, "Values_MC: Unquote(Quote(s)) = s for all strings <= 5 over {a,\",',newline,space}")
            else:
                rep.design_runs.append({"what": "mutated printer (no quote doubling) violates InvQuote (non-vacuity)"})
        r = vlib.tlc("SqfExpr_MC", C01.mc_cfg("expr_rt", 2, False), workers=vlib.NCPU, timeout_s=1500, xmx="12g")
        if not r.ok:
            raise vlib.MachineryError("SqfExpr round-trip design check failed: %s" % (r.violated or r.error))
        rep.add_tlc(r, "SqfExpr_MC: Parse(Reconstruct(PostOrder(t))) = PostOrder(t) for all trees depth 2")
        g = vlib.tlc("SqfExpr_MC", C01.mc_cfg("expr_gen6", 2, True, levels="{1, 4, 6, 7, 10}"), workers=vlib.NCPU, timeout_s=1500, xmx="12g")
        trees = [json.loads(p) for p in g.prints]
        if tier == "quick":
            trees = rng.sample(trees, min(2500, len(trees)))
        trees += [C01.random_tree(rng, rng.randint(3, 5), list(range(1, 11))) for _ in range(500 if tier == "quick" else 10000)]
        texts = code_texts(rng, tier, trees)
        vals = value_cases(rng, tier)
        lits = literal_cases(rng, tier)
    rep.evaluations = len(texts) + len(vals) + len(lits)
    rep.rule = ("code bodies: every C01 tree (sampled in quick) with required parentheses + statement shapes, each round-tripped through str and through the pretty-printer; "
                "values: strings over a byte alphabet incl. quotes/newlines/control bytes, numbers with <= 6 significant digits, booleans, nested arrays, code; literal spellings (decimal, leading dot, exponent, $hex, 0xhex); "
                "distinct by text; non-trivial = all")
    rep.extra["distinct_nontrivial"] = len({t[1] for t in texts}) + len({v["expr"] for v in vals}) + len({l["text"] for l in lits})
    lines = []
    # ---- code round trips
    acases = [{"id": "t%d" % i, "text": t[1], "roundtrip": True, "dummy": C01.DUMMY} for i, t in enumerate(texts)]
    ev = vlib.events_by_case(vlib.run_driver("asm", acases, wdir, kind="rel", timeout_s=20, tag="rt"))
    for c, t in zip(acases, texts):
        evs = ev.get(c["id"], [])
        crash = [e for e in evs if e["e"] == "Crash"]
        if crash:
            lines.append(dict(crash[0]))
            continue
        a = [e for e in evs if e["e"] == "Asm"][0]
        rt = [e for e in evs if e["e"] == "RoundTrip"]
        if not a["ok"] or not rt:
            raise vlib.MachineryError("generated code body does not compile: %s" % t[1])
        orig = C01.project(a["code"])
        rt = rt[0]
        lines.append({"e": "RT", "id": c["id"], "kind": "str", "ok": rt["str_ok"], "a": orig, "b": C01.project(rt.get("str_code", [])), "shape": t[0]})
        lines.append({"e": "RT", "id": c["id"], "kind": "pretty", "ok": rt["pretty_ok"], "a": orig, "b": C01.project(rt.get("pretty_code", [])), "shape": t[0]})
    # ---- values
    vcase = [{"id": "v%d" % i, "exprs": [v["expr"]]} for i, v in enumerate(vals)]
    ev = vlib.events_by_case(vlib.run_driver("val", vcase, wdir, kind="rel", timeout_s=20, tag="val"))
    for c, v in zip(vcase, vals):
        evs = ev.get(c["id"], [])
        crash = [e for e in evs if e["e"] == "Crash"]
        if crash:
            lines.append(dict(crash[0]))
            continue
        o = [e for e in evs if e["e"] == "Val"][0]
        lines.append({"e": "Val", "id": c["id"], "kind": v["kind"], "ok": bool(o.get("ok")) and o.get("res") == "empty" and o.get("nerr", 1) == 0,
                      "rt": o.get("rt", "none"), "chars": v.get("chars", []), "printed": list(o.get("printed", ""))})
    # ---- literal spellings
    lcase = [{"id": "l%d" % i, "exprs": [l["text"]]} for i, l in enumerate(lits)]
    ev = vlib.events_by_case(vlib.run_driver("val", lcase, wdir, kind="rel", timeout_s=20, tag="lit"))
    for c, l in zip(lcase, lits):
        evs = ev.get(c["id"], [])
        crash = [e for e in evs if e["e"] == "Crash"]
        if crash:
            lines.append(dict(crash[0]))
            continue
        o = [e for e in evs if e["e"] == "Val"][0]
        lines.append({"e": "Lit", "id": c["id"], "text": l["text"], "form": l["form"], "ok": bool(o.get("ok")) and "bits" in o, "bits": o.get("bits", ""), "want": l["want"]})
    per = max(1, len(lines) // 12)
    execs = [("chunk%d" % i, lines[i:i + per]) for i in range(0, len(lines), per)]
    bad, totals, results = vlib.validate_traces("Values_Trace", "Values_Trace.cfg", execs, wdir, "c06", chunks=len(execs), xmx="6g")
    for x in results:
        rep.add_tlc(x)
    rep.traces = len(lines)
    rep.extra["records_judged"] = totals["ops"]
    rep.samples += [{"code": texts[0][1]}, {"value": vals[3]["expr"]}, {"literal": lits[5]["text"]}]
    src = {}
    for c, t in zip(acases, texts):
        src[c["id"]] = {"texts": [list(t)]}
    for c, v in zip(vcase, vals):
        src[c["id"]] = {"vals": [v]}
    for c, l in zip(lcase, lits):
        src[c["id"]] = {"lits": [l]}
    groups = {}
    for b in bad:
        groups.setdefault("C06/%s/%s" % (b["why"], b["op"].split("/")[0] if b["op"].startswith(("pretty", "str")) else b["op"]), []).append(b)
    for key, bs in sorted(groups.items()):
        b = min(bs, key=lambda x: len(json.dumps(src.get(x["id"], {}))))
        s = src.get(b["id"], {})
        rep.finding(key, "%s (%s): %s" % (b["why"], b["op"], json.dumps(s)[:300]), dict(s, property="C06", key=key, verdict=b))
        rep.found[key]["count"] += len(bs) - 1
