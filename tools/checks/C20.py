"""C20 - runs are deterministic and VM instances are isolated from each other.

spec/Isolation.tla: instances with private stores + the process-wide statics as explicit state, the
named deviations ToFixedSetsStatic / CounterIsStatic / TypeIdByFirstUse / AddressInOutput (the snapshot) and
ObjectHashIsAddress / ExtBufferIsStatic (regressions the object-keyed-hashmap and callExtension probes must notice);
spec/Isolation_MC.tla: product of three runs (P with Q in one process, P alone, P alone again), every
interleaving of P's and Q's statements: design check (ideal satisfies NonInterferenceAfter /
NonInterferenceBeside / Deterministic, every deviation is refuted) and case generator;
harness `iso`: the cases on real VMs (alone in a fresh process, after Q, beside Q on two threads with
the interleaving forced by a token gate, optionally per VM instruction through the H3 observer);
spec/Isolation_Trace.tla: TLC compares P's recorded output streams group by group.
"""
import concurrent.futures
import json
import os
import random
import re
import shutil
import subprocess

import vlib

LEVEL = "model_checking"
CODE_DEVS = ["ToFixedSetsStatic", "CounterIsStatic", "TypeIdByFirstUse", "AddressInOutput"]      # deviations of the pinned snapshot
DEVS = CODE_DEVS + ["ObjectHashIsAddress", "ExtBufferIsStatic", "WarnLatchIsStatic"]                                   # + regressions the probes must notice
EXT_ENV = {}        # LD_LIBRARY_PATH of the driver processes: where the test extension isoext lives
INVS = ("InvNonInterferenceAfter", "InvNonInterferenceBeside", "InvDeterministic")

# ---------------------------------------------------------------------------------------------
# abstract statement -> SQF renderings. Every probe observes ONE piece of state and avoids the others
# (no numbers outside the number-formatting probes), so that a difference names its cause.
# ---------------------------------------------------------------------------------------------
RENDER = {
    "print": ["diag_log str 1.23456789;", "diag_log (1/3);", "diag_log [1.5, 2];", "systemChat str 0.1;",
              'diag_log format ["%1|%2", 2.5, 100];', "hint str 1e10;"],
    # evaluated while the text is preprocessed, before the VM executes anything
    "evalprint": ["diag_log [__EVAL(1/3), 1.23456789];", "diag_log __EVAL(str 1.23456789);"],
    "tofixed": ["toFixed %d;"],
    "fixedprint": ["toFixed %d; diag_log str (1/3); toFixed -1;", "toFixed %d; diag_log [1.5, 100]; toFixed -1;"],
    "fmtfixed": ["diag_log (1.5 toFixed %d);", "diag_log ((1/3) toFixed %d);"],
    "counter": ['diag_log ("abcdefghijklmnopqrstuvwxyz" select [__COUNTER__, 1]);',
                'diag_log (["c0","c1","c2","c3","c4","c5","c6","c7","c8","c9","c10","c11"] select __COUNTER__);',
                'diag_log (preprocess__ "__COUNTER__");'],
    "define": ['#define X "v%d"\ngDummy = "d";'],
    "usedef": ["diag_log [X];"],
    "defuse": ['#define X "v%d"\ndiag_log [X];'],
    "setg": ['gX = "v%d";', 'uiNamespace setVariable ["gX", "v%d"]; gX = "v%d";'],
    "readg": ['diag_log [if (isNil "gX") then {"nil"} else {gX}];', 'diag_log [uiNamespace getVariable ["gX", "nil"], missionNamespace getVariable ["gX", "nil"]];'],
    "loadcfg": ['configparse__ "class A { x = ""v%d""; };";'],
    "readcfg": ['diag_log [getText (configFile >> "A" >> "x"), isClass (configFile >> "A")];'],
    "typeorder": ['help__ "+";', "diag_log cmdsvm__;", "diag_log (cmds__ select [0, 16]);", 'help__ "in"; help__ "select";',
                  "diag_log (cmds__ select [(count cmds__) - 60, 60]);", 'help__ "-"; help__ "isEqualTo";'],
    "collstr": ['diag_log (keys createHashMapFromArray [["a","1"],["b","2"],["c","3"],["d","4"]]);',
                'gA = "a"; gB = "b"; gC = "c"; diag_log allVariables missionNamespace;',
                'diag_log str createHashMapFromArray [["k1","x"],["k2","y"],[["a","b"],"z"]];'],
    "objstr": ["diag_log str createGroup west;"],
    # a hashmap keyed by several objects created here, enumerated; only names / values are printed, never an address
    "objmap": ['configparse__ "class CfgVehicles { class Dummy {}; };"; private _hm = createHashMap; for "_i" from 1 to 12 do '
               '{ private _o = "Dummy" createVehicle [0,0,0]; _o setVehicleVarName format ["o%1", _i]; _hm set [_o, format ["v%1", _i]]; }; '
               'diag_log (keys _hm); diag_log ((keys _hm) apply {_hm get _x});',
               'configparse__ "class CfgVehicles { class Dummy {}; };"; private _hm = createHashMap; { private _o = "Dummy" createVehicle [0,0,0]; '
               '_o setVehicleVarName _x; _hm set [_o, _x]; } forEach ["a","b","c","d","e","f","g"]; diag_log str _hm;',
               'private _hm = createHashMap; { _hm set [createGroup (_x select 0), _x select 1]; } forEach [[west,"g1"],[east,"g2"],[civilian,"g3"],[resistance,"g4"],'
               '[west,"g5"],[east,"g6"],[civilian,"g7"],[resistance,"g8"],[west,"g9"]]; diag_log ((keys _hm) apply {_hm get _x});'],
    # callExtension of the stateless test extension harness/C20_isoext.cc: answered / unanswered calls
    "extecho": ['diag_log ["isoext" callExtension "echo:answer %d"];', 'diag_log ("isoext" callExtension ["echo", ["answer %d", "w"]]);'],
    # an operation that earns a diagnostic whenever it is used (no clipboard in this build)
    "warn": ['copyToClipboard "x";', 'copyToClipboard "y"; diag_log "after";'],
    # a warning delivered in the middle of an operator that builds a text: what was built before it must still be there
    "fmtwarn": ['diag_log format ["%1 left (supplier %4), reorder at %2", 3, 5, "s"];', 'diag_log format ["a%1b%9c%2d", "L", "R"];'],
    "extquiet": ['diag_log ["isoext" callExtension "log:x"];', 'diag_log ("isoext" callExtension ["log", ["x"]]);', 'diag_log ["isoext" callExtension "part:ab"];'],
}


def build_extension(wdir):
    """the test extension, built from harness/C20_isoext.cc with the system compiler (nothing else is needed)"""
    d = os.path.join(wdir, "ext")
    os.makedirs(d, exist_ok=True)
    src = os.path.join(vlib.ROOT, "harness", "C20_isoext.cc")
    out = os.path.join(d, "isoext_x64.so")
    r = subprocess.run(["g++", "-std=c++17", "-O1", "-shared", "-fPIC", "-o", out, src], stdout=subprocess.PIPE, stderr=subprocess.STDOUT, text=True)
    if r.returncode != 0:
        raise vlib.MachineryError("cannot build the test extension: " + r.stdout[-2000:])
    shutil.copyfile(out, os.path.join(d, "isoext.so"))      # the name without the 64-bit suffix, should the build not append it
    old = os.environ.get("LD_LIBRARY_PATH")
    EXT_ENV["LD_LIBRARY_PATH"] = d + (":" + old if old else "")


def kind_name(s):
    return "createbasic" if s["k"] == "create" and s["n"] == 2 else s["k"]


def render(s, variant):
    if s["k"] == "create":
        return {"a": kind_name(s), "k": "vm", "t": "full" if s["n"] == 1 else "basic"}
    alts = RENDER[s["k"]]
    t = alts[variant % len(alts)]
    if "%d" in t:
        t = t.replace("%d", str(s["n"]))
    return {"a": s["k"], "k": "sqf", "t": t}


def mc_cfg(name, dev=(), maxp=2, maxq=2, stmts="StmtsAll", emit=False, invs=INVS, view=True, addrs="{100, 200}", persist=False):
    t = "SPECIFICATION Spec\nCONSTANTS\n" + "".join("  %s = %s\n" % (d, "TRUE" if d in dev else "FALSE") for d in DEVS)
    t += "  DefinesPersist = %s\n  MaxP = %d\n  MaxQ = %d\n  Stmts <- %s\n  Addrs = %s\n  Emit = %s\n" % (
        "TRUE" if persist else "FALSE", maxp, maxq, stmts, addrs, "TRUE" if emit else "FALSE")
    if view:
        t += "VIEW View\n"
    if invs:
        t += "INVARIANTS " + " ".join(invs) + "\n"
    p = os.path.join(vlib.SPEC, "gen_c20_%s.cfg" % name)
    with open(p, "w") as f:
        f.write(t)
    return os.path.basename(p)


def witness_of(trace_text):
    """hp / hq / sched of the last state of a TLC counterexample (for the evidence file)"""
    out = {}
    for var in ("hp", "hq", "sched"):
        m = re.findall(r"/\\ %s = (<<.*?>>)\n(?:/\\|\n)" % var, trace_text, re.S)
        if m:
            out[var] = re.sub(r"\s+", " ", m[-1])
    return out


def design_check(rep, tier):
    deep = 3
    jobs = [
        ("ideal", dict(maxp=deep, maxq=deep), None, "Isolation_MC ideal: P, Q <= %d statements over the whole alphabet, all interleavings, after and beside" % deep),
        ("ideal_persist", dict(maxp=deep, maxq=deep, persist=True, stmts="StmtsCounter"), None, "Isolation_MC ideal with defines persisting inside an instance (preprocessor alphabet)"),
        ("functional", dict(maxp=2, maxq=1, view=False, invs=("InvFunctionalForm",), stmts="StmtsDecimals"), None,
         "step-wise flags = functional formulas OutBeside/OutAfter = OutAlone (no view)"),
    ]
    for d, inv in [("ToFixedSetsStatic", "InvNonInterferenceAfter"), ("ToFixedSetsStatic", "InvNonInterferenceBeside"),
                   ("CounterIsStatic", "InvNonInterferenceAfter"), ("CounterIsStatic", "InvNonInterferenceBeside"),
                   ("TypeIdByFirstUse", "InvNonInterferenceAfter"), ("TypeIdByFirstUse", "InvNonInterferenceBeside"),
                   ("AddressInOutput", "InvDeterministic"), ("AddressInOutput", "InvNonInterferenceAfter"),
                   ("ObjectHashIsAddress", "InvDeterministic"), ("ObjectHashIsAddress", "InvNonInterferenceAfter"),
                   ("ExtBufferIsStatic", "InvNonInterferenceAfter"), ("ExtBufferIsStatic", "InvNonInterferenceBeside"),
                   ("WarnLatchIsStatic", "InvNonInterferenceAfter"), ("WarnLatchIsStatic", "InvNonInterferenceBeside")]:
        jobs.append(("dev_%s_%s" % (d, inv[3:]), dict(dev=(d,), invs=(inv,), maxp=2, maxq=2), inv, "deviation %s (%s) violates %s" % (d, "the code" if d in CODE_DEVS else "a regression", inv[3:])))
    if tier != "quick":
        jobs.append(("ideal4", dict(maxp=4, maxq=4), None, "Isolation_MC ideal: P, Q <= 4 statements"))

    def one(j):
        name, kw, expect, what = j
        return j, vlib.tlc("Isolation_MC", mc_cfg(name, **kw), workers=4 if expect else 8, timeout_s=1500, xmx="6g", tag="c20_" + name)

    with concurrent.futures.ThreadPoolExecutor(max_workers=4) as ex:
        results = list(ex.map(one, jobs))
    for (name, kw, expect, what), r in results:
        if expect is None:
            if not r.ok:
                raise vlib.MachineryError("Isolation design check '%s' failed: %s %s" % (name, r.violated, (r.error or r.trace_text)[:1500]))
            rep.add_tlc(r, what)
        else:
            if r.violated != expect:
                raise vlib.MachineryError("vacuity self-test: %s must be refuted, got violated=%s error=%s" % (what, r.violated, (r.error or "")[:600]))
            rep.design_runs.append({"what": what + " (non-vacuity; model-level witness)", "generated": r.generated, "distinct": r.distinct, "witness": witness_of(r.trace_text)})


def trace_selftest(rep, wdir):
    """binding / vacuity demonstration of the trace specification on a synthetic log"""
    def ln(i, a, x):
        return {"i": i, "a": a, "x": x}

    def case(cid, g, setting, lines, crash=""):
        return {"e": "Case", "id": cid, "g": g, "setting": setting, "sched": "", "qk": "", "crash": crash, "P": lines}
    ref = [ln(1, "create", "#res=created"), ln(2, "print", "A"), ln(3, "objstr", "X")]
    execs = [
        ("t1", [case("t1.a", "t1", "alone", ref), case("t1.b", "t1", "alone2", ref), case("t1.c", "t1", "beside", ref),
                case("t1.d", "t1", "after", [ref[0], ln(2, "print", "B"), ref[2]]), case("t1.e", "t1", "beside", ref[:2]),
                case("t1.f", "t1", "beside", [], "timeout")]),
        ("t2", [case("t2.a", "t2", "alone", ref), case("t2.b", "t2", "alone2", ref[:2] + [ln(3, "objstr", "Y")]),
                case("t2.c", "t2", "after", ref[:2] + [ln(3, "objstr", "Z")]), case("t2.d", "t2", "beside", [ref[0], ln(2, "print", "C"), ref[2]])]),
        ("t3", [case("t3.a", "t3", "alone", [], "signal 11"), case("t3.b", "t3", "after", ref)]),
    ]
    bad, totals, results = vlib.validate_traces("Isolation_Trace", "Isolation_Trace.cfg", execs, wdir, "c20self", chunks=1)
    got = sorted((b["id"], b["why"], b["op"]) for b in bad)
    want = sorted([("t1.d", "NonInterferenceAfter", "print"), ("t1.e", "NonInterferenceBeside", "objstr"), ("t1.f", "NonInterferenceBeside", "crash"),
                   ("t2.b", "Deterministic", "objstr"), ("t2.d", "NonInterferenceBeside", "print")])
    if got != want:
        raise vlib.MachineryError("trace specification self-test failed: expected %s, got %s" % (want, got))
    rep.design_runs.append({"what": "Isolation_Trace self-test: corrupted / truncated / crashed streams rejected with the right formula and statement kind, equal ones and the lines after a non-deterministic one accepted",
                            "generated": results[0].generated, "distinct": results[0].distinct})


# ---------------------------------------------------------------------------------------------
# cases
# ---------------------------------------------------------------------------------------------
def generate(rep, tier, seed, rng):
    """abstract cases [{P, Q, sched, setting}] from TLC: exhaustive small bound + seeded random behaviours"""
    bound = (1, 1) if tier == "quick" else (2, 1)
    g = vlib.tlc("Isolation_MC", mc_cfg("gen_bfs", dev=CODE_DEVS, maxp=bound[0], maxq=bound[1], emit=True, view=False, invs=(), addrs="{100}"),
                 workers=vlib.NCPU, timeout_s=1500, xmx="8g", tag="c20_gen_bfs")
    if not g.ok:
        raise vlib.MachineryError("Isolation generator failed: %s" % (g.error or g.violated))
    rep.add_tlc(g, "Isolation_MC generator: every P <= %d, Q <= %d statements, every interleaving ending in a statement of P" % bound)
    exhaustive = [json.loads(p) for p in g.prints]
    # deeper: random behaviours of the same specification (P, Q <= 3 statements)
    nsim = 1500 if tier == "quick" else 8000
    s = vlib.tlc("Isolation_MC", mc_cfg("gen_sim", maxp=3, maxq=3, emit=True, view=False, invs=(), addrs="{100}"),
                 workers=vlib.NCPU, timeout_s=1500, xmx="8g", simulate=nsim, depth=10, seed=seed, tag="c20_gen_sim")
    if s.error and "OUT" not in s.out:
        raise vlib.MachineryError("Isolation simulation generator failed: %s" % s.error)
    seen = {json.dumps(c, sort_keys=True) for c in exhaustive}
    pool = []
    for p in s.prints:
        c = json.loads(p)
        k = json.dumps(c, sort_keys=True)
        if k not in seen and c["Q"]:
            seen.add(k)
            pool.append(c)
    pool.sort(key=lambda c: json.dumps(c, sort_keys=True))
    # regroup: a reference run is needed per program P, so K programs P are drawn and each is combined with
    # M (Q, schedule) patterns of simulated behaviours whose P has the same length (the specification lets
    # every statement sequence of P meet every statement sequence of Q under every interleaving)
    K, M = (350, 16) if tier == "quick" else (5000, 24)
    progs = {}
    for c in pool:
        progs.setdefault(json.dumps(c["P"]), c["P"])
    names = sorted(progs)
    rng.shuffle(names)
    names.sort(key=lambda n: -len(progs[n]))      # long ones first (their prefixes are covered with them)
    bylen = {}
    for c in pool:
        bylen.setdefault(len(c["P"]), []).append(c)
    sampled = []
    for n in names[:K]:
        P = progs[n]
        cands = bylen[len(P)]
        for c in rng.sample(cands, min(M, len(cands))):
            sampled.append({"P": P, "Q": c["Q"], "sched": c["sched"], "setting": c["setting"]})
    rep.design_runs.append({"what": "Isolation_MC -simulate num=%d depth=10 seed=%d: %d distinct behaviours, regrouped into %d programs P x %d (Q, schedule) patterns (P, Q <= 3)"
                                    % (nsim, seed, len(pool), min(K, len(names)), M),
                            "generated": s.generated, "distinct": s.distinct})
    return exhaustive, sampled


def concrete(abstract, variant_of, cid, extra=None):
    """abstract case -> driver case"""
    P = [render(s, variant_of(s)) for s in abstract["P"]]
    Q = [render(s, variant_of(s)) for s in abstract["Q"]]
    c = {"id": cid, "P": P, "Q": Q, "setting": abstract["setting"], "schedule": [x for x in abstract["sched"] if x != "D"],
         "sched": "".join(abstract["sched"])}
    if "ni" in abstract:
        c["model_ni"] = abstract["ni"]
    if extra:
        c.update(extra)
    return c


def pkey(P):
    return json.dumps([(s["k"], s["t"]) for s in P])


class Groups:
    """cases grouped by the program P (the reference output is per P)"""

    def __init__(self):
        self.by = {}
        self.order = []

    def add(self, case):
        k = pkey(case["P"])
        g = self.by.get(k)
        if g is None:
            gid = "g%d" % len(self.order)
            g = {"gid": gid, "P": case["P"], "cases": [],
                 "alone": {"id": gid + ".a1", "P": case["P"], "Q": [], "setting": "alone", "schedule": [], "sched": ""},
                 "alone2": {"id": gid + ".a2", "P": case["P"], "Q": [], "setting": "alone", "schedule": [], "sched": ""}}
            self.by[k] = g
            self.order.append(g)
        if case["setting"] != "alone":
            g["cases"].append(case)
        return g


DRIVER_KEYS = ("id", "P", "Q", "setting", "schedule", "keep", "fine")


def drv(c):
    return {k: c[k] for k in DRIVER_KEYS if k in c}


def case_line(c, gid, setting, events):
    outs = [e for e in events if e.get("e") == "Out" and e.get("who") == "P"]
    crash = [e for e in events if e.get("e") == "Crash"]
    why = ""
    if crash:
        why = str(crash[0].get("why", "crash"))
    elif not outs:
        why = "no output"
    return {"e": "Case", "id": c["id"], "g": gid, "setting": setting, "sched": c.get("sched", "") + ("/fine" if c.get("fine") else "") + ("/keep" if c.get("keep") else ""),
            "qk": ",".join(s["a"] for s in c["Q"]), "crash": why, "P": outs[0]["lines"] if outs and not crash else []}


def execute(groups, wdir, tag, with_alone2=True):
    """run all cases of the groups; returns executions for validate_traces and the raw events by case"""
    first = []
    second = []
    for g in groups:
        first.append(drv(g["alone"]))
        first.extend(drv(c) for c in g["cases"])
        if with_alone2:
            second.append(drv(g["alone2"]))
    ev = vlib.run_driver("iso", first, wdir, kind="rel", timeout_s=20, tag=tag, env=EXT_ENV)
    by = vlib.events_by_case(ev)
    if second:
        # a second, separately started driver process: really another fresh process (other address space)
        ev2 = vlib.run_driver("iso", second, wdir, kind="rel", timeout_s=20, tag=tag + "b", env=EXT_ENV)
        by.update(vlib.events_by_case(ev2))
    execs = []
    for g in groups:
        lines = [case_line(g["alone"], g["gid"], "alone", by.get(g["alone"]["id"], []))]
        if with_alone2:
            lines.append(case_line(g["alone2"], g["gid"], "alone2", by.get(g["alone2"]["id"], [])))
        for c in g["cases"]:
            lines.append(case_line(c, g["gid"], c["setting"], by.get(c["id"], [])))
        execs.append((g["gid"], lines))
    return execs, by


def validate(execs, wdir, tag, chunks=None):
    bad, totals, results = vlib.validate_traces("Isolation_Trace", "Isolation_Trace.cfg", execs, wdir, tag, chunks=chunks, xmx="4g", timeout_s=1200)
    for b in bad:
        if b["why"].startswith("MACHINERY"):
            raise vlib.MachineryError("trace validation could not bind a case: %s" % b)
    return bad, totals, results


def qkinds(case):
    ks = [s["a"] for s in case["Q"] if s["k"] != "vm"]
    if not ks:
        ks = [s["a"] for s in case["Q"]]
    return sorted(ks)


def without(case, who, idx, cid):
    """the case without statement idx of program who (and without its slot of the schedule)"""
    c = dict(case)
    c["id"] = cid
    c[who] = [s for i, s in enumerate(case[who]) if i != idx]
    if case.get("fine"):
        return c           # per-instruction schedule: the slots of a finished program are dropped by the driver
    sched = []
    n = -1
    for x in case["schedule"]:
        if x == who:
            n += 1
            if n == idx:
                continue
        sched.append(x)
    c["schedule"] = sched
    c["sched"] = "Q" * len(c["Q"]) + "D" + "P" * len(c["P"]) if c["setting"] == "after" else "".join(sched)
    return c


def texts(prog):
    return [("<create VM, %s operator set>" % s["t"]) if s["k"] == "vm" else s["t"] for s in prog]


def window(want, got):
    """the two texts around their first difference"""
    k = 0
    while k < min(len(want), len(got)) and want[k] == got[k]:
        k += 1
    lo = max(0, k - 30)
    return want[lo:k + 50], got[lo:k + 50]


def describe(why, op, c, b):
    want, got = window(b["want"], b["got"])
    setting = "alone twice (two processes)" if why == "Deterministic" else c["setting"]
    return ("%s: P = %s, Q = %s, setting %s, schedule %s: output of P's %s statement is ..%r.. alone but ..%r.. here"
            % (why, texts(c["P"]), texts(c.get("Q", [])), setting, c.get("sched", "") + ("/per-instruction" if c.get("fine") else ""), op, want, got))


def minimise(cands, wdir, rep):
    """cands: list of dict(why, op, case). Re-runs every candidate (confirmation) together with all its
    one-statement-shorter variants, round by round, until no shorter variant shows the same rejection.
    Returns list of dict(why, op, case, bad entry, observed) for the confirmed ones."""
    final = []
    rnd = 0
    while cands and rnd < 12:
        rnd += 1
        gs = Groups()
        trial = []
        for n, cd in enumerate(cands):
            base = dict(cd["case"])
            base["id"] = "m%d_%d" % (rnd, n)
            variants = [base]
            if cd["why"] != "Deterministic":
                for i, s in enumerate(base["Q"]):
                    if s["k"] != "vm":
                        variants.append(without(base, "Q", i, "m%d_%d_q%d" % (rnd, n, i)))
                if len(base["Q"]) == 1 and base["Q"][0]["t"] == "basic":
                    v = dict(base)
                    v["id"] = "m%d_%d_full" % (rnd, n)
                    v["Q"] = [{"a": "create", "k": "vm", "t": "full"}]
                    variants.append(v)
            for i, s in enumerate(base["P"]):
                if s["k"] != "vm" and len([x for x in base["P"] if x["k"] != "vm"]) > 1:
                    variants.append(without(base, "P", i, "m%d_%d_p%d" % (rnd, n, i)))
            for v in variants:
                if cd["why"] == "Deterministic":
                    v = dict(v, Q=[], setting="alone", schedule=[], sched="")
                gs.add(v)
            trial.append((cd, variants))
        execs, by = execute(gs.order, wdir, "min%d" % rnd)
        bad, _, _ = validate(execs, wdir, "c20min%d" % rnd, chunks=1)
        badby = {}
        for b in bad:
            badby.setdefault(b["id"], []).append(b)
        gid_of = {}
        for g in gs.order:
            for c in g["cases"]:
                gid_of[c["id"]] = g
        nxt = []
        for cd, variants in trial:
            def verdict(v):
                if cd["why"] == "Deterministic":
                    g = gs.by[pkey(v["P"])]
                    bs = badby.get(g["alone2"]["id"], [])
                else:
                    bs = badby.get(v["id"], [])
                return [b for b in bs if b["why"] == cd["why"] and b["op"] == cd["op"]]
            if not verdict(variants[0]):
                rep.notes.append("rejection %s/%s did not repeat on case %s" % (cd["why"], cd["op"], cd["case"]["id"]))
                continue
            smaller = [v for v in variants[1:] if verdict(v)]
            if smaller:
                nxt.append(dict(cd, case=smaller[0]))
            else:
                v = variants[0]
                g = gs.by[pkey(v["P"])]
                ids = [g["alone"]["id"], g["alone2"]["id"]] + ([v["id"]] if cd["why"] != "Deterministic" else [])
                final.append(dict(cd, case=v, bad=verdict(v)[0], alone=g["alone"],
                                  observed={i: [e for e in by.get(i, []) if e["e"] in ("Out", "Order", "Crash")] for i in ids}))
        cands = nxt
    return final


def run(rep, tier, seed, replay):
    rng = random.Random(seed)
    vlib.build("rel")
    wdir = vlib.workdir("C20")
    build_extension(wdir)
    rep.assumptions += [
        "output of a program = every message its VM's logger receives (level, code, position, text; byte-wise) plus the result of each run, attributed to the statement that was running",
        "a statement = one script (preprocess, parse, run to completion) on the program's VM; the VM is created by the program's first step with the full operator set (Q also with the basic set, like sqfvm_create_instance_basic)",
        "alone = fresh forked process; the second alone run comes from a separately started driver process (other address space layout)",
        "beside: the two VMs run on two threads, a token forces the schedule statement by statement (sampled cases: VM instruction by instruction through the H3 observer); steps are atomic, so data races on the statics as such are not exercised (DESIGN.md 8)",
        "time / random / diag_tickTime style operators are excluded by the property; the side-relation table is not reachable (setFriend is not implemented)",
        "callExtension is exercised with the stateless test extension harness/C20_isoext.cc (built at run time, found through LD_LIBRARY_PATH): answers are functions of the call's arguments, unanswered and short unterminated answers included",
        "object-keyed hashmaps are enumerated over named objects / values only, so that the known address prefix of str (open finding) stays out of these probes",
        "probes print strings only, except the number-formatting probes, so that a difference names the state it comes from",
    ]
    if replay:
        obj = json.load(open(replay))
        gs = Groups()
        gs.add(obj["case"])
        execs, by = execute(gs.order, wdir, "replay")
        bad, totals, results = validate(execs, wdir, "c20replay", chunks=1)
        for x in results:
            rep.add_tlc(x)
        rep.traces = totals["ops"]
        rep.evaluations = len(execs[0][1])
        rep.samples.append({"case": drv(obj["case"])})
        rep.rule = "replay of one recorded case"
        for b in bad:
            key = "C20/%s/%s/%s" % (b["why"], b["op"], "+".join(qkinds(obj["case"])) if b["why"] != "Deterministic" and obj["case"].get("Q") else "-")
            rep.finding(key, describe(b["why"], b["op"], obj["case"], b),
                        dict(obj, key=key, verdict=b))
        return

    design_check(rep, tier)
    trace_selftest(rep, wdir)
    vlib.log("[C20] design check done")
    exhaustive, sampled = generate(rep, tier, seed, rng)
    vlib.log("[C20] %d exhaustive + %d sampled abstract cases" % (len(exhaustive), len(sampled)))
    gs = Groups()
    n = 0
    for a in exhaustive:
        n += 1
        gs.add(concrete(a, lambda s: 0, "x%d" % n))
    pvariant = {}
    for a in sampled:
        n += 1
        pv = pvariant.setdefault(json.dumps(a["P"]), rng.randrange(6))     # one rendering per program P (one reference run)
        P = [render(s, pv) for s in a["P"]]
        c = concrete(a, lambda s: rng.randrange(6), "s%d" % n)
        c["P"] = P
        gs.add(c)
    # variants the statement-level model does not distinguish: Q's VM kept alive in the after setting,
    # and instruction-granular schedules of the beside setting
    pool = [c for g in gs.order for c in g["cases"]]
    rng2 = random.Random(seed + 1)
    afters = [c for c in pool if c["setting"] == "after"]
    besides = [c for c in pool if c["setting"] == "beside"]
    for c in rng2.sample(afters, min(len(afters), 300 if tier == "quick" else 5000)):
        n += 1
        gs.add(dict(c, id="k%d" % n, keep=True))
    # systematic: every pair of single statements; one program's statement runs as a whole between
    # instruction pos and pos+1 of the other one's statement (both directions)
    alphabet = sorted({json.dumps(a["P"][1], sort_keys=True) for a in exhaustive if len(a["P"]) == 2})
    for sp in alphabet:
        for sq in alphabet:
            P = [render({"k": "create", "n": 1}, 0), render(json.loads(sp), 0)]
            Q = [render({"k": "create", "n": 1}, 0), render(json.loads(sq), 0)]
            for pos in range(0, 8 if tier == "quick" else 14):
                for x, y in (("P", "Q"), ("Q", "P")):
                    n += 1
                    sched = ["P", "Q"] + [x] * pos + [y] * 40 + [x] * 40
                    gs.add({"id": "i%d" % n, "P": P, "Q": Q, "setting": "beside", "fine": True, "schedule": sched, "sched": "PQ%s%d%s*" % (x, pos, y)})
    nfine = 300 if tier == "quick" else 20000
    for c in rng2.sample(besides, min(len(besides), nfine)):
        n += 1
        # VM creations keep their order; the rest of the schedule is per instruction
        head = [x for x in c["schedule"]]
        firstp = head.index("P") if "P" in head else 0
        firstq = head.index("Q") if "Q" in head else 0
        start = ["P", "Q"] if firstp < firstq else ["Q", "P"]
        sched = start + [rng2.choice("PQ") for _ in range(rng2.randint(4, 40))]
        gs.add(dict(c, id="f%d" % n, fine=True, schedule=sched, sched="".join(sched)))
    groups = gs.order
    ncases = sum(2 + len(g["cases"]) for g in groups)
    rep.evaluations = ncases
    rep.exhaustive = True
    vlib.log("[C20] %d cases in %d groups" % (ncases, len(groups)))
    execs, by = execute(groups, wdir, "run")
    vlib.log("[C20] driver done")
    bad, totals, results = validate(execs, wdir, "c20", chunks=min(vlib.NCPU, max(1, len(groups) // 8)))
    vlib.log("[C20] validation done: %d rejected" % len(bad))
    for x in results:
        rep.add_tlc(x)
    rep.traces = totals["ops"]
    rep.extra["groups"] = len(groups)
    rep.extra["cases_by_setting"] = {s: sum(1 for g in groups for c in g["cases"] if c["setting"] == s and not c.get("fine") and not c.get("keep")) for s in ("after", "beside")}
    rep.extra["cases_by_setting"].update({"alone": 2 * len(groups), "after_keep": sum(1 for g in groups for c in g["cases"] if c.get("keep")),
                                          "beside_per_instruction": sum(1 for g in groups for c in g["cases"] if c.get("fine"))})
    rep.extra["distinct_nontrivial"] = len({(pkey(c["P"]), pkey(c["Q"]), c["setting"], c["sched"], bool(c.get("fine")), bool(c.get("keep"))) for g in groups for c in g["cases"]})
    rep.rule = ("TLC enumerates every P (<= %s statements) x Q (<= %s statement, full or basic operator set) x setting (alone, after, beside) x interleaving ending in a statement of P, "
                "plus seeded random behaviours with P, Q <= 3 statements and random renderings; sampled after-cases again with Q's VM kept alive, sampled beside-cases again "
                "with per-instruction schedules; distinct by (P text, Q text, setting, schedule); non-trivial = Q not empty" % ((1, 1) if tier == "quick" else (2, 1)))
    skipped = sum(1 for gid, lines in execs if lines[0]["crash"])
    if skipped:
        rep.notes.append("%d programs crashed when run alone (not a C20 matter, group skipped)" % skipped)
    for g in groups[:2] + groups[-2:]:
        c = (g["cases"] or [g["alone"]])[0]
        rep.samples.append({"P": [s["t"] for s in c["P"]], "Q": [s["t"] for s in c["Q"]], "setting": c["setting"], "schedule": c["sched"]})

    # ---- drift indicator: the model with all named deviations switched on predicts, case by case of the
    # exhaustive part, whether P's output differs; an interference the model does not predict points to a
    # static the model does not have (reported as a note, the verdict is the trace validation's alone)
    realbad = {b["id"] for b in bad if b["why"].startswith("NonInterference")}
    agree = model_only = impl_only = 0
    impl_only_ex = []
    for g in groups:
        if any(s["a"] == "objstr" for s in g["P"]):
            continue
        for c in g["cases"]:
            if "model_ni" not in c or c.get("keep") or c.get("fine"):
                continue
            if (c["id"] in realbad) == (not c["model_ni"]):
                agree += 1
            elif c["id"] in realbad:
                impl_only += 1
                impl_only_ex.append(c["id"])
            else:
                model_only += 1
    rep.extra["model_vs_implementation"] = {"cases": agree + model_only + impl_only, "agree": agree, "interference_only_in_model": model_only, "interference_only_in_implementation": impl_only}
    if impl_only:
        rep.notes.append("model-drift: %d exhaustive cases show an interference that Isolation.tla with all named deviations does not predict (e.g. %s)" % (impl_only, impl_only_ex[:3]))
    if model_only:
        rep.notes.append("model-drift: %d exhaustive cases predicted to interfere by the named deviations do not interfere on this tree (a deviation no longer describes the code)" % model_only)

    # ---- classification: key = C20/<formula>/<statement kind of P>/<statement kind(s) of Q>
    cmap = {c["id"]: c for g in groups for c in g["cases"]}
    for g in groups:
        cmap[g["alone2"]["id"]] = g["alone2"]
    bad.sort(key=lambda b: (len(cmap[b["id"]]["Q"]), len(cmap[b["id"]]["P"]), bool(cmap[b["id"]].get("fine")), len(cmap[b["id"]]["sched"]), b["id"]))
    rep.extra["rejected_cases"] = len(bad)
    culprits = {}       # (why, op) -> list of (kinds of Q that suffice, key)
    counts = {}

    def explained(b):
        c = cmap[b["id"]]
        have = [s["a"] for s in c["Q"]]
        for kinds, key in culprits.get((b["why"], b["op"]), []):
            left = list(have)
            ok = True
            for k in kinds:
                if k in left:
                    left.remove(k)
                elif k == "create" and "createbasic" in left:
                    left.remove("createbasic")
                else:
                    ok = False
                    break
            if ok:
                return key
        return None

    pending = bad
    rounds = 0
    while pending and rounds < 10:
        rounds += 1
        rest = []
        firsts = {}
        for b in pending:
            key = explained(b)
            if key:
                counts[key] = counts.get(key, 0) + 1
            elif (b["why"], b["op"]) not in firsts:
                # the smallest unexplained case of this signature is re-run and minimised now, the others wait for its culprit
                firsts[(b["why"], b["op"])] = {"why": b["why"], "op": b["op"], "case": cmap[b["id"]]}
            else:
                rest.append(b)
        pending = rest
        if not firsts:
            break
        for d in minimise(list(firsts.values()), wdir, rep):
            c = d["case"]
            ks = qkinds(c) if d["why"] != "Deterministic" else []
            key = "C20/%s/%s/%s" % (d["why"], d["op"], "+".join(ks) if ks else "-")
            culprits.setdefault((d["why"], d["op"]), []).append((tuple(ks), key))
            b = d["bad"]
            what = describe(d["why"], d["op"], c, b)
            rep.finding(key, what, {"property": "C20", "key": key, "case": c, "alone": d["alone"], "observed": d["observed"], "verdict": b})
    if pending:
        rep.notes.append("%d rejected cases were not attributed within %d rounds of minimisation" % (len(pending), rounds))
    for key, cnt in counts.items():
        if key in rep.found:
            rep.found[key]["count"] += cnt
