"""C08 - arrays are shared references, copies are independent, never cyclic.

spec/Heap.tla (Apply + the C08 formulas), spec/Heap_MC.tla (design check + generator: one
implementation test per transition of the bounded state graph), spec/Heap_Trace.tla (validation of
the observation log of the real VM).
"""
import json
import os
import random
import re

import vlib

LEVEL = "model_checking"
VARS = ["a", "b", "c"]


def operand(o):
    return str(o["v"]) if o["k"] == "lit" else o["x"]


def sqf_of(op):
    if op.get("sqf"):
        return op["sqf"]            # a directed history states the statement itself (see directed_hashmap_histories)
    k = op["op"]
    if k == "new" and op.get("h"):
        return "%s = createHashMap" % op["x"]            # a hashmap with the keys "k0", "k1", ..: for the heap model a container whose slot i is key "k<i>"
    if k == "set" and op.get("h"):
        return '%s set ["k%d", %s]' % (op["x"], op["i"], operand(op["val"]))
    if k == "new":
        return "%s = [%s]" % (op["x"], ",".join(str(i) for i in op["lits"]))
    if k == "alias":
        return "%s = %s" % (op["x"], op["y"])
    if k == "set":
        return "%s set [%d, %s]" % (op["x"], op["i"], operand(op["val"]))
    if k in ("pushBack", "pushBackUnique"):
        return "%s %s %s" % (op["x"], k, operand(op["val"]))
    if k == "append":
        return "%s append %s" % (op["x"], op["y"])
    if k == "deleteAt":
        return "%s deleteAt %d" % (op["x"], op["i"])
    if k == "deleteRange":
        return "%s deleteRange [%d, %d]" % (op["x"], op["i"], op["n"])
    if k == "resize":
        return "%s resize %d" % (op["x"], op["n"])
    if k == "reverse":
        return "reverse %s" % op["x"]
    if k == "sort":
        return "%s sort %s" % (op["x"], "true" if op["asc"] else "false")
    if k == "copy":
        return "%s = +%s" % (op["x"], op["y"])
    if k == "concat":
        return "%s = %s + %s" % (op["x"], op["y"], op["z"])
    if k == "minus":
        return "%s = %s - %s" % (op["x"], op["y"], op["z"])
    if k == "selectRange":
        return "%s = %s select [%d, %d]" % (op["x"], op["y"], op["i"], op["n"])
    if k == "apply":
        return "%s = %s apply {_x}" % (op["x"], op["y"])
    if k == "filter":
        return "%s = %s select {true}" % (op["x"], op["y"])
    raise vlib.MachineryError("unknown op " + k)


def mc_cfg(wdir, name, depth, profile, emit, append_ok=True, set_grows=False, maxref=4, stepview=None):
    cfg = """SPECIFICATION Spec
CONSTANTS
  MaxRef = %d
  Vars = {"a", "b", "c"}
  AppendChecksCycle = %s
  SetGrowsBeforeRefusal = %s
  Depth = %d
  Emit = %s
  Profile = "%s"
VIEW %s
INVARIANTS InvAcyclic InvAliases InvFresh InvRefused
""" % (maxref, "TRUE" if append_ok else "FALSE", "TRUE" if set_grows else "FALSE", depth, "TRUE" if emit else "FALSE", profile, "ViewStep" if (stepview if stepview is not None else not emit) else "View")
    p = os.path.join(vlib.SPEC, "gen_" + name + ".cfg")
    with open(p, "w") as f:
        f.write(cfg)
    return os.path.basename(p)


def cases_from_histories(hists, prefix):
    cases = []
    for n, h in enumerate(hists):
        cases.append({"id": "%s%d" % (prefix, n), "watch": VARS,
                      "steps": [{"sqf": sqf_of(op), "op": op} for op in h]})
    return cases


def directed_histories():
    """freshness of every copying operator over nested arrays that are empty / non-empty at copy time and are
    changed in place afterwards (through the original nested array)"""
    lit = lambda v: {"k": "lit", "v": v}
    var = lambda x: {"k": "var", "x": x}
    out = []
    for inner in ([], [0]):
        for fresh in ("copy", "concat", "apply", "filter", "selectRange", "alias"):
            for mut in ({"op": "pushBack", "x": "c", "val": lit(5)}, {"op": "set", "x": "c", "i": 0, "val": lit(7)}, {"op": "resize", "x": "c", "n": 2}):
                h = [{"op": "new", "x": "c", "lits": inner}, {"op": "new", "x": "a", "lits": [1]}, {"op": "pushBack", "x": "a", "val": var("c")}]
                f = {"op": fresh, "x": "b", "y": "a"}
                if fresh == "concat":
                    f["z"] = "a"
                if fresh == "selectRange":
                    f.update(i=0, n=2)
                h += [f, mut, {"op": "pushBack", "x": "a", "val": lit(7)}]
                out.append(h)
    return out


def directed_cycle_histories():
    """attempts to make an array contain itself through every inserting operator: directly, through one and through
    two intermediate containers, into an empty and a non-empty target"""
    lit = lambda v: {"k": "lit", "v": v}
    var = lambda x: {"k": "var", "x": x}
    out = []
    for tgt in ([], [1]):
        base = [{"op": "new", "x": "a", "lits": tgt}]
        one = base + [{"op": "new", "x": "b", "lits": []}, {"op": "pushBack", "x": "b", "val": var("a")}]                       # b = [a]
        two = one + [{"op": "new", "x": "c", "lits": [0]}, {"op": "pushBack", "x": "c", "val": var("b")}]                       # c = [0, [a]]
        for pre, via in ((base, "a"), (one, "b"), (two, "c")):
            for ins in ({"op": "pushBack", "x": "a", "val": var(via)}, {"op": "pushBackUnique", "x": "a", "val": var(via)},
                        {"op": "set", "x": "a", "i": 0, "val": var(via)}, {"op": "set", "x": "a", "i": 2, "val": var(via)},
                        {"op": "append", "x": "a", "y": via}):
                out.append(pre + [ins, {"op": "pushBack", "x": "a", "val": lit(7)}])
        # append of a wrapper: a append [b] / a append [[b]] where b contains a
        out.append(one + [{"op": "new", "x": "c", "lits": []}, {"op": "pushBack", "x": "c", "val": var("b")}, {"op": "append", "x": "a", "y": "c"}, {"op": "pushBack", "x": "a", "val": lit(7)}])
    return out


def hashmap_as_slots(v):
    """pure projection: an observed hashmap with keys "k<i>" is shown to the heap model as the container it stands for:
    slot i holds the value of key "k<i>", absent keys are nil (exactly what `set` does to an array it grows)"""
    if isinstance(v, dict):
        if v.get("t") == "h":
            slots = {}
            for kv in v["h"]:
                key = kv[0]
                if key.get("t") == "a" and key["a"] and key["a"][0].get("t") == "s":
                    key = key["a"][0]       # a key array ["k<i>", ...]: the slot is named by its first element (what else the key holds is not shown)
                if key.get("t") != "s" or not re.fullmatch(r"k\d+", key.get("s", "")):
                    raise vlib.MachineryError("hashmap key outside the projection: %s" % key)
                slots[int(key["s"][1:])] = hashmap_as_slots(kv[1])
            n = max(slots) + 1 if slots else 0
            return {"t": "a", "a": [slots.get(i, {"t": "nil"}) for i in range(n)]}
        return {k: hashmap_as_slots(x) for k, x in v.items()}
    if isinstance(v, list):
        return [hashmap_as_slots(x) for x in v]
    return v


def directed_hashmap_histories():
    """hashmaps as containers of the heap: sharing through a slot, and every way to close a cycle through a hashmap"""
    lit = lambda v: {"k": "lit", "v": v}
    var = lambda x: {"k": "var", "x": x}
    newh = lambda x: {"op": "new", "x": x, "lits": [], "h": True}
    hset = lambda x, i, val: {"op": "set", "x": x, "i": i, "val": val, "h": True}
    new = lambda x, lits: {"op": "new", "x": x, "lits": lits}
    pb = lambda x, val: {"op": "pushBack", "x": x, "val": val}
    out = []
    # sharing: the slot refers to the array, it holds no copy of it
    out.append([new("a", [1]), newh("c"), hset("c", 0, var("a")), pb("a", lit(7)), hset("c", 1, var("a")), {"op": "set", "x": "a", "i": 0, "val": lit(5)}, {"op": "resize", "x": "a", "n": 1}])
    out.append([new("a", []), newh("c"), hset("c", 1, var("a")), pb("a", lit(7)), new("b", [2]), pb("b", var("c")), pb("a", lit(8)), hset("c", 0, lit(3))])
    out.append([newh("b"), newh("c"), hset("b", 0, var("c")), hset("c", 0, lit(4)), new("a", [1]), hset("c", 1, var("a")), pb("a", lit(9))])
    # cycles: the map in itself; map - array - map; array - map - array; map - map; through two containers
    out.append([newh("c"), hset("c", 0, var("c")), hset("c", 0, lit(1)), hset("c", 1, var("c"))])
    for ins in (pb("a", var("c")), {"op": "pushBackUnique", "x": "a", "val": var("c")}, {"op": "set", "x": "a", "i": 0, "val": var("c")}, {"op": "set", "x": "a", "i": 3, "val": var("c")}):
        out.append([new("a", [1]), newh("c"), hset("c", 0, var("a")), ins, pb("a", lit(7)), hset("c", 1, lit(2))])
    out.append([new("a", [1]), newh("c"), hset("c", 0, var("a")), new("b", []), pb("b", var("c")), {"op": "append", "x": "a", "y": "b"}, pb("a", lit(7))])
    for slot in (0, 1):
        out.append([newh("c"), new("a", []), pb("a", var("c")), hset("c", slot, var("a")), hset("c", slot, lit(5)), pb("a", lit(7))])
        out.append([newh("b"), newh("c"), hset("b", 0, var("c")), hset("c", slot, var("b")), hset("c", slot, lit(5)), hset("b", 1, lit(6))])
        out.append([newh("c"), new("a", []), new("b", [0]), pb("a", var("c")), pb("b", var("a")), hset("c", slot, var("b")), hset("c", slot, lit(5))])
    # a cycle closed through a KEY: b holds c inside one of its keys, so storing b in c makes c contain itself. For the heap
    # model (which does not show what keys hold) the statement is the insertion of c into itself: refused, nothing changes.
    for slot in (0, 1):
        out.append([newh("c"), newh("b"), dict(hset("b", 0, lit(1)), sqf='b set [["k0", c], 1]'), dict(hset("c", slot, var("c")), sqf='c set ["k%d", b]' % slot),
                    hset("c", slot, lit(5)), hset("b", 1, lit(6))])
    # (an ARRAY inside a key is copied when the key is captured: nothing is shared through it, no cycle can be closed that way)
    # a refused insertion over an occupied slot keeps what was there
    out.append([newh("c"), hset("c", 0, lit(4)), new("a", [1]), pb("a", var("c")), hset("c", 0, var("a")), pb("a", lit(7))])
    return out


def random_histories(rng, n, length):
    """Deeper random histories (thorough tier). Generated blindly; operations that the spec does not
    enable in the reached state are dropped by replaying the candidate through the real VM's type
    errors? No - they are filtered by TLC: see Heap_Trace (MACHINERY-NotEnabled would be a bug of this
    generator), so the generator tracks types itself."""
    hists = []
    for _ in range(n):
        isarr = {v: False for v in VARS}
        allnum = {v: False for v in VARS}
        h = []
        for _ in range(length):
            arrs = [v for v in VARS if isarr[v]]
            choices = ["new"]
            if arrs:
                choices += ["alias", "set", "pushBack", "pushBackUnique", "append", "deleteAt", "deleteRange", "resize", "reverse",
                            "copy", "concat", "minus", "selectRange", "apply", "filter", "set", "pushBack", "append"]
            k = rng.choice(choices)
            x = rng.choice(VARS)
            if k == "new":
                op = {"op": "new", "x": x, "lits": rng.choice([[], [0], [1, 0], [2, 1, 0]])}
                isarr[x] = True
            elif k == "alias":
                y = rng.choice(arrs)
                if y == x:
                    continue
                op = {"op": "alias", "x": x, "y": y}
                isarr[x] = True
            elif k in ("set", "pushBack", "pushBackUnique"):
                x = rng.choice(arrs)
                val = rng.choice([{"k": "lit", "v": rng.choice([5, 7])}] + [{"k": "var", "x": y} for y in arrs])
                op = {"op": k, "x": x, "val": val}
                if k == "set":
                    op["i"] = rng.choice([-1, 0, 1, 2, 4])
            elif k == "append":
                op = {"op": k, "x": rng.choice(arrs), "y": rng.choice(arrs)}
            elif k == "deleteAt":
                op = {"op": k, "x": rng.choice(arrs), "i": rng.choice([-1, 0, 1, 2, 6])}
            elif k == "deleteRange":
                op = {"op": k, "x": rng.choice(arrs), "i": rng.choice([-1, 0, 1, 2]), "n": rng.choice([0, 1, 2, 9])}
            elif k == "resize":
                op = {"op": k, "x": rng.choice(arrs), "n": rng.choice([-1, 0, 1, 2, 4])}
            elif k == "reverse":
                op = {"op": k, "x": rng.choice(arrs)}
            elif k in ("copy", "apply", "filter"):
                op = {"op": k, "x": x, "y": rng.choice(arrs)}
                isarr[x] = True
            elif k in ("concat", "minus"):
                op = {"op": k, "x": x, "y": rng.choice(arrs), "z": rng.choice(arrs)}
                isarr[x] = True
            elif k == "selectRange":
                op = {"op": k, "x": x, "y": rng.choice(arrs), "i": rng.choice([-1, 0, 1, 3]), "n": rng.choice([-1, 0, 1, 5])}
                isarr[x] = True
            else:
                continue
            h.append(op)
        hists.append(h)
    return hists


def run(rep, tier, seed, replay):
    rng = random.Random(seed)
    vlib.build("rel")
    wdir = vlib.workdir("C08")
    rep.assumptions += [
        "small-scope: 3 variables, <=4 heap cells in the exhaustive part; element universe {numbers, array refs, nil}",
        "hashmaps take part as containers in directed histories only: a hashmap with the keys k0, k1, .. is shown to the heap model as the container whose slot i is key k<i> (set = the array set that grows with nils); keys are not containers here",
        "deleteRange is specified as the inclusive index range of tests/sqf/deleteRange.sqf",
        "observation = printed tree of every watched variable + diagnostic codes of the step (Logger capture)",
        "TLC 1.8 / Json+IOUtils community modules; driver projection harness/cmd_steps.cpp",
    ]
    if replay:
        obj = json.load(open(replay))
        cases = [obj["case"]]
    else:
        # ---- 1. design check: ideal spec satisfies the formulas; each deviation is caught (non-vacuity)
        d_core, d_full = (4, 3) if tier == "quick" else (5, 4)
        # every transition is seen (step view) up to depth 5; one level deeper with the state view only (memory)
        r = vlib.tlc("Heap_MC", mc_cfg(wdir, "mc_core", 5, "core", False), workers=vlib.NCPU, timeout_s=1500, xmx="16g")
        if not r.ok:
            raise vlib.MachineryError("design check of the ideal Heap spec failed: %s %s" % (r.violated, (r.error or "")[:500]))
        rep.add_tlc(r, "Heap_MC ideal, core ops, depth 5, every transition")
        if tier != "quick":
            r = vlib.tlc("Heap_MC", mc_cfg(wdir, "mc_core6", d_core + 1, "core", False, stepview=False), workers=vlib.NCPU, timeout_s=3000, xmx="24g")
            if not r.ok:
                raise vlib.MachineryError("design check of the ideal Heap spec (depth %d) failed: %s %s" % (d_core + 1, r.violated, (r.error or "")[:500]))
            rep.add_tlc(r, "Heap_MC ideal, core ops, depth %d, state view" % (d_core + 1))
        for nm, kw, inv in (("append", {"append_ok": False}, "InvAcyclic"), ("setgrow", {"set_grows": True}, "InvRefused")):
            r2 = vlib.tlc("Heap_MC", mc_cfg(wdir, "mc_dev_" + nm, 4, "core", False, **kw), workers=4, timeout_s=600)
            if r2.violated != inv:
                raise vlib.MachineryError("vacuity self-test: deviation %s should violate %s, TLC said %s" % (nm, inv, r2.violated))
            rep.design_runs.append({"what": "deviation %s violates %s (non-vacuity)" % (nm, inv), "generated": r2.generated, "distinct": r2.distinct})
        # ---- 2. generator: one history per transition of the bounded state graph
        hists = []
        # (one history per transition: deeper than 4 / 3 is millions of histories - the thorough tier goes deeper
        #  in the design check and with random histories instead)
        for prof, depth in (("core", 4), ("full", 3)):
            g = vlib.tlc("Heap_MC", mc_cfg(wdir, "gen_" + prof, depth, prof, True), workers=vlib.NCPU, timeout_s=1500, xmx="16g")
            if not g.ok:
                raise vlib.MachineryError("generator run failed: %s" % (g.error or g.violated))
            rep.add_tlc(g, "Heap_MC generator %s depth %d (every transition emitted)" % (prof, depth))
            hs = [json.loads(p) for p in g.prints]
            if len(hs) != g.generated - 1:
                rep.notes.append("generator %s: %d histories for %d generated states" % (prof, len(hs), g.generated))
            hists += hs
        rep.exhaustive = True
        cases = cases_from_histories(hists, "t")
        # ---- 3. deeper random histories
        nrand, length = (2000, 8) if tier == "quick" else (40000, 12)
        cases += cases_from_histories(random_histories(rng, nrand, length), "r")
        cases += cases_from_histories(directed_histories(), "d")
        cases += cases_from_histories(directed_cycle_histories(), "y")
        cases += cases_from_histories(directed_hashmap_histories(), "h")
    rep.evaluations = len(cases)
    rep.rule = ("every transition (state, op) of the bounded Heap_MC state graph replayed as the shortest history reaching it, "
                "plus seeded random histories; non-trivial = history with >=2 operations; distinct by operation sequence")
    rep.extra["distinct_nontrivial"] = len({json.dumps([s["op"] for s in c["steps"]], sort_keys=True) for c in cases if len(c["steps"]) >= 2})
    # ---- 4. drive the implementation
    events = vlib.run_driver("steps", cases, wdir, kind="rel", timeout_s=20)
    by = vlib.events_by_case(events)
    execs = [(c["id"], [hashmap_as_slots(e) for e in by.get(c["id"], []) if e["e"] in ("Obs", "Crash")]) for c in cases]
    # ---- 5. trace validation by TLC
    bad, totals, results = vlib.validate_traces("Heap_Trace", "Heap_Trace.cfg", execs, wdir, "c08")
    for r in results:
        rep.add_tlc(r)
    rep.traces = len(execs)
    rep.extra["trace_lines"] = totals["lines"]
    rep.extra["ops_explained_by_spec"] = totals["ops"]
    cmap = {c["id"]: c for c in cases}
    for c in cases[:3] + cases[-2:]:
        rep.samples.append({"history": [s["sqf"] for s in c["steps"]]})
    # ---- 6. classify; confirm each distinct key on a fresh single run
    seen_keys = {}
    for b in bad:
        if b["why"].startswith("MACHINERY"):
            raise vlib.MachineryError("generator produced an operation the spec does not enable: %s" % b)
        opname = b["op"]
        if b["why"] == "Crash":
            # the crashing step is the one after the last observed step
            done = len([e for e in by.get(b["id"], []) if e["e"] == "Obs"])
            steps = cmap[b["id"]]["steps"]
            opname = steps[min(done, len(steps) - 1)]["op"]["op"]
        key = "C08/%s/%s" % (b["why"], opname)
        seen_keys.setdefault(key, []).append(b)
    for key, bs in sorted(seen_keys.items()):
        b = min(bs, key=lambda x: len(cmap[x["id"]]["steps"]))
        case = cmap[b["id"]]
        ev2 = vlib.run_driver("steps", [case], wdir, kind="rel", timeout_s=20, jobs=1, tag="confirm")
        ex2 = [(case["id"], [hashmap_as_slots(e) for e in ev2 if e["e"] in ("Obs", "Crash")])]
        bad2, _, _ = vlib.validate_traces("Heap_Trace", "Heap_Trace.cfg", ex2, wdir, "c08confirm", chunks=1)
        if not bad2:
            rep.notes.append("rejection %s of %s did not repeat" % (key, b["id"]))
            continue
        rep.finding(key, "%s: history %s" % (b["why"], "; ".join(s["sqf"] for s in case["steps"])),
                    {"property": "C08", "key": key, "case": case, "observed": ex2[0][1], "verdict": bad2})
        for _ in bs[1:]:
            rep.found[key]["count"] += 1
