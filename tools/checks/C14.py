"""C14 - diagnostics name the true source file, line and column.

spec/Preproc_Origin.tla        layouts, origin vs. what the tokenizer believes (ideal / code model), Render
spec/Preproc_Origin_MC.tla     design check (ideal holds, code model drifts = model-level witness), generator
spec/Preproc_Origin_Trace.tla  judges the positions reported by the real code (driver command `diag`)
"""
import concurrent.futures
import json
import os
import random
import shutil

import vlib

LEVEL = "model_checking"


def El(k, n=0):
    return {"k": k, "n": n, "sub": []}


def Inc(sub):
    return {"k": "include", "n": 0, "sub": sub}


def fault_text(f, nl):
    body = {"parse": "vd__q = 1 ) ;", "runtime": 'vd__q = 1 + "a";', "runtimeexit": "vd__q = {vd__a = 1; 5} count [1];",
            "parsestr": 'vd__q = 1 "st" ;', "runtimeexitstr": 'vd__q = {vd__a = 1; "t"} count [1];',
            "linemacroeol": "vd__m = [__LINE__" + nl + ", __FILE__];"}.get(f["kind"], "vd__m = [__LINE__, __FILE__];")
    return " " * f["pad"] + ('vd__s = "p""q"; ' if f.get("pre") else "") + body


def el_text(el, nl, incname):
    k, n = el["k"], el["n"]
    if k == "plain":
        return "vd__p = 0;" + nl
    if k == "lcomment":
        return '// comment ) + "' + nl
    if k == "define":
        return "#define VD_A 1" + nl
    if k == "bcomment":
        return "/* c ) */" + nl if n == 1 else "/* c" + nl + (" c )" + nl) * (n - 2) + " c */" + nl
    if k == "bcommentblank":
        return "/* c" + nl + nl * n + " c */" + nl
    if k == "definecont":
        return "#define VD_B x \\" + nl + (" y \\" + nl) * (n - 1) + " z" + nl
    if k == "textcont":
        return "vd__t = 1 \\" + nl + (" + 2 \\" + nl) * (n - 1) + " + 3;" + nl
    if k == "inactive":
        return "#ifdef VD_UNDEFINED" + nl + ("vd__dead = 1 ) ;" + nl) * n + "#endif" + nl
    if k == "active":
        return "#ifndef VD_UNDEFINED" + nl + ("vd__p = 1;" + nl) * n + "#endif" + nl
    if k == "inactivestr":
        return "#ifdef VD_UNDEFINED" + nl + 'vd__dead = "l1' + nl + 'l2";' + nl + "#endif" + nl
    if k == "undef":
        return "#undef VD_A" + nl
    if k == "undefmissing":
        return "#undef VD_NEVER" + nl
    if k == "else":
        return "#ifdef VD_UNDEFINED" + nl + ("vd__dead = 1 ) ;" + nl) * n + "#else" + nl + "vd__p = 1;" + nl + "#endif" + nl
    if k == "include":
        return '#include "%s"' % incname + nl
    raise vlib.MachineryError("element " + k)


def lay_files(lay, nl, nf):
    """-> (text, files, nf) - same numbering (pre-order) as LayFiles of Preproc_Origin.tla"""
    text, files = "", []
    for el in lay:
        if el["k"] == "include":
            name = "inc%d.sqf" % (nf + 1)
            st, sf, nf = lay_files(el["sub"], nl, nf + 1)
            text += el_text(el, nl, name)
            files += [{"name": name, "text": st}] + sf
        else:
            text += el_text(el, nl, "")
    return text, files, nf


def files_of(src):
    nl = "\r\n" if src["crlf"] else "\n"
    text, files, nf = lay_files(src["lay"], nl, 0)

    def nest(j, nf):
        if j >= len(src["nest"]):
            return fault_text(src["fault"], nl) + nl, [], nf
        name = "inc%d.sqf" % (nf + 1)
        bt, bf, nf2 = lay_files(src["nest"][j], nl, nf + 1)
        rt, rf, nf3 = nest(j + 1, nf2)
        return '#include "%s"' % name + nl, [{"name": name, "text": bt + rt}] + bf + rf, nf3

    rt, rf, _ = nest(0, nf)
    return [{"name": "main.sqf", "text": text + rt}] + files + rf


def rand_layout(rng, n, depth):
    out = []
    for _ in range(n):
        ch = rng.random()
        if ch < 0.25:
            out.append(El(rng.choice(["plain", "lcomment", "define", "undef", "undefmissing", "inactivestr"])))
        elif ch < 0.34:
            out.append(El("bcomment", rng.randint(1, 5)))
        elif ch < 0.40:
            out.append(El("bcommentblank", rng.randint(1, 3)))
        elif ch < 0.55:
            out.append(El("definecont", rng.randint(1, 4)))
        elif ch < 0.65:
            out.append(El("textcont", rng.randint(1, 3)))
        elif ch < 0.80:
            out.append(El(rng.choice(["inactive", "active", "else"]), rng.randint(0, 4)))
        elif depth > 0:
            out.append(Inc(rand_layout(rng, rng.randint(0, 3), depth - 1)))
        else:
            out.append(El("plain"))
    return out


def random_sources(rng, n):
    out = []
    for _ in range(n):
        out.append({"lay": rand_layout(rng, rng.randint(3, 8), 2), "crlf": rng.random() < 0.3,
                    "nest": [rand_layout(rng, rng.randint(0, 4), 1) for _ in range(rng.choice([0, 0, 1, 2]))],
                    "fault": (lambda k: {"kind": k, "pad": rng.randint(0, 4), "pre": 1 if k in ("parse", "runtime", "runtimeexit", "parsestr", "runtimeexitstr") and rng.random() < 0.3 else 0})(rng.choice(["parse", "runtime", "runtimeexit", "parsestr", "runtimeexitstr", "linemacro", "linemacroeol"]))})
    return out


def mc_cfg(name, depth, emit, dev=None, nests="all"):
    cfg = """SPECIFICATION Spec
CONSTANTS
  Depth = %d
  Emit = %s
  Dev = {%s}
  NestMode = "%s"
INVARIANTS InvLine InvFiles
""" % (depth, "TRUE" if emit else "FALSE", '"%s"' % dev if dev else "", nests)
    p = os.path.join(vlib.SPEC, "gen_c14_" + name + ".cfg")
    with open(p, "w") as f:
        f.write(cfg)
    return os.path.basename(p)


def materialise(cases, root):
    for c in cases:
        d = os.path.join(root, c["id"])
        os.makedirs(d, exist_ok=True)
        for f in c["files"]:
            with open(os.path.join(d, f["name"]), "w", newline="") as fh:
                fh.write(f["text"])
        c["root"] = d


def drive_and_validate(cases, wdir, tag, chunks=None, batch=30000):
    bad, results, crashes, samples = [], [], {}, {}
    totals = {"lines": 0, "ops": 0, "execs": 0}
    want = {c["id"] for c in cases[:2] + cases[len(cases) // 2:len(cases) // 2 + 2] + cases[-3:-1]} if len(cases) > 1 else {c["id"] for c in cases}
    for b0 in range(0, len(cases), batch):
        part = cases[b0:b0 + batch]
        root = os.path.join(wdir, "files.%s.%d" % (tag, b0))
        materialise(part, root)
        events = vlib.run_driver("diag", part, wdir, kind="rel", timeout_s=10, tag="%s.%d" % (tag, b0))
        by = vlib.events_by_case(events)
        execs = [(c["id"], [e for e in by.get(c["id"], []) if e["e"] in ("Obs", "Crash")]) for c in part]
        for cid, evs in execs:
            for e in evs:
                if e["e"] == "Crash":
                    crashes[cid] = e.get("why", "?")
                elif cid in want or len(cases) == 1:
                    samples[cid] = e
        b, t, r = vlib.validate_traces("Preproc_Origin_Trace", "Preproc_Origin_Trace.cfg", execs, wdir, "%s.%d" % (tag, b0),
                                       chunks=chunks or min(12, max(1, len(execs) // 200)), timeout_s=3000, xmx="2g -Xss64m")
        bad += b
        results += r
        totals["lines"] += t["lines"]
        totals["ops"] += t["ops"]
        totals["execs"] += len(execs)
        shutil.rmtree(root, ignore_errors=True)
        for f in os.listdir(wdir):
            if f.startswith(tag + ".") and (f.endswith(".ndjson") or f.endswith(".stderr")):
                os.remove(os.path.join(wdir, f))
    return crashes, samples, bad, totals, results


def run(rep, tier, seed, replay):
    rng = random.Random(seed)
    vlib.build("rel")
    wdir = vlib.workdir("C14")
    quick = tier == "quick"
    rep.assumptions += [
        "layout elements: plain line, // line, block comment of n lines (also with completely empty lines inside), #define, #define continued over n+1 lines, statement continued by n "
        "backslash-newlines, inactive/active conditional section of n lines, #include (nested <= 2 in the enumerated part), LF or CRLF line ends",
        "faults: stray ')' (parse diagnostic), 1 + \"a\" (runtime diagnostic and its stack-trace entries), a count block whose last expression is no boolean (raised after the block has run to its end; "
        "the calling frame's entry names the call site), the same two faults with a string literal as the culprit (a token whose scanner moves the position itself), [__LINE__, __FILE__] on one line "
        "and with __LINE__ as the last thing of its line; "
        "at 0..4 columns of indentation; one fault per source, at the end of the main file or inside a chain of nested includes",
        "files are compared by base name (the scratch directory differs per case); columns are 0-based offsets of the offending token "
        "(convention observed for a fault on the first line of a file)",
        "every error/fatal message and every [L|C|file] entry of a stack-trace text must name the origin; columns are only asserted for the "
        "fault line itself, which is never produced by macro expansion",
        "the code model (one newline per continued directive / continued statement) is used only to NAME the construct of a rejected case",
        "TLC 1.8 / Json+IOUtils community modules; driver projection harness/C14_diag.cpp; root directory mapped to the virtual root like the CLI does",
    ]
    if replay:
        obj = json.load(open(replay))
        cases = [obj["case"]]
    else:
        depth = 2 if quick else 3
        with concurrent.futures.ThreadPoolExecutor(max_workers=2) as ex:
            fi = ex.submit(vlib.tlc, "Preproc_Origin_MC", mc_cfg("ideal", depth, True, nests="all" if quick else "few"), workers=max(4, vlib.NCPU // 2), timeout_s=3000, xmx="8g", tag="c14.ideal")
            fd = ex.submit(vlib.tlc, "Preproc_Origin_MC", mc_cfg("code", 2, False, dev="OneNewlinePerDirective"), workers=2, timeout_s=600, tag="c14.code")
            ri, rd = fi.result(), fd.result()
        if not ri.ok:
            raise vlib.MachineryError("design check of the ideal origin bookkeeping failed: %s %s" % (ri.violated, (ri.error or ri.trace_text or "")[:1500]))
        if rd.violated != "InvLine":
            raise vlib.MachineryError("non-vacuity self-test: the code model should violate InvLine, TLC said %s %s" % (rd.violated, (rd.error or "")[:400]))
        rep.add_tlc(ri, "Preproc_Origin_MC ideal bookkeeping: belief = origin for every layout <= %d elements x fault x nesting x CRLF; generator" % depth)
        rep.design_runs.append({"what": "code model (one newline per continued directive/statement) violates InvLine (model-level witness, non-vacuity)",
                                "generated": rd.generated, "distinct": rd.distinct})
        cases = []
        for n, p in enumerate(ri.prints):
            o = json.loads(p)
            cases.append({"id": "t%d" % n, "main": "main.sqf", "run": True, "src": o["src"], "files": o["files"]})
        rep.exhaustive = True
        rep.extra["enumerated_sources"] = len(cases)
        for n, s in enumerate(random_sources(rng, 3000 if quick else 60000)):
            cases.append({"id": "r%d" % n, "main": "main.sqf", "run": True, "src": s, "files": files_of(s)})
        for c in cases[:50]:
            if files_of(c["src"]) != c["files"]:
                raise vlib.MachineryError("python rendering differs from Files of Preproc_Origin.tla for %s" % json.dumps(c["src"]))
    rep.evaluations = len(cases)
    rep.rule = ("every layout of the bounded element alphabet of Preproc_Origin_MC x {parse, runtime, __LINE__} fault x indentation x nesting chain x CRLF, "
                "plus seeded random deeper layouts; non-trivial = layout with >= 1 element in front of the fault")
    rep.extra["distinct_nontrivial"] = len({json.dumps(c["src"], sort_keys=True) for c in cases if c["src"]["lay"] or any(c["src"]["nest"])})
    crashes, sampled, bad, totals, results = drive_and_validate(cases, wdir, "c14")
    for r in results:
        rep.add_tlc(r)
    rep.traces = totals["execs"]
    rep.extra["trace_lines"] = totals["lines"]
    rep.extra["positions_explained"] = totals["ops"]
    cmap = {c["id"]: c for c in cases}
    for cid, e in sampled.items():
        rep.samples.append({"main.sqf": cmap[cid]["files"][0]["text"], "diags": e["diags"], "lm": e["lm"]})
    keys = {}
    for b in bad:
        if b["why"].startswith("MACHINERY"):
            raise vlib.MachineryError("generator/binding fault: %s files=%r" % (b, cmap[b["id"]]["files"]))
        op = b["op"]
        if b["why"] == "Crash":
            op = cmap[b["id"]]["src"]["fault"]["kind"] + "/" + b["op"].replace(" ", "-")
        keys.setdefault("C14/%s/%s" % (b["why"], op), []).append(b)
    for key, bs in sorted(keys.items()):
        b = min(bs, key=lambda z: sum(len(f["text"]) for f in cmap[z["id"]]["files"]))
        case = dict(cmap[b["id"]])
        case.pop("root", None)
        crashes2, sampled2, bad2, _, _ = drive_and_validate([case], wdir, "c14confirm", chunks=1)
        bad2 = [z for z in bad2 if z["why"] == b["why"]]
        if not bad2:
            rep.notes.append("rejection %s of %s did not repeat" % (key, b["id"]))
            continue
        e = sampled2.get(case["id"], {})
        case.pop("root", None)
        rep.finding(key, "%s (%s): fault %s at line %s reported at line %s; files %r; diags %r" %
                    (b["why"], b["op"], case["src"]["fault"]["kind"], bad2[0].get("want"), bad2[0].get("got"), case["files"], e.get("diags")),
                    {"property": "C14", "key": key, "case": case, "observed": e, "verdict": bad2})
        rep.found[key]["count"] += len(bs) - 1
