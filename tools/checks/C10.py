"""C10 - front ends are total: any input yields a result or a diagnostic, never a crash.

spec/Lex.tla        the scanners of the SQF and the config tokenizer, the preprocessor's character reader and the
                    macro / include recursion as functions over a 21-symbol alphabet; IDEAL vs named deviations
spec/Lex_MC.tla     design check (ideal satisfies every formula, each deviation is refuted) + generator: every symbol
                    string <= Depth, every macro / include graph over 2 (3) names
spec/Lex_Trace.tla  judges the recorded runs of the real front ends (driver command `front`, sanitizer build)
"""
import concurrent.futures
import glob
import json
import os
import random
import re
import resource

import vlib

LEVEL = "model_checking"
INVS = ["InvBounded", "InvProgress", "InvTerminates", "InvResultOrDiagnostic", "InvTokensTile", "InvDeterministic", "InvPpReader",
        "InvExpansionTerminates", "InvDeviationsLocal"]
# named deviation -> the invariant that must refute it
DEVS = [("CommentRunsPastEnd", "InvBounded"), ("CommentRunsPastEnd", "InvTerminates"), ("SingleQuoteRunsPastEnd", "InvTerminates"),
        ("HashLineUnchecked", "InvResultOrDiagnostic"), ("HashLineUnchecked", "InvBounded"),
        ("UnboundedMacroRecursion", "InvExpansionTerminates"), ("IncludeCycleUnchecked", "InvExpansionTerminates")]
SYM = {"l": "g", "d": "0", "e": "e", "x": "x", "li": "line", "dq": '"', "sq": "'", "sl": "/", "st": "*", "nl": "\n", "sp": " ", "hs": "#",
       "dt": ".", "dl": "$", "sg": "-", "eq": "=", "bo": "{", "bc": "}", "sc": ";", "bs": "\\", "ot": "@"}
SQF = ["sqftok", "sqfparse", "compile"]
CFG = ["cfgtok", "cfgparse", "configparse__"]
PP = ["pp", "preprocess__"]
ALL = SQF + CFG + PP
CHAIN = dict([(f, "sqf") for f in SQF] + [(f, "cfg") for f in CFG] + [(f, "pp") for f in PP])
ORDER = {f: n for n, f in enumerate(ALL)}
CLASSES = ["recursive-macro", "recursive-include", "deep-nesting", "long-run", "comment-at-eof", "unterminated-string", "hash-line",
           "define-empty-param", "define-open-string", "eval-macro", "stray-directive", "macro-call-cut", "other"]
SATURATE = 10        # crashes of one (chain, construct class) after which the general exploration steers around the class
WITNESSES = 20       # runs per (chain, named deviation predicted by Lex.tla) among the enumerated inputs
BULK_BUDGET_MS = 1000
CONFIRM_BUDGET_MS = 6000
BULK_ENV = {"ASAN_OPTIONS": "detect_leaks=0:abort_on_error=1:handle_abort=0:symbolize=0",
            "UBSAN_OPTIONS": "halt_on_error=1:abort_on_error=1:print_stacktrace=0:symbolize=0"}


# ------------------------------------------------------------------------------------------------
# construct classes: a label for the finding key (one root cause = one key) and for steering; no verdict depends on it
# ------------------------------------------------------------------------------------------------
_RE_LINE_OK = re.compile(r"#line.[+-]?[0-9]{1,9}(?![0-9])", re.I | re.S)
_RE_DEF_EMPTY = re.compile(r"#[ \t]*define[ \t]+\w+\([^)\n]*?(\([ \t]*,|,[ \t]*,|^[ \t]*,)", re.I)
_RE_DEF_EMPTY2 = re.compile(r"#[ \t]*define[ \t]+\w+\([ \t]*,", re.I)
_RE_SELF = re.compile(r"#[ \t]*define[ \t]+(\w+)(?:\([^)\n]*\))?[ \t]+[^\n]*?\b\1\b", re.I)


def lexer_class(text):
    """the first construct of the text the SQF / config tokenizers are known to be fragile about"""
    i, n = 0, len(text)
    while i < n:
        c = text[i]
        if c == '"' or c == "'":
            j = i + 1
            while True:
                if j >= n:
                    return "unterminated-string"
                if text[j] == c:
                    if j + 1 < n and text[j + 1] == c:
                        j += 2
                        continue
                    j += 1
                    break
                j += 1
            i = j
            continue
        if text.startswith("//", i):
            j = text.find("\n", i)
            if j < 0:
                return "comment-at-eof"
            i = j
            continue
        if text.startswith("/*", i):
            j = text.find("*/", i + 2)
            if j < 0:
                return "comment-at-eof"
            i = j + 1                                    # both tokenizers leave the closing `*/` in the input: `*` is an operator
            continue                                     # ... and the `/` may open the next comment (`*//`, `*/*`)
        if c == "#":
            rest = text[i:].lower()
            if "#line".startswith(rest):
                return "hash-line"                       # a truncated `#line` at the very end
            if rest.startswith("#line") and not rest[5:6].isalpha() and not _RE_LINE_OK.match(rest):
                return "hash-line"
        i += 1
    return "other"


TAGS = ("recursive-macro", "recursive-include", "deep-nesting", "long-run", "stray-directive", "macro-call-cut")


def construct_class(case, chain):
    memo = case.setdefault("_cls", {})
    if chain not in memo:
        memo[chain] = construct_class_(case, chain)
    return memo[chain]


def construct_class_(case, chain):
    tag = case.get("tag")
    text = case["text"]
    if chain == "pp":
        if tag in ("recursive-macro", "recursive-include"):
            return tag
        if _RE_DEF_EMPTY.search(text) or _RE_DEF_EMPTY2.search(text):
            return "define-empty-param"
        if any(l.count('"') % 2 for l in re.findall(r"#[ \t]*define[^\n]*", text, re.I)):
            return "define-open-string"
        if _RE_SELF.search(text):
            return "recursive-macro"
        if "__EVAL" in text or "__EXEC" in text:
            return "eval-macro"
        return tag if tag in TAGS else "other"
    c = lexer_class(text)
    if c != "other":
        return c
    return tag if tag in TAGS else "other"


# ------------------------------------------------------------------------------------------------
# case generation
# ------------------------------------------------------------------------------------------------
def mc_cfg(name, depth, emit, dev=None, invs=None, nnames=2):
    cfg = "SPECIFICATION Spec\nCONSTANTS\n  Depth = %d\n  Emit = %s\n  Dev = {%s}\n  NNames = %d\nINVARIANTS %s\n" % (
        depth, "TRUE" if emit else "FALSE", '"%s"' % dev if dev else "", nnames, " ".join(invs or INVS))
    p = os.path.join(vlib.SPEC, "gen_c10_" + name + ".cfg")
    with open(p, "w") as f:
        f.write(cfg)
    return os.path.basename(p)


def mk(cid, text, which, kind="text", tag=None, **kw):
    # the watchdog grows with the input (3 ms per byte beyond 1000, 60 ms per byte of a deeply nested input - the sanitizer
    # build needs seconds for depth 600): algorithms that are merely quadratic are the business of TimeProportional, not of Terminates
    c = {"id": cid, "text": text, "which": sorted(which, key=lambda f: ORDER[f]), "kind": kind, "ops": "basic",
         "budget_ms": BULK_BUDGET_MS + 3 * max(0, len(text) - 1000) + (60 * len(text) if tag == "deep-nesting" else 0)}
    if tag:
        c["tag"] = tag
    c.update(kw)
    return c


def sym_cases(prints, quick, rng):
    """-> (the enumerated strings, their wrapped / padded variants)"""
    out, var = [], []
    for n, p in enumerate(prints):
        o = json.loads(p)
        if o["kind"] != "sym":
            continue
        text = "".join(SYM[s] for s in o["syms"])
        cid = "s%d" % n
        L = len(o["syms"])
        # the operators are thin wrappers of the parsers: in the quick tier they get a quarter of the 3-symbol strings
        which = ALL if (not quick or L <= 2 or rng.random() < 0.25) else [f for f in ALL if f not in ("compile", "preprocess__", "configparse__")]
        out.append(mk(cid, text, which, kind="sym", syms=o["syms"], toks=True, pred={"sqf": sorted(o["ds"]) + ([o["os"]] if o["ds"] else []), "cfg": sorted(o["dc"]) + ([o["oc"]] if o["dc"] else [])}))
        # the same bytes inside a config value, and at the end of a heap-allocated buffer of the parsers
        # (strings < 16 bytes live inside the std::string object, where the sanitizer sees no over-read)
        if L <= 2 or rng.random() < (0.06 if quick else 0.03):
            var.append(mk(cid + "w", "class A { x = " + text + "; };", CFG, tag="wrapped", origin="sym-in-config-value"))
            var.append(mk(cid + "v", "g = [" + text + "];", SQF, tag="wrapped", origin="sym-in-sqf-array"))
            var.append(mk(cid + "p", " " * 17 + text, ["sqfparse", "cfgparse", "pp"], tag="padded", origin="sym-padded"))
    out.sort(key=lambda c: len(c["syms"]))               # the witnesses of a predicted deviation are the shortest inputs
    return out, var


def graph_cases(prints, wdir):
    """macro / include graphs of Lex_MC: object-like and function-like rendering; include files are materialised"""
    out = []
    incroot = os.path.join(wdir, "inc")
    for n, p in enumerate(prints):
        o = json.loads(p)
        if o["kind"] == "sym":
            continue
        names = sorted(o["gr"])
        use, gr, cyc = o["use"], o["gr"], o["cyc"]
        if o["kind"] == "macro":
            for style in ("obj", "fn"):
                lines = []
                for a in names:
                    if style == "obj":
                        lines.append("#define %s %s" % (a, " ".join(i if i in gr else "t0" for i in gr[a])))
                    else:
                        lines.append("#define %s(x) %s" % (a, " ".join("%s(x)" % i if i in gr else "t0" for i in gr[a])))
                lines.append(use if style == "obj" else use + "(1)")
                out.append(mk("m%d%s" % (n, style[0]), "\n".join(lines) + "\n", PP, kind="macro", cyc=cyc, gr=gr, use=use,
                              tag="recursive-macro" if cyc else "macro-graph", pred={"pp": ["UnboundedMacroRecursion"] if cyc else []}))
        else:
            d = os.path.join(incroot, "g%d" % n)
            os.makedirs(d, exist_ok=True)
            texts = {}
            for a in names:
                texts[a] = "".join(('#include "%s.sqf"\n' % i) if i in gr else "t0\n" for i in gr[a])
                with open(os.path.join(d, a + ".sqf"), "w") as f:
                    f.write(texts[a])
            out.append(mk("i%d" % n, texts[use], ["pp"], kind="include", cyc=cyc, gr=gr, use=use, root=d, file=use + ".sqf",
                          tag="recursive-include" if cyc else "include-graph"))
    return out


TOKEN_RE = re.compile(r'"(?:[^"]|"")*"?|\'(?:[^\']|\'\')*\'?|//[^\n]*|/\*.*?(?:\*/|\Z)|#\w+|\w+|\s+|.', re.S)
POOL = [";", "{", "}", "(", ")", "[", "]", '"', "'", "#", "//", "/*", "*/", ",", "=", "0x", "1e", ".", "$", "#line", "#line 3", "#define", "#include",
        "#ifdef", "#else", "#endif", "\\\n", "\\", "@", "\x00", "\xff", "\r\n", "__EVAL(", "__LINE__", "class", "delete", "+=", ":"]
UNBALANCE = ['"', "'", "(", "[", "{", ")", "]", "}", "/*", "//", "*/"]


def mutations(name, text, rng, per_op):
    """prefixes and single-token mutations of one valid input -> [(tag, mutated text)]; per_op = None: all"""
    toks = TOKEN_RE.findall(text)
    n = len(toks)
    res = []

    def pick(k):
        idx = list(range(n))
        if per_op is None or per_op >= n:
            return idx
        return rng.sample(idx, per_op)

    pre = ["".join(toks[:i]) for i in range(n + 1)]
    for i in pick(n):                                    # every prefix ending at a token boundary
        res.append(("prefix", pre[i]))
    for i in range(n):                                    # cut inside a string, comment, directive, macro call
        t = toks[i]
        if len(t) >= 2 and (t[0] in "\"'#" or t.startswith("//") or t.startswith("/*")):
            res.append(("cut-inside", pre[i] + t[:max(1, len(t) // 2)]))
            res.append(("cut-inside", pre[i] + t[:-1]))
        if t == "(" and i > 0 and re.match(r"\w+$", toks[i - 1]):
            res.append(("macro-call-cut", pre[i + 1]))
        if t == "," and rng.random() < 0.3:
            res.append(("macro-call-cut", pre[i + 1]))
    for i in pick(n):
        if not toks[i].isspace():
            res.append(("delete", pre[i] + "".join(toks[i + 1:])))
    for i in pick(n):
        if not toks[i].isspace():
            res.append(("duplicate", pre[i + 1] + "".join(toks[i:])))
    for i in pick(n):
        if not toks[i].isspace():
            res.append(("replace", pre[i] + rng.choice(POOL) + "".join(toks[i + 1:])))
    for i in pick(n):
        res.append(("unbalance", pre[i] + rng.choice(UNBALANCE) + "".join(toks[i:])))
    return [("%s:%s" % (name, t), m) for t, m in res]


def corpus(rng, quick):
    """valid inputs: (name, text, front ends)"""
    base = []
    for f in sorted(glob.glob(os.path.join(vlib.REPO, "tests/sqf/*.sqf"))):
        with open(f, "rb") as fh:
            lines = fh.read().decode("latin-1").split("\n")[:40]
        base.append((os.path.basename(f), "\n".join(lines), SQF + PP))
    with open(os.path.join(vlib.REPO, "tests/config.cpp"), "rb") as fh:
        base.append(("config.cpp", fh.read().decode("latin-1"), CFG + PP))
    for f in sorted(glob.glob(os.path.join(vlib.REPO, "tests/preprocess/*.sqf"))):
        with open(f, "rb") as fh:
            base.append(("pp/" + os.path.basename(f), fh.read().decode("latin-1"), PP + ["sqftok"]))
    try:
        from checks import C13                           # read-only: the generator of well-formed preprocessor sources
        for n, s in enumerate(C13.random_sources(rng, 12 if quick else 60, 8)):
            base.append(("gen%d" % n, C13.render(s), PP + ["sqftok"]))
    except Exception as ex:                               # the corpus is merely smaller without it
        vlib.log("[C10] C13 generator not usable: %s" % ex)
    base.append(("hand-pp", '#define M1 5\n#define F(x) [x, "x", M1]\n#define G(x,y) x##y #y\n#ifdef M1\nv = F(G(a,b)) + M1; // c\n#else\n/* no */\n#endif\n'
                            '#include "inc.hpp"\nhint "done";\n', PP + ["sqftok"]))
    base.append(("hand-cfg", 'class CfgA { a = 1; b[] = {1, "x", {2.5, -3e2}}; c = "s"; class B : Base { d = $1F; e += 0x10; }; delete C; };\n'
                             "class Base {};\n", CFG))
    base.append(("hand-sqf", "private _a = [1, 2.5e3, 0x1F, $ff, \"s\"\"q\", 'x'];\n{ _x call { if (_this > 1) then { hint str _this } else { -1 } } } forEach _a; // done\n"
                             "#line 7 \"f.sqf\"\nb = !(true && {false}) /* c */;\n", SQF))
    return base


def special_cases(quick):
    """stray directives, cut macro calls, deep nesting, long runs, raw bytes: (tag, text, front ends)"""
    out = []
    dirs = ["#", "# ", "#\n", "#else", "#endif", "#ifdef", "#ifdef X", "#ifndef X", "#ifdef X\n#else\n#else\n#endif", "#ifdef X\n#ifdef Y\n#endif", "#foo", "#foo bar",
            "# define X 1", "#define", "#define ", "#define X(", "#define X(a", "#define X(a,", "#define X(a,)", "#define X(a b) a", "#define X()", "#define X(a)(b) a",
            "#define X(,a) 1", "#define X(a,,b) 1", "#define X( , ) 1", "#define 1 2", "#define X \\", "#define X \\\n", "#define X \"a", "#define X 'a", "#define X /* c",
            "#define X // c", "#undef", "#undef X", "#include", "#include \"", "#include \"\"", "#include \"nonexistent.sqf\"", "#include <a.hpp>", "#include \"a.hpp\" x y",
            "#pragma", "#pragma foo", "#pragma foo bar", "#line", "#line\n", "#line 5", "#line 5\n", "#line abc", "#line abc\n", "#line 5 \"f\"", "#line 5 \"f\"\n", "#line -1\n",
            "#line 99999999999999999999999\n", "#line 5 \"", "#line5\n", "#linex", "#LINE 5\n", "#if 1\n#endif", "#elif", "#error x", "#ifdef X\n", "#else\n#endif\n"]
    for n, d in enumerate(dirs):
        for ctx, t in (("", d), ("a = 1;\n", "a = 1;\n" + d), ("mid", "a = 1; " + d), ("then", d + "\nb = 2;\n")):
            out.append(("stray-directive", t, ALL))
    calls = ["F(", "F(1", "F(1,", "F(1,2", "F((1)", "F(\"a", "F(\"a)", "F([1,2", "F({", "F(1))", "F()", "F(,)", "F(F(", "F(F(1)", "F(G", "F(\n", "F(1,\n2", "F", "F (1)", "G(1)", "G(1,2,3)",
             "F(F)", "F(G)", "G(F,F)", "F(#)", "F(##)", "F(\\\n)", "F(/*)", "F(//)", "F(__LINE__", "F(__EVAL(1)", "__EVAL(", "__EVAL(1", "__EVAL(\"a)", "__EVAL()", "__EVAL(1 +)", "__EXEC(a = 1)", "__EVAL(a)", "__EVAL(__EVAL(1))", "__FILE__", "__LINE__(", "__COUNTER_RESET__"]
    for c in calls:
        for d in ("#define F(x) x + 1\n#define G(x,y) x##y #x\n", "#define F(x) F2(x)\n#define F2(y) [y]\n#define G(x,y) F(x) y\n"):
            out.append(("macro-call-cut", d + c, PP))
            out.append(("macro-call-cut", d + "v = " + c + ";\n", PP))
    for depth in ((200, 600) if quick else (200, 2000)):
        for o, c in (("(", ")"), ("[", "]"), ("{", "}")):
            out.append(("deep-nesting", o * depth + "1" + c * depth, SQF + PP))
            out.append(("deep-nesting", o * depth, SQF + PP))
            out.append(("deep-nesting", o * depth + "1", SQF + PP))
            out.append(("deep-nesting", "1" + c * depth, SQF + PP))
        out.append(("deep-nesting", "-" * depth + "1", SQF))
        out.append(("deep-nesting", "!" * depth + "true", SQF))
        out.append(("deep-nesting", "1" + "+1" * depth, SQF))
        out.append(("deep-nesting", "a = " * depth + "1", SQF))
        out.append(("deep-nesting", "if true then {" * depth + "}" * depth, SQF))
        out.append(("deep-nesting", "".join("class C%d {" % i for i in range(depth)) + "};" * depth, CFG + PP))
        out.append(("deep-nesting", "class C {" * depth, CFG))
        out.append(("deep-nesting", "class A { x[] = " + "{" * depth + "1" + "}" * depth + "; };", CFG))
        out.append(("deep-nesting", "class A { x[] = " + "{" * depth + "; };", CFG))
        out.append(("deep-nesting", "class A { x = " + "{" * depth + "; };", CFG))
        out.append(("deep-nesting", "#define F(x) x\n" + "F(" * depth + "1" + ")" * depth, PP))
        out.append(("deep-nesting", "#define F(x) x\n" + "F(" * depth, PP))
        out.append(("deep-nesting", "".join("#ifdef X%d\n" % i for i in range(depth)) + "a\n" + "#endif\n" * depth, PP))
        out.append(("deep-nesting", "#define X\n" + "#ifdef X\n" * depth + "a\n" + "#endif\n" * depth, PP))
        out.append(("deep-nesting", "#define X\n" + "#ifdef X\n" * depth, PP))
        out.append(("deep-nesting", "".join("#define M%d M%d\n" % (i, i + 1) for i in range(depth)) + "#define M%d 1\nM0\n" % depth, PP))
    # an open string at the end of a macro body; a run of comment lines long enough to matter for per-token recursion
    for t in ("#define X \"\nX", "#define X \"a\nv = X;\n", "#define X(a) \"a\nX(1)\n"):
        out.append(("macro-call-cut", t, PP))
    out.append(("long-run", "//\n" * 20000, SQF))
    out.append(("long-run", "/**/ " * 20000, SQF))
    for n in ((2000,) if quick else (2000, 20000)):
        for unit in ("/**/", "//\n", "// c\n ", "\\\n", " ", "\n", ";", "a ", "\"\"", "''", "\"a\" ", "1 ", "#\n", ",", "=", "0x", "1e", "$", ".", "@", "\r\n", "/* c */ ", "a\\\n"):
            out.append(("long-run", unit * n, SQF + PP if unit not in ("#\n",) else PP))
        out.append(("long-run", "class A { x = " + "a " * n + "; };", CFG))
        out.append(("long-run", "class A { x[] = {" + "1," * n + "1}; };", CFG))
        out.append(("long-run", "class A {" + "x = 1;" * n + "};", CFG))
        out.append(("long-run", "class A { x = \"" + "a" * n + "\"; };", CFG))
        out.append(("long-run", "#define X " + "a " * n + "\nX X\n", PP))
    for b in range(256):
        ch = chr(b)
        out.append(("byte", ch, ALL))
        for ctx in ("a = %s1;", "\"%s", "// %s\n1", "/* %s */ 1", "class A { x = %s; };", "#define X %s\nX", "0x%s", "1e%s", "#line 1%s\n", "a%sb"):
            out.append(("byte", ctx % ch, ALL))
    for t in ("", "\r", "\r\n", "a\r\nb", "\"a\r\n\"", "//c\r\n1", "/*\r\n*/1", "#define X 1\r\nX\r\n", "a\\\r\nb", "\xef\xbb\xbfa = 1;", "a = 1;\x1a", "\x00\x00\x00", "a\x00//"):
        out.append(("byte", t, ALL))
    return out



def scale_families(quick):
    """families of inputs of growing size for TimeProportional: (family, front end, f(n) -> text, n)"""
    n = 500 if quick else 1000
    m = 5000 if quick else 20000
    h = 2500 if quick else 5000           # families whose members are slow already
    fams = [
        ("nested-array", "sqfparse", lambda k: "a = " + "[" * k + "1" + "]" * k, n),
        ("nested-code", "sqfparse", lambda k: "a = " + "{" * k + "1" + "}" * k, n),
        ("nested-parens", "sqfparse", lambda k: "a = " + "(" * k + "1" + ")" * k, n),
        ("nested-array", "sqftok", lambda k: "a = " + "[" * k + "1" + "]" * k, n),
        ("sum", "sqfparse", lambda k: "a = 1" + " + 1" * k, h),
        ("statements", "sqfparse", lambda k: "a = 1;" * k, h),
        ("array-elements", "sqfparse", lambda k: "a = [" + "1," * k + "1]", m),
        ("statements", "compile", lambda k: "a = 1;" * k, h),
        ("string", "sqftok", lambda k: '"' + "a" * (4 * k) + '"', m),
        ("nested-array", "cfgparse", lambda k: "class A { x[] = " + "{" * k + "1" + "}" * k + "; };", n),
        ("value-tokens", "cfgparse", lambda k: "class A { x = " + "a " * k + "; };", m),
        ("array-elements", "cfgparse", lambda k: "class A { x[] = {" + "1," * k + "1}; };", m),
        ("fields", "cfgparse", lambda k: "class A {" + "x = 1;" * k + "};", h),
        ("fields", "configparse__", lambda k: "class A {" + "x = 1;" * k + "};", h),
        ("value-tokens", "cfgtok", lambda k: "class A { x = " + "a " * k + "; };", m),
        ("words", "pp", lambda k: "a " * k, m),
        ("lines", "pp", lambda k: "a = 1;\n" * k, m),
        ("comments", "pp", lambda k: "/* c */ // d\n" * k, m),
        ("macro-uses", "pp", lambda k: "#define M 1\n" + "M " * k, m),
        ("macro-chain", "pp", lambda k: "".join("#define M%d M%d\n" % (i, i + 1) for i in range(k)) + "#define M%d 1\nM0\n" % k, n // 2),
        ("nested-call", "pp", lambda k: "#define F(x) x\n" + "F(" * k + "1" + ")" * k, n // 2),
        ("defines", "pp", lambda k: "".join("#define M%d %d\n" % (i, i) for i in range(k)), m // 5),
        ("words", "preprocess__", lambda k: "a " * k, m),
    ]
    return fams


# ------------------------------------------------------------------------------------------------
# driving and validating
# ------------------------------------------------------------------------------------------------
def wire(case):
    return {k: v for k, v in case.items() if k in ("id", "text", "which", "toks", "root", "file", "budget_ms", "ops", "once")}


def reset_of(case):
    return {"kind": case["kind"] if case["kind"] in ("sym", "macro", "include") else "text", "syms": case.get("syms", []), "cyc": bool(case.get("cyc", False)),
            "cls": case.get("tag") or "-"}


def drive(todo, wdir, tag, kind="asan", env=None):
    """todo: [(execution id, case, front ends)].  A front end that does not come back ends its case; the front ends of the
    OTHER chains are re-queued as a follow-up execution.  -> [(exec id, case, [events])]"""
    execs = []
    rnd = 0
    while todo:
        batch = []
        for xid, c, which in todo:
            w = wire(c)
            w["id"] = xid
            w["which"] = which
            batch.append(w)
        events = vlib.run_driver("front", batch, wdir, kind=kind, timeout_s=60, tag="%s.r%d" % (tag, rnd), env=env)
        by = vlib.events_by_case(events)
        nxt = []
        for xid, c, which in todo:
            evs = [e for e in by.get(xid, []) if e["e"] in ("Begin", "Obs", "Crash")]
            for e in evs:
                if e["e"] == "Crash":
                    why = e.get("why", "?")
                    e["wk"] = "timeout" if why == "timeout" else "exception" if why.startswith("exception") else "signal"
            execs.append((xid, c, evs))
            crashed = [e for e in evs if e["e"] == "Crash"]
            if crashed:
                begun = [e["fe"] for e in evs if e["e"] == "Begin"]
                if not begun:
                    raise vlib.MachineryError("driver died before the first front end of case %s: %s" % (xid, crashed[0]))
                dead_chain = CHAIN[begun[-1]]
                rest = [f for f in which if f not in begun and CHAIN[f] != dead_chain]
                if rest:
                    nxt.append(("%s~%d" % (c["id"], rnd + 1), c, rest))
        todo = nxt
        rnd += 1
        for f in os.listdir(wdir):
            if f.startswith(tag + ".r") and (f.endswith(".ndjson") or f.endswith(".stderr")):
                os.remove(os.path.join(wdir, f))
    return execs


def validate(execs, wdir, tag):
    ex = [(xid, evs) for xid, c, evs in execs]
    fields = {xid: reset_of(c) for xid, c, evs in execs}
    return vlib.validate_traces("Lex_Trace", "Lex_Trace.cfg", ex, wdir, tag, reset_fields=fields, timeout_s=1800, xmx="3g",
                                chunks=min(12, max(1, len(ex) // 400)))


def crashed_fe(evs):
    """front end that did not come back in this execution (None if all did)"""
    if not any(e["e"] == "Crash" for e in evs):
        return None
    begun = [e["fe"] for e in evs if e["e"] == "Begin"]
    return begun[-1] if begun else None


def show(text, limit=100):
    s = json.dumps(text)
    return s if len(s) <= limit else s[:limit - 20] + '..."(%d bytes)' % len(text)


def asan_kind(path):
    try:
        with open(path, errors="replace") as f:
            t = f.read()
    except OSError:
        return ""
    m = re.search(r"ERROR: AddressSanitizer: ([\w-]+)", t) or re.search(r"runtime error: ([^\n]{0,80})", t)
    return m.group(1) if m else ""


def run(rep, tier, seed, replay):
    import time
    t_start = time.time()

    def phase(msg):
        vlib.log("[C10] %6.1fs %s" % (time.time() - t_start, msg))

    rng = random.Random(seed)
    quick = tier == "quick"
    vlib.build("asan")
    vlib.build("rel")
    wdir = vlib.workdir("C10")
    # the sanitizer build has larger stack frames: give it 4x the default stack so that a nesting depth the normal build
    # survives is not reported; stack overflows are re-checked on the normal build with the default stack (see confirm)
    soft, hard = resource.getrlimit(resource.RLIMIT_STACK)
    default_stack = soft
    big = 32 * 1024 * 1024

    def stack(nbytes):
        lim = nbytes if hard == resource.RLIM_INFINITY else min(nbytes, hard)
        resource.setrlimit(resource.RLIMIT_STACK, (lim, hard))

    rep.assumptions += [
        "memory safety ('never reads outside the input buffer') is SENSED, not decided: the replay driver is the ASan+UBSan build, the tokenizers get the text "
        "at the end of an exact-size heap block, an out-of-buffer read aborts the child and is judged as a NoCrash failure (DESIGN.md 8); texts shorter than 16 bytes "
        "live inside the std::string object of the parsers, where the sanitizer cannot see an over-read - a sample is therefore also run with 17 blanks in front",
        "'time proportional to the input' is checked as a step bound on the model (Terminates: <= len+1 steps) and on the tokenizers (<= 4*len+16 calls of next()), as a wall-clock "
        "watchdog per front-end run (%d ms + 3 ms per byte beyond 1000 in the bulk run, at least %d ms when a failure is confirmed), and as TimeProportional: on the NORMAL build the "
        "time per byte may grow at most 2.5x when a family input grows 4x (verdict on the faster of two measurements) (runs under 800 ms are not judged)" % (BULK_BUDGET_MS, CONFIRM_BUDGET_MS),
        "symbol alphabet of Lex.tla: 21 symbols standing for g 0 e x line \" ' / * LF blank # . $ - = { } ; \\ @ ; keywords, tabs, CR, brackets other than {} are covered by the corpus only",
        "front ends: tokenizer::next loops (sqftok, cfgtok), parser_sqf().parse, parser_config().parse, parser_preprocessor().preprocess, and the operators compile / preprocess__ / "
        "configparse__ executed from a script that reads the text from a global variable; each run twice on fresh VMs (determinism)",
        "VMs of the bulk run register the operator sets config, diag, generic, logic, math, namespace, sqfvm, string, text, osspecific, hashmap ('basic': an ASan VM with all ~2500 "
        "operators costs 20 ms); confirmations, the valid corpus inputs and a 4% sample use the full set the CLI registers",
        "a case whose tokenizer run does not come back is not fed to the parser / operator built on that tokenizer; a failure seen in several front ends of one chain "
        "(sqftok < sqfparse < compile, cfgtok < cfgparse < configparse__, pp < preprocess__) is keyed by the innermost one",
        "in the quick tier the operators compile / preprocess__ / configparse__ get the enumerated strings <= 2 symbols and a quarter of the longer ones",
        "steering (DESIGN.md 4): among the ENUMERATED inputs a chain predicted by Lex.tla (CodeDevs) to take a named deviation is run on the %d shortest inputs per deviation only, "
        "the others are run too as soon as fewer than half of these witnesses fail; among the sampled inputs a chain is not given a construct class any more after %d failures "
        "of that (chain, class)" % (WITNESSES, SATURATE),
        "a stack overflow reported by the sanitizer build (4x stack) counts only if the normal build with the default 8 MB stack crashes on the same input",
        "ResultOrDiagnostic for configparse__ is trivially true (the operator returns nothing); recursion of macros must be reported only when the recursive macro is used",
        "TLC 1.8 / Json+IOUtils community modules; driver projection harness/cmd_front.cpp; construct classes are labels computed by a light lexer in this file, no verdict depends on them",
    ]
    rep.rule = ("every symbol string <= Depth over the 21-symbol alphabet of Lex_MC (a sample also wrapped into a config value / an SQF array and padded), every macro and include graph "
                "over 2 names with bodies <= 2 items (object-like and function-like), every prefix at a token boundary and every single-token mutation (delete, duplicate, replace, "
                "unbalance, cut inside string/comment/directive/macro call) of the first 40 lines of tests/sqf/*.sqf, tests/config.cpp, tests/preprocess/*.sqf, generated preprocessor "
                "sources and three hand-written inputs (quick: 3 seeded positions per mutation kind and input; thorough: all positions, 40 per kind for the test scripts), stray directives, cut macro calls, nesting depth 200/600 (thorough 2000; quick reaches 2000 in "
                "the timing families), runs of 2000 (20000) units, every single byte in 11 contexts; distinct by (text, front ends); non-trivial = text of >= 2 bytes")
    design = None
    scale_todo = []
    if not replay:
        for f in glob.glob(os.path.join(vlib.REPLAY, "C10_*.json")):     # replay files of earlier runs of this check
            os.remove(f)
    if replay:
        obj = json.load(open(replay))
        enumerated, sampled = [obj["case"]], []
        enumerated[0].pop("pred", None)
        if "family_index" in obj:                        # a TimeProportional finding: re-measure the pair of its family
            enumerated = []
            k = obj["family_index"]
            fam, fe, f, size = scale_families(quick)[k]
            for j, sz in enumerate((size, 4 * size)):
                scale_todo.append(mk("t%d_%d" % (k, j), f(sz), [fe], tag="long-run" if "nested" not in fam else "deep-nesting", origin="family %s n=%d" % (fam, sz),
                                     fam=fam, famidx=k, once=True, ops="full", budget_ms=600000))
            pool = concurrent.futures.ThreadPoolExecutor(max_workers=1)
    else:
        # ---- 1. generator run (ideal model, all invariants) - the deeper design check runs concurrently with the driver
        gd = 3 if quick else 4
        g = vlib.tlc("Lex_MC", mc_cfg("gen", gd, True), workers=8 if quick else vlib.NCPU, timeout_s=3000, xmx="12g", tag="c10.gen")
        if not g.ok:
            raise vlib.MachineryError("design check of the ideal scanners failed (depth %d): %s %s" % (gd, g.violated, (g.error or g.trace_text or "")[:1500]))
        rep.add_tlc(g, "Lex_MC ideal (Dev = {}): all %d symbol strings <= %d and all macro/include graphs over 2 names: 9 invariants hold; generator" % (
            len([p for p in g.prints if '"kind":"sym"' in p]), gd))
        phase("generator done: %d prints" % len(g.prints))
        pool = concurrent.futures.ThreadPoolExecutor(max_workers=2)

        def design_check():
            res = []
            dd = 4 if quick else 5
            r = vlib.tlc("Lex_MC", mc_cfg("mc", dd, False, nnames=2 if quick else 3), workers=6 if quick else vlib.NCPU, timeout_s=6000, xmx="16g", tag="c10.mc")
            res.append(("ideal", dd, r))
            for dev, inv in DEVS:
                r2 = vlib.tlc("Lex_MC", mc_cfg("dev_%s_%s" % (dev, inv), 3, False, dev=dev, invs=[inv]), workers=1, timeout_s=900, tag="c10.dev.%s.%s" % (dev, inv))
                res.append((dev, inv, r2))
            return res
        design = pool.submit(design_check)
        syms, variants = sym_cases(g.prints, quick, rng)
        enumerated = syms + graph_cases(g.prints, wdir)
        rep.exhaustive = True
        rep.extra["enumerated_symbol_strings"] = len(syms)
        rep.extra["enumerated_graphs"] = len(enumerated) - len(syms)
        # ---- 2. corpus: prefixes and single-token mutations, special inputs
        sampled = list(variants)
        seen = set()
        n = 0
        for name, text, which in corpus(rng, quick):
            sampled.append(mk("b%d" % n, text, which, tag="valid", origin=name, ops="full"))
            n += 1
            # thorough: every prefix / mutation of the small inputs (config.cpp, tests/preprocess, generated and hand-written ones),
            # 40 positions per mutation kind of each test script
            per_op = 3 if quick else (40 if name.endswith(".sqf") and not name.startswith("pp/") else None)
            for tg, m in mutations(name, text, rng, per_op):
                key = (m, tuple(which))
                if key in seen:
                    continue
                seen.add(key)
                op = tg.split(":")[-1]
                sampled.append(mk("u%d" % n, m, which, tag="macro-call-cut" if op == "macro-call-cut" else op, origin=tg,
                                  ops="full" if rng.random() < 0.04 else "basic"))
                n += 1
        specials = special_cases(quick)
        if quick:
            specials = [s for s in specials if not (s[0] == "byte" and len(s[1]) > 1 and rng.random() > 0.08)]
        for tg, t, which in specials:
            key = (t, tuple(which))
            if key in seen:
                continue
            seen.add(key)
            sampled.append(mk("x%d" % n, t, which, tag=tg, origin=tg))
            n += 1
        rng.shuffle(sampled)
        # ---- timing families (normal build, single run)
        for k, (fam, fe, f, size) in enumerate(scale_families(quick)):
            for j, sz in enumerate((size, 4 * size)):
                t = f(sz)
                scale_todo.append(mk("t%d_%d" % (k, j), t, [fe], tag="long-run" if "nested" not in fam else "deep-nesting", origin="family %s n=%d" % (fam, sz),
                                     fam=fam, famidx=k, once=True, ops="full", budget_ms=120000 if quick else 600000))
    cases = enumerated + sampled + scale_todo
    rep.extra["distinct_nontrivial"] = len({c["text"] for c in cases if len(c["text"]) >= 2})
    rep.extra["cases"] = len(cases)
    phase("%d enumerated, %d sampled, %d timing cases" % (len(enumerated), len(sampled), len(scale_todo)))

    bad, results = [], []
    totals = {"lines": 0, "ops": 0, "execs": 0}
    exec_index = {}

    def judge(execs, tag):
        for xid, c, evs in execs:
            exec_index[xid] = (c, evs)
        b, t, r = validate(execs, wdir, tag)
        bad.extend(b)
        results.extend(r)
        totals["lines"] += t["lines"]
        totals["ops"] += t["ops"]
        totals["execs"] += len(execs)
        rep.evaluations += sum(1 for _, _, evs in execs for e in evs if e["e"] in ("Obs", "Crash"))
        for f in os.listdir(wdir):
            if f.startswith(tag + ".trace.") and f.endswith(".ndjson"):
                os.remove(os.path.join(wdir, f))

    # ---- 3a. timing families on the normal build (in the background: few long single-threaded runs)
    scale_future = None
    if scale_todo:
        def scale_run():
            return drive([(c["id"], c, c["which"]) for c in scale_todo], wdir, "c10scale", kind="rel")
        scale_future = pool.submit(scale_run)

    # ---- 3b. enumerated inputs on the sanitizer build: witnesses of the predicted deviations first
    stack(big)
    try:
        todo, withheld, groups = [], [], {}
        for c in enumerated:
            which = list(c["which"])
            for ch, devs in sorted(c.get("pred", {}).items()):
                if not devs:
                    continue
                gk = (ch, "+".join(devs))
                grp = groups.setdefault(gk, [])
                if len(grp) < WITNESSES:
                    grp.append(c["id"])
                else:
                    held = [f for f in which if CHAIN[f] == ch]
                    which = [f for f in which if CHAIN[f] != ch]
                    withheld.append((gk, c, held))
            if which:
                todo.append((c["id"], c, which))
        execs = []
        for b0 in range(0, len(todo), 30000):
            part = drive(todo[b0:b0 + 30000], wdir, "c10enum%d" % b0, env=BULK_ENV)
            execs += part
            if b0 + 30000 < len(todo):                   # (the last slice is judged below, together with the supplementary runs)
                judge(part, "c10enum%d" % b0)
        last = len(execs) - len(part) if todo else 0
        phase("enumerated inputs driven: %d executions, %d front-end runs withheld as predicted deviations" % (len(execs), sum(len(h) for _, _, h in withheld)))
        failed = {}
        for xid, c, evs in execs:
            fe = crashed_fe(evs)
            if fe:
                failed.setdefault(c["id"], set()).add(CHAIN[fe])
        stale = {gk for gk, ids in groups.items() if 2 * sum(1 for i in ids if gk[0] in failed.get(i, ())) < len(ids)}
        extra = [("%s+%s" % (c["id"], gk[0]), c, held) for gk, c, held in withheld if gk in stale]
        if extra:
            rep.notes.append("prediction of Lex.tla no longer holds for %s: the %d withheld runs were executed" % (sorted(stale), len(extra)))
            for b0 in range(0, len(extra), 30000):
                part = drive(extra[b0:b0 + 30000], wdir, "c10enumx%d" % b0, env=BULK_ENV)
                execs += part
                if len(execs) - last > 30000:
                    judge(execs[last:], "c10enumx%d" % b0)
                    last = len(execs)
        rep.extra["withheld_predicted_front_end_runs"] = sum(len(h) for gk, _, h in withheld if gk not in stale)
        rep.extra["witness_groups"] = {"%s/%s" % gk: len(ids) for gk, ids in sorted(groups.items())}
        for xid, c, evs in execs[:1] + execs[700:702]:
            rep.samples.append({"input": show(c["text"], 160), "origin": c["kind"],
                                "observed": [{k: e[k] for k in ("fe", "ok", "nerr", "ntok", "same", "fin") if k in e} if e["e"] == "Obs" else {"crash": e.get("why")}
                                             for e in evs if e["e"] in ("Obs", "Crash")]})
        judge(execs[last:], "c10enum")
        phase("enumerated inputs validated: %d rejections so far" % len(bad))

        # ---- 3c. sampled inputs, batched; a (chain, class) that failed SATURATE times is steered around
        saturated, crash_count, steered = set(), {}, 0
        bsize = 2500 if quick else 10000
        starts = [0] + list(range(2500, len(sampled), bsize))     # a small first batch: it finds the classes to steer around
        for bi, bn in enumerate(starts):
            todo = []
            for c in sampled[bn:(starts[bi + 1] if bi + 1 < len(starts) else len(sampled))]:
                which = [f for f in c["which"] if (CHAIN[f], construct_class(c, CHAIN[f])) not in saturated]
                steered += len(c["which"]) - len(which)
                if which:
                    todo.append((c["id"], c, which))
            execs = drive(todo, wdir, "c10s%d" % bn, env=BULK_ENV)
            for xid, c, evs in execs:
                fe = crashed_fe(evs)
                if fe:
                    k = (CHAIN[fe], construct_class(c, CHAIN[fe]))
                    crash_count[k] = crash_count.get(k, 0) + 1
                    if crash_count[k] >= SATURATE and k[1] != "other":
                        saturated.add(k)
            for xid, c, evs in execs[:2]:
                rep.samples.append({"input": show(c["text"], 160), "origin": c.get("origin", c["kind"]),
                                    "observed": [{k: e[k] for k in ("fe", "ok", "nerr", "ntok", "same", "fin") if k in e} if e["e"] == "Obs" else {"crash": e.get("why")}
                                                 for e in evs if e["e"] in ("Obs", "Crash")]})
            judge(execs, "c10s%d" % bn)
            phase("sampled batch %d: %d executions, %d rejections so far, saturated %s" % (bi, len(execs), len(bad), sorted(saturated)))
        rep.extra["steered_around_front_end_runs"] = steered
        rep.extra["saturated_classes"] = sorted("%s/%s" % k for k in saturated)
    finally:
        stack(default_stack)

    # ---- 3d. the timing families: crashes are judged like any run, pairs (n, 4n) by TimeProportional
    if scale_future is not None:
        execs = scale_future.result()
        obs = {}
        for xid, c, evs in execs:
            for e in evs:
                if e["e"] == "Obs":
                    obs[c["id"]] = (c, e)
        for k, (fam, fe, f, size) in enumerate(scale_families(quick)):
            if replay and k != obj.get("family_index"):
                continue
            a, b = obs.get("t%d_0" % k), obs.get("t%d_1" % k)
            if a and b:
                sc = {"e": "Scale", "id": "scale%d" % k, "fe": fe, "fam": fam, "n1": len(a[0]["text"]), "ms1": a[1]["ms"], "n2": len(b[0]["text"]), "ms2": b[1]["ms"]}
                execs.append(("scale%d" % k, mk("scale%d" % k, b[0]["text"], [fe], tag=b[0]["tag"], origin="family %s" % fam, scale=sc), [sc]))
                rep.extra.setdefault("timing_ms", {})["%s/%s" % (fe, fam)] = [sc["n1"], sc["ms1"], sc["n2"], sc["ms2"]]
        judge(execs, "c10scale")
        phase("timing families judged")
    for r in results:
        rep.add_tlc(r)
    rep.traces = totals["execs"]
    rep.extra["trace_lines"] = totals["lines"]
    rep.extra["front_end_runs_explained"] = totals["ops"]

    # ---- the design check that ran meanwhile
    if design is not None:
        for a, b_, r in design.result():
            if a == "ideal":
                if not r.ok:
                    raise vlib.MachineryError("design check of the ideal scanners failed (depth %d): %s %s" % (b_, r.violated, (r.error or r.trace_text or "")[:1500]))
                rep.add_tlc(r, "Lex_MC ideal (Dev = {}), all symbol strings <= %d: Bounded, Progress, Terminates, ResultOrDiagnostic, TokensTile, Deterministic, reader, ExpansionTerminates hold" % b_)
            else:
                if r.violated != b_:
                    raise vlib.MachineryError("non-vacuity self-test: deviation %s should violate %s, TLC said %s %s" % (a, b_, r.violated, (r.error or "")[:400]))
                w = re.findall(r"inp = (<<[^\n]*>>)|gr \|-> (\[[^\n]*\])\]", r.trace_text)
                wi = [x[1] for x in w if x[1]] if a in ("UnboundedMacroRecursion", "IncludeCycleUnchecked") else [x[0] for x in w if x[0]]
                rep.design_runs.append({"what": "deviation %s refuted by %s, shortest witness %s (design-level confirmation; non-vacuity)" % (a, b_, wi[-1] if wi else "?"),
                                        "generated": r.generated, "distinct": r.distinct})
        phase("design check collected")

    # ---- 5. classify; confirm each key on a single re-run
    with open(os.path.join(wdir, "bad.json"), "w") as f:
        json.dump([dict(b, text=exec_index[b["id"]][0]["text"][:300], origin=exec_index[b["id"]][0].get("origin", "")) for b in bad], f, indent=0)
    for b in bad:
        if b["why"].startswith("MACHINERY"):
            raise vlib.MachineryError("driver fault: %s  text=%s" % (b, show(exec_index[b["id"]][0]["text"])))
    drift = [b for b in bad if b["why"].startswith("DRIFT")]
    if drift:
        ex = exec_index[drift[0]["id"]][0]
        print("NOTE model-drift action=Tokens front_end=%s (x%d) e.g. %s" % (drift[0]["op"], len(drift), show(ex["text"])))
        rep.notes.append("model drift: %d token streams differ from the transcription of Lex.tla while every formula holds, e.g. %s on %s" % (len(drift), drift[0]["op"], show(ex["text"])))
    groups = {}
    for b in bad:
        if b["why"].startswith("DRIFT"):
            continue
        c = exec_index[b["id"]][0]
        ch = CHAIN[b["op"]]
        groups.setdefault((b["why"], ch, construct_class(c, ch)), []).append(b)
    if len(groups) > 40:
        raise vlib.MachineryError("%d distinct finding keys in one run - something systematic is wrong with the machinery: %s" % (len(groups), sorted(groups)[:12]))
    # candidates: per key the shortest inputs of the innermost front end; all of them are re-run in ONE parallel batch
    plan = []
    for (why, ch, cls), bs in sorted(groups.items()):
        fes = sorted({b["op"] for b in bs}, key=lambda f: ORDER[f])
        fe = fes[0]
        key = "C10/%s/%s/%s" % (why, fe, cls)
        cands = sorted([b for b in bs if b["op"] == fe], key=lambda b: (len(exec_index[b["id"]][0]["text"]), exec_index[b["id"]][0]["text"]))
        plan.append({"key": key, "why": why, "fe": fe, "fes": fes, "cls": cls, "bs": bs, "cands": cands[:8]})
    todo, pairs = [], {}
    for pn, pl in enumerate(plan):
        for cn, b in enumerate(pl["cands"]):
            c = dict(exec_index[b["id"]][0])
            xid = "cf%d_%d" % (pn, cn)
            if pl["why"] == "TimeProportional":
                k = int(c["scale"]["id"][5:])
                pairs[xid] = (k, c)
                for x in scale_todo:
                    if x.get("famidx") == k:
                        todo.append(("%s_%s" % (xid, x["id"]), "rel", x, x["which"]))
                continue
            if c.get("once"):                            # a member of a timing family that did not come back: same build, same budget
                c.update({"id": xid, "which": [pl["fe"]]})
                todo.append((xid, "rel1", c, [pl["fe"]]))
                continue
            c.update({"id": xid, "which": [pl["fe"]], "budget_ms": max(CONFIRM_BUDGET_MS, 2 * c.get("budget_ms", 0)), "ops": "full"})
            todo.append((xid, "asan", c, [pl["fe"]]))
    confirmed = {}
    if todo:
        stack(big)
        try:
            ex_asan = drive([(x, c, w) for x, k, c, w in todo if k == "asan"], wdir, "c10confirm")
        finally:
            stack(default_stack)
        ex_rel = drive([(x, c, w) for x, k, c, w in todo if k == "rel"], wdir, "c10confirmrel", kind="rel")
        ex2 = list(ex_asan) + drive([(x, c, w) for x, k, c, w in todo if k == "rel1"], wdir, "c10confirmrel1", kind="rel")
        for xid, (k, c) in pairs.items():
            o2 = {x[0]: e for x in ex_rel for e in x[2] if e["e"] == "Obs" and x[0].startswith(xid + "_")}
            if len(o2) == 2:
                # load on the machine only ever adds time: the verdict is taken on the faster of the two measurements of each member
                sc = dict(c["scale"], id=xid, ms1=min(c["scale"]["ms1"], o2["%s_t%d_0" % (xid, k)]["ms"]), ms2=min(c["scale"]["ms2"], o2["%s_t%d_1" % (xid, k)]["ms"]))
                ex2.append((xid, c, [sc]))
        b2all, _, _ = validate(ex2, wdir, "c10confirm") if ex2 else ([], None, None)
        evs_of = {x[0]: x for x in ex2}
        for pn, pl in enumerate(plan):
            for cn, b in enumerate(pl["cands"]):
                xid = "cf%d_%d" % (pn, cn)
                b2 = [x for x in b2all if x["id"] == xid and x["why"] == pl["why"]]
                if b2 and xid in evs_of:
                    confirmed.setdefault(pn, (b, evs_of[xid][1], b2, evs_of[xid][2]))
            if pn not in confirmed:
                rep.notes.append("rejection %s did not repeat on a single re-run (%d candidates, e.g. %s)" % (
                    pl["key"], len(pl["cands"]), show(exec_index[pl["cands"][0]["id"]][0]["text"], 60)))
    phase("re-runs done: %d of %d keys repeat" % (len(confirmed), len(plan)))
    # sanitizer report kind and behaviour of the normal build for the NoCrash keys (one process per case: own stderr file)
    nocrash = [(pn, confirmed[pn][1]) for pn, pl in enumerate(plan) if pn in confirmed and pl["why"] == "NoCrash"]
    notes = {}
    if nocrash:
        ws = [dict(wire(c), id="k%d" % pn) for pn, c in nocrash]
        stack(big)
        try:
            vlib.run_driver("front", ws, wdir, kind="asan", timeout_s=60, jobs=len(ws), tag="c10kind")
        finally:
            stack(default_stack)
        evr = vlib.events_by_case(vlib.run_driver("front", ws, wdir, kind="rel", timeout_s=60, jobs=len(ws), tag="c10rel"))
        for n, (pn, c) in enumerate(nocrash):
            errkind = asan_kind(os.path.join(wdir, "c10kind.%d.out.ndjson.stderr" % n))
            relcrash = [e for e in evr.get("k%d" % pn, []) if e["e"] == "Crash"]
            notes[pn] = " sanitizer: %s; normal build: %s" % (errkind or "?", relcrash[0].get("why") if relcrash else "no crash")
            if "stack-overflow" in errkind and not relcrash:
                rep.notes.append("%s: stack overflow only in the sanitizer build (%s) - not counted" % (plan[pn]["key"], show(c["text"], 60)))
                del confirmed[pn]
    for pn, pl in enumerate(plan):
        if pn not in confirmed:
            continue
        b, c, b2, evs2 = confirmed[pn]
        why, fe, key = pl["why"], pl["fe"], pl["key"]
        dev = b2[0].get("dev", "")
        if why == "Terminates":
            info = "no return within %d ms" % c.get("budget_ms", 0)
        elif why == "TimeProportional":
            sc = evs2[0]
            info = "family %s: %d bytes in %d ms, %d bytes in %d ms (normal build, faster of two measurements)" % (sc["fam"], sc["n1"], sc["ms1"], sc["n2"], sc["ms2"])
        else:
            info = b2[0].get("info", "")
        what = "%s violated by %s on %s [%s]: %s%s; front ends affected: %s; %d cases%s" % (
            why, fe, show(c["text"]), pl["cls"], info, notes.get(pn, ""), ",".join(pl["fes"]), len(pl["bs"]),
            ("; explained by the named deviation %s of Lex.tla" % dev) if dev else "")
        robj = {"property": "C10", "key": key, "case": {k: v for k, v in c.items() if k not in ("origin", "scale", "_cls")}, "origin": c.get("origin", c["kind"]),
                "observed": evs2, "verdict": b2}
        if why == "TimeProportional":
            robj["family_index"] = int(c["scale"]["id"][5:])
            robj["case"]["text"] = show(c["text"], 200)
        rep.finding(key, what, robj)
        rep.found[key]["count"] += len(pl["bs"]) - 1
    phase("classified")
