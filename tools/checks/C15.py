"""C15 - config tree: values read back, inheritance lookup, merge/delete/append, acyclic.

spec/Config.tla (Apply, reference queries and the C15 formulas), spec/Config_MC.tla (design check of
the ideal design, refutation of every named deviation, generator: one implementation test per
transition of the bounded state graph), spec/Config_Filter.tla (seeded random histories filtered by
the spec's Enabled), spec/Config_Trace.tla (validation of the observation log of the real VM:
harness/cmd_config.cpp loads the rendered config texts through the real preprocessor + config parser
and evaluates the query table through the real SQF operators).
"""
import concurrent.futures
import itertools
import json
import os
import random
import time

import vlib

LEVEL = "model_checking"
MISSING = "m"
CASE_TIMEOUT_S = 5
ALL_INVS = ["InvAcyclic", "InvTerminates", "InvLookup", "InvInherits", "InvHierarchy", "InvCountSelect",
            "InvReadBack", "InvMerge", "InvDelete", "InvAppend"]

# small universes of Config_MC (constants of the generated cfg)
PROFILES = {
    # single-level classes, three names: inheritance chains, rebinding, delete, append
    "inherit": dict(CN=["A", "B", "C"], FN=["x"], NVals=[1, 2], SVals=[], BVals=[], AIdx=[1, 2], NestC=0,
                    Kinds=["class", "classext", "field", "array", "append", "delete", "deleteclass"]),
    # nested classes, two names: base resolution through the enclosing classes, nested re-opening
    "nest": dict(CN=["A", "B"], FN=["x"], NVals=[1], SVals=[], BVals=[], AIdx=[1], NestC=1,
                 Kinds=["class", "classext", "field", "array", "append", "delete", "deleteclass"]),
    # all statement kinds incl. `class N;`, `class N : B;`, file boundary; strings, nested arrays, hexadecimal literals
    # (16 = 0x10, 255 = $FF, and whole numbers >= 2^31 as decimal strings: TLC's integers are 32 bit)
    "kinds": dict(CN=["A", "B"], FN=["x", "y"], NVals=[1, 16], SVals=["s"], BVals=["4294901760"], AIdx=[3, 5], NestC=0,
                  Kinds=["class", "classext", "decl", "declext", "field", "array", "append", "delete", "deleteclass", "nextfile"]),
    # class statements only: every way to (re)bind bases among three classes incl. nesting
    "bases": dict(CN=["A", "B", "C"], FN=["x"], NVals=[1], SVals=[], BVals=[], AIdx=[1], NestC=1,
                  Kinds=["class", "classext", "field"]),
}

# deviation -> (invariant TLC must report, profile, depth)
DEVIATIONS = [
    ("RebindMayCycle", "InvAcyclic", "inherit", 3),
    ("RebindMayCycle", "InvTerminates", "inherit", 3),
    ("InheritsFromReturnsOwner", "InvInherits", "inherit", 3),
    ("HierarchyRepeatsLeaf", "InvHierarchy", "inherit", 3),
    ("CountIncludesDeleted", "InvCountSelect", "inherit", 3),
    ("RedefineAfterDeleteLost", "InvReadBack", "inherit", 4),
    ("ReopenReplaces", "InvMerge", "inherit", 4),
    ("DeleteOnlyOwn", "InvDelete", "inherit", 4),
    ("AppendIgnoresInherited", "InvAppend", "inherit", 4),
    ("LookupOneBaseOnly", "InvLookup", "inherit", 4),
    ("FieldKeepsFirst", "InvReadBack", "inherit", 3),
]


def tla_set(xs):
    return "{" + ", ".join(json.dumps(x) if isinstance(x, str) else str(x) for x in xs) + "}"


def mc_cfg(name, profile, depth, emit="none", dev=(), invs=ALL_INVS, step_view=True, max_files=2):
    p = PROFILES[profile]
    cfg = """SPECIFICATION Spec
CONSTANTS
  Dev = %s
  MaxFiles = %d
  Depth = %d
  EmitMode = "%s"
  CN = %s
  FN = %s
  Kinds = %s
  NVals = %s
  SVals = %s
  BVals = %s
  AIdx = %s
  NestC = %d
VIEW %s
INVARIANTS %s
""" % (tla_set(dev), max_files, depth, emit, tla_set(p["CN"]), tla_set(p["FN"]), tla_set(p["Kinds"]), tla_set(p["NVals"]),
       tla_set(p["SVals"]), tla_set(p["BVals"]), tla_set(p["AIdx"]), p["NestC"], "ViewStep" if step_view else "View", " ".join(invs))
    path = os.path.join(vlib.SPEC, "gen_c15_" + name + ".cfg")
    with open(path, "w") as f:
        f.write(cfg)
    return os.path.basename(path)


# ------------------------------------------------------------------------------------------------
# history -> config texts
# ------------------------------------------------------------------------------------------------
def normalize(hist, style):
    """Split a history into files and make every `class X {` of the text an explicit statement.
    style 'grouped': a body stays open as long as the following statements are placed in it;
    style 'flat': every statement is wrapped in its own re-opening of the enclosing classes.
    Returns list of files, each a list of statements (the first statement of file k>0 is nextfile)."""
    files = [[]]
    stack = []
    for op in hist:
        if op["op"] == "nextfile":
            files.append([op])
            stack = []
            continue
        p = op["path"]
        k = 0
        while k < len(stack) and k < len(p) and stack[k] == p[k]:
            k += 1
        stack = stack[:k]
        while len(stack) < len(p):
            files[-1].append({"op": "class", "path": list(stack), "name": p[len(stack)], "base": ""})
            stack.append(p[len(stack)])
        files[-1].append(op)
        if op["op"] == "class":
            stack = list(p) + [op["name"]]
        if style == "flat":
            stack = []
    return files


# spelling of numbers as hexadecimal literals (the reference value stays the number itself; the big
# ones are exactly representable as float, so nothing is rounded on the way)
HEX_SMALL = {16: "0x10", 255: "$FF"}
HEX_BIG = {"2147483648": "0x80000000", "4294901760": "0xFFFF0000", "4294967040": "$FFFFFF00", "3221225472": "0xc0000000"}


def value_text(v):
    if v["t"] == "n":
        return HEX_SMALL.get(v["n"], str(v["n"]))
    if v["t"] == "N":
        return HEX_BIG[v["N"]]
    if v["t"] == "s":
        return '"' + v["s"].replace('"', '""') + '"'
    if v["t"] == "a":
        return "{" + ", ".join(value_text(e) for e in v["a"]) + "}"
    raise vlib.MachineryError("value " + json.dumps(v))


def render(ops):
    out = []
    stack = []
    for op in ops:
        if op["op"] == "nextfile":
            continue
        p = op["path"]
        while len(stack) > len(p) or stack != p[:len(stack)]:
            out.append("};")
            stack.pop()
        if stack != p:
            raise vlib.MachineryError("renderer: statement %s outside of an open body %s" % (op, stack))
        k = op["op"]
        if k in ("class", "decl"):
            head = "class " + op["name"] + (" : " + op["base"] if op["base"] else "")
            if k == "class":
                out.append(head + " {")
                stack.append(op["name"])
            else:
                out.append(head + ";")
        elif k == "field":
            out.append("%s = %s;" % (op["name"], value_text(op["val"])))
        elif k == "array":
            out.append("%s[] = %s;" % (op["name"], value_text(op["val"])))
        elif k == "append":
            out.append("%s[] += %s;" % (op["name"], value_text(op["val"])))
        elif k == "delete":
            out.append("delete %s;" % op["name"])
        else:
            raise vlib.MachineryError("unknown statement " + k)
    out += ["};"] * len(stack)
    return " ".join(out)


def names_of(hist):
    ns = []
    for op in hist:
        for n in list(op.get("path", [])) + [op.get("name"), op.get("base")]:
            if n and n not in ns:
                ns.append(n)
    return ns


def query_table(hist, prune, maxlen=3):
    """All lookup paths of length <= maxlen over the names the history uses and a missing one; the
    driver enumerates them (prune: below a path that the implementation answers with configNull only
    the missing name is tried - `configNull >> n` is one code path)."""
    return [{"q": "table", "names": names_of(hist) + [MISSING], "depth": maxlen, "prune": prune}]


def make_case(cid, hist, style, split_last=False, prune=True):
    h = list(hist)
    if split_last and len(h) >= 2 and not any(o["op"] == "nextfile" for o in h):
        h = h[:-1] + [{"op": "nextfile"}] + h[-1:]
    files = normalize(h, style)
    return {"id": cid, "files": [render(f) for f in files], "ops": files, "queries": query_table(h, prune), "hist": h}


def driver_case(c, force=False):
    d = {k: c[k] for k in ("id", "files", "ops", "queries")}
    if force:
        d["force"] = True
    return d


# ------------------------------------------------------------------------------------------------
# seeded random candidate histories (filtered by TLC through Enabled of Config.tla)
# ------------------------------------------------------------------------------------------------
RVALS = [{"t": "n", "n": 1}, {"t": "n", "n": 2}, {"t": "n", "n": -7}, {"t": "s", "s": "s"}, {"t": "s", "s": "a\"b"}, {"t": "s", "s": ""},
         {"t": "n", "n": 255}, {"t": "N", "N": "2147483648"}, {"t": "N", "N": "4294967040"}, {"t": "N", "N": "3221225472"}]
RARRS = [{"t": "a", "a": []}, {"t": "a", "a": [{"t": "n", "n": 1}]}, {"t": "a", "a": [{"t": "n", "n": 2}, {"t": "s", "s": "s"}]},
         {"t": "a", "a": [{"t": "n", "n": 3}, {"t": "a", "a": [{"t": "s", "s": "t"}, {"t": "a", "a": []}]}]},
         {"t": "a", "a": [{"t": "N", "N": "4294967040"}, {"t": "a", "a": [{"t": "n", "n": 16}, {"t": "N", "N": "2147483648"}]}]}]


def random_candidates(rng, n, length):
    cn, fn = ["A", "B", "C"], ["x", "y"]
    out = []
    for _ in range(n):
        h = []
        bodies = [[]]          # bodies that (probably) exist: guides the draw, TLC decides
        nfiles = 1
        for _ in range(length):
            k = rng.choice(["class", "class", "classext", "classext", "classext", "decl", "declext", "field", "field", "array",
                            "append", "append", "delete", "deleteclass", "nextfile"])
            if k == "nextfile":
                if nfiles < 3 and h and rng.random() < 0.5:
                    h.append({"op": "nextfile"})
                    nfiles += 1
                continue
            if k in ("class", "classext", "decl", "declext"):
                p = rng.choice([b for b in bodies if len(b) <= 1])
                name = rng.choice(cn)
                base = rng.choice(cn) if k.endswith("ext") else ""
                h.append({"op": "class" if k.startswith("class") else "decl", "path": p, "name": name, "base": base})
                if p + [name] not in bodies:
                    bodies.append(p + [name])
            else:
                inner = [b for b in bodies if b]
                if not inner:
                    continue
                p = rng.choice(inner)
                if k == "field":
                    h.append({"op": "field", "path": p, "name": rng.choice(fn), "val": rng.choice(RVALS)})
                elif k in ("array", "append"):
                    h.append({"op": k, "path": p, "name": rng.choice(fn), "val": rng.choice(RARRS)})
                elif k == "delete":
                    h.append({"op": "delete", "path": p, "name": rng.choice(fn)})
                else:
                    h.append({"op": "delete", "path": rng.choice(bodies), "name": rng.choice(cn)})
        out.append(h)
    return out


def filter_enabled(wdir, cands, tag):
    """TLC keeps of every candidate the statements Config.tla enables (Config_Filter.tla)."""
    nparts = 4
    parts = [cands[i::nparts] for i in range(nparts)]
    parts = [p for p in parts if p]

    def one(n_part):
        n, part = n_part
        path = os.path.join(wdir, "%s.cands.%d.ndjson" % (tag, n))
        vlib.write_ndjson(path, [{"h": h} for h in part])
        r = vlib.tlc("Config_Filter", "Config_Filter.cfg", env={"CANDS": path}, workers=1, timeout_s=600, tag="c15filter.%s.%d" % (tag, n))
        if not r.ok or len(r.prints) != len(part):
            raise vlib.MachineryError("Config_Filter failed: %s" % (r.error or r.out[-1500:]))
        return [json.loads(p) for p in r.prints]

    with concurrent.futures.ThreadPoolExecutor(max_workers=len(parts)) as ex:
        res = list(ex.map(one, enumerate(parts)))
    return [h for part in res for h in part if h]


# ------------------------------------------------------------------------------------------------
def validate(wdir, cases, events, tag, chunks=None):
    by = vlib.events_by_case(events)
    execs = [(c["id"], [e for e in by.get(c["id"], []) if e["e"] in ("Obs", "Crash")]) for c in cases]
    if chunks is None:
        # a TLC process costs ~10 CPU-seconds before its first state: few large chunks beat many small ones (measured)
        chunks = max(1, min(6, sum(len(x[1]) for x in execs) // 40000, len(execs)))
        chunks = max(chunks, min(4, len(execs)))
    bad, totals, results = vlib.validate_traces("Config_Trace", "Config_Trace.cfg", execs, wdir, tag, chunks=chunks, timeout_s=3000, xmx="4g")
    tally = {}
    rows = 0
    for r in results:
        v = r.verdicts[-1]
        rows += v.get("rows", 0)
        t = v.get("tally", {})
        if isinstance(t, dict):
            for k, n in t.items():
                tally[k] = tally.get(k, 0) + n
    return execs, bad, totals, results, tally, rows


def describe(case, b):
    return "%s at %s: config %s" % (b["why"], b["op"], " | ".join(case["files"]))


def run(rep, tier, seed, replay):
    t0 = time.time()

    def phase(what):
        vlib.log("[C15] %6.1fs %s" % (time.time() - t0, what))
    rng = random.Random(seed)
    vlib.build("rel")
    wdir = vlib.workdir("C15")
    rep.assumptions += [
        "small-scope: class names {A,B,C}, value names {x,y}, nesting depth <= 2, <= 2 files in the exhaustive part (<= 3 in the random part); "
        "class and value names are disjoint; numbers are small integers (decimal, 0x.. and $.. spellings) and whole numbers in [2^31, 2^32) written as "
        "hexadecimal literals that are exact in the VM's float (compared as decimal strings: TLC's integers are 32 bit); strings and nested arrays from a fixed pool",
        "statements the property is silent about are not generated (Enabled of Config.tla): re-opening with an unresolvable base, "
        "+= on a name the body already defines or whose inherited entry is not an array, delete of a class that is (or encloses) a base class; "
        "a name defined again after `delete` in the same body is an own entry again (found, read back, counted, selected; its position among the own entries is left open)",
        "base names resolve through the enclosing classes (own entries, nearest first) as in the code; += takes the inherited array at load time",
        "configHierarchy is accepted with or without the root in front and with or without the entry itself at the end; "
        "getX is compared only on entries of type X and on configNull (defaults of tests/sqf/config.sqf)",
        "observation = per lookup path one row of all config operators, config values projected to their owner path read from the confighost; "
        "inheritance cycles read from the confighost's base links after every load; a hang is a Crash(timeout) event of that case",
        "TLC 1.8 / Json+IOUtils community modules; driver harness/cmd_config.cpp",
    ]
    if replay:
        obj = json.load(open(replay))
        cases = [obj["case"]]
        force = bool(obj.get("force"))
    else:
        force = False
        quick = tier == "quick"
        # ---- 1. design check: the ideal design satisfies every formula on every transition; every deviation is
        #         refuted with the formula named for it (non-vacuity); 2. generator: one history per transition of
        #         the bounded state graphs.  The TLC runs are independent: a small pool runs them side by side.
        ideal = [("inherit", 4), ("nest", 4), ("kinds", 3), ("bases", 4)] if quick else [("inherit", 5), ("nest", 5), ("kinds", 4), ("bases", 5)]
        gens = [("inherit", 3), ("nest", 3), ("kinds", 3), ("bases", 3)] if quick else [("inherit", 4), ("nest", 4), ("kinds", 3), ("bases", 3)]
        jobs = [("ideal", prof, depth) for prof, depth in ideal] + [("gen", prof, depth) for prof, depth in gens] + [("dev",) + d for d in DEVIATIONS]

        def tlc_job(j):
            if j[0] == "ideal":
                return vlib.tlc("Config_MC", mc_cfg("mc_" + j[1], j[1], j[2]), workers=6, timeout_s=3000, xmx="12g")
            if j[0] == "gen":
                return vlib.tlc("Config_MC", mc_cfg("gen_" + j[1], j[1], j[2], emit="all", step_view=False), workers=4, timeout_s=3000, xmx="12g")
            dev, inv, prof, depth = j[1:]
            return vlib.tlc("Config_MC", mc_cfg("dev_%s_%s" % (dev, inv), prof, depth, dev=[dev], invs=[inv]), workers=2, timeout_s=600,
                            tag="Config_MC.dev_%s_%s" % (dev, inv))
        with concurrent.futures.ThreadPoolExecutor(max_workers=5) as ex:
            done = list(zip(jobs, ex.map(tlc_job, jobs)))
        hists = []
        seen_h = set()
        for j, r in done:
            if j[0] == "ideal":
                if not r.ok:
                    raise vlib.MachineryError("design check of the ideal Config spec failed (%s depth %d): %s %s" % (j[1], j[2], r.violated, (r.error or r.trace_text)[:1500]))
                rep.add_tlc(r, "Config_MC ideal, profile %s, depth %d, all formulas on every transition" % (j[1], j[2]))
            elif j[0] == "dev":
                dev, inv = j[1], j[2]
                if r.violated != inv:
                    raise vlib.MachineryError("vacuity self-test: deviation %s should violate %s, TLC said %s %s" % (dev, inv, r.violated, (r.error or "")[:500]))
                rep.design_runs.append({"what": "deviation %s violates %s (non-vacuity)" % (dev, inv), "generated": r.generated, "distinct": r.distinct})
            else:
                if not r.ok:
                    raise vlib.MachineryError("generator run failed: %s" % (r.error or r.violated))
                rep.add_tlc(r, "Config_MC generator %s depth %d (every transition emitted)" % (j[1], j[2]))
                if len(r.prints) != r.generated - 1:
                    rep.notes.append("generator %s: %d histories for %d generated states" % (j[1], len(r.prints), r.generated))
                for p in r.prints:
                    if p not in seen_h:
                        seen_h.add(p)
                        hists.append(json.loads(p))
        hists.sort(key=lambda h: (len(h), json.dumps(h, sort_keys=True)))     # TLC's workers emit in no fixed order
        phase("design checks, deviations, generators done")
        rep.exhaustive = True
        cases = []
        for n, h in enumerate(hists):
            # thorough tier: every 8th history with the full (unpruned) path table
            prune = quick or n % 8 != 0
            cases.append(make_case("t%d" % n, h, "grouped", prune=prune))
            if len(h) >= 2:
                # same statements, every one in its own re-opening, the last one in a second file
                cases.append(make_case("t%df" % n, h, "flat", split_last=True, prune=prune))
        phase("%d BFS histories generated" % len(hists))
        # ---- 3. seeded random deeper histories over the wider universe
        nrand, length = (1500, 10) if quick else (12000, 14)
        rh = filter_enabled(wdir, random_candidates(rng, nrand, length), "rnd")
        for n, h in enumerate(rh):
            cases.append(make_case("r%d" % n, h, "grouped" if n % 2 == 0 else "flat"))
        rep.extra["random_histories"] = len(rh)
        rep.extra["bfs_histories"] = len(hists)

    rep.rule = ("every transition (state, statement) of the bounded Config_MC state graphs replayed as the shortest history reaching it, rendered "
                "grouped in one file and flat with the last statement in a second file, plus seeded random histories filtered by the spec's Enabled; "
                "per case the query table over all paths of length <= 3 over the names used and a missing one (below a path answered with configNull only the missing "
                "name is tried, except for every 8th history of the thorough tier); "
                "non-trivial = config text with >= 2 statements; distinct by rendered texts")
    rep.extra["distinct_nontrivial"] = len({"|".join(c["files"]) for c in cases if sum(len(f) for f in c["ops"]) >= 2})
    phase("%d cases rendered" % len(cases))
    # ---- 4. drive the implementation, 5. trace validation by TLC - in batches (bounded memory)
    BATCH = 10000
    bad, tally, rows, ntraces = [], {}, 0, 0
    totals = {"lines": 0, "ops": 0}
    for b0 in range(0, len(cases), BATCH):
        part = cases[b0:b0 + BATCH]
        events = vlib.run_driver("config", [driver_case(c, force) for c in part], wdir, kind="rel", timeout_s=CASE_TIMEOUT_S, tag="drv%d" % (b0 // BATCH))
        execs, bad1, totals1, results, tally1, rows1 = validate(wdir, part, events, "c15b%d" % (b0 // BATCH))
        for r in results:
            rep.add_tlc(r)
        bad += bad1
        rows += rows1
        ntraces += len(execs)
        for k in totals:
            totals[k] += totals1[k]
        for k, n in tally1.items():
            tally[k] = tally.get(k, 0) + n
        del events, execs
        if b0 + BATCH < len(cases):      # keep the files of the last batch only
            for fn in os.listdir(wdir):
                if fn.startswith("drv%d." % (b0 // BATCH)) or fn.startswith("c15b%d." % (b0 // BATCH)):
                    os.remove(os.path.join(wdir, fn))
        phase("batch %d: %d cases driven and validated, %d rows so far" % (b0 // BATCH, len(part), rows))
    rep.traces = ntraces
    rep.evaluations = rows + totals["ops"]
    rep.extra["trace_lines"] = totals["lines"]
    rep.extra["statements_explained_by_spec"] = totals["ops"]
    rep.extra["rows_compared"] = rows
    cmap = {c["id"]: c for c in cases}
    for c in cases[:2] + cases[len(cases) // 2:len(cases) // 2 + 2] + cases[-3:]:
        rep.samples.append({"config": c["files"], "lookup paths": "all of length <= 3 over %s" % c["queries"][0]["names"]})
    # ---- 6. classify; confirm each distinct key on a fresh single run of its smallest witness
    by_key = {}
    for b in bad:
        if b["why"].startswith("MACHINERY"):
            raise vlib.MachineryError("generator produced a statement the spec does not enable: %s in %s" % (b, cmap[b["id"]]["ops"]))
        by_key.setdefault("C15/%s/%s" % (b["why"], b["op"]), []).append(b)

    def size(x):
        return (sum(len(f) for f in cmap[x["id"]]["ops"]), len("".join(cmap[x["id"]]["files"])), "|".join(cmap[x["id"]]["files"]))

    def report(key, case, x, ex, frc, count):
        evs = ex[0][1]
        idx = x["line"] - 2      # line 1 of the single-execution trace is the Reset
        at = evs[idx] if 0 <= idx < len(evs) else {}
        what = "%s at %s: config %s" % (x["why"], x["op"], " | ".join(case["files"]))
        if at.get("k") == "row":
            what += " ; query configFile" + "".join(" >> " + json.dumps(n) for n in at["path"]) + " ; reference: " + x.get("exp", "")
        elif at.get("e") == "Crash":
            asks = [e for e in evs if e.get("k") == "ask"]
            what += " ; %s %s" % (at.get("why", ""), ("in configFile" + "".join(" >> " + json.dumps(n) for n in asks[-1]["path"])) if asks else "while loading")
        rep.finding(key, what, {"property": "C15", "key": key, "force": frc, "case": {k: case[k] for k in ("id", "files", "ops", "queries", "hist")},
                                "observed": [at] if at else evs[-3:], "verdict": [x]})
        rep.found[key]["count"] = count

    for key, bs in sorted(by_key.items()):
        if key in rep.found:
            continue
        ok = False
        for b in sorted(bs, key=size)[:3]:
            case = cmap[b["id"]]
            ev2 = vlib.run_driver("config", [driver_case(case, force)], wdir, kind="rel", timeout_s=CASE_TIMEOUT_S, jobs=1, tag="confirm")
            ex2, bad2, _, _, _, _ = validate(wdir, [case], ev2, "c15confirm", chunks=1)
            keys2 = {"C15/%s/%s" % (x["why"], x["op"]): x for x in bad2}
            if key not in keys2:
                rep.notes.append("rejection %s of %s did not repeat" % (key, b["id"]))
                continue
            ok = True
            report(key, case, keys2[key], ex2, force, max(1, tally.get(key[len("C15/"):], 1)))
            if key.startswith("C15/Acyclic/") and not force and not any(k.startswith("C15/EveryLookupTerminates/") for k in rep.found):
                # what the cycle does to lookups: the same case with the queries forced through (the bulk run skips them)
                ev3 = vlib.run_driver("config", [driver_case(case, True)], wdir, kind="rel", timeout_s=CASE_TIMEOUT_S, jobs=1, tag="confirmf")
                ex3, bad3, _, _, _, _ = validate(wdir, [case], ev3, "c15confirmf", chunks=1)
                for x in bad3:
                    k3 = "C15/%s/%s" % (x["why"], x["op"])
                    if x["why"] == "EveryLookupTerminates" and k3 not in rep.found:
                        report(k3, case, x, ex3, True, 1)
            break
        if not ok:
            rep.notes.append("no witness of %s repeated; not reported" % key)
