"""C05 - the operand stack is partitioned per scope; a scope yields exactly one value.

spec/Stack.tla: abstract stack machine (Compute/Enter/Clear/Done/Leave/Unwind) + the relations
Partition, NoStealing, OneValue, StatementClean, LoopClean. Stack_MC: exhaustive design check
(ideal actions satisfy the relations; the named deviations FrameDoneNoValue and LeaveLeaky are
refuted). Stack_Trace: every state logged by the H3 observer around every instruction of real
executions is judged by the same relations.
"""
import json
import os
import random

import gen_prog as G
import vlib

LEVEL = "model_checking"

# blocks that misbehave in every way the property lists; each is used as the body of a called
# block inside a half-built enclosing expression
DIRTY = [
    ("plain", "2; 3"),
    ("extra-values", "[9, 9]; 8; 7"),
    ("assign-last", "5; gA = 1"),
    ("assign-only", "gA = 1"),
    ("empty", ""),
    ("exitwith", "if (true) exitWith {5}; 6"),
    ("exitwith-in-expr", "[9, if (true) exitWith {5}, 8]; 6"),
    ("exitwith-false", "if (false) exitWith {5}; 6"),
    ("breakout-value", 'scopeName "s"; [2, call {7 breakOut "s"}, 3]; 4'),
    ("breakout-novalue", 'scopeName "s"; [2, call {breakOut "s"}, 3]; 4'),
    ("breakout-two-frames", 'scopeName "s"; [2, call {[5, call {7 breakOut "s"}, 6]}, 3]; 4'),
    ("breakout-from-loop", 'scopeName "s"; {[2, _x breakOut "s", 3]} forEach [1, 2]; 4'),
    ("throw-caught", "try {[2, call {throw 1}, 3]; 4} catch {5}"),
    ("throw-in-loop", "try {{[2, call {throw _x}, 3]} forEach [1, 2]; 4} catch {_exception}"),
    ("error-caught", '{[2, call {1 + "a"}, 3]; 4} except__ {5}'),
    ("error-caught-direct", '{5 + (1 + "a"); 4} except__ {gE = 1}'),
    ("error-caught-direct-array", '{[7, 8, 1 + "a"]; 4} except__ {}'),
    ("throw-direct", "try {5 + (throw 1); 4} catch {gE = 1}"),
    ("throw-direct-array", "try {[7, 8, throw 1]; 4} catch {}"),
    ("error-caught-deep", '{[2, call {[6, call {1 + "a"}, 7]}, 3]; 4} except__ {5}'),
    ("while", "gW = 0; while {gW < 3} do {[gW, gW]; gW = gW + 1}"),
    ("while-value", "gW = 0; while {gW < 2} do {gW = gW + 1; gW}"),
    # one statement per block and more than three iterations: nothing between two iterations clears the region but the restart itself
    ("while-single", "gW = 0; while {gW < 6} do {call {gW = gW + 1; gW}}"),
    ("while-single-cond-call", "gW = 0; while {call {gW < 6}} do {gW = gW + 1; gW}"),
    ("for-single", 'for "_i" from 0 to 5 do {_i + 1}'),
    ("foreach-single", "{_x + 1} forEach [1, 2, 3, 4, 5, 6]"),
    ("count-single", "{_x > 1} count [1, 2, 3, 4, 5, 6]"),
    ("apply-single", "[1, 2, 3, 4, 5, 6] apply {_x + 1}"),
    ("for", 'for "_i" from 0 to 2 do {[_i, 1]; _i}'),
    ("foreach", "{[_x, 1]; _x} forEach [1, 2, 3]"),
    ("count", "{[_x]; _x > 1} count [1, 2, 3]"),
    ("select", "[1, 2, 3] select {[_x]; _x > 1}"),
    ("apply", "[1, 2, 3] apply {[_x]; _x + 1}"),
    ("findif", "[1, 2, 3] findIf {[_x]; _x > 1}"),
    ("switch", "switch (2) do { case 1: {[1]; 10}; case 2: {[2]; 20}; default {[3]; 30} }"),
    ("switch-nomatch", "switch (5) do { case 1: {10} }"),
    ("isnil", "isNil {[1, 2]; nil}"),
    ("lazy-and", "true && {[1]; false}"),
    ("if-else", "if (gA > 100) then {[1]; 1} else {[2]; 2}"),
    ("if-noelse-false", "if (gA > 100) then {1}"),
    ("nested-call", "call {call {[1, 2]; 3}}"),
    ("callw", "5 call {[_this]; _this + 1}"),
    # an operator applied to an undefined variable produces no value: the array / operator behind it is short of operands
    # in its own scope (an error there) - what the enclosing scopes have pending is not its to take
    ("short-array", '4; ["n", str gUndefinedVariable]'),
    ("short-array-3", '4; [1, str gUndefinedVariable, str gUndefinedVariable]'),
    ("short-binary", '4; (str gUndefinedVariable) + (str gUndefinedVariable)'),
    ("short-array-caught", '{4; ["n", str gUndefinedVariable]} except__ {5}'),
]
CONTAINERS = [
    ("array", "gR = [11, call {%s}, 33]"),
    ("binary", "gR = [11, 22 + (call {%s}), 33]"),
    ("nested-array", "gR = [[11, [call {%s}]], 33]"),
    ("stmt", "call {%s}"),
    ("args-call", "gR = [11, [7, 8] call {%s}, 33]"),                 # no nil placeholder below the block: the caller's operand lies directly under it
    ("args-call-nested", "gR = [[5, 6] call {[11, [7, 8] call {%s}]}, 33]"),
    ("if-then", "gR = [11, if (true) then {%s}, 33]"),
    ("in-loop", "{gR = [11, call {%s}, _x]} forEach [1, 2]"),
    ("in-handler", "gR = [11, try {throw 0} catch {call {%s}}, 33]"),
]


def systematic_cases():
    cases = []
    for cn, ctext in CONTAINERS:
        for dn, dtext in DIRTY:
            text = "gA = 1;\n" + (ctext % dtext) + ";\ndiag_log str [gA];"
            cases.append({"id": "sys-%s-%s" % (cn, dn), "text": text, "fam": "sys"})
    # operand stacks higher than 2^16: a block entered while that many operands are pending (states are logged
    # without the values: frame ids, bases, height)
    big = ", ".join(["0"] * 66000)
    cases.append({"id": "big-array-call", "text": "gR = [%s, call {1; 2}, 3];\ndiag_log str [count gR];" % big, "fam": "big", "compact": True})
    cases.append({"id": "big-array-callw", "text": "gR = [%s, [4] call {_this; 2}];\ndiag_log str [count gR];" % big, "fam": "big", "compact": True})
    return cases


def random_cases(rng, n, depth):
    cases = []
    for i in range(n):
        g = G.Gen(rng, depth=depth)
        prog = g.program(nstmts=rng.randint(2, 5))
        cases.append({"id": "rnd%d" % i, "text": G.render(prog), "fam": "rnd"})
    return cases


def opclass(op):
    parts = op.split(" ")
    if parts[0] in ("CALLUNARY", "CALLBINARY", "CALLNULAR") and len(parts) > 1:
        return parts[0] + " " + parts[1]
    return parts[0]


def to_driver_case(c, slices=None):
    d = {"id": c["id"], "trace": True, "compact": bool(c.get("compact")), "conf": {"max_runtime_ms": 60000 if c.get("compact") else 4000, "slice": c.get("slice", 0)},
         "runs": [{"scripts": c.get("scripts") or [{"name": "main", "text": c["text"], "suspend": c.get("suspend", False)}]}]}
    return d


def stack_events(evs):
    out = []
    for e in evs:
        if e["e"] == "S":
            out.append({"e": "S", "id": e["id"], "k": e["k"], "ctx": min(e["ctx"], 12), "oc": opclass(e["op"]),
                        "fids": e["fids"], "bases": e["bases"], "pos": e["pos"], "slots": e["slots"],
                        # frame completion: the completed frame was a plain block (no exit / error behaviour attached)
                        "plain": e["k"] == "F" and (e.get("arg", 0) & 2) != 0})
        elif e["e"] == "SC":      # compact state (very high operand stacks): no values, the height only
            out.append({"e": "SC", "id": e["id"], "k": e["k"], "ctx": min(e["ctx"], 12), "oc": opclass(e["op"]), "fids": e["fids"], "bases": e["bases"], "n": e["n"]})
        elif e["e"] == "Crash":
            out.append(e)
    return out


def run(rep, tier, seed, replay):
    rng = random.Random(seed)
    vlib.build("rel")
    wdir = vlib.workdir("C05")
    rep.assumptions += [
        "states are observed through the guarded H3 observer (before/after every instruction, after frame completion and error unwinding); frame identities from the guarded frame counter",
        "values are compared by their printed form (clipped to 60 chars)",
        "the handler frame's own region after an unwind is constrained in its top slot only (what a handler without a value of its own would yield)",
        "the value a completed frame hands to its caller is judged for plain blocks (frames without exit / error behaviour, told by the guarded frame_done observation); loops and handlers compute their result in their behaviour",
    ]
    if replay:
        cases = [json.load(open(replay))["case"]]
    else:
        # ---- design check
        def cfg(name, a, b, depth):
            p = os.path.join(vlib.SPEC, "gen_%s.cfg" % name)
            open(p, "w").write("SPECIFICATION Spec\nCONSTANTS\n  FrameDoneAlwaysYields = %s\n  LeaveClearsRegions = %s\n  Depth = %d\n  MaxFrames = 4\n"
                               "INVARIANTS InvPartition InvNoStealing InvOneValue InvOneValueStrict InvStatementClean\n" % (a, b, depth))
            return os.path.basename(p)
        depth = 7 if tier == "quick" else 9
        r = vlib.tlc("Stack_MC", cfg("stack_ideal", "TRUE", "TRUE", depth), workers=vlib.NCPU, timeout_s=1500, xmx="16g")
        if not r.ok:
            raise vlib.MachineryError("Stack design check failed: %s %s" % (r.violated, (r.error or "")[:400]))
        rep.add_tlc(r, "Stack_MC ideal, depth %d" % depth)
        for nm, a, b, inv in (("FrameDoneNoValue", "FALSE", "TRUE", "InvOneValueStrict"), ("LeaveLeaky", "TRUE", "FALSE", "InvOneValue")):
            r2 = vlib.tlc("Stack_MC", cfg("stack_dev", a, b, 6), workers=4, timeout_s=600)
            if r2.violated != inv:
                raise vlib.MachineryError("vacuity self-test: deviation %s should violate %s, got %s" % (nm, inv, r2.violated))
            rep.design_runs.append({"what": "deviation %s violates %s (non-vacuity)" % (nm, inv), "generated": r2.generated, "distinct": r2.distinct})
        # ---- programs
        cases = systematic_cases()
        nrand = 600 if tier == "quick" else 12000
        cases += random_cases(rng, nrand, 3)
        # the same systematic family as scheduled scripts with tiny slices, two scripts interleaved
        sys_cases = [c for c in cases if c["fam"] == "sys"]
        for sl in ((1, 2) if tier == "quick" else (1, 2, 3)):
            for i in range(0, len(sys_cases) - 1, 2 if tier == "quick" else 1):
                a, b = sys_cases[i], sys_cases[(i + 7) % len(sys_cases)]
                cases.append({"id": "sch%d-%d" % (sl, i), "fam": "sched", "slice": sl, "text": a["text"],
                              "scripts": [{"name": "p", "text": a["text"], "suspend": True}, {"name": "q", "text": b["text"], "suspend": True}]})
    rep.evaluations = len(cases)
    rep.rule = ("every (container expression x misbehaving block) combination, seeded random programs (depth 3), and pairs of the systematic "
                "programs scheduled with slices of 1-3 instructions; every logged state pair is judged; non-trivial = program that pushes >= 2 frames; distinct by text")
    events = vlib.run_driver("run", [to_driver_case(c) for c in cases], wdir, kind="rel", timeout_s=20)
    by = vlib.events_by_case(events)
    execs = []
    nontrivial = set()
    nstates = 0
    for c in cases:
        evs = stack_events(by.get(c["id"], []))
        nstates += len(evs)
        if any(len(e.get("fids", [])) >= 2 for e in evs):
            nontrivial.add(c.get("text", c["id"]))
        execs.append((c["id"], evs))
    rep.extra["distinct_nontrivial"] = len(nontrivial)
    rep.extra["logged_states"] = nstates
    bad, totals, results = vlib.validate_traces("Stack_Trace", "Stack_Trace.cfg", execs, wdir, "c05", xmx="6g")
    for x in results:
        rep.add_tlc(x)
    rep.traces = len(execs)
    rep.extra["state_pairs_judged"] = totals["ops"]
    # ---- binding demonstration: a corrupted copy of a real trace must be rejected
    if not replay:
        import copy
        donor = next((x for x in execs if any(len(e.get("fids", [])) >= 2 and len(e.get("slots", [])) >= 2 for e in x[1])), None)
        if donor:
            evs = copy.deepcopy(donor[1])
            for e in evs:
                if len(e.get("fids", [])) >= 2 and e["bases"][-1] >= 1 and e["k"] == "I":
                    e["slots"][0] = "CORRUPTED"      # an operand of an enclosing frame changes under a callee
                    break
            badc, _, _ = vlib.validate_traces("Stack_Trace", "Stack_Trace.cfg", [("corrupt", [dict(e, id="corrupt") for e in evs])], wdir, "c05corrupt", chunks=1)
            if not badc or badc[0]["why"] != "NoStealing":
                raise vlib.MachineryError("binding self-test: a corrupted trace was not rejected with NoStealing: %s" % badc)
            rep.extra["binding_selftest"] = "corrupted enclosing operand rejected: " + badc[0]["why"]
    cmap = {c["id"]: c for c in cases}
    for c in cases[:2] + cases[-3:]:
        rep.samples.append({"id": c["id"], "program": c["text"]})
    groups = {}
    for b in bad:
        groups.setdefault("C05/%s/%s" % (b["why"], b["op"]), []).append(b)
    for key, bs in sorted(groups.items()):
        b = min(bs, key=lambda x: (cmap[x["id"]].get("fam") == "sched", len(cmap[x["id"]]["text"])))
        case = cmap[b["id"]]
        ev2 = vlib.run_driver("run", [to_driver_case(case)], wdir, kind="rel", timeout_s=20, jobs=1, tag="confirm")
        ex2 = [(case["id"], stack_events(ev2))]
        bad2, _, _ = vlib.validate_traces("Stack_Trace", "Stack_Trace.cfg", ex2, wdir, "c05confirm", chunks=1)
        if not bad2:
            rep.notes.append("rejection %s of %s did not repeat" % (key, b["id"]))
            continue
        line = bad2[0]["line"] - 2
        around = ex2[0][1][max(0, line - 2):line + 1]
        texts = [sc["text"] for sc in case.get("scripts", [])] or [case["text"]]
        rep.finding(key, "%s at %s in program: %s" % (b["why"], b["op"], (" || ".join(t.replace("\n", " ") for t in texts))[:600]),
                    {"property": "C05", "key": key, "case": case, "states_around": around, "verdict": bad2})
        rep.found[key]["count"] += len(bs) - 1
