#!/bin/bash
# third false-alarm sweep after the round-4 strengthening: thorough tier + another seed (CHECKS, SEEDS select)
export VERIF_REPO=${VP_RUN_REPO:-/repo}
CHECKS=${CHECKS:-"C01 C08 C02 C03 C04 C05 C06 C07 C10 C11 C12 C13 C14 C15 C16 C17 C18 C19 C20"}
python3 tools/verif.py --setup > sweep_setup.log 2>&1 || { echo "setup failed"; tail -5 sweep_setup.log; }
for C in $CHECKS; do
  t0=$(date +%s)
  timeout 7200 python3 tools/verif.py $C --tier thorough > sweep_${C}_t.log 2>&1; rc=$?
  echo "thorough $C exit=$rc $(( $(date +%s) - t0 ))s $(grep -c '^VIOLATION' sweep_${C}_t.log) violations"
  grep '^VIOLATION\|MACHINERY' sweep_${C}_t.log | cut -c1-300
done
for S in ${SEEDS:-7}; do
  for C in $CHECKS; do
    t0=$(date +%s)
    VERIF_SEED=$S timeout 3600 python3 tools/verif.py $C --tier quick > sweep_${C}_q$S.log 2>&1; rc=$?
    echo "quick seed=$S $C exit=$rc $(( $(date +%s) - t0 ))s $(grep -c '^VIOLATION' sweep_${C}_q$S.log) violations"
    grep '^VIOLATION\|MACHINERY' sweep_${C}_q$S.log | cut -c1-300
  done
done
