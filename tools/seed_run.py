#!/usr/bin/env python3
"""Runs the registered quick checks against every seeded change the prescribed way:
    git -C /repo apply seeded/<id>/patch.diff ; python3 tools/verif.py <check> --tier quick ; git -C /repo checkout -- .
and writes seeded/<id>/result.json and seeded/RESULTS.md.  /repo must be clean and nothing else may
build from it meanwhile.  Evidence files of the real tree are kept out of the way (VERIF_EVID points to a
scratch directory for these runs only).

usage: seed_run.py [seed-id ...]        (default: all)
"""
import json
import os
import re
import subprocess
import sys
import tempfile

ROOT = os.path.dirname(os.path.dirname(os.path.abspath(__file__)))
SEEDED = os.path.join(ROOT, "seeded")
EXTRA = {"C04-m2": ["C04", "C11", "C18"], "C11-m4": ["C11", "C18"]}        # the property's own check first


def sh(*a, **kw):
    return subprocess.run(list(a), stdout=subprocess.PIPE, stderr=subprocess.STDOUT, text=True, **kw)


def main():
    ids = sys.argv[1:] or sorted(d for d in os.listdir(SEEDED) if os.path.isfile(os.path.join(SEEDED, d, "patch.diff")))
    if sh("git", "-C", "/repo", "status", "--porcelain", "--untracked-files=no").stdout.strip():
        sys.exit("/repo is not clean")
    rows = []
    for sid in ids:
        d = os.path.join(SEEDED, sid)
        patch = os.path.join(d, "patch.diff")
        res = {"seed": sid, "applies": False, "checks": {}, "tree": sh("git", "-C", "/repo", "rev-parse", "--short", "HEAD").stdout.strip()}
        if sh("git", "-C", "/repo", "apply", "--check", patch).returncode != 0:
            # the tree has moved on since the change was written: try with reduced context
            ok = sh("git", "-C", "/repo", "apply", "-C1", "--check", patch).returncode == 0
            args = ["-C1"] if ok else None
        else:
            args = []
        if args is None:
            res["note"] = "patch no longer applies to the current tree"
        else:
            sh("git", "-C", "/repo", "apply", *args, patch)
            res["applies"] = True
            try:
                for chk in EXTRA.get(sid, [sid.split("-")[0]]):
                    with tempfile.TemporaryDirectory(prefix="seedevid_") as ev:
                        env = dict(os.environ, VERIF_EVID=ev)
                        r = sh("python3", os.path.join(ROOT, "tools", "verif.py"), chk, "--tier", "quick", env=env, timeout=3600)
                    keys = sorted(set(re.findall(r"^VIOLATION property=\S+ replay=\S+ key=(\S+)", r.stdout, re.M)))
                    res["checks"][chk] = {"exit": r.returncode, "violations": keys[:12], "n_keys": len(keys)}
            finally:
                sh("git", "-C", "/repo", "checkout", "--", ".")
        meta = {}
        try:
            meta = json.load(open(os.path.join(d, "meta.json")))
        except Exception:
            pass
        res["title"] = meta.get("title", "")
        json.dump(res, open(os.path.join(d, "result.json"), "w"), indent=1)
        caught = [c for c, v in res["checks"].items() if v["exit"] == 1 and v["n_keys"] > 0]
        rows.append((sid, res["title"], "yes: " + ", ".join(caught) if caught else ("NO" if res["applies"] else "n/a (does not apply)"),
                     "; ".join("%s exit %d" % (c, v["exit"]) for c, v in res["checks"].items())))
        print(rows[-1], flush=True)
    # rebuild the harness from the restored tree
    sh("python3", os.path.join(ROOT, "tools", "verif.py"), "--setup")
    write_results()


def write_results():
    """RESULTS.md from every seeded/<id>/result.json (the prescribed pass may be run in portions)"""
    rows = []
    for sid in sorted(os.listdir(SEEDED)):
        rp = os.path.join(SEEDED, sid, "result.json")
        if not os.path.isfile(rp):
            continue
        res = json.load(open(rp))
        caught = [c for c, v in res["checks"].items() if v["exit"] == 1 and v["n_keys"] > 0]
        rows.append((sid, res.get("title", ""), "yes: " + ", ".join(caught) if caught else ("NO" if res["applies"] else "n/a (does not apply)"),
                     "; ".join("%s exit %d" % (c, v["exit"]) for c, v in res["checks"].items()), res.get("tree", "")))
    with open(os.path.join(SEEDED, "RESULTS.md"), "w") as f:
        f.write("# Seeded changes against the registered quick checks (git -C /repo apply; check; git -C /repo checkout -- .)\n\n")
        f.write("Seeds without a row were judged in their scratch worktree only (`confirm.txt`, `check_<id>.log` in the seed's directory).\n\n")
        f.write("| seed | change | caught by | runs | /repo commit |\n|---|---|---|---|---|\n")
        for r in rows:
            f.write("| %s | %s | %s | %s | %s |\n" % r)


if __name__ == "__main__":
    main()
