#!/bin/bash
# False-alarm sweep on the unchanged tree: every check with other seeds (quick) and once in the thorough tier.
# Meant for `vp run --with-repo --timeout 12h -- bash tools/sweep.sh`; prints one line per run.
export VERIF_REPO=${VP_RUN_REPO:-/repo}
CHECKS=${CHECKS:-"C01 C02 C03 C04 C05 C06 C07 C08 C10 C11 C12 C13 C14 C15 C16 C17 C18 C19 C20"}
python3 tools/verif.py --setup > sweep_setup.log 2>&1 || { echo "setup failed"; tail -5 sweep_setup.log; }
for S in 2 3 4; do
  for C in $CHECKS; do
    t0=$(date +%s)
    VERIF_SEED=$S timeout 3600 python3 tools/verif.py $C --tier quick > sweep_${C}_q$S.log 2>&1; rc=$?
    echo "quick seed=$S $C exit=$rc $(( $(date +%s) - t0 ))s $(grep -c '^VIOLATION' sweep_${C}_q$S.log) violations"
    grep '^VIOLATION\|MACHINERY' sweep_${C}_q$S.log | cut -c1-300
  done
done
for C in $CHECKS; do
  t0=$(date +%s)
  timeout 14400 python3 tools/verif.py $C --tier thorough > sweep_${C}_t.log 2>&1; rc=$?
  echo "thorough $C exit=$rc $(( $(date +%s) - t0 ))s $(grep -c '^VIOLATION' sweep_${C}_t.log) violations"
  grep '^VIOLATION\|MACHINERY' sweep_${C}_t.log | cut -c1-300
done
