#!/usr/bin/env python3
"""Writes MANIFEST.json from tools/manifest_src.json (claimed checks + not_applicable) so that the
file stays valid and uniform."""
import json
import os
import subprocess

ROOT = os.path.dirname(os.path.dirname(os.path.abspath(__file__)))
src = json.load(open(os.path.join(ROOT, "tools", "manifest_src.json")))
ids = [json.loads(l)["id"] for l in open(os.path.join(ROOT, "properties.jsonl"))]
checks = []
for pid in ids:
    c = src["checks"].get(pid)
    if not c:
        continue
    checks.append({
        "property_id": pid,
        "quick_cmd": "python3 tools/verif.py %s --tier quick" % pid,
        "thorough_cmd": "python3 tools/verif.py %s --tier thorough" % pid,
        "evidence_file": "evidence/%s.json" % pid,
        "replay_cmd_template": "python3 tools/verif.py %s --replay {path}" % pid,
        "engine": "tlc+vdriver",
        "level_claimed": {"category": c.get("category", "model_checking"), "text": c["text"], "design_ref": c.get("design_ref", "DESIGN.md 5")},
        "level_note": c["note"],
        "technique": c["technique"],
    })
na = [{"property_id": pid, "reason": src["not_applicable"][pid]} for pid in ids if pid not in src["checks"]]
missing = [pid for pid in ids if pid not in src["checks"] and pid not in src["not_applicable"]]
assert not missing, missing
try:
    commits = subprocess.run(["git", "-C", "/repo", "log", "--format=%h %s", "260e879..HEAD"], stdout=subprocess.PIPE, text=True).stdout.splitlines()
    hook_commits = [c.split()[0] for c in commits if c.split(" ", 1)[1].startswith("verif:")]
except Exception:
    hook_commits = []
man = {
    "version": 1,
    "setup_cmd": "python3 tools/verif.py --setup",
    "hooks": {
        "guard": "SQFVM_RUNTIME_VERIF",
        "enable": "harness/CMakeLists.txt compiles /repo/src with -DSQFVM_RUNTIME_VERIF into build/rel (and build/asan with ASan+UBSan); every check rebuilds incrementally (ninja) from /repo's working tree",
        "baseline_off_cmd": "cmake -G Ninja -S /repo -B /repo/_build >/dev/null && cmake --build /repo/_build -j16 >/dev/null && ctest --test-dir /repo/_build -j8 --timeout 900",
        "source_commits": hook_commits,
        "add_only": True,
    },
    "engines": [
        {"name": "tlc+vdriver", "path": "tools/verif.py", "serves_properties": [c["property_id"] for c in checks],
         "kind_free_text": "TLA+ specifications (spec/*.tla) checked with TLC: exhaustive design check, TLC-generated behaviours replayed through the real code by harness/vdriver, and TLC trace validation of the recorded observations"},
    ],
    "checks": checks,
    "not_applicable": na,
    "notes": src.get("notes", ""),
}
json.dump(man, open(os.path.join(ROOT, "MANIFEST.json"), "w"), indent=1)
print("MANIFEST.json: %d checks, %d not_applicable" % (len(checks), len(na)))
