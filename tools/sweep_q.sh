#!/bin/bash
# quick-tier false-alarm sweep over further seeds (SEEDS, CHECKS select), two checks at a time
export VERIF_REPO=${VP_RUN_REPO:-/repo}
CHECKS=${CHECKS:-"C19 C14 C16 C08 C10 C17 C07 C13 C15 C20 C01 C18 C05 C06 C12 C02 C03 C04 C11"}
python3 tools/verif.py --setup > sweep_setup.log 2>&1 || { echo "setup failed"; tail -5 sweep_setup.log; }
for S in ${SEEDS:-11 12}; do
  for C in $CHECKS; do
    echo "$S $C"
  done
done | xargs -P 2 -L 1 bash -c 'S=$0; C=$1; t0=$(date +%s); VERIF_SEED=$S VERIF_EVID=$PWD/evid_$S timeout 3600 python3 tools/verif.py $C --tier quick > sweep_${C}_q$S.log 2>&1; rc=$?; echo "quick seed=$S $C exit=$rc $(( $(date +%s) - t0 ))s $(grep -c "^VIOLATION" sweep_${C}_q$S.log) violations"; grep "^VIOLATION\|MACHINERY" sweep_${C}_q$S.log | cut -c1-300'
