#!/usr/bin/env python3
"""Orchestrator: python3 tools/verif.py <ID> --tier quick|thorough [--replay file]
                 python3 tools/verif.py --setup

Exit 0: property held on everything explored (KNOWN-FINDING lines allowed)
Exit 1: at least one `VIOLATION property=<ID> replay=<path>` line
Exit 2: the machinery failed (build, TLC parse error, driver failure) - never a verdict
"""
import argparse
import importlib
import os
import sys
import traceback

sys.path.insert(0, os.path.dirname(os.path.abspath(__file__)))
import vlib  # noqa: E402


def setup():
    import glob
    bad = 0
    for k in ("rel", "asan"):
        vlib.build(k)
    for f in sorted(glob.glob(os.path.join(vlib.SPEC, "*.tla"))):
        mod = os.path.splitext(os.path.basename(f))[0]
        ok, out = vlib.sany(mod)
        print("sany %-22s %s" % (mod, "ok" if ok else "FAILED"))
        if not ok:
            print(out[-2000:])
            bad += 1
    return 2 if bad else 0


def main():
    ap = argparse.ArgumentParser()
    ap.add_argument("id", nargs="?")
    ap.add_argument("--tier", default=os.environ.get("VERIF_TIER", "quick"), choices=["quick", "thorough"])
    ap.add_argument("--replay")
    ap.add_argument("--setup", action="store_true")
    a = ap.parse_args()
    if a.setup:
        sys.exit(setup())
    if not a.id:
        ap.error("property id required")
    seed = int(os.environ.get("VERIF_SEED", "1") or 1)
    try:
        mod = importlib.import_module("checks." + a.id)
        rep = vlib.Report(a.id, a.tier, seed, getattr(mod, "LEVEL", "model_checking"))
        mod.run(rep, a.tier, seed, a.replay)
        rc = rep.finish()
    except vlib.MachineryError as ex:
        print("MACHINERY-ERROR %s: %s" % (a.id, ex), file=sys.stderr)
        sys.exit(2)
    except Exception:
        traceback.print_exc()
        sys.exit(2)
    sys.exit(rc)


if __name__ == "__main__":
    main()
