#!/bin/bash
# seed_eval.sh <PID> <mN> [check ids...]  -- triage of one seeded change in its scratch worktree /tmp/seed_<PID>
# (confirmation: applies, builds, 41 tests pass, demo shows misbehaviour; then runs the property's check(s) against the worktree).
PID=$1; M=$2; shift 2; CHECKS=${@:-$PID}
WT=/tmp/seed_$PID; SRC=$WT/_seed/$M; DST=/verif/seeded/$PID-$M
mkdir -p $DST
[ -d $SRC ] && { cp -r $SRC/. $DST/ || exit 2; }   # already collected seeds are taken from /verif/seeded
cd $WT && git checkout -q -- . && { git apply $DST/patch.diff 2>/dev/null || git apply -C1 $DST/patch.diff; } || { echo "patch does not apply"; exit 2; }
{
  echo "== build"; cmake --build _build -j8 2>&1 | tail -1
  echo "== ctest"; ctest --test-dir _build -j8 2>&1 | tail -3
  echo "== demo (changed tree)"; timeout 120 bash $DST/demo.sh 2>&1 | tail -40
} > $DST/confirm.txt 2>&1
for C in $CHECKS; do
  VERIF_REPO=$WT VERIF_BUILD=/tmp/seedbuild_$PID VERIF_EVID=/tmp/seedevid_$PID timeout 3000 python3 /verif/tools/verif.py $C --tier quick > $DST/check_$C.log 2>&1
  echo "check $C exit=$?" >> $DST/confirm.txt
  grep -c "^VIOLATION" $DST/check_$C.log >> $DST/confirm.txt
done
cd $WT && git checkout -q -- . 
grep -h "100% tests\|tests failed\|^check\|exit=" $DST/confirm.txt
grep -h "^VIOLATION" $DST/check_*.log | cut -c1-400 | head -8
