------------------------- MODULE Preproc_Origin_MC -------------------------
(* Design check and layout generator for Preproc_Origin.tla (C14).         *)
(* TLC enumerates every layout of <= Depth elements over the element       *)
(* alphabet, followed by every fault (kind, column), line-end convention   *)
(* and chain of nested includes around the fault.                          *)
(*   Dev = {}                            the ideal bookkeeping: InvLine    *)
(*   Dev = {"OneNewlinePerDirective"}    the code's bookkeeping: TLC must  *)
(*        find the drift (shortest counterexample = model-level witness)   *)
(* Emit = TRUE prints "OUT <json>" per complete source.                    *)
EXTENDS Preproc_Origin, Json

CONSTANTS Depth, Emit, Dev, NestMode

VARIABLES lay, done, src

Elements == { El("plain", 0), El("lcomment", 0), El("define", 0), El("bcomment", 1), El("bcommentblank", 1),     \* (a 3-line comment without empty line: Pre and the random layouts)
              El("definecont", 1), El("definecont", 2), El("textcont", 1), El("inactive", 2), El("active", 1),
              El("undef", 0), El("undefmissing", 0), El("else", 1), El("inactivestr", 0),
              Inc(<<El("plain", 0)>>), Inc(<<El("definecont", 1), El("plain", 0)>>),
              Inc(<<Inc(<<El("textcont", 1)>>), El("plain", 0)>>) }
Pre == { <<>>, <<El("definecont", 1)>>, <<El("bcomment", 3), El("lcomment", 0)>> }
NestsAll == { <<>> } \cup { <<p>> : p \in Pre } \cup { <<p[1], p[2]>> : p \in Pre \X Pre }
NestsFew == { <<>> } \cup { <<p>> : p \in Pre } \cup { << <<>>, <<El("definecont", 1)>> >>, << <<El("definecont", 1)>>, <<El("bcomment", 3), El("lcomment", 0)>> >> }
Nests == IF NestMode = "few" THEN NestsFew ELSE NestsAll
Faults == { [kind |-> k, pad |-> p, pre |-> 0] : k \in {"parse", "runtime"}, p \in {0, 3} }
          \cup { [kind |-> "linemacro", pad |-> 0, pre |-> 0], [kind |-> "linemacroeol", pad |-> 3, pre |-> 0] }
          \cup { [kind |-> k, pad |-> 0, pre |-> 1] : k \in {"parse", "runtime"} }
          \cup { [kind |-> "runtimeexit", pad |-> 3, pre |-> 0], [kind |-> "parsestr", pad |-> 0, pre |-> 0], [kind |-> "runtimeexitstr", pad |-> 3, pre |-> 0] }
NoSrc == [lay |-> <<>>, crlf |-> FALSE, nest |-> <<>>, fault |-> [kind |-> "none", pad |-> 0, pre |-> 0]]

Init == lay = <<>> /\ done = FALSE /\ src = NoSrc
Add == /\ ~done /\ Len(lay) < Depth
       /\ \E el \in Elements : lay' = Append(lay, el)
       /\ UNCHANGED <<done, src>>
Finish == /\ ~done
          /\ \E f \in Faults, n \in Nests, cr \in BOOLEAN :
                src' = [lay |-> lay, crlf |-> cr, nest |-> n, fault |-> f]
          /\ done' = TRUE
          /\ UNCHANGED lay
          /\ (Emit => PrintT("OUT " \o ToJson([src |-> src', files |-> Files(src')])))
Spec == Init /\ [][Add \/ Finish]_<<lay, done, src>>

\* the tokenizer's belief about the fault line is its origin (file and line)
InvLine == done => LinePreservedModel(src, Dev)
\* the files written for a source contain the fault exactly where Origin says (sanity of Render vs Walk):
\* number of include files = number the walk counted
InvFiles == done => Len(Files(src)) = AtFault(src, {}).nf + 1
=============================================================================
