--------------------------- MODULE Preproc_Origin ---------------------------
(***************************************************************************)
(* C14 - origin bookkeeping of the preprocessor: which file and line the   *)
(* SQF tokenizer BELIEVES a token to be on, against where it really is.    *)
(*                                                                         *)
(* A source is a LAYOUT (sequence of elements) followed by one injected    *)
(* FAULT line; the fault may sit inside a chain of nested #include files   *)
(* (nest = the layouts in front of it in each of those files).             *)
(* Elements [k, n, sub]:                                                   *)
(*   plain | lcomment | define           one physical line                 *)
(*   bcomment n      block comment spanning n lines                        *)
(*   bcommentblank n block comment of n+2 lines, the n inner ones empty    *)
(*   definecont n    #define continued by n backslash-newlines (n+1 lines) *)
(*   textcont n      statement continued by n backslash-newlines           *)
(*   inactive n | active n   #ifdef/#ifndef + n lines + #endif             *)
(*   include sub     #include of a file whose content is the layout sub    *)
(*                                                                         *)
(* The preprocessor's output starts each file with `#line 0 "f"`, wraps an *)
(* included file in `#line 1 "inc"` ... `#line l "parent"` and otherwise   *)
(* tells the tokenizer about lines only through the newlines it emits.     *)
(* Newlines(el, dev) is the number of newlines emitted for an element:         *)
(*   dev = {}                          ideal: as many as it consumed       *)
(*   "OneNewlinePerDirective" \in dev  what the code does (get_line(true)  *)
(*        swallows the continuation lines of a directive and the character *)
(*        reader joins continued text lines): one newline                  *)
(***************************************************************************)
EXTENDS Integers, Sequences, FiniteSets, TLC

El(k, n) == [k |-> k, n |-> n, sub |-> <<>>]
Inc(sub) == [k |-> "include", n |-> 0, sub |-> sub]

Phys(el) == CASE el.k \in {"plain", "lcomment", "define", "include", "undef", "undefmissing"} -> 1
              [] el.k = "else" -> el.n + 4
              [] el.k = "inactivestr" -> 4
              [] el.k = "bcomment" -> el.n
              [] el.k = "bcommentblank" -> el.n + 2
              [] el.k \in {"definecont", "textcont"} -> el.n + 1
              [] el.k \in {"inactive", "active"} -> el.n + 2
Newlines(el, dev) == IF el.k \in {"definecont", "textcont"} /\ "OneNewlinePerDirective" \in dev THEN 1 ELSE Phys(el)

MainFile == "main.sqf"
IncFile(i) == "inc" \o ToString(i) \o ".sqf"

(* st = [file, phys, bfile, bel, nf, drift]                                *)
(*   file/phys   the file and physical line of the next line               *)
(*   bfile/bel   what the tokenizer believes                               *)
(*   nf          number of include files created so far (naming)           *)
(*   drift       kind of the first element since the last #line marker     *)
(*               that emitted fewer newlines than it consumed ("" if none) *)
\*   mark        what produced the last #line marker: "file-start" | "include-return"
Start(file, nf) == [file |-> file, phys |-> 1, bfile |-> file, bel |-> 1, nf |-> nf, drift |-> "", mark |-> "file-start"]

RECURSIVE Walk(_, _, _, _)
Walk(st, lay, i, dev) ==
    IF i > Len(lay) THEN st
    ELSE LET el == lay[i] IN
         IF el.k = "include"
         THEN LET inner == Walk(Start(IncFile(st.nf + 1), st.nf + 1), el.sub, 1, dev)
              \* `#line <l> "parent"` behind the included text re-synchronises the parent
              IN Walk([st EXCEPT !.phys = st.phys + 1, !.bel = st.phys + 1, !.bfile = st.file, !.nf = inner.nf, !.drift = "", !.mark = "include-return"], lay, i + 1, dev)
         ELSE Walk([st EXCEPT !.phys = st.phys + Phys(el), !.bel = st.bel + Newlines(el, dev),
                              !.drift = IF st.drift = "" /\ Newlines(el, dev) # Phys(el) THEN el.k ELSE st.drift], lay, i + 1, dev)

\* the state in front of the fault line: main layout, then the chain of nested includes
RECURSIVE Descend(_, _, _, _)
Descend(st, nest, j, dev) ==
    IF j > Len(nest) THEN st
    ELSE Descend(Walk(Start(IncFile(st.nf + 1), st.nf + 1), nest[j], 1, dev), nest, j + 1, dev)
AtFault(src, dev) == Descend(Walk(Start(MainFile, 0), src.lay, 1, dev), src.nest, 1, dev)

Origin(src) == LET s == AtFault(src, {}) IN [file |-> s.file, line |-> s.phys]
Believed(src, dev) == LET s == AtFault(src, dev) IN [file |-> s.bfile, line |-> s.bel]
Drift(src, dev) == AtFault(src, dev).drift
LastMarker(src) == AtFault(src, {}).mark

\* column (0-based) of the offending token on the fault line
\* linemacro: [__LINE__, __FILE__] on one line; linemacroeol: __LINE__ is the last thing on its line
\* (the line end follows directly), the statement goes on in the next line
IsLineMacro(kind) == kind \in {"linemacro", "linemacroeol"}
FaultOffset(kind) == CASE kind = "parse" -> 10      \* vd__q = 1 ) ;      the stray ")"
                       [] kind = "runtime" -> 10    \* vd__q = 1 + "a";   the "+"
                       [] kind = "runtimeexit" -> 20 \* vd__q = {vd__a = 1; 5} count [1];   the "5": the block has run to its end when
                                                     \* count finds its value is no boolean - the culprit is the block's last expression
                       [] kind = "parsestr" -> 10   \* vd__q = 1 "st" ;     the string literal (a token whose scanner moves line and column itself)
                       [] kind = "runtimeexitstr" -> 20 \* vd__q = {vd__a = 1; "t"} count [1];   the string
                       [] OTHER -> 0
\* the stack-trace entries of the calling frames name the call site (the same token unless the fault is raised inside a block)
CallOffset(kind) == IF kind = "runtimeexit" THEN 23 ELSE IF kind = "runtimeexitstr" THEN 25 ELSE FaultOffset(kind)      \* ... the "count"
InBlock(kind) == kind \in {"runtimeexit", "runtimeexitstr"}
\* pre = 1: a statement holding a string with an escaped quote stands in front of the fault on the same line
PreText == "vd__s = \"p\"\"q\"; "
PreLen == 16
FaultCol(src) == src.fault.pad + (IF src.fault.pre = 1 THEN PreLen ELSE 0) + FaultOffset(src.fault.kind)

---------------------------------------------------------------------------
(* THE FORMULAS                                                            *)
\* (model) the tokenizer's belief is the origin
LinePreservedModel(src, dev) == Believed(src, dev) = Origin(src)
\* (observation) a reported position [file, L, C]
LinePreserved(src, pos) == pos.L = Origin(src).line
FilePreserved(src, pos) == pos.file = Origin(src).file
ColumnPreserved(src, pos) == pos.C = FaultCol(src)
CallColumnPreserved(src, pos) == pos.C = FaultCol(src) - FaultOffset(src.fault.kind) + CallOffset(src.fault.kind)
\* __LINE__ / __FILE__ expand to where they are written
LineMacro(src, lm) == lm.L = Origin(src).line
FileMacro(src, lm) == lm.file = Origin(src).file
\* is a wrong line exactly what the code model predicts?
ExplainedByCodeModel(src, pos) == pos.L = Believed(src, {"OneNewlinePerDirective"}).line

---------------------------------------------------------------------------
(* Render: the files of a source.  Result: sequence of [name, text]        *)
Pad(n) == IF n = 0 THEN "" ELSE IF n = 1 THEN " " ELSE IF n = 2 THEN "  " ELSE IF n = 3 THEN "   " ELSE "    "
RECURSIVE Rep(_, _)
Rep(s, n) == IF n <= 0 THEN "" ELSE s \o Rep(s, n - 1)
FaultText(f, nl) == Pad(f.pad) \o (IF f.pre = 1 THEN PreText ELSE "") \o (CASE f.kind = "parse" -> "vd__q = 1 ) ;"
                                 [] f.kind = "runtime" -> "vd__q = 1 + \"a\";"
                                 [] f.kind = "runtimeexit" -> "vd__q = {vd__a = 1; 5} count [1];"
                                 [] f.kind = "parsestr" -> "vd__q = 1 \"st\" ;"
                                 [] f.kind = "runtimeexitstr" -> "vd__q = {vd__a = 1; \"t\"} count [1];"
                                 [] f.kind = "linemacroeol" -> "vd__m = [__LINE__" \o nl \o ", __FILE__];"
                                 [] OTHER -> "vd__m = [__LINE__, __FILE__];")
\* text of an element, every physical line terminated by nl
ElText(el, nl, incname) ==
    CASE el.k = "plain" -> "vd__p = 0;" \o nl
      [] el.k = "lcomment" -> "// comment ) + \"" \o nl
      [] el.k = "define" -> "#define VD_A 1" \o nl
      [] el.k = "bcomment" -> IF el.n = 1 THEN "/* c ) */" \o nl ELSE "/* c" \o nl \o Rep(" c )" \o nl, el.n - 2) \o " c */" \o nl
      [] el.k = "bcommentblank" -> "/* c" \o nl \o Rep(nl, el.n) \o " c */" \o nl      \* completely empty lines inside the comment
      [] el.k = "definecont" -> "#define VD_B x \\" \o nl \o Rep(" y \\" \o nl, el.n - 1) \o " z" \o nl
      [] el.k = "textcont" -> "vd__t = 1 \\" \o nl \o Rep(" + 2 \\" \o nl, el.n - 1) \o " + 3;" \o nl
      [] el.k = "inactive" -> "#ifdef VD_UNDEFINED" \o nl \o Rep("vd__dead = 1 ) ;" \o nl, el.n) \o "#endif" \o nl
      [] el.k = "active" -> "#ifndef VD_UNDEFINED" \o nl \o Rep("vd__p = 1;" \o nl, el.n) \o "#endif" \o nl
      [] el.k = "inactivestr" -> "#ifdef VD_UNDEFINED" \o nl \o "vd__dead = \"l1" \o nl \o "l2\";" \o nl \o "#endif" \o nl   \* a string spanning two skipped lines
      [] el.k = "undef" -> "#undef VD_A" \o nl                   \* defined or not, depending on what precedes
      [] el.k = "undefmissing" -> "#undef VD_NEVER" \o nl        \* never defined: a warning, and still one line
      [] el.k = "else" -> "#ifdef VD_UNDEFINED" \o nl \o Rep("vd__dead = 1 ) ;" \o nl, el.n) \o "#else" \o nl \o "vd__p = 1;" \o nl \o "#endif" \o nl
      [] el.k = "include" -> "#include \"" \o incname \o "\"" \o nl

\* files of a layout: [text of this file, files (sequence of [name, text]) of its includes, nf]
RECURSIVE LayFiles(_, _, _, _, _)
LayFiles(lay, i, nl, nf, acc) ==      \* acc = [text, files, nf]
    IF i > Len(lay) THEN acc
    ELSE LET el == lay[i] IN
         IF el.k = "include"
         THEN LET name == IncFile(acc.nf + 1)
                  sub == LayFiles(el.sub, 1, nl, 0, [text |-> "", files |-> <<>>, nf |-> acc.nf + 1])
              IN LayFiles(lay, i + 1, nl, nf,
                          [text |-> acc.text \o ElText(el, nl, name), files |-> acc.files \o <<[name |-> name, text |-> sub.text]>> \o sub.files, nf |-> sub.nf])
         ELSE LayFiles(lay, i + 1, nl, nf, [acc EXCEPT !.text = acc.text \o ElText(el, nl, "")])

RECURSIVE NestFiles(_, _, _, _, _)
\* the chain of includes that leads to the fault: returns [tail text to append to the parent, files, nf]
NestFiles(nest, j, nl, nf, fault) ==
    IF j > Len(nest) THEN [text |-> FaultText(fault, nl) \o nl, files |-> <<>>, nf |-> nf]
    ELSE LET name == IncFile(nf + 1)
             body == LayFiles(nest[j], 1, nl, 0, [text |-> "", files |-> <<>>, nf |-> nf + 1])
             rest == NestFiles(nest, j + 1, nl, body.nf, fault)
         IN [text |-> "#include \"" \o name \o "\"" \o nl,
             files |-> <<[name |-> name, text |-> body.text \o rest.text]>> \o body.files \o rest.files, nf |-> rest.nf]
Files(src) ==
    LET nl == IF src.crlf THEN "\r\n" ELSE "\n"
        main == LayFiles(src.lay, 1, nl, 0, [text |-> "", files |-> <<>>, nf |-> 0])
        rest == NestFiles(src.nest, 1, nl, main.nf, src.fault)
    IN <<[name |-> MainFile, text |-> main.text \o rest.text]>> \o main.files \o rest.files
=============================================================================
