------------------------------ MODULE Api_Trace ------------------------------
(* API call histories replayed through the real exported functions, validated against Api.tla.      *)
(* Log: Reset; {"e":"Api","op":{..},"ret":n,"status":n,"out":"G:1|C:0|","cbs":n,"badcb":n}            *)
EXTENDS Api, Json, IOUtils
Log == ndJsonDeserialize(IOEnv.TRACE)
VARIABLES l, st, dead, bad, nops, done
tvars == <<l, st, dead, bad, nops, done>>

Why(s, o, r, e) ==
    IF e.ret # r.obs.ret THEN (IF o.op = "null" THEN "ReturnCodeInvalidHandle" ELSE "ReturnCode")
    ELSE IF o.op \notin {"destroy", "null"} /\ e.status # r.obs.status THEN "IdleAfterCall"
    ELSE IF r.obs.out # "" /\ e.out # r.obs.out THEN "OnlyGlobalsAndConfigPersist"
    ELSE IF e.badcb > 0 THEN "EveryDiagnosticDelivered"
    ELSE IF r.obs.ret \in {-2, -3, -6} /\ o.op # "null" /\ e.cbs = 0 THEN "EveryDiagnosticDelivered"
    \* diagnostics of every level belong to the call: the verbose one of kind "verbose" reaches the callback
    ELSE IF o.op = "call" /\ o.type = "s" /\ o.kind = "verbose" /\ e.vcbs = 0 THEN "EveryDiagnosticDelivered"
    ELSE ""

TraceInit == l = 1 /\ st = InitState /\ dead = FALSE /\ bad = <<>> /\ nops = 0 /\ done = FALSE
Consume ==
    /\ l <= Len(Log) /\ l' = l + 1 /\ UNCHANGED done
    /\ LET e == Log[l] IN
       CASE e.e = "Reset" -> st' = InitState /\ dead' = FALSE /\ UNCHANGED <<bad, nops>>
         [] e.e = "Crash" -> /\ bad' = IF dead THEN bad ELSE Append(bad, [id |-> e.id, line |-> l, why |-> "NeverCrashes", op |-> e.why])
                             /\ dead' = TRUE /\ UNCHANGED <<st, nops>>
         [] e.e = "Api" /\ ~dead ->
                IF ~Enabled(st, e.op) THEN bad' = Append(bad, [id |-> e.id, line |-> l, why |-> "MACHINERY-NotEnabled", op |-> e.op.op]) /\ dead' = TRUE /\ UNCHANGED <<st, nops>>
                ELSE LET r == Apply(st, e.op) w == Why(st, e.op, r, e) IN
                     IF w = "" THEN st' = r.st /\ nops' = nops + 1 /\ UNCHANGED <<dead, bad>>
                     ELSE bad' = Append(bad, [id |-> e.id, line |-> l, why |-> w, op |-> e.op.op \o (IF e.op.op = "call" THEN ":" \o e.op.type \o ":" \o e.op.kind ELSE IF e.op.op = "config" THEN ":" \o e.op.kind ELSE "")])
                          /\ dead' = TRUE /\ UNCHANGED <<st, nops>>
         [] OTHER -> UNCHANGED <<st, dead, bad, nops>>
Finish == /\ l = Len(Log) + 1 /\ ~done /\ done' = TRUE /\ UNCHANGED <<l, st, dead, bad, nops>>
          /\ PrintT("VERDICT " \o ToJson([lines |-> Len(Log), ops |-> nops, bad |-> bad]))
TraceSpec == TraceInit /\ [][Consume \/ Finish]_tvars
=============================================================================
