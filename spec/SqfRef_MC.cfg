SPECIFICATION Spec
CONSTANTS
  Mut = "none"
  LoopFuel = 20
  NestedBlocksInheritNamespace = TRUE
INVARIANTS LawCallTransparent LawSequence LawIfTrue LawForSingle LawForEachUnroll LawExitWithSkipsRest LawExitWithFalse LawWhileFalse LawLazy LawSwitchFirstMatch
