SPECIFICATION TraceSpec
CONSTANTS
  MapVars = {"m", "n"}
  KeysCapturedByValue = TRUE
  KeysCapturedDeep = TRUE
INVARIANTS TInvDict
CHECK_DEADLOCK FALSE
