SPECIFICATION TraceSpec
CONSTANTS
  MapVars = {"m", "n"}
  KeysCapturedByValue = TRUE
INVARIANTS TInvDict
CHECK_DEADLOCK FALSE
