---------------------------- MODULE Values_Trace ----------------------------
(* Round trips recorded from the real VM judged by SqfExpr/Values:                                       *)
(*  {"e":"RT","kind":"str|pretty","ok":b,"a":[instr],"b":[instr],"shape":".."}                           *)
(*  {"e":"Val","kind":"string|number|bool|array|code","ok":b,"rt":"true|false|none","chars":[..],"printed":[..]} *)
(*  {"e":"Lit","text":"..","ok":b,"bits":"xxxxxxxx","want":"xxxxxxxx"}                                    *)
EXTENDS Values, Json, IOUtils
Log == ndJsonDeserialize(IOEnv.TRACE)

WhyRT(e) == IF ~e.ok THEN "PrintedFormCompiles" ELSE IF e.a # e.b THEN "RoundTripSameInstructions" ELSE ""
WhyVal(e) ==
    IF ~e.ok THEN "ValueEvaluates"
    ELSE IF e.rt # "true" THEN "StrRoundTrips"
    ELSE IF e.kind = "string" /\ e.printed # Quote(e.chars) THEN "QuoteDoublesQuotes"
    ELSE ""
WhyLit(e) == IF ~e.ok THEN "LiteralEvaluates" ELSE IF e.bits # e.want THEN "LiteralDenotesWhatItSpells" ELSE ""

VARIABLES l, bad, nops, done
tvars == <<l, bad, nops, done>>
TraceInit == l = 1 /\ bad = <<>> /\ nops = 0 /\ done = FALSE
Note(e, w, what) == IF w = "" THEN bad ELSE Append(bad, [id |-> e.id, line |-> l, why |-> w, op |-> what])
Consume ==
    /\ l <= Len(Log) /\ l' = l + 1 /\ UNCHANGED done
    /\ LET e == Log[l] IN
       CASE e.e = "RT" -> nops' = nops + 1 /\ bad' = Note(e, WhyRT(e), e.kind \o "/" \o e.shape)
         [] e.e = "Val" -> nops' = nops + 1 /\ bad' = Note(e, WhyVal(e), e.kind)
         [] e.e = "Lit" -> nops' = nops + 1 /\ bad' = Note(e, WhyLit(e), e.form)
         [] e.e = "Crash" -> bad' = Append(bad, [id |-> e.id, line |-> l, why |-> "Crash", op |-> e.why]) /\ UNCHANGED nops
         [] OTHER -> UNCHANGED <<bad, nops>>
Finish == /\ l = Len(Log) + 1 /\ ~done /\ done' = TRUE /\ UNCHANGED <<l, bad, nops>>
          /\ PrintT("VERDICT " \o ToJson([lines |-> Len(Log), ops |-> nops, bad |-> bad]))
TraceSpec == TraceInit /\ [][Consume \/ Finish]_tvars
=============================================================================
