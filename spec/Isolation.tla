----------------------------- MODULE Isolation -----------------------------
(***************************************************************************)
(* C20: runs are deterministic and VM instances are isolated.              *)
(*                                                                         *)
(* A process (a "world") holds the process-wide statics of the code under  *)
(* test as explicit fields and any number of VM instances with PRIVATE     *)
(* stores:                                                                 *)
(*   world = [inst     : instance name -> store,                           *)
(*            decimals : scalar print mode   (d_scalar::s_decimals, -1=%g) *)
(*            ppCounter: __COUNTER__         (default.cpp file static)     *)
(*            typeIds  : types in the order of their FIRST USE in the      *)
(*                       process (type::extend<T>::s_local_type_value)     *)
(*            heap, alloc : address base of the process / allocations made *)
(*                       so far (object addresses printed by str)          *)
(*            extbuf   : content of a shared callExtension result buffer]  *)
(*   store = [alive, dec, ctr, defs, glob, cfg, types, objs, ops]          *)
(*                                                                         *)
(* A statement is a record [k |-> kind, n |-> Int]; Apply(w, who, s) gives *)
(* the next world and the lines the statement prints. IDEAL: a statement   *)
(* reads and writes its own instance's store only. The named deviations    *)
(* (constants, TRUE = what the pinned code does) route one piece of state  *)
(* through the process-wide statics instead:                               *)
(*   ToFixedSetsStatic  unary toFixed writes d_scalar::s_decimals, every   *)
(*                      number->string conversion of every instance reads it*)
(*   CounterIsStatic    __COUNTER__ is one counter for the whole process   *)
(*   TypeIdByFirstUse   type ids are handed out process-wide by first use; *)
(*                      operator tables are hashed by type id, so listings *)
(*                      (cmds__, help__) come in an order that depends on   *)
(*                      which instance (with which operator set) came first*)
(*   AddressInOutput    str of an object/group prints its heap address     *)
(* Two further deviations describe regressions the pinned code does NOT    *)
(* have (FALSE = the code); they make the corresponding probes non-vacuous: *)
(*   ObjectHashIsAddress  objects hash by their heap address: a hashmap    *)
(*                      keyed by objects enumerates (keys, str) in an order *)
(*                      that depends on the process' address base and on    *)
(*                      everything allocated before                         *)
(*   ExtBufferIsStatic  callExtension hands the extension one process-wide *)
(*                      result buffer that is not cleared: a call that      *)
(*                      writes no (or a short unterminated) answer returns  *)
(*                      what the last call of ANY instance left there       *)
(* DefinesPersist is a mechanism parameter, not a deviation: whether a     *)
(* #define of one preprocessor call is visible in later calls of the SAME  *)
(* instance (the pinned code: no). Either way it stays inside the instance.*)
(***************************************************************************)
EXTENDS Integers, Sequences, FiniteSets, TLC

CONSTANTS ToFixedSetsStatic, CounterIsStatic, TypeIdByFirstUse, AddressInOutput, ObjectHashIsAddress, ExtBufferIsStatic, DefinesPersist,
          WarnLatchIsStatic      \* deviation: a diagnostic is reported once per process instead of whenever an instance earns it

Names == {"P", "Q"}
Kinds == {"create", "print", "evalprint", "tofixed", "fixedprint", "fmtfixed", "counter", "define", "usedef", "defuse",
          "setg", "readg", "loadcfg", "readcfg", "typeorder", "collstr", "objstr", "objmap", "extecho", "extquiet", "warn", "fmtwarn"}

Fresh == [alive |-> FALSE, dec |-> -1, ctr |-> 0, defs |-> 0, glob |-> 0, cfg |-> 0, types |-> <<>>, objs |-> 0, ops |-> 0]
NewWorld(base) == [inst |-> [i \in Names |-> Fresh], decimals |-> -1, ppCounter |-> 0, typeIds |-> <<>>, heap |-> base, alloc |-> 0, extbuf |-> "", warned |-> FALSE]

\* the types an operator set mentions, in registration order: 1 = full, 2 = basic (no group/object operators)
OpsTypes(ops) == IF ops = 1 THEN <<"CONFIG", "GROUP", "SCALAR", "HASHMAP">> ELSE <<"CONFIG", "SCALAR", "HASHMAP">>

InSeq(x, s) == \E i \in 1..Len(s) : s[i] = x
RECURSIVE RegAll(_, _)
RegAll(reg, ts) == IF ts = <<>> THEN reg
                   ELSE RegAll(IF InSeq(Head(ts), reg) THEN reg ELSE Append(reg, Head(ts)), Tail(ts))
RECURSIVE Join(_)
Join(s) == IF s = <<>> THEN "" ELSE Head(s) \o (IF Len(s) > 1 THEN "," ELSE "") \o Join(Tail(s))

Fmt(d) == IF d = -1 THEN "%g" ELSE "%." \o ToString(d) \o "f"

Apply(w, who, s) ==
    LET me == w.inst[who]
        dec == IF ToFixedSetsStatic THEN w.decimals ELSE me.dec
        ctr == IF CounterIsStatic THEN w.ppCounter ELSE me.ctr
        reg == IF TypeIdByFirstUse THEN w.typeIds ELSE me.types
        SetDec(ww, d) == IF ToFixedSetsStatic THEN [ww EXCEPT !.decimals = d] ELSE [ww EXCEPT !.inst[who].dec = d]
    IN
    CASE s.k = "create" ->
            [w |-> [w EXCEPT !.inst[who] = [Fresh EXCEPT !.alive = TRUE, !.ops = s.n, !.types = RegAll(<<>>, OpsTypes(s.n))],
                             !.typeIds = RegAll(w.typeIds, OpsTypes(s.n)),
                             !.alloc = w.alloc + 1],
             out |-> <<"created">>]
      [] s.k = "print" -> [w |-> w, out |-> <<"num " \o Fmt(dec)>>]
      \* a number formatted while the text is preprocessed (__EVAL), i.e. before the VM executes anything: same mode
      [] s.k = "evalprint" -> [w |-> w, out |-> <<"evalnum " \o Fmt(dec)>>]
      [] s.k = "tofixed" -> [w |-> SetDec(w, s.n), out |-> <<>>]
      \* toFixed n; print; toFixed -1 in ONE statement (atomic at statement granularity)
      [] s.k = "fixedprint" -> [w |-> SetDec(w, -1), out |-> <<"num " \o Fmt(s.n)>>]
      \* binary `x toFixed n`: a pure function of its operands
      [] s.k = "fmtfixed" -> [w |-> w, out |-> <<"str " \o Fmt(s.n)>>]
      [] s.k = "counter" ->
            [w |-> IF CounterIsStatic THEN [w EXCEPT !.ppCounter = ctr + 1] ELSE [w EXCEPT !.inst[who].ctr = ctr + 1],
             out |-> <<"counter " \o ToString(ctr)>>]
      [] s.k = "define" -> [w |-> IF DefinesPersist THEN [w EXCEPT !.inst[who].defs = s.n] ELSE w, out |-> <<>>]
      [] s.k = "usedef" -> [w |-> w, out |-> <<IF me.defs = 0 THEN "X undefined" ELSE "X " \o ToString(me.defs)>>]
      \* #define and use in one preprocessor call
      [] s.k = "defuse" -> [w |-> IF DefinesPersist THEN [w EXCEPT !.inst[who].defs = s.n] ELSE w, out |-> <<"X " \o ToString(s.n)>>]
      [] s.k = "setg" -> [w |-> [w EXCEPT !.inst[who].glob = s.n], out |-> <<>>]
      [] s.k = "readg" -> [w |-> w, out |-> <<"g " \o ToString(me.glob)>>]
      [] s.k = "loadcfg" -> [w |-> [w EXCEPT !.inst[who].cfg = s.n], out |-> <<>>]
      [] s.k = "readcfg" -> [w |-> w, out |-> <<"cfg " \o ToString(me.cfg)>>]
      \* ordering probe over the instance's own operator table: its types in id order
      [] s.k = "typeorder" -> [w |-> w, out |-> <<"ops " \o Join(SelectSeq(reg, LAMBDA t : InSeq(t, me.types)))>>]
      \* ordering probe over a collection of the instance (hashmap keys, allVariables): a function of the store
      [] s.k = "collstr" -> [w |-> w, out |-> <<"coll g" \o ToString(me.glob)>>]
      [] s.k = "objstr" ->
            [w |-> [w EXCEPT !.inst[who].objs = me.objs + 1, !.alloc = w.alloc + 1],
             out |-> <<IF AddressInOutput THEN "obj@" \o ToString(w.heap + w.alloc) ELSE "obj#" \o ToString(me.objs + 1)>>]

      \* a hashmap keyed by several objects the statement creates, enumerated (keys / str); only names are printed
      [] s.k = "objmap" ->
            [w |-> [w EXCEPT !.inst[who].objs = me.objs + 3, !.alloc = w.alloc + 3],
             out |-> <<IF ObjectHashIsAddress THEN "objmap by address " \o ToString(w.heap + w.alloc) ELSE "objmap o3,o2,o1">>]
      \* callExtension of a stateless extension: an answered call, and one the extension leaves unanswered
      [] s.k = "extecho" -> [w |-> IF ExtBufferIsStatic THEN [w EXCEPT !.extbuf = "v" \o ToString(s.n)] ELSE w, out |-> <<"ext v" \o ToString(s.n)>>]
      \* an operation that earns a diagnostic (the clipboard is not available): every instance reports it, every time
      [] s.k = "warn" -> [w |-> IF WarnLatchIsStatic THEN [w EXCEPT !.warned = TRUE] ELSE w,
                          out |-> IF WarnLatchIsStatic /\ w.warned THEN <<>> ELSE <<"warn clipboard">>]
      \* format with a placeholder that has no argument: a warning is delivered half-way, the text is finished afterwards;
      \* a pure function of its operands (the scheduling point inside it exists in the driver's per-instruction schedules only)
      [] s.k = "fmtwarn" -> [w |-> w, out |-> <<"warn format", "fmt text">>]
      [] s.k = "extquiet" -> [w |-> w, out |-> <<"ext " \o (IF ExtBufferIsStatic THEN w.extbuf ELSE "")>>]

Enabled(w, who, s) == IF s.k = "create" THEN ~w.inst[who].alive ELSE w.inst[who].alive

\* an instance is destroyed: its private store is gone, the statics stay
Destroy(w, who) == [w EXCEPT !.inst[who] = Fresh]

\* ---- whole programs (used by the functional statement of the formulas)
RECURSIVE Run(_, _, _)
\* output of `who` when the steps <<[who, s]...>> are executed in this order in world w
Run(w, steps, who) ==
    IF steps = <<>> THEN <<>>
    ELSE LET h == Head(steps) IN
         IF h.who = "D" THEN Run(Destroy(w, "Q"), Tail(steps), who)
         ELSE LET r == Apply(w, h.who, h.s) IN
              (IF h.who = who THEN <<r.out>> ELSE <<>>) \o Run(r.w, Tail(steps), who)
StepsOf(who, prog) == [i \in 1..Len(prog) |-> [who |-> who, s |-> prog[i]]]
OutAlone(P, base) == Run(NewWorld(base), StepsOf("P", P), "P")
OutAfter(P, Q, base) == Run(NewWorld(base), StepsOf("Q", Q) \o <<[who |-> "D"]>> \o StepsOf("P", P), "P")
\* NonInterference, functional form (checked as an ASSUME-style self test on small instances in Isolation_MC):
\*   \A P, Q, every interleaving sched : OutBeside(P, Q, sched) = OutAlone(P) /\ OutAfter(P, Q) = OutAlone(P)
\*   Deterministic: \A b1, b2 : OutAlone(P, b1) = OutAlone(P, b2)
=============================================================================
