SPECIFICATION TraceSpec
CONSTANTS
  IndexFixup = TRUE
  TerminateStops = TRUE
  WakeCheck = TRUE
CHECK_DEADLOCK FALSE
