----------------------------- MODULE Control_MC -----------------------------
(* Two threads drive one VM: an executor thread issuing start calls and a controller thread      *)
(* issuing stop / abort / start. Each call is split at every access to the shared fields exactly *)
(* as runtime::execute does (labels = sync points H4).                                            *)
EXTENDS Integers, Sequences, FiniteSets, TLC

CONSTANTS Work,          \* instructions the loaded script needs
          ErrAt,         \* index of the instruction that raises an unhandled error (0: none)
          CallsE, CallsC, \* calls each thread issues (<<>>: the built-in family)
          Observed,      \* outcomes observed on the real runtime for this configuration (may be {})
          ReleaseAfterFinalCheckAtomically  \* TRUE ideal: acquire+reset+running, final check+release and the controller's check+set are each one atomic step (a lock); FALSE: the code

Threads == {"E", "C"}
AnyCalls == <<>>
VARIABLES state, exitReq, atomic, loaded, work, res,      \* the VM
          pc, call, calls, ret,                             \* per thread: label, current call, calls still to issue, last return
          grants, runid, afterStop, rets                     \* history
vars == <<state, exitReq, atomic, loaded, work, res, pc, call, calls, ret, grants, runid, afterStop, rets>>

Scripts == [E |-> <<"start">>, C |-> <<"stop">>]

Init == /\ state = "empty" /\ exitReq = FALSE /\ atomic = FALSE /\ loaded = TRUE /\ work = Work /\ res = "invalid"
        /\ pc = [t \in Threads |-> "idle"] /\ call = [t \in Threads |-> "none"]
        /\ calls \in { [E |-> e, C |-> c] : e \in (IF CallsE = <<>> THEN {<<"start">>, <<"start", "start">>} ELSE {CallsE}),
                                             c \in (IF CallsC = <<>> THEN {<<"stop">>, <<"abort">>, <<"stop", "abort">>, <<"abort", "abort">>, <<"start">>, <<"abort", "start">>} ELSE {CallsC}) }
        /\ ret = [t \in Threads |-> "none"] /\ grants = {} /\ runid = 0 /\ afterStop = 0 /\ rets = [t \in Threads |-> <<>>]

InExec(t) == pc[t] \in {"s_reset", "s_run", "s_loop", "s_slice", "s_poll", "s_map", "s_final", "s_release", "a_clear", "a_rel"}

Return(t, r) == /\ ret' = [ret EXCEPT ![t] = r] /\ pc' = [pc EXCEPT ![t] = "idle"] /\ call' = [call EXCEPT ![t] = "none"]
                /\ rets' = [rets EXCEPT ![t] = Append(rets[t], r)]
Goto(t, l) == pc' = [pc EXCEPT ![t] = l] /\ UNCHANGED <<ret, call, rets>>

Begin(t) == /\ pc[t] = "idle" /\ calls[t] # <<>>
            /\ call' = [call EXCEPT ![t] = Head(calls[t])] /\ calls' = [calls EXCEPT ![t] = Tail(calls[t])]
            \* (a line step is an executor call like start: it acquires the VM, executes, polls the requests and releases;
            \*  where it halts by itself is the business of Control.tla, not of this model)
            /\ pc' = [pc EXCEPT ![t] = IF Head(calls[t]) \in {"start", "line_step", "leave_scope"} THEN "s_cas" ELSE IF Head(calls[t]) = "stop" THEN "c_state" ELSE "a_state"]
            /\ UNCHANGED <<state, exitReq, atomic, loaded, work, res, ret, grants, runid, afterStop, rets>>

Step(t) ==
    /\ pc[t] # "idle" /\ UNCHANGED calls
    /\ CASE pc[t] = "s_cas" ->
              IF ~atomic /\ ReleaseAfterFinalCheckAtomically
              THEN atomic' = TRUE /\ runid' = runid + 1 /\ exitReq' = FALSE /\ state' = "running" /\ res' = "invalid" /\ Goto(t, "s_loop") /\ UNCHANGED <<loaded, work, grants, afterStop>>
              ELSE IF ~atomic THEN atomic' = TRUE /\ runid' = runid + 1 /\ Goto(t, "s_reset") /\ UNCHANGED <<state, exitReq, loaded, work, res, grants, afterStop>>
              ELSE Return(t, "action_error") /\ UNCHANGED <<state, exitReq, atomic, loaded, work, res, grants, runid, afterStop>>
         [] pc[t] = "s_reset" -> exitReq' = FALSE /\ Goto(t, "s_run") /\ UNCHANGED <<state, atomic, loaded, work, res, grants, runid, afterStop>>
         [] pc[t] = "s_run" -> state' = "running" /\ res' = "invalid" /\ Goto(t, "s_loop") /\ UNCHANGED <<exitReq, atomic, loaded, work, grants, runid, afterStop>>
         [] pc[t] = "s_loop" -> Goto(t, IF loaded THEN "s_slice" ELSE "s_map") /\ UNCHANGED <<state, exitReq, atomic, loaded, work, res, grants, runid, afterStop>>
         [] pc[t] = "s_slice" ->    \* one instruction per step (the exit flag is examined before every instruction)
              \/ /\ ~exitReq /\ work > 0 /\ (Work - work + 1) # ErrAt /\ work' = work - 1 /\ res' = "ok" /\ Goto(t, IF work = 1 THEN "s_poll" ELSE "s_slice")
                 /\ afterStop' = afterStop /\ UNCHANGED <<state, exitReq, atomic, loaded, grants, runid>>
              \/ /\ ~exitReq /\ work > 0 /\ (Work - work + 1) = ErrAt /\ work' = work - 1 /\ res' = "runtime_error" /\ Goto(t, "s_poll")
                 /\ UNCHANGED <<state, exitReq, atomic, loaded, grants, runid, afterStop>>
              \/ /\ (exitReq \/ work = 0) /\ res' = (IF exitReq THEN "ok" ELSE "empty") /\ Goto(t, "s_poll")   \* the exit flag is examined first
                 /\ UNCHANGED <<state, exitReq, atomic, loaded, work, grants, runid, afterStop>>
         [] pc[t] = "s_poll" ->
              IF exitReq THEN loaded' = FALSE /\ state' = "empty" /\ Goto(t, "s_map") /\ UNCHANGED <<exitReq, atomic, work, res, grants, runid, afterStop>>
              ELSE IF res = "empty" THEN loaded' = FALSE /\ Goto(t, "s_loop") /\ UNCHANGED <<state, exitReq, atomic, work, res, grants, runid, afterStop>>
              ELSE IF res = "runtime_error" THEN Goto(t, "s_map") /\ UNCHANGED <<state, exitReq, atomic, loaded, work, res, grants, runid, afterStop>>
              ELSE Goto(t, "s_loop") /\ UNCHANGED <<state, exitReq, atomic, loaded, work, res, grants, runid, afterStop>>
         [] pc[t] = "s_map" ->
              IF ReleaseAfterFinalCheckAtomically
              THEN /\ (IF exitReq THEN loaded' = FALSE /\ state' = "empty"
                       ELSE UNCHANGED loaded /\ state' = (IF res = "empty" THEN "empty" ELSE IF res = "ok" THEN "halted" ELSE "halted_error"))
                   /\ atomic' = FALSE /\ Return(t, res) /\ UNCHANGED <<exitReq, work, res, grants, runid, afterStop>>
              ELSE /\ state' = (IF res = "empty" THEN "empty" ELSE IF res = "ok" THEN "halted" ELSE "halted_error")
                   /\ Goto(t, "s_final") /\ UNCHANGED <<exitReq, atomic, loaded, work, res, grants, runid, afterStop>>
         [] pc[t] = "s_final" ->
              IF ReleaseAfterFinalCheckAtomically
              THEN /\ (IF exitReq THEN loaded' = FALSE /\ state' = "empty" ELSE UNCHANGED <<loaded, state>>)
                   /\ atomic' = FALSE /\ Return(t, res) /\ UNCHANGED <<exitReq, work, res, grants, runid, afterStop>>
              ELSE /\ (IF exitReq THEN loaded' = FALSE /\ state' = "empty" ELSE UNCHANGED <<loaded, state>>)
                   /\ Goto(t, "s_release") /\ UNCHANGED <<exitReq, atomic, work, res, grants, runid, afterStop>>
         [] pc[t] = "s_release" -> atomic' = FALSE /\ Return(t, res) /\ UNCHANGED <<state, exitReq, loaded, work, res, grants, runid, afterStop>>
         \* ---- stop
         [] pc[t] = "c_state" ->
              IF state # "running" THEN Return(t, "action_error") /\ UNCHANGED <<state, exitReq, atomic, loaded, work, res, grants, runid, afterStop>>
              ELSE IF ReleaseAfterFinalCheckAtomically THEN
                   (IF atomic THEN /\ exitReq' = TRUE /\ grants' = grants \cup {[by |-> call[t], run |-> runid]} /\ Return(t, "ok")
                                   /\ UNCHANGED <<state, atomic, loaded, work, res, runid, afterStop>>
                    ELSE Return(t, "action_error") /\ UNCHANGED <<state, exitReq, atomic, loaded, work, res, grants, runid, afterStop>>)
              ELSE Goto(t, "c_atomic") /\ UNCHANGED <<state, exitReq, atomic, loaded, work, res, grants, runid, afterStop>>
         [] pc[t] = "c_atomic" ->
              IF ~atomic THEN Return(t, "action_error") /\ UNCHANGED <<state, exitReq, atomic, loaded, work, res, grants, runid, afterStop>>
              ELSE Goto(t, "c_set") /\ UNCHANGED <<state, exitReq, atomic, loaded, work, res, grants, runid, afterStop>>
         [] pc[t] = "c_set" ->
              IF ReleaseAfterFinalCheckAtomically /\ ~atomic
              THEN Return(t, "action_error") /\ UNCHANGED <<state, exitReq, atomic, loaded, work, res, grants, runid, afterStop>>
              ELSE /\ exitReq' = TRUE /\ grants' = grants \cup {[by |-> call[t], run |-> runid]} /\ Return(t, "ok")
                   /\ UNCHANGED <<state, atomic, loaded, work, res, runid, afterStop>>
         \* ---- abort
         [] pc[t] = "a_state" ->
              IF state = "running" THEN Goto(t, IF ReleaseAfterFinalCheckAtomically THEN "c_state" ELSE "c_atomic") /\ UNCHANGED <<state, exitReq, atomic, loaded, work, res, grants, runid, afterStop>>
              ELSE IF state \in {"halted", "halted_error"} THEN Goto(t, "a_cas") /\ UNCHANGED <<state, exitReq, atomic, loaded, work, res, grants, runid, afterStop>>
              ELSE Return(t, "action_error") /\ UNCHANGED <<state, exitReq, atomic, loaded, work, res, grants, runid, afterStop>>
         [] pc[t] = "a_cas" ->
              IF ~atomic THEN atomic' = TRUE /\ Goto(t, "a_clear") /\ UNCHANGED <<state, exitReq, loaded, work, res, grants, runid, afterStop>>
              ELSE Return(t, "action_error") /\ UNCHANGED <<state, exitReq, atomic, loaded, work, res, grants, runid, afterStop>>
         [] pc[t] = "a_clear" -> loaded' = FALSE /\ state' = "empty" /\ Goto(t, "a_rel") /\ UNCHANGED <<exitReq, atomic, work, res, grants, runid, afterStop>>
         [] pc[t] = "a_rel" -> atomic' = FALSE /\ Return(t, "ok") /\ UNCHANGED <<state, exitReq, loaded, work, res, grants, runid, afterStop>>

Next == \E t \in Threads : Begin(t) \/ Step(t)
Spec == Init /\ [][Next]_vars
FairSpec == Spec /\ \A t \in Threads : WF_vars(Begin(t) \/ Step(t))

Quiet == \A t \in Threads : pc[t] = "idle" /\ calls[t] = <<>>

InvOneExecutor == ~(InExec("E") /\ InExec("C"))
InvStateMachine == state \in {"empty", "halted", "running", "halted_error"}
InvNotStuckRunning == (\A t \in Threads : ~InExec(t)) => state # "running"
\* a granted stop/abort takes effect: once everything is quiet, the scripts of the run it was granted against are gone
InvStopTakesEffect == (Quiet /\ \E g \in grants : g.run = runid) => ~loaded
InvAtomicFreeWhenQuiet == Quiet => ~atomic
\* (a VM reported halted holds the script it halted in: judged on observed outcomes only, StateTellsContentO - this
\*  two-call model lets a second start reset the exit request between another executor's poll and its result mapping)
Termination == <>Quiet

\* ---- outcomes: what the embedder can observe once both threads are done
Outcome == [e |-> rets["E"], c |-> rets["C"], state |-> state, loaded |-> loaded]
\* every quiescent state registers its outcome (TLC register 1; run with one worker)
Collect == IF Quiet THEN TLCSet(1, TLCGet(1) \cup {Outcome}) ELSE TRUE
ASSUME TLCSet(1, {})
\* the conformance verdict: every outcome observed on the real runtime is an outcome of this model
\* the property's own demand on an outcome: a stop/abort that was acknowledged with ok has taken effect
\* once everything is quiet - no script of the VM is left (nothing reloads scripts in these histories)
Granted(o, cc) == \E i \in 1..Len(o.c) : i <= Len(cc) /\ cc[i] \in {"stop", "abort"} /\ o.c[i] = "ok"
\* ... and it takes effect within a bounded number of instructions: o.after counts the instructions the
\* executor completed after the first acknowledged stop/abort returned (the one in flight may finish)
AfterBound == 2
StopTakesEffectO(o, cc) == Granted(o, cc) => ~o.loaded
StopIsPromptO(o, cc) == Granted(o, cc) => o.after <= AfterBound
\* at most one executor: under a lockstep schedule no call was admitted as executor while the other thread was parked
\* inside its own executor section (InvOneExecutor of the model, observed)
OneExecutorO(o) == o.overlap = 0
\* the state machine: a VM reported halted holds the script it halted in (InvStateTellsContent, observed)
StateTellsContentO(o) == (o.state = "halted") => o.loaded
\* an assembly step executes exactly one instruction from every reachable state - also on a script loaded after a run
\* that a stop / abort ended (o.poststeps such steps executed o.postexec instructions and all returned ok)
StepIsOneAfterO(o) == o.postexec = o.poststeps
Core(o) == [e |-> o.e, c |-> o.c, state |-> o.state, loaded |-> o.loaded]
AllObservedAllowed ==
    LET missing == { o \in Observed : Core(o) \notin TLCGet(1) }
        cc == IF CallsC = <<>> THEN <<>> ELSE CallsC
        ineffective == { o \in Observed : ~StopTakesEffectO(o, cc) }
        late == { o \in Observed : ~StopIsPromptO(o, cc) }
        twoexec == { o \in Observed : ~OneExecutorO(o) }
        badstate == { o \in Observed : ~StateTellsContentO(o) }
        badstep == { o \in Observed : ~StepIsOneAfterO(o) } IN
    /\ PrintT(<<"REACHED", Cardinality(TLCGet(1))>>)
    /\ \A o \in missing : PrintT(<<"NOTALLOWED", o>>)        \* mechanism drift (reported as a note)
    /\ \A o \in ineffective : PrintT(<<"NOTEFFECTIVE", o>>)  \* the property oracle
    /\ \A o \in late : PrintT(<<"KEEPSEXECUTING", o>>)       \* the property oracle
    /\ \A o \in twoexec : PrintT(<<"TWOEXECUTORS", o>>)       \* the property oracle
    /\ \A o \in badstate : PrintT(<<"HALTEDBUTEMPTY", o>>)     \* the property oracle
    /\ \A o \in badstep : PrintT(<<"STEPISNOTONE", o>>)        \* the property oracle
    /\ ineffective = {} /\ late = {} /\ twoexec = {} /\ badstate = {} /\ badstep = {}
=============================================================================
