---------------------------- MODULE Isolation_MC ----------------------------
(* Design check + case generator for C20 (2-safety over a product of runs).                       *)
(* Three worlds are advanced in lock-step:                                                         *)
(*   w   the process under observation: P's instance together with Q's instance,                   *)
(*   a1  a fresh process in which P runs alone,   a2  a second fresh process in which P runs alone *)
(* Step("P", s) executes s for P in all three worlds, Step("Q", s) executes s for Q in w only;     *)
(* every interleaving of P's and Q's statements is a behaviour. DestroyQ (only before P's first    *)
(* statement) makes the rest of the behaviour the setting "P after Q"; otherwise it is "P beside   *)
(* Q" (and "P alone" while Q has done nothing).                                                    *)
(*   NonInterferenceAfter / NonInterferenceBeside: P's output in w equals P's output in a1         *)
(*   Deterministic: P's output in a1 equals P's output in a2                                       *)
(* The formulas are checked statement by statement (niOK / detOK), which makes them prefix         *)
(* properties, so they are invariants and the view may forget the histories.                       *)
(* With Emit a case "OUT {P, Q, sched, setting}" is printed for every behaviour prefix that ends   *)
(* with a statement of P (statements of Q after P's last one cannot matter to P's output),         *)
(* together with the model's own prediction ni / det for it (used as a drift indicator only).      *)
EXTENDS Isolation, Json

CONSTANTS MaxP, MaxQ,      \* statements per program (the leading create is not counted)
          Stmts,           \* statement alphabet (without create)
          Addrs,           \* possible address bases of a process
          Emit

VARIABLES w, a1, a2, hp, hq, sched, outP, out1, out2, dead, niOK, detOK
vars == <<w, a1, a2, hp, hq, sched, outP, out1, out2, dead, niOK, detOK>>

S(k, n) == [k |-> k, n |-> n]
\* ---- alphabets (chosen per configuration: Stmts <- ...)
StmtsDecimals == {S("print", 0), S("evalprint", 0), S("tofixed", 2), S("tofixed", -1), S("fixedprint", 3), S("fmtfixed", 2)}
StmtsCounter  == {S("counter", 0), S("print", 0), S("define", 1), S("usedef", 0), S("defuse", 2)}
StmtsStore    == {S("setg", 1), S("setg", 2), S("readg", 0), S("loadcfg", 1), S("readcfg", 0), S("collstr", 0)}
StmtsTypes    == {S("typeorder", 0), S("objstr", 0), S("objmap", 0), S("readg", 0)}
StmtsExt      == {S("extecho", 1), S("extecho", 2), S("extquiet", 0), S("readg", 0)}
StmtsAll      == {S("print", 0), S("evalprint", 0), S("tofixed", 2), S("tofixed", -1), S("fixedprint", 3), S("fmtfixed", 2), S("counter", 0),
                  S("define", 1), S("usedef", 0), S("defuse", 2), S("setg", 1), S("readg", 0), S("loadcfg", 1), S("readcfg", 0),
                  S("typeorder", 0), S("collstr", 0), S("objstr", 0), S("objmap", 0), S("extecho", 1), S("extquiet", 0), S("warn", 0), S("fmtwarn", 0)}
StmtsWarn     == {S("warn", 0), S("fmtwarn", 0), S("readg", 0)}
Creates(who) == IF who = "P" THEN {S("create", 1)} ELSE {S("create", 1), S("create", 2)}

Init == /\ \E b \in Addrs : w = NewWorld(b)
        /\ \E b \in Addrs : a1 = NewWorld(b)
        /\ \E b \in Addrs : a2 = NewWorld(b)
        /\ hp = <<>> /\ hq = <<>> /\ sched = <<>> /\ outP = <<>> /\ out1 = <<>> /\ out2 = <<>>
        /\ dead = FALSE /\ niOK = TRUE /\ detOK = TRUE

Setting == IF dead THEN "after" ELSE IF hq = <<>> THEN "alone" ELSE "beside"
\* ni / det: what this model (with the deviations switched on in the configuration) predicts for the case
CaseJson(p, q, sc, dd, ni, det) == ToJson([P |-> p, Q |-> q, sched |-> sc, ni |-> ni, det |-> det,
                                           setting |-> IF dd THEN "after" ELSE IF q = <<>> THEN "alone" ELSE "beside"])

StepP(s) ==
    /\ Enabled(w, "P", s) /\ (s.k # "create" => Len(hp) <= MaxP)
    /\ LET r == Apply(w, "P", s) r1 == Apply(a1, "P", s) r2 == Apply(a2, "P", s) IN
       /\ w' = r.w /\ a1' = r1.w /\ a2' = r2.w
       /\ outP' = Append(outP, r.out) /\ out1' = Append(out1, r1.out) /\ out2' = Append(out2, r2.out)
       /\ niOK' = (niOK /\ r.out = r1.out) /\ detOK' = (detOK /\ r1.out = r2.out)
    /\ hp' = Append(hp, s) /\ sched' = Append(sched, "P") /\ UNCHANGED <<hq, dead>>
    /\ (Emit /\ s.k # "create" => PrintT("OUT " \o CaseJson(hp', hq, sched', dead, niOK', detOK')))
StepQ(s) ==
    /\ ~dead /\ Enabled(w, "Q", s) /\ (s.k # "create" => Len(hq) <= MaxQ)
    /\ w' = Apply(w, "Q", s).w
    /\ hq' = Append(hq, s) /\ sched' = Append(sched, "Q")
    /\ UNCHANGED <<a1, a2, hp, outP, out1, out2, dead, niOK, detOK>>
DestroyQ ==
    /\ ~dead /\ hq # <<>> /\ hp = <<>>
    /\ dead' = TRUE /\ w' = Destroy(w, "Q") /\ sched' = Append(sched, "D")
    /\ UNCHANGED <<a1, a2, hp, hq, outP, out1, out2, niOK, detOK>>
Step(who, s) == IF who = "P" THEN StepP(s) ELSE StepQ(s)

Next == \/ \E who \in Names : \E s \in Stmts \cup Creates(who) : Step(who, s)
        \/ DestroyQ
Spec == Init /\ [][Next]_vars

\* design check: the histories are forgotten (the formulas are carried by niOK / detOK)
View == <<w, a1, a2, dead, niOK, detOK, Len(hp), Len(hq)>>

InvNonInterferenceAfter  == dead => niOK
InvNonInterferenceBeside == ~dead => niOK
InvDeterministic         == detOK
\* the step-wise flags say the same as the functional formulas of Isolation.tla
InvFunctionalForm ==
    /\ outP = Run(NewWorld(w.heap), [i \in 1..Len(sched) |->
                     IF sched[i] = "D" THEN [who |-> "D"]
                     ELSE [who |-> sched[i], s |-> (IF sched[i] = "P" THEN hp ELSE hq)[Cardinality({j \in 1..i : sched[j] = sched[i]})]]], "P")
    /\ out1 = OutAlone(hp, a1.heap)
    /\ (niOK <=> outP = out1) /\ (detOK <=> out1 = out2)
=============================================================================
