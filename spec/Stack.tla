------------------------------- MODULE Stack -------------------------------
(***************************************************************************)
(* C05: the operand stack of one script context is partitioned by frames;  *)
(* a scope consumes only what it produced and yields exactly one value.    *)
(*                                                                         *)
(* A context is c = [fids, bases, slots]:                                  *)
(*   fids  : identities of the live frames, outermost first                *)
(*   bases : for each frame the stack height at which its region starts    *)
(*   slots : the operand stack (printed values)                            *)
(* The abstract machine has one action per way the real VM changes this    *)
(* state (runtime.cpp execute_do, frame::next, the opcodes, the operators  *)
(* that push or pop frames).  Each action has an IDEAL form (what C05      *)
(* states) and, selected by a constant, the form the pinned code was found *)
(* to have (named deviations, DESIGN.md F5a/F5c).                          *)
(* The property formulas are relations between consecutive states, so that *)
(* they can be evaluated both on this machine (Stack_MC) and on states     *)
(* logged from the real VM (Stack_Trace).                                  *)
(***************************************************************************)
EXTENDS Integers, Sequences, FiniteSets, TLC

CONSTANTS FrameDoneAlwaysYields,   \* TRUE ideal; FALSE: a region emptied before completion yields nothing (F5c)
          LeaveClearsRegions       \* TRUE ideal; FALSE: breakOut pops frames without clearing their regions (F5a)

NilS == "nil"
Top(c) == Len(c.fids)
Height(c) == Len(c.slots)
Hi(c, i) == IF i < Len(c.fids) THEN c.bases[i + 1] ELSE Len(c.slots)
Region(c, i) == SubSeq(c.slots, c.bases[i] + 1, Hi(c, i))
Prefix(s, n) == SubSeq(s, 1, n)
Last(s) == s[Len(s)]

EmptyCtx == [fids |-> <<>>, bases |-> <<>>, slots |-> <<>>]
StartCtx(fid) == [fids |-> <<fid>>, bases |-> <<0>>, slots |-> <<>>]

---------------------------------------------------------------------------
(* actions (functions from state and parameters to the next state)         *)

\* the executing (top) frame pops npop of ITS OWN values and pushes `pushed`
CanCompute(c, npop) == Top(c) > 0 /\ npop <= Height(c) - c.bases[Top(c)]
Compute(c, npop, pushed) == [c EXCEPT !.slots = Prefix(c.slots, Height(c) - npop) \o pushed]

\* an operator that runs a block: pops its operands, pushes a frame; the operator's own (nil)
\* result lands in the NEW region (call_unary/call_binary push it after the frame was pushed)
Enter(c, npop, fid) ==
    LET s1 == Prefix(c.slots, Height(c) - npop)
    IN [fids |-> Append(c.fids, fid), bases |-> Append(c.bases, Len(s1)), slots |-> Append(s1, NilS)]

\* statement separator / iteration restart: the executing frame's region is emptied
Clear(c) == [c EXCEPT !.slots = Prefix(c.slots, c.bases[Top(c)])]

\* the top frame ran to completion: its region is replaced by exactly one value
Done(c) ==
    LET t == Top(c)
        reg == Region(c, t)
        below == Prefix(c.slots, c.bases[t])
        yield == IF reg # <<>> THEN <<Last(reg)>>
                 ELSE IF FrameDoneAlwaysYields /\ t > 1 THEN <<NilS>>
                 ELSE <<>>
    IN [fids |-> Prefix(c.fids, t - 1), bases |-> Prefix(c.bases, t - 1), slots |-> below \o yield]

\* breakOut / exit: frames above k are removed, `vals` (0 or 1 value) is handed to frame k
Leave(c, k, vals) ==
    [fids |-> Prefix(c.fids, k), bases |-> Prefix(c.bases, k),
     slots |-> (IF LeaveClearsRegions THEN Prefix(c.slots, c.bases[k + 1]) ELSE c.slots) \o vals]

\* throw / runtime error caught by frame k: frames above k are removed, frame k restarts with
\* its handler; whatever is left in frame k's own region belongs to the handler frame itself
Unwind(c, k, junk) ==
    [fids |-> Prefix(c.fids, k), bases |-> Prefix(c.bases, k), slots |-> Prefix(c.slots, c.bases[k]) \o junk]

---------------------------------------------------------------------------
(* property formulas                                                       *)

Partition(c) ==
    /\ Len(c.bases) = Len(c.fids)
    /\ \A i \in 1..Len(c.bases) : c.bases[i] >= 0
    /\ \A i \in 1..(Len(c.bases) - 1) : c.bases[i] <= c.bases[i + 1]
    /\ Len(c.bases) > 0 => c.bases[Len(c.bases)] <= Len(c.slots)

\* length of the common prefix of two frame-identity sequences
RECURSIVE CommonFrom(_, _, _)
CommonFrom(a, b, i) == IF i <= Len(a) /\ i <= Len(b) /\ a[i] = b[i] THEN CommonFrom(a, b, i + 1) ELSE i - 1
Common(c, d) == CommonFrom(c.fids, d.fids, 1)

\* NoStealing(c, d): going from c to d, every frame that survives keeps its base, and every
\* operand that did not belong to the executing frame (or to frames that disappeared) is intact
\* (unwind: frame k takes over as handler and restarts - its own region is its own business)
Protected(c, k, unwind) ==     \* stack height below which the step must not touch anything
    IF k = 0 THEN 0
    ELSE IF k < Top(c) /\ ~unwind THEN c.bases[k + 1] \* frames k+1.. disappeared: frame k's pending operands end there
    ELSE c.bases[k]                           \* frame k is the executing frame: it may use its own region
NoStealingU(c, d, unwind) ==
    LET k == Common(c, d)
        p == Protected(c, k, unwind) IN
    /\ \A i \in 1..k : d.bases[i] = c.bases[i]
    /\ Len(d.slots) >= p
    /\ Prefix(d.slots, p) = Prefix(c.slots, p)
    /\ \A i \in (k + 1)..Top(d) : d.bases[i] >= p
NoStealing(c, d) == NoStealingU(c, d, FALSE)

\* when frames disappear and control returns into a pending expression of frame k, they
\* contribute at most one value (exactly one when a block completed and has a caller)
Removed(c, d) == Common(c, d) < Top(c)
OneValueLoose(c, d) ==
    (Removed(c, d) /\ Common(c, d) = Top(d)) =>
        LET k == Common(c, d) IN
        IF k = 0 THEN Len(d.slots) <= 1 ELSE Len(d.slots) - c.bases[k + 1] \in {0, 1}
OneValueStrict(c, d) ==    \* for a completed block with a caller
    LET k == Common(c, d) IN
    (k >= 1 /\ k = Top(c) - 1 /\ k = Top(d)) =>
        /\ Len(d.slots) = c.bases[k + 1] + 1
        /\ Last(d.slots) = (IF Region(c, k + 1) # <<>> THEN Last(Region(c, k + 1)) ELSE NilS)

OneValueCount(c, d) ==     \* as OneValueStrict, counting only (for states logged around exit behaviours)
    LET k == Common(c, d) IN
    (k >= 1 /\ k = Top(c) - 1 /\ k = Top(d)) => Len(d.slots) = c.bases[k + 1] + 1

StatementClean(d) == Top(d) > 0 => Len(d.slots) = d.bases[Top(d)]
LoopClean(d) == Top(d) > 0 => Len(d.slots) - d.bases[Top(d)] <= 1
=============================================================================
