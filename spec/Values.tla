------------------------------- MODULE Values -------------------------------
(***************************************************************************)
(* C06: printed values denote the same value.  Strings are sequences of    *)
(* symbolic characters; Quote is what str must print for a string (the     *)
(* contents between double quotes, every double quote doubled), Unquote is *)
(* what a string literal denotes (doubled quotes denote one quote; a       *)
(* literal may also be delimited by single quotes, then single quotes are  *)
(* doubled instead).                                                       *)
(***************************************************************************)
EXTENDS Integers, Sequences, FiniteSets, TLC

DQ == "\""
SQ == "'"

RECURSIVE Doubled(_, _)
Doubled(s, q) == IF s = <<>> THEN <<>> ELSE (IF Head(s) = q THEN <<q, q>> ELSE <<Head(s)>>) \o Doubled(Tail(s), q)
Quote(s) == <<DQ>> \o Doubled(s, DQ) \o <<DQ>>
QuoteWith(s, q) == <<q>> \o Doubled(s, q) \o <<q>>

\* the value a literal denotes: [ok, s]; lit must start and end with the same quote character
RECURSIVE Undouble(_, _)
Undouble(s, q) ==
    IF s = <<>> THEN [ok |-> TRUE, s |-> <<>>]
    ELSE IF Head(s) = q THEN
            (IF Len(s) >= 2 /\ s[2] = q THEN LET r == Undouble(SubSeq(s, 3, Len(s)), q) IN [ok |-> r.ok, s |-> <<q>> \o r.s]
             ELSE [ok |-> FALSE, s |-> <<>>])      \* a lone quote inside the literal ends it early
    ELSE LET r == Undouble(Tail(s), q) IN [ok |-> r.ok, s |-> <<Head(s)>> \o r.s]
Unquote(lit) ==
    IF Len(lit) < 2 \/ lit[1] \notin {DQ, SQ} \/ lit[Len(lit)] # lit[1] THEN [ok |-> FALSE, s |-> <<>>]
    ELSE Undouble(SubSeq(lit, 2, Len(lit) - 1), lit[1])

\* round trip laws
QuoteRoundTrips(s) == Unquote(Quote(s)) = [ok |-> TRUE, s |-> s]
SingleQuoteRoundTrips(s) == Unquote(QuoteWith(s, SQ)) = [ok |-> TRUE, s |-> s]
=============================================================================
