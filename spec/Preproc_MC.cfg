SPECIFICATION Spec
CONSTANTS
  Depth = 3
  Emit = FALSE
  Profile = "core"
  Dev = {}
INVARIANTS InvInactive InvStrings InvPassThrough InvRefEq InvCond InvUndef InvRun
