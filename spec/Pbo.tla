-------------------------------- MODULE Pbo --------------------------------
(***************************************************************************)
(* C17 - PBO archives are read faithfully; damaged ones are rejected       *)
(* safely.                                                                 *)
(*                                                                         *)
(*   archive  [props   |-> Seq(<<key, value>>),                            *)
(*             entries |-> Seq([name, size, blob])]                        *)
(*            blob is an opaque identity of the entry's content (strings   *)
(*            are atomic in TLC): a symbolic id in the design check, the   *)
(*            hex text of the packed bytes in trace validation.  size is   *)
(*            the number of content bytes.                                 *)
(*   Layout   byte offsets of every record of the packed file, integer     *)
(*            arithmetic over string lengths:                              *)
(*              version header entry   "" NUL + "sreV" + 4 x uint32        *)
(*              property i             key NUL value NUL                   *)
(*              properties terminator  NUL                                 *)
(*              entry header i         name NUL + 5 x uint32 (packing      *)
(*                                     method, original size, reserved,    *)
(*                                     timestamp, data size)               *)
(*              entries terminator     "" NUL + 5 x uint32 zero            *)
(*              data region            the contents, concatenated          *)
(*              trailing checksum      0x00 + 20 byte sha1                 *)
(*   fault    [kind, n, i, delta]                                          *)
(*              none                   the file as packed                  *)
(*              truncate  n            only the first n bytes exist        *)
(*              corruptlen i delta     the data-size field of entry i      *)
(*                                     holds size + delta                  *)
(*              absent                 there is no file at the path        *)
(*   reader   the phases VersionHeader, Prop, PropsEnd, EntryHeader,       *)
(*            EntriesEnd, DataOffsets as steps of the function Apply on a  *)
(*            reader state; Read(archive, fault) runs them to the          *)
(*            REFERENCE OUTCOME  Rejected  or  Exposes(S), S = the entries *)
(*            that are intact under the fault.                             *)
(*   observed [good, props, entries, direct, vfs, crash, before, after]    *)
(*            what an implementation showed for (archive, fault):          *)
(*              good     the archive was accepted                          *)
(*              props    Seq(<<key, value>>) reported                      *)
(*              entries  Seq([name, size]) reported                        *)
(*              direct   per packed entry [name, st, hex]: the bytes the   *)
(*                       archive reader returned ("ok") or not             *)
(*              vfs      the same through the virtual file system under    *)
(*                       the archive's prefix                              *)
(*              crash    "" or why the run did not finish                  *)
(*              before/after  directory listing [name, sha] around the run *)
(***************************************************************************)
EXTENDS Integers, Sequences, FiniteSets

FieldBytes == 20             \* 5 x uint32 (the version entry: "sreV" + 4 x uint32)
VersionLen == 1 + FieldBytes
TerminatorLen == 1 + FieldBytes
ChecksumLen == 1 + 20
SizeFieldAt == 16            \* offset of the data-size field behind the name's NUL

NP(a) == Len(a.props)
NE(a) == Len(a.entries)
PropLen(p) == Len(p[1]) + 1 + Len(p[2]) + 1
HdrLen(e) == Len(e.name) + 1 + FieldBytes
Rec(s, n) == [start |-> s, end |-> s + n]    \* the byte range [start, end)

\* ---------------------------------------------------------------------------
\* Layout
\* ---------------------------------------------------------------------------
RECURSIVE PropOff(_, _)
PropOff(a, i) == IF i = 1 THEN VersionLen ELSE PropOff(a, i - 1) + PropLen(a.props[i - 1])
PropsEndOff(a) == PropOff(a, NP(a) + 1)
RECURSIVE HdrOff(_, _)
HdrOff(a, i) == IF i = 1 THEN PropsEndOff(a) + 1 ELSE HdrOff(a, i - 1) + HdrLen(a.entries[i - 1])
HdrsEndOff(a) == HdrOff(a, NE(a) + 1)
DataStart(a) == HdrsEndOff(a) + TerminatorLen
RECURSIVE DataOff(_, _)
DataOff(a, i) == IF i = 1 THEN DataStart(a) ELSE DataOff(a, i - 1) + a.entries[i - 1].size
DataEnd(a) == DataOff(a, NE(a) + 1)
Total(a) == DataEnd(a) + ChecksumLen

Layout(a) ==
    [ver       |-> Rec(0, VersionLen),
     props     |-> [i \in 1..NP(a) |-> Rec(PropOff(a, i), PropLen(a.props[i]))],
     propsEnd  |-> Rec(PropsEndOff(a), 1),
     hdrs      |-> [i \in 1..NE(a) |-> Rec(HdrOff(a, i), HdrLen(a.entries[i]))],
     sizeField |-> [i \in 1..NE(a) |-> HdrOff(a, i) + Len(a.entries[i].name) + 1 + SizeFieldAt],
     hdrsEnd   |-> Rec(HdrsEndOff(a), TerminatorLen),
     data      |-> [i \in 1..NE(a) |-> Rec(DataOff(a, i), a.entries[i].size)],
     checksum  |-> Rec(DataEnd(a), ChecksumLen),
     total     |-> Total(a)]

\* ---------------------------------------------------------------------------
\* faults
\* ---------------------------------------------------------------------------
NoFault == [kind |-> "none", n |-> 0, i |-> 0, delta |-> 0]
Truncate(n) == [kind |-> "truncate", n |-> n, i |-> 0, delta |-> 0]
CorruptLen(i, d) == [kind |-> "corruptlen", n |-> 0, i |-> i, delta |-> d]
Absent == [kind |-> "absent", n |-> 0, i |-> 0, delta |-> 0]
\* the original-size field of entry i (meaningful for packed entries only; all entries here are stored) is changed:
\* the archive is as intact as before - no reader decision may depend on that field
CorruptOrig(i, d) == [kind |-> "corruptorig", n |-> 0, i |-> i, delta |-> d]

FileLen(a, f) == IF f.kind = "truncate" THEN f.n ELSE IF f.kind = "absent" THEN 0 ELSE Total(a)
Inside(r, len) == r.end <= len
\* the data-size field as the file states it
StatedSize(a, f, j) == IF f.kind = "corruptlen" /\ f.i = j THEN a.entries[j].size + f.delta ELSE a.entries[j].size
\* the field is an unsigned 32 bit number: a negative value here stands for 2^32 + value, which is larger than
\* any file of the model (TLC integers are 32 bit, so the wrapped value itself is not representable)
Huge(a, f, j) == StatedSize(a, f, j) < 0
\* where a reader that accumulates the stated sizes behind the header table finds entry j
RECURSIVE DerivedOff(_, _, _)
DerivedOff(a, f, j) == IF j = 1 THEN DataStart(a) ELSE DerivedOff(a, f, j - 1) + StatedSize(a, f, j - 1)

HdrInside(a, f, j) == f.kind # "absent" /\ HdrOff(a, j) + HdrLen(a.entries[j]) <= FileLen(a, f)
TableInside(a, f) == f.kind # "absent" /\ DataStart(a) <= FileLen(a, f)

\* entry j is intact: its header and the whole header table are inside the file, the size it
\* states is its size, and all its data bytes are inside the file where the table says
Intact(a, f, j) ==
    /\ TableInside(a, f)
    /\ StatedSize(a, f, j) = a.entries[j].size
    /\ \A k \in 1..j : ~Huge(a, f, k)
    /\ DerivedOff(a, f, j) + a.entries[j].size <= FileLen(a, f)
    /\ (a.entries[j].size = 0 \/ DerivedOff(a, f, j) = DataOff(a, j))
IntactSet(a, f) == { j \in 1..NE(a) : Intact(a, f, j) }

\* the record in which the first missing byte of a truncated file lies
PhaseAt(a, n) ==
    IF n < VersionLen THEN "VersionHeader"
    ELSE IF n < PropsEndOff(a) THEN "Prop"
    ELSE IF n < PropsEndOff(a) + 1 THEN "PropsEnd"
    ELSE IF n < HdrsEndOff(a) THEN "EntryHeader"
    ELSE IF n < DataStart(a) THEN "EntriesEnd"
    ELSE IF n < DataEnd(a) THEN "Data"
    ELSE "Checksum"

\* does a reader that follows the stated sizes run past the end of the file?
Overrun(a, f) == \E j \in 1..NE(a) : Huge(a, f, j) \/ DerivedOff(a, f, j) + StatedSize(a, f, j) > FileLen(a, f)

FaultClass(a, f) ==
    IF f.kind = "none" THEN "None"
    ELSE IF f.kind = "absent" THEN "Absent"
    ELSE IF f.kind = "truncate" THEN "Truncate." \o PhaseAt(a, f.n)
    ELSE IF f.kind = "corruptorig" THEN "CorruptOrig"
    ELSE IF Overrun(a, f) THEN "CorruptLen.overrun" ELSE "CorruptLen.inbounds"

\* ---------------------------------------------------------------------------
\* the reader: one Apply per phase.  variant = "reference" is THE reference; the other
\* variants are deliberately wrong readers used by the design check only (non-vacuity):
\*   "exposeCut"         DataOffsets exposes every listed entry, also when its data is cut
\*   "crashOnCutTable"   a header table that ends early is not noticed: the run dies
\*   "createsAbsent"     an absent path is created as a new empty archive
\*   "dropsEmptyEntries" entries of size 0 are left out of the entry list
\* ---------------------------------------------------------------------------
Start == [phase |-> "VersionHeader", k |-> 1, pos |-> 0, props |-> <<>>, entries |-> <<>>,
          status |-> "reading", exposed |-> {}]
Reject(st) == [st EXCEPT !.status = "rejected", !.exposed = {}, !.phase = "end"]
Die(st) == [st EXCEPT !.status = "crashed", !.exposed = {}, !.phase = "end"]

AfterVersion(a) == IF NP(a) > 0 THEN "Prop" ELSE "PropsEnd"
AfterPropsEnd(a) == IF NE(a) > 0 THEN "EntryHeader" ELSE "EntriesEnd"

VersionHeader(v, a, f, st) ==
    IF f.kind = "absent" \/ ~Inside(Rec(0, VersionLen), FileLen(a, f)) THEN Reject(st)
    ELSE [st EXCEPT !.phase = AfterVersion(a), !.k = 1, !.pos = VersionLen]

Prop(v, a, f, st) ==
    LET r == Rec(PropOff(a, st.k), PropLen(a.props[st.k]))
    IN IF ~Inside(r, FileLen(a, f)) THEN Reject(st)
       ELSE [st EXCEPT !.props = Append(@, a.props[st.k]), !.pos = r.end,
                       !.k = IF st.k = NP(a) THEN 1 ELSE st.k + 1,
                       !.phase = IF st.k = NP(a) THEN "PropsEnd" ELSE "Prop"]

PropsEnd(v, a, f, st) ==
    IF ~Inside(Rec(PropsEndOff(a), 1), FileLen(a, f)) THEN Reject(st)
    ELSE [st EXCEPT !.phase = AfterPropsEnd(a), !.k = 1, !.pos = PropsEndOff(a) + 1]

EntryHeader(v, a, f, st) ==
    LET r == Rec(HdrOff(a, st.k), HdrLen(a.entries[st.k]))
    IN IF ~Inside(r, FileLen(a, f)) THEN (IF v = "crashOnCutTable" THEN Die(st) ELSE Reject(st))
       ELSE [st EXCEPT !.entries = IF v = "dropsEmptyEntries" /\ StatedSize(a, f, st.k) = 0 THEN @
                                   ELSE Append(@, [name |-> a.entries[st.k].name, size |-> StatedSize(a, f, st.k)]),
                       !.pos = r.end,
                       !.k = IF st.k = NE(a) THEN 1 ELSE st.k + 1,
                       !.phase = IF st.k = NE(a) THEN "EntriesEnd" ELSE "EntryHeader"]

EntriesEnd(v, a, f, st) ==
    IF ~Inside(Rec(HdrsEndOff(a), TerminatorLen), FileLen(a, f)) THEN (IF v = "crashOnCutTable" THEN Die(st) ELSE Reject(st))
    ELSE [st EXCEPT !.phase = "DataOffsets", !.k = 1, !.pos = DataStart(a)]

DataOffsets(v, a, f, st) ==
    [st EXCEPT !.phase = "end", !.status = "done",
               !.exposed = IF v = "exposeCut" THEN 1..NE(a) ELSE IntactSet(a, f)]

Apply(v, a, f, st) ==
    CASE st.phase = "VersionHeader" -> VersionHeader(v, a, f, st)
      [] st.phase = "Prop" -> Prop(v, a, f, st)
      [] st.phase = "PropsEnd" -> PropsEnd(v, a, f, st)
      [] st.phase = "EntryHeader" -> EntryHeader(v, a, f, st)
      [] st.phase = "EntriesEnd" -> EntriesEnd(v, a, f, st)
      [] st.phase = "DataOffsets" -> DataOffsets(v, a, f, st)
      [] OTHER -> st

RECURSIVE Run(_, _, _, _)
Run(v, a, f, st) == IF st.status # "reading" THEN st ELSE Run(v, a, f, Apply(v, a, f, st))

Outcome(st) ==
    IF st.status # "done" THEN [k |-> "Rejected", S |-> {}, props |-> <<>>, entries |-> <<>>]
    ELSE [k |-> "Exposes", S |-> st.exposed, props |-> st.props, entries |-> st.entries]

\* THE REFERENCE OUTCOME
Read(a, f) == Outcome(Run("reference", a, f, Start))

\* ---------------------------------------------------------------------------
\* observations
\* ---------------------------------------------------------------------------
PrefixOf(a) == LET P == { i \in 1..NP(a) : a.props[i][1] = "prefix" }
               IN IF P = {} THEN "" ELSE a.props[CHOOSE i \in P : \A j \in P : i <= j][2]
HasPrefix(a) == \E i \in 1..NP(a) : a.props[i][1] = "prefix" /\ a.props[i][2] # ""

ListedEntries(a) == [j \in 1..NE(a) |-> [name |-> a.entries[j].name, size |-> a.entries[j].size]]
FilesAt(f) == IF f.kind = "absent" THEN <<>> ELSE <<[name |-> "x.pbo", sha |-> "packed"]>>

Got(a, j, ok, content) == IF ok THEN [name |-> a.entries[j].name, st |-> "ok", hex |-> content]
                          ELSE [name |-> a.entries[j].name, st |-> "notfound", hex |-> ""]

\* what a reader of kind v that ended in state st shows (the content of a non-intact entry is "cut")
ObsOf(v, a, f, st) ==
    LET out == Outcome(st)
        content(j) == IF j \in IntactSet(a, f) \/ (a.entries[j].size = 0 /\ HdrInside(a, f, j)) THEN a.entries[j].blob ELSE "cut"
    IN [good |-> out.k = "Exposes", props |-> out.props, entries |-> out.entries,
        direct |-> [j \in 1..NE(a) |-> Got(a, j, j \in out.S, content(j))],
        vfs |-> [j \in 1..NE(a) |-> Got(a, j, j \in out.S /\ HasPrefix(a), content(j))],
        crash |-> IF st.status = "crashed" THEN "signal" ELSE "",
        before |-> FilesAt(f),
        after |-> IF v = "createsAbsent" /\ f.kind = "absent" THEN <<[name |-> "x.pbo", sha |-> "created"]>> ELSE FilesAt(f)]

\* ---------------------------------------------------------------------------
\* the formulas (o = what was observed for archive a under fault f)
\* ---------------------------------------------------------------------------
Returned(x) == x.st = "ok"
GotAt(s, j) == IF j <= Len(s) THEN s[j] ELSE [name |-> "", st |-> "missing", hex |-> ""]

\* no fault => exactly the stored props, entry list and bytes
FaithfulProps(a, f, o) == f.kind = "none" => (o.good /\ o.props = a.props)
FaithfulEntries(a, f, o) == f.kind = "none" => (o.good /\ o.entries = ListedEntries(a))
FaithfulReader(a, f, o) ==
    f.kind = "none" => \A j \in 1..NE(a) : Returned(GotAt(o.direct, j)) /\ GotAt(o.direct, j).hex = a.entries[j].blob
FaithfulVfs(a, f, o) ==
    (f.kind = "none" /\ HasPrefix(a)) => \A j \in 1..NE(a) : Returned(GotAt(o.vfs, j)) /\ GotAt(o.vfs, j).hex = a.entries[j].blob
Faithful(a, f, o) == FaithfulProps(a, f, o) /\ FaithfulEntries(a, f, o) /\ FaithfulReader(a, f, o) /\ FaithfulVfs(a, f, o)
\* the reader phase whose result is not the stored one ("" if Faithful holds)
FaithfulPhase(a, f, o) ==
    IF ~FaithfulProps(a, f, o) THEN "Prop"
    ELSE IF ~FaithfulEntries(a, f, o) THEN "EntryHeader"
    ELSE IF ~FaithfulReader(a, f, o) THEN "DataOffsets"
    ELSE IF ~FaithfulVfs(a, f, o) THEN "Vfs"
    ELSE ""

\* under a fault every entry whose bytes are returned is intact and its bytes are the packed
\* bytes (an empty entry whose header is inside the file has no byte that could be missing)
ExposureOk(a, f, j, x) ==
    Returned(x) => /\ x.hex = a.entries[j].blob
                   /\ (j \in IntactSet(a, f) \/ (a.entries[j].size = 0 /\ HdrInside(a, f, j)))
OnlyIntactExposed(a, f, o) ==
    f.kind # "none" => \A j \in 1..NE(a) : ExposureOk(a, f, j, GotAt(o.direct, j)) /\ ExposureOk(a, f, j, GotAt(o.vfs, j))

\* directory listing and file hashes unchanged; an absent path creates nothing
NoSideEffects(a, f, o) == o.after = o.before

NeverCrashes(a, f, o) == o.crash = ""

\* the names of the formulas the observation contradicts, with the spec-level place
\*   NeverCrashes / NoSideEffects / OnlyIntactExposed : the fault class
\*   Faithful                                         : the reader phase
Violations(a, f, o) ==
       (IF ~NeverCrashes(a, f, o) THEN <<[why |-> "NeverCrashes", op |-> FaultClass(a, f)]>> ELSE <<>>)
    \o (IF ~NoSideEffects(a, f, o) THEN <<[why |-> "NoSideEffects", op |-> FaultClass(a, f)]>> ELSE <<>>)
    \o (IF NeverCrashes(a, f, o) /\ ~Faithful(a, f, o) THEN <<[why |-> "Faithful", op |-> FaithfulPhase(a, f, o)]>> ELSE <<>>)
    \o (IF ~OnlyIntactExposed(a, f, o) THEN <<[why |-> "OnlyIntactExposed", op |-> FaultClass(a, f)]>> ELSE <<>>)
=============================================================================
