---------------------------- MODULE Config_Trace ----------------------------
(* Trace validation of observation logs of the real VM against Config.tla  *)
(* (scheme of Heap_Trace).  The log (NDJSON, env TRACE) is a concatenation  *)
(* of executions of harness/cmd_config.cpp:                                 *)
(*   {"e":"Reset","id":..}                                                  *)
(*   {"e":"Obs","k":"begin","ops":[<statements of the file>]}               *)
(*   {"e":"Obs","k":"load","ok":..,"cyclic":..}      the file was loaded    *)
(*   {"e":"Obs","k":"ask",..} {"e":"Obs","k":"row","path":..,<results>}*    *)
(*   {"e":"Crash","why":..}                                                 *)
(* A load is the fold of Apply over the statements of the file; every row   *)
(* is compared with the reference queries of Config.tla on the spec state.  *)
(* Validation is total: every (formula, statement-or-query kind) that an    *)
(* execution contradicts is recorded once per execution; `tally` counts     *)
(* executions per kind, `bad` keeps the first KEEP executions of each kind  *)
(* as witnesses.  The final state prints "VERDICT <json>".                  *)
EXTENDS Config, Json, IOUtils

Log == ndJsonDeserialize(IOEnv.TRACE)
KEEP == 4

VARIABLES l, st, pend, cyc, redef, asked, dead, seen, bad, tally, nops, nrows, done
tvars == <<l, st, pend, cyc, redef, asked, dead, seen, bad, tally, nops, nrows, done>>

Key(w, q) == w \o "/" \o q

\* ---- a file load -----------------------------------------------------------------------------
RECURSIVE Run(_, _)      \* [ok, st, at]: all statements enabled? state after them; first disabled one
Run(s, ops) ==
    IF ops = <<>> THEN [ok |-> TRUE, st |-> s, at |-> "-"]
    ELSE IF ~Enabled(s, Head(ops)) THEN [ok |-> FALSE, st |-> s, at |-> Head(ops).op]
    ELSE Run(Apply(s, Head(ops)), Tail(ops))

RECURSIVE CycleCulprit(_, _)   \* kind of the first statement that would close an inheritance cycle
CycleCulprit(s, ops) ==
    IF ops = <<>> THEN "load"
    ELSE IF ~Enabled(s, Head(ops)) THEN "load"
    ELSE IF ClosesCycle(s, Head(ops)) THEN OpKind(s, Head(ops))
    ELSE CycleCulprit(Apply(s, Head(ops)), Tail(ops))

RECURSIVE HasRedef(_, _)       \* does a statement define a name again that delete removed from the same body?
HasRedef(s, ops) ==
    IF ops = <<>> THEN FALSE
    ELSE IF ~Enabled(s, Head(ops)) THEN FALSE
    ELSE IsRedefinition(s, Head(ops)) \/ HasRedef(Apply(s, Head(ops)), Tail(ops))
\* The pinned code handled such a statement by indexing its container table with the marker id
\* (undefined behaviour, fixed since).  A crash of an execution that contains such a statement is
\* attributed to it; everything else is judged like any other execution: the redefined entry is
\* found, reads back, and is one of the own entries count/select enumerate.
RedefKey == << [w |-> "LookupIffDefinedAlongChain", q |-> "redefine-after-delete", x |-> "the load completes and the redefined entry is found"] >>

\* ---- a row of the query table ------------------------------------------------------------------
CfgIs(o, s, id) == IF id = 0 THEN o.null ELSE (~o.null /\ o.at = NodePath(s, id))
ExpSel(s, r) == [ i \in 1..Len(LiveEnts(s, r)) |-> NodePath(s, LiveEnts(s, r)[i].id) ]
ObsSel(e) == [ i \in 1..Len(e.sel) |-> IF e.sel[i].null THEN <<"<null>">> ELSE e.sel[i].at ]
SeqSet(q) == { q[i] : i \in 1..Len(q) }

\* sequence of [w |-> formula, q |-> query kind] the row e contradicts in state s
PathStr(s, id) == IF id = 0 THEN "configNull" ELSE ToString(NodePath(s, id))
RowFails(s, e) ==
    LET r == Lookup(s, e.path)
        F(w, q, failed, exp) == IF failed THEN << [w |-> w, q |-> q, x |-> exp] >> ELSE <<>>
    IN IF LookupFuzzy(s, 1, e.path) THEN <<>>          \* the statement leaves the base open: only termination is demanded
       ELSE IF r <= 0 THEN
            IF ~e.null
            THEN F(IF LookupHidden(s, 1, e.path) THEN "DeleteHides" ELSE "LookupIffDefinedAlongChain", "lookup", TRUE, "configNull")
            ELSE    F("ReadBack", "isNumber", e.isn, "false") \o F("ReadBack", "isText", e.ist, "false")
                 \o F("ReadBack", "isArray", e.isa, "false") \o F("ReadBack", "isClass", e.isc, "false")
                 \o F("ReadBack", "getNumber", e.num # Num(0), "0") \o F("ReadBack", "getText", e.txt # Str(""), "empty string")
                 \o F("ReadBack", "getArray", e.arr # Arr(<<>>), "[]")
       ELSE LET n == s.nodes[r]
                lq == IF n.rad THEN "lookup-redefined-after-delete" ELSE "lookup"
            IN IF e.null
               THEN F(IF n.owner # 0 /\ s.nodes[n.owner].opens = 2 /\ ~n.rad THEN "MergeOnReopen" ELSE "LookupIffDefinedAlongChain", lq, TRUE, PathStr(s, r))
               ELSE IF e.at # NodePath(s, r) THEN F("LookupIffDefinedAlongChain", lq, TRUE, PathStr(s, r))
               ELSE    F("LookupIffDefinedAlongChain", "configName", e.name # n.name, n.name)
                    \o F("ReadBack", "isNumber", e.isn # QIsNumber(s, r), ToString(QIsNumber(s, r)))
                    \o F("ReadBack", "isText", e.ist # QIsText(s, r), ToString(QIsText(s, r)))
                    \o F("ReadBack", "isArray", e.isa # QIsArray(s, r), ToString(QIsArray(s, r)))
                    \o F("ReadBack", "isClass", e.isc # QIsClass(s, r), ToString(QIsClass(s, r)))
                    \o F("ReadBack", "getNumber", IsNumVal(n.val) /\ e.num # n.val, ToString(n.val))
                    \o F("ReadBack", "getText", n.val.t = "s" /\ e.txt # n.val, ToString(n.val))
                    \o F(IF n.app THEN "AppendExtendsInherited" ELSE "ReadBack", "getArray", n.val.t = "a" /\ e.arr # n.val, ToString(n.val))
                    \o F("InheritsFromIsBase", "inheritsFrom", ~(CfgIs(e.inh, s, n.base) \/ (n.fz /\ e.inh.null)), PathStr(s, n.base))
                    \o F("HierarchyIsEnclosing", "configHierarchy", ~HierarchyOK(NodePath(s, r), e.hier),
                         ToString(<<RootName>> \o NodePath(s, r)) \o " (root and entry optional)")
                    \o F("CountSelectOwnInOrder", "count", e.cnt # Len(LiveEnts(s, r)), ToString(Len(LiveEnts(s, r))))
                    \o F("CountSelectOwnInOrder", "select",
                         /\ e.cnt = Len(LiveEnts(s, r))
                         /\ IF n.ofz THEN SeqSet(ObsSel(e)) # SeqSet(ExpSel(s, r)) \/ Len(e.sel) # e.cnt
                            ELSE ObsSel(e) # ExpSel(s, r),
                         ToString(ExpSel(s, r)))

\* ---- recording -------------------------------------------------------------------------------
Count(t, k) == IF k \in DOMAIN t THEN t[k] ELSE 0
RECURSIVE Rec(_, _, _, _)     \* fold the failures fs of the execution id into [seen, bad, tally]
Rec(acc, fs, id, line) ==
    IF fs = <<>> THEN acc
    ELSE LET f == Head(fs)
             k == Key(f.w, f.q)
         IN IF k \in acc.seen THEN Rec(acc, Tail(fs), id, line)
            ELSE Rec([seen |-> acc.seen \cup {k},
                      bad |-> IF Count(acc.tally, k) < KEEP
                              THEN Append(acc.bad, [id |-> id, line |-> line, why |-> f.w, op |-> f.q, exp |-> f.x]) ELSE acc.bad,
                      tally |-> [x \in DOMAIN acc.tally \cup {k} |-> Count(acc.tally, x) + (IF x = k THEN 1 ELSE 0)]],
                     Tail(fs), id, line)
Record(fs, id) ==
    LET a == Rec([seen |-> seen, bad |-> bad, tally |-> tally], fs, id, l)
    IN seen' = a.seen /\ bad' = a.bad /\ tally' = a.tally
One(w, q) == << [w |-> w, q |-> q, x |-> ""] >>

EmptyTally == [x \in {} |-> 0]
TraceInit == /\ l = 1 /\ st = InitState /\ pend = <<>> /\ cyc = FALSE /\ redef = FALSE /\ asked = FALSE /\ dead = FALSE
             /\ seen = {} /\ bad = <<>> /\ tally = EmptyTally /\ nops = 0 /\ nrows = 0 /\ done = FALSE

Consume ==
    /\ l <= Len(Log)
    /\ l' = l + 1
    /\ UNCHANGED done
    /\ LET e == Log[l] IN
       CASE e.e = "Reset" ->
                /\ st' = InitState /\ pend' = <<>> /\ cyc' = FALSE /\ redef' = FALSE /\ asked' = FALSE /\ dead' = FALSE /\ seen' = {}
                /\ UNCHANGED <<bad, tally, nops, nrows>>
         [] e.e = "Crash" /\ ~dead ->
                /\ dead' = TRUE
                /\ UNCHANGED <<st, pend, cyc, redef, asked, nops, nrows>>
                /\ IF redef \/ HasRedef(st, pend) THEN Record(RedefKey, e.id)
                   ELSE IF Len(pend) > 0
                        THEN (IF e.why = "timeout" THEN Record(One("EveryLookupTerminates", "load"), e.id)   \* += looks up at load time
                              ELSE Record(One("Crash", "load"), e.id))
                   ELSE IF e.why = "timeout" THEN Record(One("EveryLookupTerminates", "lookup"), e.id)
                   ELSE Record(One("Crash", "query"), e.id)
         [] e.e = "Obs" /\ ~dead /\ e.k = "begin" ->
                /\ pend' = e.ops
                /\ UNCHANGED <<st, cyc, redef, asked, dead, seen, bad, tally, nops, nrows>>
         [] e.e = "Obs" /\ ~dead /\ e.k = "load" ->
                LET r == Run(st, pend) IN
                /\ pend' = <<>>
                /\ redef' = (redef \/ HasRedef(st, pend))
                /\ UNCHANGED <<asked, nrows>>
                /\ IF ~r.ok
                   THEN /\ Record(One("MACHINERY-NotEnabled", r.at), e.id)
                        /\ dead' = TRUE /\ UNCHANGED <<st, cyc, nops>>
                   ELSE /\ st' = r.st /\ nops' = nops + Len(pend)
                        /\ IF ~e.ok THEN /\ Record(One("ConfigTextAccepted", "load"), e.id)
                                         /\ dead' = TRUE /\ UNCHANGED cyc
                           ELSE IF e.cyclic /\ ~cyc
                                THEN /\ Record(One("Acyclic", CycleCulprit(st, pend)), e.id)
                                     /\ cyc' = TRUE /\ UNCHANGED dead
                                ELSE UNCHANGED <<cyc, dead, seen, bad, tally>>
         [] e.e = "Obs" /\ ~dead /\ e.k = "ask" ->
                /\ asked' = TRUE
                /\ UNCHANGED <<st, pend, cyc, redef, dead, seen, bad, tally, nops, nrows>>
         [] e.e = "Obs" /\ ~dead /\ e.k = "row" ->
                /\ asked' = FALSE
                /\ UNCHANGED <<st, pend, cyc, redef, dead, nops>>
                /\ IF cyc THEN UNCHANGED <<seen, bad, tally, nrows>>     \* a cyclic config cannot be looked up
                   ELSE /\ nrows' = nrows + 1
                        /\ Record(RowFails(st, e), e.id)
         [] OTHER -> UNCHANGED <<st, pend, cyc, redef, asked, dead, seen, bad, tally, nops, nrows>>

Finish ==
    /\ l = Len(Log) + 1
    /\ ~done
    /\ done' = TRUE
    /\ PrintT("VERDICT " \o ToJson([lines |-> Len(Log), ops |-> nops, rows |-> nrows, bad |-> bad,
                                    tally |-> [k \in DOMAIN tally |-> tally[k]]]))
    /\ UNCHANGED <<l, st, pend, cyc, redef, asked, dead, seen, bad, tally, nops, nrows>>

TraceSpec == TraceInit /\ [][Consume \/ Finish]_tvars

\* the ideal spec's own invariants on every state bound to the real execution
TInvAcyclic == Acyclic(st)
TInvTerminates == EveryLookupTerminates(st)
=============================================================================
