--------------------------- MODULE Isolation_Trace ---------------------------
(* C20, total validation of recorded output streams (style of Equality.tla / Api_Trace.tla).       *)
(* Log (one JSON object per line), grouped by program P:                                           *)
(*   {"e":"Reset","id":g}                              a new group: one program P                   *)
(*   {"e":"Case","id":case,"g":g,"setting":"alone|alone2|after|beside","sched":"QQDPP",            *)
(*    "qk":"create,tofixed","crash":"" | reason,"P":[{"i":stmt index,"a":stmt kind,"x":text}...]}  *)
(* "alone" (first line of its group) is P's output in a fresh process, "alone2" the output of a    *)
(* second fresh process, the others P's output after / beside some Q (any schedule).               *)
(* Formulas, evaluated on every group:                                                             *)
(*   Deterministic          out(alone2)  = out(alone)                                              *)
(*   NonInterferenceAfter   out(after Q) = out(alone)       for every Q                            *)
(*   NonInterferenceBeside  out(beside Q, schedule) = out(alone)   for every Q and schedule        *)
(* Where the two alone runs already disagree from line k on, P's output is not a function of P     *)
(* there: that is reported once as Deterministic, and the other formulas are evaluated on the      *)
(* lines before k. A violated formula is recorded in `bad` with the kind of the statement of P     *)
(* whose output differs first; the verdict is printed at the end.                                  *)
EXTENDS Isolation, Json, IOUtils
Log == ndJsonDeserialize(IOEnv.TRACE)

VARIABLES l, ref, detk, state, bad, ncmp, ngroups, nskipped, done
tvars == <<l, ref, detk, state, bad, ncmp, ngroups, nskipped, done>>
\* state: "none" no reference yet, "ok" reference recorded, "dead" the alone run itself crashed (group skipped)

Min2(a, b) == IF a < b THEN a ELSE b
\* index of the first line at which the two streams differ (Len+1 of the shorter one if one is a proper prefix), 0 if equal
FirstDiff(a, b) ==
    IF a = b THEN 0
    ELSE LET n == Min2(Len(a), Len(b))
             D == {i \in 1..n : a[i] # b[i]} IN
         IF D = {} THEN n + 1 ELSE CHOOSE i \in D : \A j \in D : i <= j
KindAt(a, b, k) == IF k <= Len(a) THEN a[k].a ELSE IF k <= Len(b) THEN b[k].a ELSE "?"
TextAt(a, k) == IF k >= 1 /\ k <= Len(a) THEN a[k].x ELSE "<no line>"
Prefix(a, k) == IF k = 0 THEN a ELSE SubSeq(a, 1, Min2(k - 1, Len(a)))

Formula(setting) == CASE setting = "alone2" -> "Deterministic"
                      [] setting = "after" -> "NonInterferenceAfter"
                      [] setting = "beside" -> "NonInterferenceBeside"
                      [] OTHER -> "MACHINERY-UnknownSetting"
Entry(e, why, op, k, want, got) ==
    [id |-> e.id, g |-> e.g, line |-> l, why |-> why, op |-> op, at |-> k, want |-> want, got |-> got, sched |-> e.sched, qk |-> e.qk]

TraceInit == /\ l = 1 /\ ref = <<>> /\ detk = 0 /\ state = "none" /\ bad = <<>> /\ ncmp = 0 /\ ngroups = 0 /\ nskipped = 0 /\ done = FALSE

Consume ==
    /\ l <= Len(Log) /\ l' = l + 1 /\ UNCHANGED done
    /\ LET e == Log[l] IN
       CASE e.e = "Reset" ->
              /\ ref' = <<>> /\ detk' = 0 /\ state' = "none" /\ ngroups' = ngroups + 1 /\ UNCHANGED <<bad, ncmp, nskipped>>
         [] e.e = "Case" /\ e.setting = "alone" ->
              IF state # "none" THEN /\ bad' = Append(bad, Entry(e, "MACHINERY-TwoReferences", "?", 0, "", ""))
                                     /\ UNCHANGED <<ref, detk, state, ncmp, ngroups, nskipped>>
              ELSE IF e.crash # "" THEN state' = "dead" /\ nskipped' = nskipped + 1 /\ UNCHANGED <<ref, detk, bad, ncmp, ngroups>>
              ELSE IF \E i \in 1..Len(e.P) : e.P[i].a \notin Kinds
                   THEN /\ bad' = Append(bad, Entry(e, "MACHINERY-UnknownStatementKind", "?", 0, "", ""))
                        /\ state' = "dead" /\ UNCHANGED <<ref, detk, ncmp, ngroups, nskipped>>
              ELSE ref' = e.P /\ state' = "ok" /\ UNCHANGED <<detk, bad, ncmp, ngroups, nskipped>>
         [] e.e = "Case" /\ e.setting # "alone" ->
              IF state = "dead" THEN nskipped' = nskipped + 1 /\ UNCHANGED <<ref, detk, state, bad, ncmp, ngroups>>
              ELSE IF state = "none" \/ Formula(e.setting) = "MACHINERY-UnknownSetting"
                   THEN /\ bad' = Append(bad, Entry(e, IF state = "none" THEN "MACHINERY-NoReference" ELSE "MACHINERY-UnknownSetting", "?", 0, "", ""))
                        /\ UNCHANGED <<ref, detk, state, ncmp, ngroups, nskipped>>
              ELSE IF e.crash # ""
                   THEN \* P alone ran to its end; with Q around (or in a second process) the run crashed / hung
                        /\ bad' = Append(bad, Entry(e, Formula(e.setting), "crash", 0, "", e.crash))
                        /\ ncmp' = ncmp + 1 /\ UNCHANGED <<ref, detk, state, ngroups, nskipped>>
              ELSE IF e.setting = "alone2"
                   THEN LET k == FirstDiff(ref, e.P) IN
                        /\ detk' = k /\ ncmp' = ncmp + 1
                        /\ bad' = IF k = 0 THEN bad
                                  ELSE Append(bad, Entry(e, "Deterministic", KindAt(ref, e.P, k), k, TextAt(ref, k), TextAt(e.P, k)))
                        /\ UNCHANGED <<ref, state, ngroups, nskipped>>
              ELSE LET a == Prefix(ref, detk)
                       b == Prefix(e.P, detk)
                       k == FirstDiff(a, b) IN
                   /\ ncmp' = ncmp + 1
                   /\ bad' = IF k = 0 THEN bad
                             ELSE Append(bad, Entry(e, Formula(e.setting), KindAt(a, b, k), k, TextAt(a, k), TextAt(b, k)))
                   /\ UNCHANGED <<ref, detk, state, ngroups, nskipped>>
         [] OTHER -> UNCHANGED <<ref, detk, state, bad, ncmp, ngroups, nskipped>>

Finish == /\ l = Len(Log) + 1 /\ ~done /\ done' = TRUE /\ UNCHANGED <<l, ref, detk, state, bad, ncmp, ngroups, nskipped>>
          /\ PrintT("VERDICT " \o ToJson([lines |-> Len(Log), ops |-> ncmp, groups |-> ngroups, skipped |-> nskipped, bad |-> bad]))
TraceSpec == TraceInit /\ [][Consume \/ Finish]_tvars
=============================================================================
