SPECIFICATION Spec
CONSTANTS
  Depth = 3
  Emit = FALSE
  Dev = {}
  NNames = 2
INVARIANTS InvBounded InvProgress InvTerminates InvResultOrDiagnostic InvTokensTile InvDeterministic InvPpReader InvExpansionTerminates InvDeviationsLocal
