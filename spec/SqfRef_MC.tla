----------------------------- MODULE SqfRef_MC -----------------------------
(* Design check of the reference semantics: algebraic laws over an enumerated family of statement   *)
(* lists (the reference must satisfy them; mutated semantics are refuted).                           *)
EXTENDS SqfRef

N(n) == [k |-> "num", n |-> n]
B(b) == [k |-> "bool", b |-> b]
GV(n) == [k |-> "var", loc |-> FALSE, ln |-> n]
LV(n) == [k |-> "var", loc |-> TRUE, ln |-> n]
Mark(e) == [k |-> "mark", x |-> e]
Expr(e) == [k |-> "expr", x |-> e]
AssignG(n, e) == [k |-> "assign", loc |-> FALSE, ln |-> n, x |-> e]
Plus(a, b) == [k |-> "bin", op |-> "+", l |-> a, r |-> b]
Call(body) == [k |-> "call", body |-> body]
If(c, th, el) == [k |-> "if", c |-> c, th |-> th, hasel |-> TRUE, el |-> el]
ExitWith(c, body) == [k |-> "exitwith", c |-> c, body |-> body]
ArrL(els) == [k |-> "arr", els |-> els]
ForEach(body, a) == [k |-> "foreach", body |-> body, arr |-> a]
For1(body, n) == [k |-> "for", ln |-> "_i", hasstep |-> FALSE, step |-> N(1), from |-> N(n), to |-> N(n), body |-> body]
While(c, body) == [k |-> "while", c |-> c, body |-> body]
Lazy(op, l, body) == [k |-> "lazy", op |-> op, l |-> l, body |-> body]
Case(x, body) == [k |-> "case", x |-> x, hasbody |-> TRUE, body |-> body]
Switch(v, body) == [k |-> "switch", v |-> v, body |-> body]

\* plain statements (no early exit) and all lists of <= 2 of them
Plain == { Mark(N(1)), Mark(N(2)), Mark(GV("ga")), AssignG("ga", Plus(GV("ga"), N(1))), Expr(N(5)) }
Lists == {<<>>} \cup { <<a>> : a \in Plain } \cup { <<a, b>> : a \in Plain, b \in Plain }
Pre == << AssignG("ga", N(0)) >>
LogOf(p) == Run(Pre \o p).log

VARIABLES s, t
Init == s \in Lists /\ t \in Lists
Next == UNCHANGED <<s, t>>
Spec == Init /\ [][Next]_<<s, t>>

LawCallTransparent == LogOf(<<Expr(Call(s))>>) = LogOf(s)
LawSequence == LogOf(s \o t) = LogOf(<<Expr(Call(s)), Expr(Call(t))>>)
LawIfTrue == LogOf(<<Expr(If(B(TRUE), s, t))>>) = LogOf(s) /\ LogOf(<<Expr(If(B(FALSE), s, t))>>) = LogOf(t)
LawForSingle == LogOf(<<For1(s, 3)>>) = LogOf(s)
LawForEachUnroll == LogOf(<<ForEach(s, ArrL(<<N(7), N(8)>>))>>) = LogOf(s \o s)
LawExitWithSkipsRest == LogOf(<<Expr(Call(<<ExitWith(B(TRUE), s)>> \o t))>> \o <<Mark(N(9))>>) = LogOf(s \o <<Mark(N(9))>>)
LawExitWithFalse == LogOf(<<Expr(Call(<<ExitWith(B(FALSE), s)>> \o t))>>) = LogOf(t)
LawWhileFalse == LogOf(<<While(<<Expr(B(FALSE))>>, s)>>) = <<>>
LawLazy == LogOf(<<Expr(Lazy("&&", B(FALSE), s \o <<Expr(B(TRUE))>>))>>) = <<>> /\ LogOf(<<Expr(Lazy("||", B(FALSE), s \o <<Expr(B(TRUE))>>))>>) = LogOf(s)
LawSwitchFirstMatch == LogOf(<<Expr(Switch(N(1), <<Case(N(1), s), Case(N(1), t \o <<Mark(N(77))>>)>>))>>) = LogOf(s)
=============================================================================
