---------------------------- MODULE Errors_Trace ----------------------------
(* Event streams recorded from the real VM judged by the monitor of Errors.tla.                 *)
(* Log lines: {"e":"Reset","id":..,"tab":{file:[{kind,hs,h,inh}...]}} then                      *)
(*            {"e":"Ev","t":"Mark|Err|Trace|RunBegin|RunEnd","file":..,"line":..,"exc":..,"res":..} *)
EXTENDS Errors, Json, IOUtils

Log == ndJsonDeserialize(IOEnv.TRACE)
VARIABLES l, tab, mon, bad, nops, done
tvars == <<l, tab, mon, bad, nops, done>>

NoTab == [none |-> <<>>]
TraceInit == l = 1 /\ tab = NoTab /\ mon = MonInit({}) /\ bad = <<>> /\ nops = 0 /\ done = FALSE

Consume ==
    /\ l <= Len(Log) /\ l' = l + 1 /\ UNCHANGED done
    /\ LET e == Log[l] IN
       CASE e.e = "Reset" -> tab' = e.tab /\ mon' = MonInit(DOMAIN e.tab) /\ UNCHANGED <<bad, nops>>
         [] e.e = "Crash" ->
                /\ bad' = IF mon.viol # "" THEN bad ELSE Append(bad, [id |-> e.id, line |-> l, why |-> "Crash", op |-> e.why])
                /\ mon' = [mon EXCEPT !.viol = "Crash"] /\ UNCHANGED <<tab, nops>>
         [] e.e = "Ev" /\ mon.viol = "" ->
                LET m2 == MonStep(tab, mon, e) IN
                /\ mon' = m2 /\ nops' = nops + 1 /\ UNCHANGED tab
                /\ bad' = IF m2.viol = "" THEN bad
                          ELSE Append(bad, [id |-> e.id, line |-> l, why |-> m2.viol,
                                            op |-> e.t \o "@" \o (IF e.t \in {"Mark", "Err", "Trace"} THEN tab[e.file][e.line].kind ELSE "run")])
         [] OTHER -> UNCHANGED <<tab, mon, bad, nops>>

Finish == /\ l = Len(Log) + 1 /\ ~done /\ done' = TRUE /\ UNCHANGED <<l, tab, mon, bad, nops>>
          /\ PrintT("VERDICT " \o ToJson([lines |-> Len(Log), ops |-> nops, bad |-> bad]))
TraceSpec == TraceInit /\ [][Consume \/ Finish]_tvars
=============================================================================
