SPECIFICATION Spec
CONSTANTS
  MapVars = {"m", "n"}
  KeysCapturedByValue = TRUE
  Depth = 4
  Emit = FALSE
VIEW View
INVARIANTS InvDict InvKeyCaptured InvCopyIndependent
