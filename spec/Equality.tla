------------------------------ MODULE Equality ------------------------------
(***************************************************************************)
(* C07, relation part.  The driver tabulates, for a pool of N values, the  *)
(* real results of isEqualTo (eq), == (eqci), in, find and value::hash().  *)
(* This module states the laws the property demands of those tables and a  *)
(* reference equality RefEq on value trees, and judges each recorded table.*)
(* Table entries: 1 true, 0 false, 2 operator undefined/raised an error.   *)
(* Each log line: [id, vals, hash, eq, eqci, inn, find, want, fold]        *)
(*   vals : the implementation's projection of the pool values             *)
(*   want : the generator's intended trees (binding check: vals = want)    *)
(*   fold : the same trees with all strings case-folded (by the generator) *)
(***************************************************************************)
EXTENDS Integers, Sequences, FiniteSets, TLC, Json, IOUtils

Log == ndJsonDeserialize(IOEnv.TRACE)

\* does the tree contain nil anywhere?
RECURSIVE HasNil(_)
HasNil(t) == IF t.t = "nil" THEN TRUE
             ELSE IF t.t = "a" THEN \E i \in 1..Len(t.a) : HasNil(t.a[i])
             ELSE IF t.t = "h" THEN \E i \in 1..Len(t.h) : HasNil(t.h[i][1]) \/ HasNil(t.h[i][2])
             ELSE FALSE

\* reference structural equality (isEqualTo) on trees of distinct objects
RECURSIVE RefEq(_, _)
RefEq(a, b) ==
    IF a.t # b.t THEN FALSE
    ELSE IF a.t = "nil" THEN FALSE
    ELSE IF a.t = "a" THEN Len(a.a) = Len(b.a) /\ \A i \in 1..Len(a.a) : RefEq(a.a[i], b.a[i])
    ELSE IF a.t = "h" THEN
         /\ Len(a.h) = Len(b.h)
         /\ \A i \in 1..Len(a.h) : \E j \in 1..Len(b.h) : RefEq(a.h[i][1], b.h[j][1]) /\ RefEq(a.h[i][2], b.h[j][2])
    ELSE a = b

N(T) == T.n
Idx(T) == 1..T.n
Clean(T) == { i \in Idx(T) : ~HasNil(T.want[i]) }

\* --- the laws ---
Binding(T) == \A i \in Idx(T) : T.vals[i] = T.want[i]
EqTotal(T) == \A i, j \in Idx(T) : T.eq[i][j] \in {0, 1}
EqSymmetric(T) == \A i, j \in Idx(T) : T.eq[i][j] = T.eq[j][i]
EqReflexive(T) == \A i \in Clean(T) : T.eq[i][i] = 1
EqTransitive(T) == \A i, j, k \in Clean(T) : (T.eq[i][j] = 1 /\ T.eq[j][k] = 1) => T.eq[i][k] = 1
EqIsStructural(T) == \A i, j \in Clean(T) : (T.eq[i][j] = 1) <=> RefEq(T.want[i], T.want[j])
\* == is defined on some types only; where it is defined it is isEqualTo modulo string case
EqCIAgrees(T) == \A i, j \in Clean(T) : T.eqci[i][j] # 2 => ((T.eqci[i][j] = 1) <=> RefEq(T.fold[i], T.fold[j]))
EqCIDefinedOnScalars(T) == \A i, j \in Idx(T) :
    (T.want[i].t = T.want[j].t /\ T.want[i].t \in {"n", "s", "b"}) => T.eqci[i][j] # 2
HashConsistent(T) == \A i, j \in Idx(T) : T.eq[i][j] = 1 => T.hash[i] = T.hash[j]
InAgrees(T) == \A i, j \in Clean(T) : T.inn[i][j] = T.eq[i][j]
FindAgrees(T) == \A i, j \in Clean(T) : T.find[i][j] = T.eq[i][j]


Why(T) ==
    IF ~Binding(T) THEN "MACHINERY-Binding"
    ELSE IF ~EqTotal(T) THEN "EqTotal"
    ELSE IF ~EqSymmetric(T) THEN "EqSymmetric"
    ELSE IF ~EqReflexive(T) THEN "EqReflexive"
    ELSE IF ~EqTransitive(T) THEN "EqTransitive"
    ELSE IF ~EqIsStructural(T) THEN "EqIsStructural"
    ELSE IF ~EqCIDefinedOnScalars(T) THEN "EqCIDefined"
    ELSE IF ~EqCIAgrees(T) THEN "EqCIAgrees"
    ELSE IF ~HashConsistent(T) THEN "HashConsistent"
    ELSE IF ~InAgrees(T) THEN "InAgrees"
    ELSE IF ~FindAgrees(T) THEN "FindAgrees"
    ELSE ""

\* a witness pair for the failing law (for the replay / finding key)
Witness(T, w) ==
    LET P == IF w = "HashConsistent" THEN { p \in Idx(T) \X Idx(T) : T.eq[p[1]][p[2]] = 1 /\ T.hash[p[1]] # T.hash[p[2]] }
             ELSE IF w = "EqSymmetric" THEN { p \in Idx(T) \X Idx(T) : T.eq[p[1]][p[2]] # T.eq[p[2]][p[1]] }
             ELSE IF w = "EqIsStructural" THEN { p \in Clean(T) \X Clean(T) : (T.eq[p[1]][p[2]] = 1) # RefEq(T.want[p[1]], T.want[p[2]]) }
             ELSE IF w = "EqCIAgrees" THEN { p \in Clean(T) \X Clean(T) : T.eqci[p[1]][p[2]] # 2 /\ ((T.eqci[p[1]][p[2]] = 1) # RefEq(T.fold[p[1]], T.fold[p[2]])) }
             ELSE IF w = "InAgrees" THEN { p \in Clean(T) \X Clean(T) : T.inn[p[1]][p[2]] # T.eq[p[1]][p[2]] }
             ELSE IF w = "FindAgrees" THEN { p \in Clean(T) \X Clean(T) : T.find[p[1]][p[2]] # T.eq[p[1]][p[2]] }
             ELSE IF w = "EqReflexive" THEN { p \in Clean(T) \X Clean(T) : p[1] = p[2] /\ T.eq[p[1]][p[1]] # 1 }
             ELSE {}
    IN IF P = {} THEN <<0, 0>> ELSE CHOOSE p \in P : TRUE

VARIABLES l, bad, done
TraceInit == l = 1 /\ bad = <<>> /\ done = FALSE
Consume == /\ l <= Len(Log) /\ l' = l + 1 /\ UNCHANGED done
           /\ LET T == Log[l] w == Why(T) IN
              bad' = IF w = "" THEN bad
                     ELSE LET p == Witness(T, w) IN
                          Append(bad, [id |-> T.id, line |-> l, why |-> w,
                                       op |-> IF p[1] = 0 THEN "?" ELSE T.want[p[1]].t \o "/" \o T.want[p[2]].t,
                                       i |-> p[1], j |-> p[2]])
Finish == /\ l = Len(Log) + 1 /\ ~done /\ done' = TRUE /\ UNCHANGED <<l, bad>>
          /\ PrintT("VERDICT " \o ToJson([lines |-> Len(Log), ops |-> Len(Log), bad |-> bad]))
TraceSpec == TraceInit /\ [][Consume \/ Finish]_<<l, bad, done>>
=============================================================================
