---------------------------- MODULE Stack_Trace ----------------------------
(* Trace validation of per-instruction stack states of the real VM (H3 observer) against the    *)
(* relations of Stack.tla. Events "S" carry k (B before instruction / I after instruction /     *)
(* F after a frame completed / U after error unwinding / X run failed), ctx, oc (opcode class), *)
(* fids, bases, pos, slots. One TLC state per log line; executions separated by Reset.          *)
EXTENDS Stack, Json, IOUtils

Log == ndJsonDeserialize(IOEnv.TRACE)
CtxIds == 0..12
None == [none |-> TRUE]

VARIABLES l, last, dead, bad, nops, done
tvars == <<l, last, dead, bad, nops, done>>

ThrowOps == {"CALLUNARY throw", "CALLBINARY throw"}
IsRestart(e) == e.k = "B" /\ Len(e.pos) > 0 /\ e.pos[Len(e.pos)] = 0

\* per-frame restart bookkeeping carried along the frames that survive
Carry(c, e, f) == [i \in 1..Len(e.fids) |-> IF c # None /\ i <= Len(c.fids) /\ c.fids[i] = e.fids[i] THEN c[f][i] ELSE 0]
Record(c, e) ==
    LET n == Len(e.fids)
        rn0 == Carry(c, e, "rn")
        rs0 == Carry(c, e, "rs")
        top == IsRestart(e)
    IN [fids |-> e.fids, bases |-> e.bases, slots |-> e.slots, k |-> e.k, oc |-> e.oc,
        \* an unwinding happened and the handler has not executed an instruction yet
        uw |-> (e.k = "U" \/ (e.k = "I" /\ e.oc \in ThrowOps) \/ (c # None /\ c.uw /\ e.k \notin {"B", "F"})),
        rn |-> IF top THEN [rn0 EXCEPT ![n] = rn0[n] + 1] ELSE rn0,
        rs |-> IF top THEN [rs0 EXCEPT ![n] = Len(e.slots) - e.bases[n]] ELSE rs0]

Why(c, e) ==
    LET d == [fids |-> e.fids, bases |-> e.bases, slots |-> e.slots]
        unwind == e.k = "U" \/ (e.k = "I" /\ e.oc \in ThrowOps)
    IN IF ~Partition(d) THEN "Partition"
       ELSE IF c = None \/ e.k = "X" THEN ""
       ELSE IF ~NoStealingU(c, d, unwind) THEN "NoStealing"
       \* a handler block starts on an empty region: what the failed block had pending is not the handler's to
       \* consume or to yield (a finished block contributes the value of ITS last statement, or nil). Judged
       \* when the handler's first instruction is about to execute, or - an empty handler - when it completes.
       \* (a nil there - the result slot of the throw operator itself - yields what an empty block yields)
       \* Only the top slot matters: it is what a handler without a value of its own would yield; anything below
       \* is discarded with the region (e.g. after a throw from a nested call the operator's nil result lies on top).
       ELSE IF c.uw /\ e.k = "B" /\ Top(d) > 0 /\ Len(d.slots) > d.bases[Top(d)] /\ Last(d.slots) # NilS THEN "OneValue-handler-start"
       ELSE IF c.uw /\ e.k = "F" /\ Len(d.slots) > 0 /\ Last(d.slots) # NilS THEN "OneValue-handler-start"
       ELSE IF e.k = "F" /\ ~OneValueCount(c, d) THEN "OneValue"
       \* a plain block that completed hands up the value of its last statement - the top of ITS region - or nil
       ELSE IF e.k = "F" /\ e.plain /\ ~OneValueStrict(c, d) THEN "OneValue-value"
       ELSE IF e.k \in {"I", "F"} /\ ~unwind /\ ~OneValueLoose(c, d) THEN "OneValue"
       ELSE IF e.k = "I" /\ e.oc = "ENDSTATEMENT" /\ ~StatementClean(d) THEN "StatementClean"
       \* a scope that is entered starts with nothing it did not produce: the regions of the frames an operator
       \* pushed hold at most the operator's own nil result (Stack.tla Enter)
       ELSE IF e.k = "I" /\ ~unwind /\ Common(c, d) = Top(c) /\ Top(d) > Top(c)
               /\ (\E i \in (d.bases[Top(c) + 1] + 1)..Len(d.slots) : d.slots[i] # NilS) THEN "EnterClean"
       \* loops do not accumulate: from its third (re)start on, a frame's region at its first
       \* instruction is never larger than at the previous restart
       ELSE IF IsRestart(e) /\ c.fids = e.fids /\ c.rn[Len(e.fids)] >= 2
               /\ Len(d.slots) - d.bases[Top(d)] > c.rs[Len(e.fids)] THEN "LoopClean"
       ELSE ""

\* ---- compact states (operand stacks too high to log every value): [fids, bases, n]
\* the frame structure alone: bases ordered and inside the stack, surviving frames keep their base, and a frame
\* that is entered records the height at that moment as its base (the entering operator consumed at most 3 operands)
WhyCompact(c, e) ==
    LET nb == Len(e.bases) IN
    IF Len(e.fids) # nb \/ (\E i \in 1..nb : e.bases[i] < 0) \/ (\E i \in 1..(nb - 1) : e.bases[i] > e.bases[i + 1])
       \/ (nb > 0 /\ e.bases[nb] > e.n) THEN "Partition"
    ELSE IF c = None THEN ""
    ELSE LET k == CommonFrom(c.fids, e.fids, 1) IN
         IF \E i \in 1..k : c.bases[i] # e.bases[i] THEN "NoStealing"
         ELSE IF nb = Len(c.fids) + 1 /\ k = Len(c.fids) /\ ~(e.bases[nb] <= c.n /\ e.bases[nb] >= c.n - 3) THEN "Partition-base-is-height-at-entry"
         \* leaving frames never takes operands of the frames that stay (their bases bound the height from below)
         ELSE IF nb > 0 /\ e.n < e.bases[nb] THEN "NoStealing"
         ELSE ""

TraceInit == l = 1 /\ last = [i \in CtxIds |-> None] /\ dead = FALSE /\ bad = <<>> /\ nops = 0 /\ done = FALSE

Consume ==
    /\ l <= Len(Log) /\ l' = l + 1 /\ UNCHANGED done
    /\ LET e == Log[l] IN
       CASE e.e = "Reset" -> last' = [i \in CtxIds |-> None] /\ dead' = FALSE /\ UNCHANGED <<bad, nops>>
         [] e.e = "Crash" ->
                /\ bad' = IF dead THEN bad ELSE Append(bad, [id |-> e.id, line |-> l, why |-> "Crash", op |-> e.why])
                /\ dead' = TRUE /\ UNCHANGED <<last, nops>>
         [] e.e = "SC" /\ ~dead ->
                LET w == WhyCompact(last[e.ctx], e) IN
                IF w = "" THEN /\ last' = [last EXCEPT ![e.ctx] = [fids |-> e.fids, bases |-> e.bases, n |-> e.n]]
                               /\ nops' = nops + 1 /\ UNCHANGED <<dead, bad>>
                ELSE /\ bad' = Append(bad, [id |-> e.id, line |-> l, why |-> w, op |-> e.oc])
                     /\ dead' = TRUE /\ UNCHANGED <<last, nops>>
         [] e.e = "S" /\ ~dead ->
                LET w == Why(last[e.ctx], e) IN
                IF w = "" THEN /\ last' = [last EXCEPT ![e.ctx] = Record(last[e.ctx], e)]
                               /\ nops' = nops + 1 /\ UNCHANGED <<dead, bad>>
                ELSE /\ bad' = Append(bad, [id |-> e.id, line |-> l, why |-> w, op |-> e.oc])
                     /\ dead' = TRUE /\ UNCHANGED <<last, nops>>
         [] OTHER -> UNCHANGED <<last, dead, bad, nops>>

Finish == /\ l = Len(Log) + 1 /\ ~done /\ done' = TRUE /\ UNCHANGED <<l, last, dead, bad, nops>>
          /\ PrintT("VERDICT " \o ToJson([lines |-> Len(Log), ops |-> nops, bad |-> bad]))
TraceSpec == TraceInit /\ [][Consume \/ Finish]_tvars
=============================================================================
