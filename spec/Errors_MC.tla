----------------------------- MODULE Errors_MC -----------------------------
(* Design check of Errors.tla: the abstract machine of the VM's error flag over a family of    *)
(* script shapes with an error (raised by the executing instruction, or inside an iteration    *)
(* behaviour) at every position, two scripts, two consecutive runs, all interleavings; the     *)
(* monitor judges every event stream.                                                          *)
EXTENDS Errors

Files == {"a", "b"}
Slot == {"mark", "errx", "errn"}

\* script shape A: s[i] is the content of slot i (lines 2,4,7,9,12,16)
ItemsA(s) == <<
    [line |-> 1,  kind |-> "mark",  hs |-> <<>>,     h |-> NoH, inh |-> NoH],
    [line |-> 2,  kind |-> s[1],    hs |-> <<>>,     h |-> NoH, inh |-> NoH],
    [line |-> 3,  kind |-> "mark",  hs |-> <<>>,     h |-> NoH, inh |-> NoH],
    [line |-> 4,  kind |-> s[2],    hs |-> <<1>>,    h |-> NoH, inh |-> NoH],
    [line |-> 5,  kind |-> "mark",  hs |-> <<1>>,    h |-> NoH, inh |-> NoH],
    [line |-> 6,  kind |-> "hmark", hs |-> <<>>,     h |-> 1, inh |-> NoH],
    [line |-> 7,  kind |-> s[3],    hs |-> <<>>,     h |-> NoH, inh |-> 1],
    [line |-> 8,  kind |-> "cmark", hs |-> <<>>,     h |-> 1, inh |-> NoH],
    [line |-> 9,  kind |-> s[4],    hs |-> <<2, 3>>, h |-> NoH, inh |-> NoH],
    [line |-> 10, kind |-> "mark",  hs |-> <<2, 3>>, h |-> NoH, inh |-> NoH],
    [line |-> 11, kind |-> "hmark", hs |-> <<2>>,    h |-> 3, inh |-> NoH],
    [line |-> 12, kind |-> s[5],    hs |-> <<2>>,    h |-> NoH, inh |-> 3],
    [line |-> 13, kind |-> "cmark", hs |-> <<2>>,    h |-> 3, inh |-> NoH],
    [line |-> 14, kind |-> "hmark", hs |-> <<>>,     h |-> 2, inh |-> NoH],
    [line |-> 15, kind |-> "cmark", hs |-> <<>>,     h |-> 2, inh |-> NoH],
    [line |-> 16, kind |-> s[6],    hs |-> <<>>,     h |-> NoH, inh |-> NoH] >>
HdA == [h \in {1, 2, 3} |-> IF h = 1 THEN [start |-> 6, cont |-> 8] ELSE IF h = 3 THEN [start |-> 11, cont |-> 13] ELSE [start |-> 14, cont |-> 15]]

ItemsB(k) == << [line |-> 1, kind |-> "mark", hs |-> <<>>, h |-> NoH, inh |-> NoH],
                [line |-> 2, kind |-> k,      hs |-> <<>>, h |-> NoH, inh |-> NoH],
                [line |-> 3, kind |-> "mark", hs |-> <<>>, h |-> NoH, inh |-> NoH] >>

ErrCount(s) == Cardinality({ i \in 1..Len(s) : s[i] # "mark" })
SlotsA == { s \in [1..6 -> Slot] : ErrCount(s) <= 2 }

CONSTANT Together     \* TRUE: both scripts in run 1 (scheduled, all interleavings); FALSE: a in run 1, b in run 2
CONSTANTS RunIsEval,        \* TRUE: the "runs" are expression evaluations by the embedder (runtime::evaluate_expression, what __EVAL uses)
          EvalStopsAtError  \* TRUE ideal; FALSE: the evaluation loop ignores that execute_do reported an unhandled error and goes on

VARIABLES prog,       \* [a |-> items, b |-> items]
          pc, via, ended, flag, mon, run, phase
vars == <<prog, pc, via, ended, flag, mon, run, phase>>

Tab == [f \in Files |-> [ln \in 0..16 |->
          LET its == { i \in 1..Len(prog[f]) : prog[f][i].line = ln } IN
          IF its = {} THEN [kind |-> "none", hs |-> <<>>, h |-> NoH, inh |-> NoH]
          ELSE LET i == CHOOSE j \in its : TRUE IN [kind |-> prog[f][i].kind, hs |-> prog[f][i].hs, h |-> prog[f][i].h, inh |-> prog[f][i].inh]]]
Hd(f) == IF f = "a" THEN HdA ELSE [h \in {1} |-> [start |-> 1, cont |-> 1]]

RECURSIVE Feed(_, _)
Feed(m, evs) == IF evs = <<>> THEN m ELSE Feed(MonStep(Tab, m, Head(evs)), Tail(evs))

InRun(f) == IF Together THEN run = 1 ELSE (f = "a" /\ run = 1) \/ (f = "b" /\ run = 2)
LastRun == IF Together THEN 1 ELSE 2

Init == /\ \E s \in SlotsA, k \in Slot : prog = [a |-> ItemsA(s), b |-> ItemsB(k)]
        /\ pc = [f \in Files |-> 1] /\ via = [f \in Files |-> FALSE] /\ ended = [f \in Files |-> FALSE]
        /\ flag = FALSE /\ mon = MonInit(Files) /\ run = 0 /\ phase = "idle"

RunStart == /\ phase = "idle" /\ run < LastRun
            /\ run' = run + 1 /\ phase' = "running"
            /\ flag' = IF FlagClearedAtRunStart THEN FALSE ELSE flag
            /\ mon' = Feed(mon, << [t |-> "RunBegin"] >>)
            /\ UNCHANGED <<prog, pc, via, ended>>

\* the run ends normally when every script of the run has ended
RunEndOK == /\ phase = "running" /\ \A f \in Files : InRun(f) => ended[f]
            /\ phase' = "idle" /\ mon' = Feed(mon, << [t |-> "RunEnd", res |-> "empty"] >>)
            /\ UNCHANGED <<prog, pc, via, ended, flag, run>>

Advance(f) == IF pc[f] + 1 > Len(prog[f]) THEN /\ ended' = [ended EXCEPT ![f] = TRUE] /\ pc' = [pc EXCEPT ![f] = pc[f] + 1]
              ELSE /\ pc' = [pc EXCEPT ![f] = pc[f] + 1] /\ UNCHANGED ended

\* notice the flag while script f is at item it: unwind to the nearest handler or fail the run
Notice(f, it, evs) ==
    LET h == Innermost(it.hs) IN
    IF h = NoH /\ RunIsEval /\ ~EvalStopsAtError
    THEN /\ mon' = Feed(mon, evs \o << [t |-> "Trace", file |-> f, line |-> it.line] >>)      \* reported, and then the next statement executes
         /\ flag' = FALSE /\ Advance(f) /\ UNCHANGED <<via, phase>>
    ELSE IF h = NoH
    THEN /\ mon' = Feed(mon, evs \o << [t |-> "Trace", file |-> f, line |-> it.line], [t |-> "RunEnd", res |-> "runtime_error"] >>)
         /\ flag' = FALSE /\ phase' = "idle"
         /\ ended' = [g \in Files |-> IF InRun(g) THEN TRUE ELSE ended[g]]     \* the embedder aborts: all scripts of the run are discarded
         /\ UNCHANGED <<pc, via>>
    ELSE /\ mon' = Feed(mon, evs) /\ flag' = FALSE
         /\ pc' = [pc EXCEPT ![f] = Hd(f)[h].start] /\ via' = [via EXCEPT ![f] = TRUE]
         /\ UNCHANGED <<ended, phase>>

Exec(f) ==
    /\ phase = "running" /\ InRun(f) /\ ~ended[f]
    /\ UNCHANGED <<prog, run>>
    /\ LET it == prog[f][pc[f]] IN
       CASE it.kind = "hmark" /\ ~via[f] ->           \* try body completed: skip the handler
                /\ pc' = [pc EXCEPT ![f] = Hd(f)[it.h].cont] /\ UNCHANGED <<via, ended, flag, mon, phase>>
         [] it.kind \in {"mark", "cmark", "hmark"} ->
                LET e == << [t |-> "Mark", file |-> f, line |-> it.line, exc |-> TRUE] >> IN
                IF flag THEN Notice(f, it, e)           \* a leftover flag is noticed after this instruction and blamed on it
                ELSE /\ mon' = Feed(mon, e) /\ via' = [via EXCEPT ![f] = FALSE] /\ Advance(f) /\ UNCHANGED <<flag, phase>>
         [] it.kind = "errx" ->
                Notice(f, it, << [t |-> "Err", file |-> f, line |-> it.line] >>)
         [] it.kind = "errn" ->
                IF NoticeAfterNext THEN Notice(f, it, << [t |-> "Err", file |-> f, line |-> it.line] >>)
                ELSE /\ mon' = Feed(mon, << [t |-> "Err", file |-> f, line |-> it.line] >>)
                     /\ flag' = TRUE /\ Advance(f) /\ UNCHANGED <<via, phase>>

Next == RunStart \/ RunEndOK \/ \E f \in Files : Exec(f)
Spec == Init /\ [][Next]_vars

InvMonitor == mon.viol = ""
\* non-vacuity of the family: these must be reachable (checked as violated invariants in the self-test)
ReachHandler == ~ \E f \in Files : mon.mode[f].k = "in_handler"
=============================================================================
