---------------------------- MODULE Config_Filter ----------------------------
(* Seeded random histories: the orchestrator draws statement sequences blindly from a wider        *)
(* universe (env CANDS, NDJSON lines {"h":[<statements>]}); this module keeps of every candidate   *)
(* the statements Config.tla enables in the state reached so far and prints the result             *)
(* ("OUT <json history>").  Which statements the property speaks about is thus decided in one      *)
(* place - Enabled of Config.tla.                                                                  *)
EXTENDS Config, Json, IOUtils

Cands == ndJsonDeserialize(IOEnv.CANDS)

RECURSIVE Keep(_, _, _)
Keep(s, ops, acc) ==
    IF ops = <<>> THEN acc
    ELSE IF Enabled(s, Head(ops))
         THEN (IF ClosesCycle(s, Head(ops))
               THEN Append(acc, Head(ops))     \* what remains after a refused re-binding is not comparable: cut here
               ELSE Keep(Apply(s, Head(ops)), Tail(ops), Append(acc, Head(ops))))
    ELSE Keep(s, Tail(ops), acc)

ASSUME \A i \in 1..Len(Cands) : PrintT("OUT " \o ToJson(Keep(InitState, Cands[i].h, <<>>)))

VARIABLE x
FInit == x = 0
FNext == UNCHANGED x
FSpec == FInit /\ [][FNext]_x
=============================================================================
