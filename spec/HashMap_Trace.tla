--------------------------- MODULE HashMap_Trace ---------------------------
(* Trace validation of hashmap histories against HashMap.tla (see Heap_Trace for the scheme). *)
EXTENDS HashMap, Json, IOUtils

Log == ndJsonDeserialize(IOEnv.TRACE)
VARIABLES l, st, dead, bad, nops, done
tvars == <<l, st, dead, bad, nops, done>>

\* observed map {"t":"h","v":[[k,v],..]} as a set of pairs
ObsMap(o) == { <<o.h[i][1], o.h[i][2]>> : i \in 1..Len(o.h) }
IsMap(o) == o.t = "h"

Why(s1, op, s2, e) ==
    LET wrong == { m \in MapVars : ~IsMap(e.vars[m]) \/ ObsMap(e.vars[m]) # Entries(s2, m) }
        dup == { m \in MapVars : IsMap(e.vars[m]) /\ Cardinality(ObsMap(e.vars[m])) # Len(e.vars[m].h) }
    IN IF e.res # "empty" \/ e.maxlvl <= 1 THEN "NoErrorOnValidOp"
       ELSE IF dup # {} THEN "MapIsDict-duplicate-key"
       ELSE IF wrong # {} THEN
            (IF op.op \in {"mutk", "mutj", "mutkeys"} THEN "KeyCapturedByValue"
             ELSE IF op.op \in {"newk", "newkj"} \/ (\E m \in wrong : m # op.m) THEN "CopyIndependent"
             ELSE "MapIsDict-content")
       ELSE IF s2.ret # None /\ e.ret # s2.ret THEN "MapIsDict-result"
       ELSE ""

TraceInit == l = 1 /\ st = InitState /\ dead = FALSE /\ bad = <<>> /\ nops = 0 /\ done = FALSE

Consume ==
    /\ l <= Len(Log) /\ l' = l + 1 /\ UNCHANGED done
    /\ LET e == Log[l] IN
       CASE e.e = "Reset" -> st' = InitState /\ dead' = FALSE /\ UNCHANGED <<bad, nops>>
         [] e.e = "Crash" ->
                /\ bad' = IF dead THEN bad ELSE Append(bad, [id |-> e.id, line |-> l, why |-> "Crash", op |-> e.why])
                /\ dead' = TRUE /\ UNCHANGED <<st, nops>>
         [] e.e = "Obs" /\ ~dead /\ e.op.op # "setup" ->
                LET s2 == Apply(st, e.op)
                    w == IF e.cyclic THEN "Acyclic" ELSE Why(st, e.op, s2, e)
                IN IF w = "" THEN st' = s2 /\ nops' = nops + 1 /\ UNCHANGED <<dead, bad>>
                   ELSE /\ bad' = Append(bad, [id |-> e.id, line |-> l, why |-> w, op |-> e.op.op])
                        /\ dead' = TRUE /\ UNCHANGED <<st, nops>>
         [] OTHER -> UNCHANGED <<st, dead, bad, nops>>

Finish == /\ l = Len(Log) + 1 /\ ~done /\ done' = TRUE /\ UNCHANGED <<l, st, dead, bad, nops>>
          /\ PrintT("VERDICT " \o ToJson([lines |-> Len(Log), ops |-> nops, bad |-> bad]))
TraceSpec == TraceInit /\ [][Consume \/ Finish]_tvars
TInvDict == MapIsDict(st)
=============================================================================
