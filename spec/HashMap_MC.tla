---------------------------- MODULE HashMap_MC ----------------------------
(* Design check + history generator for HashMap.tla (same scheme as Heap_MC). *)
EXTENDS HashMap, Json

CONSTANTS Depth, Emit

VARIABLES st, prev, lastop, hist

LitKey(t) == [k |-> "lit", v |-> t]
KVar == [k |-> "kvar"]
KeyPool == { LitKey(Num(0)), LitKey(Num(1)), LitKey(Str("a")), LitKey(Str("A")), LitKey(Bool(TRUE)),
             LitKey(ArrT(<<Num(0)>>)), LitKey(ArrT(<<Num(0), Num(9)>>)), LitKey(ArrT(<<ArrT(<<Num(0)>>)>>)), KVar }
SmallKeys == { LitKey(Num(0)), LitKey(Str("a")), LitKey(Str("A")), LitKey(ArrT(<<Num(0)>>)), LitKey(ArrT(<<Num(0), Num(9)>>)), KVar }
Vals == { Num(5), Num(6) }

Ops ==   { [op |-> "set", m |-> m, key |-> k, val |-> v] : m \in MapVars, k \in SmallKeys, v \in Vals }
    \cup { [op |-> "set", m |-> m, key |-> LitKey(Str("a")), val |-> ArrT(<<Num(1)>>)] : m \in MapVars }      \* an array as value (see mutval)
    \cup { [op |-> "get", m |-> m, key |-> k] : m \in MapVars, k \in SmallKeys }
    \cup { [op |-> "del", m |-> m, key |-> k] : m \in MapVars, k \in SmallKeys }
    \cup { [op |-> "in", m |-> m, key |-> k] : m \in MapVars, k \in SmallKeys }
    \cup { [op |-> "count", m |-> m] : m \in MapVars }
    \cup { [op |-> "fromArray", m |-> m, pairs |-> p] : m \in MapVars,
              p \in { << <<LitKey(Num(0)), Num(5)>>, <<LitKey(Str("a")), Num(6)>> >>,
                      << <<LitKey(Str("a")), Num(5)>>, <<LitKey(Str("A")), Num(6)>>, <<LitKey(Str("a")), Num(6)>> >>,
                      << <<KVar, Num(5)>> >> } }
    \cup { [op |-> "copy", m |-> p[1], src |-> p[2]] : p \in { q \in MapVars \X MapVars : q[1] # q[2] } }
    \cup { [op |-> "newk", elems |-> <<Num(0)>>] }
    \cup { [op |-> "mutk"] }
    \cup { [op |-> "newkj"] }
    \cup { [op |-> "mutj"] }
    \cup { [op |-> "mutkeys", m |-> m] : m \in MapVars }
    \cup { [op |-> "mutval", m |-> m, key |-> k] : m \in MapVars, k \in {LitKey(Num(0)), LitKey(Str("a"))} }

vars == <<st, prev, lastop, hist>>
Init == st = InitState /\ prev = InitState /\ lastop = [op |-> "init"] /\ hist = <<>>
Next == \E o \in Ops :
          /\ Len(hist) < Depth
          /\ st' = Apply(st, o)
          /\ prev' = st /\ lastop' = o
          /\ hist' = Append(hist, o)
          /\ (Emit => PrintT("OUT " \o ToJson(hist')))
Spec == Init /\ [][Next]_vars
View == <<st, Len(hist)>>
\* the design check must see every transition (step invariants read prev and lastop)
ViewStep == <<st, prev, lastop, Len(hist)>>

InvDict == MapIsDict(st)
InvKeyCaptured == lastop.op # "init" => KeyCapturedByValue(prev, lastop, st)
InvCopyIndependent == lastop.op # "init" => CopyIndependent(prev, lastop, st)
=============================================================================
