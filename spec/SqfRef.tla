------------------------------- MODULE SqfRef -------------------------------
(***************************************************************************)
(* C02 / C03: reference semantics of SQF control structures and variable   *)
(* scoping, written from the property statements (DESIGN.md appendix A),   *)
(* deliberately NOT shaped like the implementation: a big-step evaluator   *)
(* over program ASTs (the JSON ASTs of tools/gen_prog.py) with an explicit *)
(* scope chain, namespaces and a marker log.                               *)
(*                                                                         *)
(* Values  [t|->"n",n] [t|->"b",b] [t|->"s",s] [t|->"a",a|->Seq] [t|->"nil"]*)
(*         [t|->"c",body] code   [t|->"h"] opaque handle                   *)
(* State   S = [log, glob, frames]                                         *)
(*   log    : Seq(STRING)       what the marker statements printed          *)
(*   glob   : namespace name -> (lower-case variable name -> value)        *)
(*   frames : Seq([vars, name, ns])  the dynamic scope chain, innermost    *)
(*            last; vars: lower-case local name -> value; name: scopeName; *)
(*            ns: the namespace globals resolve in                         *)
(* Result  R = [v, S, sig]   v: value or NoVal; sig: how evaluation ended  *)
(*   [k|->"ok"] | [k|->"exit"] (exitWith) | [k|->"break",name] | [k|->"throw"]*)
(*   | [k|->"casehit"] (a case matched: leave the scope executing it)      *)
(*   | [k|->"err"] | [k|->"domain"] (arithmetic left the reference's number *)
(*   domain); for exit/break/throw v carries the value handed over         *)
(***************************************************************************)
EXTENDS Integers, Sequences, FiniteSets, TLC

CONSTANTS Mut,                      \* "none"; mutated semantics for the non-vacuity self-test: "exit-continues", "foreach-skips-last", "switch-last-match"
          LoopFuel,                 \* bound on loop iterations (programs are generated terminating)
          NestedBlocksInheritNamespace  \* TRUE: property; FALSE: named deviation (frames pushed inside `with ns do` use the default namespace, F3a)

Nil == [t |-> "nil"]
NoVal == [t |-> "none"]
Num(n) == [t |-> "n", n |-> n]
Bool(b) == [t |-> "b", b |-> b]
Str(s) == [t |-> "s", s |-> s]
ArrV(a) == [t |-> "a", a |-> a]
Ok == [k |-> "ok"]
R(v, S, sig) == [v |-> v, S |-> S, sig |-> sig]
IsOk(r) == r.sig.k = "ok"
Val(v) == IF v = NoVal THEN Nil ELSE v      \* a block without value yields nil

\* ---- printing (str)
RECURSIVE StrOf(_)
RECURSIVE StrEls(_, _)
StrEls(a, i) == IF i > Len(a) THEN "" ELSE (IF i > 1 THEN "," ELSE "") \o StrOf(a[i]) \o StrEls(a, i + 1)
StrOf(v) ==
    CASE v.t = "n" -> (IF v.n < 0 THEN "-" \o ToString(0 - v.n) ELSE ToString(v.n))
      [] v.t = "b" -> (IF v.b THEN "true" ELSE "false")
      [] v.t = "s" -> "\"" \o v.s \o "\""
      [] v.t = "a" -> "[" \o StrEls(v.a, 1) \o "]"
      [] v.t = "nil" -> "nil"
      [] v.t = "none" -> "nil"
      [] OTHER -> "?"

\* ---- functions with growing domains
Has(f, k) == k \in DOMAIN f
Put(f, k, v) == [x \in DOMAIN f \cup {k} |-> IF x = k THEN v ELSE f[x]]
Empty == [x \in {} |-> Nil]

Top(S) == S.frames[Len(S.frames)]
CurNs(S) == Top(S).ns
PushFrame(S, vars, ns) == [S EXCEPT !.frames = Append(S.frames, [vars |-> vars, name |-> "", ns |-> ns])]
PopFrame(S) == [S EXCEPT !.frames = SubSeq(S.frames, 1, Len(S.frames) - 1)]
\* the namespace a block started from frame S inherits
InheritNs(S) == IF NestedBlocksInheritNamespace THEN CurNs(S) ELSE "mission"

\* ---- variables (names arrive lower-cased in field ln; locals start with "_")
RECURSIVE HolderFrom(_, _, _)
HolderFrom(frames, i, ln) == IF i = 0 THEN 0 ELSE IF Has(frames[i].vars, ln) THEN i ELSE HolderFrom(frames, i - 1, ln)
Holder(S, ln) == HolderFrom(S.frames, Len(S.frames), ln)
GetLocal(S, ln) == LET i == Holder(S, ln) IN IF i = 0 THEN Nil ELSE S.frames[i].vars[ln]
SetLocal(S, ln, v) ==      \* nearest holder, else the current scope
    LET i == Holder(S, ln) j == IF i = 0 THEN Len(S.frames) ELSE i
    IN [S EXCEPT !.frames[j].vars = Put(S.frames[j].vars, ln, v)]
BindLocal(S, ln, v) ==     \* private / params / loop variables: always the current scope
    [S EXCEPT !.frames[Len(S.frames)].vars = Put(S.frames[Len(S.frames)].vars, ln, v)]
GetGlobal(S, ns, ln) == IF Has(S.glob[ns], ln) THEN S.glob[ns][ln] ELSE Nil
SetGlobal(S, ns, ln, v) == [S EXCEPT !.glob[ns] = Put(S.glob[ns], ln, v)]
GetVar(S, e) == IF e.loc THEN GetLocal(S, e.ln) ELSE GetGlobal(S, CurNs(S), e.ln)
Assign(S, e, v) == IF e.loc THEN SetLocal(S, e.ln, v) ELSE SetGlobal(S, CurNs(S), e.ln, v)

IsTrue(v) == v.t = "b" /\ v.b
ValEq(a, b) == a.t = b.t /\ a.t # "nil" /\ a = b

---------------------------------------------------------------------------
RECURSIVE Eval(_, _)
RECURSIVE EvalList(_, _, _, _)
RECURSIVE Exec(_, _, _, _)
RECURSIVE Block(_, _, _)
RECURSIVE WhileLoop(_, _, _, _)
RECURSIVE ForLoop(_, _, _, _, _, _, _)
RECURSIVE EachLoop(_, _, _, _, _, _, _)

\* a block executed as a new scope: Block(stmts, S, vars)
\*   - the scope's bindings disappear when it ends
\*   - exitWith inside leaves exactly this scope; breakOut leaves it if it carries the name
\* signals that leave exactly the scope they are raised in: exitWith, and a matching `case x: {..}`
\* (the frame executing the case statement is left; the switch runs the chosen code when its body is done)
Leaves(sig) == sig.k \in {"exit", "casehit"}
Block(stmts, S, vars) ==
    LET S1 == PushFrame(S, vars, InheritNs(S))
        r == Exec(stmts, 1, S1, NoVal)
        named == Top(r.S).name
        S2 == PopFrame(r.S)
    IN IF Leaves(r.sig) THEN R(Val(r.v), S2, Ok)
       ELSE IF r.sig.k = "break" /\ r.sig.name = named /\ named # "" THEN R(Val(r.v), S2, Ok)
       ELSE IF IsOk(r) THEN R(Val(r.v), S2, Ok)
       ELSE R(r.v, S2, r.sig)

\* evaluate expressions left to right: EvalList(es, i, S, acc) -> R with v = ArrV(values)
EvalList(es, i, S, acc) ==
    IF i > Len(es) THEN R(ArrV(acc), S, Ok)
    ELSE LET r == Eval(es[i], S) IN
         IF ~IsOk(r) THEN r ELSE EvalList(es, i + 1, r.S, Append(acc, r.v))

\* The reference computes on integers of at most six digits: those are exact in the VM's single-precision numbers and
\* printed digit by digit. A program whose arithmetic leaves this domain is outside the reference (signal "domain").
NumMax == 999999
Abs(n) == IF n < 0 THEN 0 - n ELSE n
InDomain(op, a, b) ==
    CASE op = "+" /\ a.t # "a" -> Abs(a.n + b.n) <= NumMax
      [] op = "-" -> Abs(a.n - b.n) <= NumMax
      [] op = "*" -> a.n = 0 \/ b.n = 0 \/ Abs(a.n) <= NumMax \div Abs(b.n)        \* decided without multiplying (TLC integers are 32 bit)
      [] OTHER -> TRUE
Arith(op, a, b) ==
    CASE op = "+" -> (IF a.t = "a" THEN ArrV(a.a \o b.a) ELSE Num(a.n + b.n))
      [] op = "-" -> Num(a.n - b.n)
      [] op = "*" -> Num(a.n * b.n)
      [] op = "<" -> Bool(a.n < b.n)
      [] op = ">" -> Bool(a.n > b.n)
      [] op = "<=" -> Bool(a.n <= b.n)
      [] op = ">=" -> Bool(a.n >= b.n)
      [] op = "==" -> Bool(a = b)
      [] op = "!=" -> Bool(a # b)
      [] op = "isEqualTo" -> Bool(ValEq(a, b))
      [] op = "&&" -> Bool(a.b /\ b.b)
      [] op = "||" -> Bool(a.b \/ b.b)

Eval(e, S) ==
    CASE e.k = "num" -> R(Num(e.n), S, Ok)
      [] e.k = "bool" -> R(Bool(e.b), S, Ok)
      [] e.k = "str" -> R(Str(e.s), S, Ok)
      [] e.k = "nil" -> R(Nil, S, Ok)
      [] e.k = "var" -> R(GetVar(S, e), S, Ok)
      [] e.k = "arr" -> EvalList(e.els, 1, S, <<>>)
      [] e.k = "bin" ->
            (LET l == Eval(e.l, S) IN IF ~IsOk(l) THEN l ELSE
             LET r == Eval(e.r, l.S) IN IF ~IsOk(r) THEN r
             ELSE IF ~InDomain(e.op, l.v, r.v) THEN R(Nil, r.S, [k |-> "domain"])
             ELSE R(Arith(e.op, l.v, r.v), r.S, Ok))
      [] e.k = "lazy" ->      \* b && {c} / b || {c}: the block runs only when needed
            (LET l == Eval(e.l, S) IN IF ~IsOk(l) THEN l ELSE
             IF (e.op = "&&" /\ ~IsTrue(l.v)) \/ (e.op = "||" /\ IsTrue(l.v)) THEN R(Bool(IsTrue(l.v)), l.S, Ok)
             ELSE Block(e.body, l.S, Empty))
      [] e.k = "not" -> (LET x == Eval(e.x, S) IN IF ~IsOk(x) THEN x ELSE R(Bool(~IsTrue(x.v)), x.S, Ok))
      [] e.k = "neg" -> (LET x == Eval(e.x, S) IN IF ~IsOk(x) THEN x ELSE R(Num(0 - x.v.n), x.S, Ok))
      [] e.k = "cnt" -> (LET x == Eval(e.x, S) IN IF ~IsOk(x) THEN x ELSE R(Num(Len(x.v.a)), x.S, Ok))
      [] e.k = "sel" ->
            (LET x == Eval(e.x, S) IN IF ~IsOk(x) THEN x ELSE
             LET i == Eval(e.i, x.S) IN IF ~IsOk(i) THEN i ELSE R(x.v.a[i.v.n + 1], i.S, Ok))
      [] e.k = "call" -> Block(e.body, S, Put(Empty, "_this", GetLocal(S, "_this")))
      [] e.k = "callw" ->
            (LET a == Eval(e.arg, S) IN IF ~IsOk(a) THEN a ELSE Block(e.body, a.S, Put(Empty, "_this", a.v)))
      [] e.k = "if" ->
            (LET c == Eval(e.c, S) IN IF ~IsOk(c) THEN c ELSE
             IF IsTrue(c.v) THEN Block(e.th, c.S, Empty)
             ELSE IF e.hasel THEN Block(e.el, c.S, Empty) ELSE R(Nil, c.S, Ok))
      [] e.k \in {"fcount", "fselect", "fapply", "ffindif"} ->
            (LET a == Eval(e.arr, S) IN IF ~IsOk(a) THEN a ELSE
             IF Len(a.v.a) = 0 THEN R((IF e.k = "fcount" THEN Num(0) ELSE IF e.k = "ffindif" THEN Num(-1) ELSE ArrV(<<>>)), a.S, Ok)
             ELSE LET S0 == PushFrame(a.S, Empty, InheritNs(a.S))
                      f == EachLoop(e.k, e.body, a.v.a, 1, S0, (IF e.k = "fcount" THEN Num(0) ELSE IF e.k = "ffindif" THEN Num(-1) ELSE ArrV(<<>>)), FALSE)
                  IN IF IsOk(f) \/ Leaves(f.sig) THEN R(Val(f.v), PopFrame(f.S), Ok)
                     ELSE IF f.sig.k = "break" /\ Top(f.S).name = f.sig.name /\ f.sig.name # "" THEN R(Val(f.v), PopFrame(f.S), Ok)
                     ELSE R(f.v, PopFrame(f.S), f.sig))
      [] e.k = "switch" ->
            \* the body is an ordinary block; case / default statements executed anywhere in its dynamic extent
            \* act on the innermost switch record (S.sw); the chosen code runs in the switch scope afterwards
            (LET v == Eval(e.v, S) IN IF ~IsOk(v) THEN v ELSE
             LET S1 == PushFrame(v.S, Empty, InheritNs(v.S))
                 S1s == [S1 EXCEPT !.sw = Append(S1.sw, [val |-> v.v, now |-> FALSE, has |-> FALSE, target |-> <<>>, set |-> FALSE])]
                 b == Exec(e.body, 1, S1s, NoVal)
                 n == Len(b.S.sw)
                 rec == b.S.sw[n]
                 Sp == [b.S EXCEPT !.sw = SubSeq(b.S.sw, 1, n - 1)]
             IN IF ~IsOk(b) /\ b.sig.k # "casehit" THEN
                     (IF b.sig.k = "exit" THEN R(Val(b.v), PopFrame(Sp), Ok) ELSE R(b.v, PopFrame(Sp), b.sig))
                ELSE IF rec.set THEN
                     (LET t == Exec(rec.target, 1, Sp, NoVal) IN
                      IF IsOk(t) \/ Leaves(t.sig) THEN R(Val(t.v), PopFrame(t.S), Ok) ELSE R(t.v, PopFrame(t.S), t.sig))
                ELSE R(Nil, PopFrame(Sp), Ok))
      [] e.k = "try" ->
            (LET S1 == PushFrame(S, Empty, InheritNs(S))
                 b == Exec(e.body, 1, S1, NoVal)
             IN IF b.sig.k = "throw" THEN
                     (LET S2 == [b.S EXCEPT !.frames = SubSeq(b.S.frames, 1, Len(S1.frames))]     \* back in the try scope, bindings cleared
                          S3 == [S2 EXCEPT !.frames[Len(S2.frames)].vars = Put(Empty, "_exception", b.v)]
                          h == Exec(e.handler, 1, S3, NoVal)
                      IN IF IsOk(h) \/ Leaves(h.sig) THEN R(Val(h.v), PopFrame(h.S), Ok) ELSE R(h.v, PopFrame(h.S), h.sig))
                ELSE IF IsOk(b) \/ Leaves(b.sig) THEN R(Val(b.v), PopFrame(b.S), Ok)
                ELSE R(b.v, PopFrame(b.S), b.sig))
      [] e.k = "isnilc" -> (LET b == Block(e.body, S, Empty) IN IF ~IsOk(b) THEN b ELSE R(Bool(b.v.t = "nil"), b.S, Ok))
      [] e.k = "getvar" -> R(GetGlobal(S, e.ns, e.ln), S, Ok)            \* ns getVariable "name"
      [] e.k = "isnils" -> R(Bool(GetVar(S, e).t = "nil"), S, Ok)        \* isNil "name"
      [] e.k = "allvars" -> R(Num(Cardinality({ n \in DOMAIN S.glob[e.ns] : S.glob[e.ns][n].t # "nil" })), S, Ok)   \* count allVariables ns
      [] e.k = "within" ->      \* with ns do {..}: a new scope resolving globals in ns
            (LET S1 == PushFrame(S, Empty, e.ns)
                 b == Exec(e.body, 1, S1, NoVal)
             IN IF IsOk(b) \/ Leaves(b.sig) THEN R(Val(b.v), PopFrame(b.S), Ok) ELSE R(b.v, PopFrame(b.S), b.sig))

\* iteration of count / select / apply / findIf: ONE scope for the construct (an early exit ends the
\* whole construct), its bindings cleared for every element
EachLoop(kind, body, elems, i, S, acc, stop) ==
    IF i > Len(elems) \/ stop THEN R(acc, S, Ok)
    ELSE LET S1 == [S EXCEPT !.frames[Len(S.frames)].vars = Put(Empty, "_x", elems[i])]
             b == Exec(body, 1, S1, NoVal)
             bv == Val(b.v) IN
         IF ~IsOk(b) THEN b
         ELSE CASE kind = "fcount" -> EachLoop(kind, body, elems, i + 1, b.S, (IF IsTrue(bv) THEN Num(acc.n + 1) ELSE acc), FALSE)
                [] kind = "fselect" -> EachLoop(kind, body, elems, i + 1, b.S, (IF IsTrue(bv) THEN ArrV(Append(acc.a, elems[i])) ELSE acc), FALSE)
                [] kind = "fapply" -> EachLoop(kind, body, elems, i + 1, b.S, ArrV(Append(acc.a, bv)), FALSE)
                [] kind = "ffindif" -> (IF IsTrue(bv) THEN R(Num(i - 1), b.S, Ok) ELSE EachLoop(kind, body, elems, i + 1, b.S, acc, FALSE))

\* switch body: statements in order; `case x` arms, `case x: {c}` selects when armed, default selects provisionally
WhileLoop(cond, body, S, fuel) ==
    IF fuel = 0 THEN R(Nil, S, [k |-> "err"])
    ELSE LET S1 == [S EXCEPT !.frames[Len(S.frames)].vars = Empty]          \* each pass in a cleared scope
             c == Exec(cond, 1, S1, NoVal) IN
         IF ~IsOk(c) THEN c
         ELSE IF ~IsTrue(c.v) THEN R(Nil, c.S, Ok)
         ELSE LET S2 == [c.S EXCEPT !.frames[Len(c.S.frames)].vars = Empty]
                  b == Exec(body, 1, S2, NoVal) IN
              IF ~IsOk(b) THEN b ELSE WhileLoop(cond, body, b.S, fuel - 1)

ForLoop(ln, cur, to, step, body, S, fuel) ==
    IF fuel = 0 THEN R(Nil, S, [k |-> "err"])
    ELSE LET S1 == [S EXCEPT !.frames[Len(S.frames)].vars = Put(Empty, ln, Num(cur))]
             b == Exec(body, 1, S1, NoVal) IN
         IF ~IsOk(b) THEN b
         ELSE LET iv == GetLocal(b.S, ln)                 \* the body's own assignment to the variable is honoured
                  nxt == iv.n + step IN
              IF (step >= 0 /\ nxt > to) \/ (step < 0 /\ nxt < to) THEN R(Val(b.v), b.S, Ok)
              ELSE ForLoop(ln, nxt, to, step, body, b.S, fuel - 1)

\* statements of one block, executed in the current scope: Exec(stmts, i, S, last)
Exec(stmts, i, S, last) ==
    IF i > Len(stmts) THEN R(last, S, Ok)
    ELSE LET s == stmts[i] IN
    CASE s.k = "expr" ->
            (LET r == Eval(s.x, S) IN IF ~IsOk(r) THEN r ELSE Exec(stmts, i + 1, r.S, r.v))
      [] s.k = "assign" ->
            (LET r == Eval(s.x, S) IN IF ~IsOk(r) THEN r ELSE Exec(stmts, i + 1, Assign(r.S, s, r.v), NoVal))
      [] s.k = "private" ->
            (LET r == Eval(s.x, S) IN IF ~IsOk(r) THEN r ELSE Exec(stmts, i + 1, BindLocal(r.S, s.ln, r.v), NoVal))
      \* private "_x": the property says where the name is bound (the current scope) and is silent
      \* about a name that scope already holds; the code keeps the held value, and so does this.
      [] s.k = "privates" -> Exec(stmts, i + 1, IF Has(Top(S).vars, s.ln) THEN S ELSE BindLocal(S, s.ln, Nil), Nil)
      [] s.k = "params" ->      \* params ["_a","_b"]: binds from _this in the current scope
            (LET this == GetLocal(S, "_this")
                 elems == IF this.t = "a" THEN this.a ELSE <<this>>
                 RECURSIVE bind(_, _)
                 bind(j, SS) == IF j > Len(s.lns) THEN SS ELSE bind(j + 1, BindLocal(SS, s.lns[j], IF j <= Len(elems) THEN elems[j] ELSE Nil))
             IN Exec(stmts, i + 1, bind(1, S), Bool(TRUE)))
      [] s.k = "mark" ->
            (LET r == Eval(s.x, S) IN IF ~IsOk(r) THEN r
             ELSE Exec(stmts, i + 1, [r.S EXCEPT !.log = Append(r.S.log, StrOf(r.v))], Nil))
      [] s.k = "exitwith" ->
            (LET c == Eval(s.c, S) IN IF ~IsOk(c) THEN c
             ELSE IF IsTrue(c.v) THEN (LET b == Block(s.body, c.S, Empty) IN IF ~IsOk(b) THEN b
                                       ELSE IF Mut = "exit-continues" THEN Exec(stmts, i + 1, b.S, b.v) ELSE R(b.v, b.S, [k |-> "exit"]))
             ELSE Exec(stmts, i + 1, c.S, Nil))
      [] s.k = "while" ->
            (LET S1 == PushFrame(S, Empty, InheritNs(S))
                 w == WhileLoop(s.c, s.body, S1, LoopFuel)
             IN IF IsOk(w) \/ Leaves(w.sig) THEN Exec(stmts, i + 1, PopFrame(w.S), Val(w.v))
                ELSE IF w.sig.k = "break" /\ Top(w.S).name = w.sig.name /\ w.sig.name # "" THEN Exec(stmts, i + 1, PopFrame(w.S), Val(w.v))
                ELSE R(w.v, PopFrame(w.S), w.sig))
      [] s.k = "for" ->
            (LET fr == Eval(s.from, S) IN IF ~IsOk(fr) THEN fr ELSE
             LET to == Eval(s.to, fr.S) IN IF ~IsOk(to) THEN to ELSE
             LET step == IF s.hasstep THEN s.step.n ELSE 1 IN
             IF (step > 0 /\ fr.v.n > to.v.n) \/ (step < 0 /\ fr.v.n < to.v.n) THEN Exec(stmts, i + 1, to.S, Nil)      \* empty range: no pass
             ELSE LET S1 == PushFrame(to.S, Empty, InheritNs(to.S))
                      f == ForLoop(s.ln, fr.v.n, to.v.n, step, s.body, S1, LoopFuel)
                  IN IF IsOk(f) \/ Leaves(f.sig) THEN Exec(stmts, i + 1, PopFrame(f.S), Val(f.v))
                     ELSE R(f.v, PopFrame(f.S), f.sig))
      [] s.k = "foreach" ->
            (LET a == Eval(s.arr, S) IN IF ~IsOk(a) THEN a ELSE
             LET RECURSIVE each(_, _, _)
                 each(j, SS, lastv) ==
                    IF j > Len(a.v.a) \/ (Mut = "foreach-skips-last" /\ j = Len(a.v.a) /\ j > 1) THEN R(lastv, SS, Ok)
                    ELSE LET S1 == [SS EXCEPT !.frames[Len(SS.frames)].vars = Put(Put(Empty, "_x", a.v.a[j]), "_foreachindex", Num(j - 1))]
                             b == Exec(s.body, 1, S1, NoVal) IN
                         IF ~IsOk(b) THEN b ELSE each(j + 1, b.S, b.v)
                 S0 == PushFrame(a.S, Empty, InheritNs(a.S))
                 f == each(1, S0, NoVal)
             IN IF Len(a.v.a) = 0 THEN Exec(stmts, i + 1, a.S, Nil)
                ELSE IF IsOk(f) \/ Leaves(f.sig) THEN Exec(stmts, i + 1, PopFrame(f.S), Val(f.v))
                ELSE IF f.sig.k = "break" /\ Top(f.S).name = f.sig.name /\ f.sig.name # "" THEN Exec(stmts, i + 1, PopFrame(f.S), Val(f.v))
                ELSE R(f.v, PopFrame(f.S), f.sig))
      [] s.k = "scopename" ->
            Exec(stmts, i + 1, [S EXCEPT !.frames[Len(S.frames)].name = s.s], Nil)
      [] s.k = "breakout" ->
            (IF s.hasx THEN (LET x == Eval(s.x, S) IN IF ~IsOk(x) THEN x ELSE R(x.v, x.S, [k |-> "break", name |-> s.s]))
             ELSE R(Nil, S, [k |-> "break", name |-> s.s]))
      [] s.k = "throw" ->
            (LET x == Eval(s.x, S) IN IF ~IsOk(x) THEN x ELSE R(x.v, x.S, [k |-> "throw"]))
      [] s.k = "case" ->       \* case x; (fall-through)   case x: {body}
            (LET x == Eval(s.x, S) IN IF ~IsOk(x) THEN x ELSE
             LET n == Len(x.S.sw)
                 sw == x.S.sw[n]
                 now == sw.now \/ x.v = sw.val
             IN IF s.hasbody /\ ~sw.has /\ now /\ Mut = "switch-last-match"
                THEN Exec(stmts, i + 1, [x.S EXCEPT !.sw[n] = [sw EXCEPT !.target = s.body, !.set = TRUE, !.now = FALSE]], Nil)
                ELSE IF s.hasbody /\ ~sw.has /\ now       \* first match wins: the rest of this block is skipped
                THEN R(Nil, [x.S EXCEPT !.sw[n] = [sw EXCEPT !.target = s.body, !.set = TRUE, !.has = TRUE, !.now = FALSE]], [k |-> "casehit"])
                ELSE Exec(stmts, i + 1, [x.S EXCEPT !.sw[n] = [sw EXCEPT !.now = now]], Nil))
      [] s.k = "default" ->
            (LET n == Len(S.sw)
                 sw == S.sw[n]
             IN Exec(stmts, i + 1, IF sw.has THEN S ELSE [S EXCEPT !.sw[n] = [sw EXCEPT !.target = s.body, !.set = TRUE]], Nil))
      [] s.k = "setvar" ->     \* ns setVariable ["name", value]
            (LET x == Eval(s.x, S) IN IF ~IsOk(x) THEN x ELSE Exec(stmts, i + 1, SetGlobal(x.S, s.ns, s.ln, x.v), Nil))
      [] s.k = "spawn" ->      \* code started with spawn sees none of the starter's locals; it runs after the starter here
            Exec(stmts, i + 1, [S EXCEPT !.pending = Append(S.pending, s.body)], [t |-> "h"])

RootFrames == << [vars |-> Empty, name |-> "", ns |-> "mission"] >>
InitS == [log |-> <<>>, glob |-> [ns \in {"mission", "ui", "parsing", "profile"} |-> Empty], frames |-> RootFrames, pending |-> <<>>, sw |-> <<>>]

\* scripts started with spawn: each runs in a scope chain of its own (none of the starter's locals)
RECURSIVE RunPending(_, _)
RunPending(S, fuel) ==
    IF S.pending = <<>> \/ fuel = 0 THEN S
    ELSE LET body == Head(S.pending)
             S1 == [S EXCEPT !.pending = Tail(S.pending), !.frames = << [vars |-> Put(Empty, "_this", ArrV(<<>>)), name |-> "", ns |-> "mission"] >>]
             r == Exec(body, 1, S1, NoVal)
         IN IF r.sig.k = "domain" THEN [r.S EXCEPT !.pending = <<>>, !.log = Append(r.S.log, "DOMAIN")]      \* outside the reference
            ELSE RunPending(r.S, fuel - 1)

\* a whole script: its top-level scope is a scope like any other
Run(prog) == LET r == Exec(prog, 1, InitS, NoVal)
                 S2 == RunPending(r.S, 8)
             IN [log |-> S2.log, value |-> Val(r.v),
                 sig |-> IF r.sig.k = "domain" \/ (\E i \in 1..Len(S2.log) : S2.log[i] = "DOMAIN") THEN "domain" ELSE r.sig.k]
=============================================================================
