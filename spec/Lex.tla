-------------------------------- MODULE Lex --------------------------------
(* C10 - front ends are total.                                             *)
(*                                                                         *)
(* The scanners of the SQF tokenizer (src/parser/sqf/tokenizer.hpp) and of *)
(* the config tokenizer (src/parser/config/tokenizer.hpp), the character   *)
(* reader of the preprocessor (src/parser/preprocessor/default.h,          *)
(* _next/next) and the recursion structure of macro expansion / #include   *)
(* (default.cpp: replace -> handle_macro -> replace, parse_ppinstruction   *)
(* -> parse_file), as functions over a small SYMBOL alphabet.  A symbol    *)
(* stands for one byte, except "li" = the four bytes `line`:               *)
(*   l  g     d  0     e  e     x  x     li line   dq "     sq '    sl /   *)
(*   st *     nl \n    sp ' '   hs #     dt .      dl $     sg -    eq =   *)
(*   bo {     bc }     sc ;     bs \     ot @                              *)
(* Everything is written in functional style: Step(w, inp, st, dev) is one *)
(* step of scanner w ("sqf" | "cfg") on input inp - one try_match case of  *)
(* next(), or one turn of a comment / string skipping loop - and dev is    *)
(* the set of NAMED DEVIATIONS switched on.  dev = {} is the IDEAL scanner *)
(* (every skipping loop stops at the end of the input, #line demands its   *)
(* argument); the deviations are transcribed from the pinned code:         *)
(*   CommentRunsPastEnd     `while (!is_match<'\n'>(++iter));` and the     *)
(*                          block comment loop: is_match is false at AND   *)
(*                          BEYOND the end, so the loops never stop        *)
(*   SingleQuoteRunsPastEnd config t_string_single lacks `iter == m_end`   *)
(*   HashLineUnchecked      m_line: len_ident_match accepts a truncated    *)
(*                          prefix at the end of input, `iter += 6` is     *)
(*                          unchecked, std::stoul throws on a non-number   *)
(*   UnboundedMacroRecursion  handle_macro/replace keep no expansion stack *)
(*   IncludeCycleUnchecked  (NOT in the code - the code searches           *)
(*                          m_file_scopes; kept as a wrong variant for the *)
(*                          non-vacuity self-test of ExpansionTerminates)  *)
(* Formulas (named operators, evaluated by Lex_MC on the model and by      *)
(* Lex_Trace on observations of the real front ends):                      *)
(*   Bounded, Progress, Terminates, ResultOrDiagnostic, TokensTile,        *)
(*   Deterministic, ExpansionTerminates.                                   *)
EXTENDS Naturals, Sequences, FiniteSets

Alphabet == {"l", "d", "e", "x", "li", "dq", "sq", "sl", "st", "nl", "sp", "hs", "dt", "dl", "sg", "eq", "bo", "bc", "sc", "bs", "ot"}
Width(s) == IF s = "li" THEN 4 ELSE 1

ScannerDevs == {"CommentRunsPastEnd", "SingleQuoteRunsPastEnd", "HashLineUnchecked"}
\* what the pinned code is believed to do (DESIGN.md 7: F10a, F10b, F10c)
CodeDevs == {"CommentRunsPastEnd", "SingleQuoteRunsPastEnd", "HashLineUnchecked", "UnboundedMacroRecursion"}

Letters == {"l", "e", "x", "li"}          \* [a-zA-Z_] (none of them starts a keyword of either tokenizer)
IdentCh == Letters \cup {"d"}
HexCh == {"d", "e"}
Digit == {"d"}
Sign == {"sg"}
Blank == {"sp", "nl"}

\* the symbol at 0-based position i; "EOF" at and beyond the end (is_match<..>(iter) is false there)
Sym(inp, i) == IF i < Len(inp) THEN inp[i + 1] ELSE "EOF"

RECURSIVE RunLen(_, _, _)
RunLen(inp, i, S) == IF i < Len(inp) /\ inp[i + 1] \in S THEN 1 + RunLen(inp, i + 1, S) ELSE 0

\* byte offset of symbol position i (positions past the end count one byte each)
RECURSIVE Off(_, _)
Off(inp, i) == IF i = 0 THEN 0
               ELSE IF i > Len(inp) THEN Off(inp, Len(inp)) + (i - Len(inp))
               ELSE Off(inp, i - 1) + Width(inp[i])

\* ---------------------------------------------------------------------------------------------
\* scanner state
\*   pos    symbols consumed          mode   code | lc | bc | sd | ss | done
\*   start  where the open comment / string began
\*   toks   tokens delivered so far: [k kind, o byte offset, n byte length]
\*   diag   (mode = done)  eof = result;  invalid = the scan ends at an invalid token (the tokenizer's
\*          diagnostic: the parser reports a syntax error there);  throw = an exception left the scanner
\*   dev    the deviations taken on the way
\* ---------------------------------------------------------------------------------------------
InitScan == [pos |-> 0, mode |-> "code", start |-> 0, toks |-> <<>>, diag |-> "", dev |-> {}]

Token(inp, k, from, to) == [k |-> k, o |-> Off(inp, from), n |-> Off(inp, to) - Off(inp, from)]
Deliver(inp, st, k, from, to) == [st EXCEPT !.pos = to, !.mode = "code", !.toks = Append(@, Token(inp, k, from, to))]
Finish(st, d) == [st EXCEPT !.mode = "done", !.diag = d]
Took(st, d) == [st EXCEPT !.dev = @ \cup {d}]

\* ---- numbers -------------------------------------------------------------------------------
\* position after the optional fraction / exponent, exactly as the two `if` blocks of t_number
AfterFraction(inp, i) ==
    IF Sym(inp, i) = "dt"
    THEN (IF RunLen(inp, i + 1, Digit) = 0 THEN i ELSE i + 1 + RunLen(inp, i + 1, Digit))
    ELSE i
AfterExponent(inp, i) ==
    IF Sym(inp, i) = "e"
    THEN LET j == IF Sym(inp, i + 1) \in Sign THEN i + 2 ELSE i + 1
         IN IF RunLen(inp, j, Digit) = 0 THEN j - 1 ELSE j + RunLen(inp, j, Digit)
    ELSE i
\* length of t_number at p, 0 = no match                            (sqf/tokenizer.hpp:372-398)
NumSqf(inp, p) ==
    IF Sym(inp, p) # "dt" /\ RunLen(inp, p, Digit) = 0 THEN 0
    ELSE LET i1 == IF Sym(inp, p) # "dt" THEN p + RunLen(inp, p, Digit) ELSE p
         IN AfterExponent(inp, AfterFraction(inp, i1)) - p
\* config: optional sign, is_good, and no letter may follow         (config/tokenizer.hpp:341-376)
NumCfg(inp, p) ==
    LET s0 == IF Sym(inp, p) \in Sign THEN p + 1 ELSE p
    IN IF Sym(inp, s0) # "dt" /\ RunLen(inp, s0, Digit) = 0 THEN 0
       ELSE LET i1 == IF Sym(inp, s0) # "dt" THEN s0 + RunLen(inp, s0, Digit) ELSE s0
                i3 == AfterExponent(inp, AfterFraction(inp, i1))
                good == Sym(inp, s0) # "dt" \/ Sym(inp, i1) = "dt" \/ Sym(inp, AfterFraction(inp, i1)) = "e"
            IN IF good /\ Sym(inp, i3) \notin Letters THEN i3 - p ELSE 0
\* t_hexadecimal: `$` hexdigits+  or  `0x` hexdigits+
HexLen(inp, p) ==
    IF Sym(inp, p) = "dl"
    THEN (IF RunLen(inp, p + 1, HexCh) = 0 THEN 0 ELSE 1 + RunLen(inp, p + 1, HexCh))
    ELSE IF Sym(inp, p + 1) = "x" /\ RunLen(inp, p + 2, HexCh) > 0 THEN 2 + RunLen(inp, p + 2, HexCh)
    ELSE 0

\* ---- #line ---------------------------------------------------------------------------------
\* len_ident_match(iter, "#line") > 0.  The code compares only as far as the input reaches, so a lone
\* '#' at the very end "matches" (the alphabet can spell the prefixes `#` and `#line` only).
HashMatches(inp, p, dev) ==
    \/ Sym(inp, p + 1) = "li" /\ Sym(inp, p + 2) \notin Letters
    \/ "HashLineUnchecked" \in dev /\ p + 1 >= Len(inp)
\* std::stoul accepts [sign] digit+ as a prefix
StoulAccepts(inp, i) == Sym(inp, i) = "d" \/ (Sym(inp, i) \in Sign /\ Sym(inp, i + 1) = "d")
HashLine(inp, st, dev) ==
    LET p == st.pos
        a == p + 3                                  \* `iter += 6`: '#', `line` and ONE more byte, whatever it is
        j == a + RunLen(inp, a, Alphabet \ Blank)   \* the number: up to blank / newline / end
        k == j + RunLen(inp, j, {"sp"})
        m == k + RunLen(inp, k, Alphabet \ {"nl"})  \* the file name: up to newline / end
    IN IF "HashLineUnchecked" \in dev
       THEN (IF a > Len(inp)
             THEN Took([st EXCEPT !.pos = a, !.mode = "done", !.diag = "throw"], "HashLineUnchecked")  \* reads beyond the buffer, then stoul on what it found
             ELSE IF ~StoulAccepts(inp, a) THEN Took(Finish(st, "throw"), "HashLineUnchecked")
             ELSE Deliver(inp, st, "hline", p, m))
       ELSE (IF a > Len(inp) \/ ~StoulAccepts(inp, a) THEN Finish(st, "invalid")
             ELSE Deliver(inp, st, "hline", p, m))

\* ---- skipping loops: "consume, then test" so that every step consumes at least one symbol ------
AtEnd(inp, st) == st.pos >= Len(inp)
LcCheck(inp, st, dev) ==
    IF Sym(inp, st.pos) = "nl" THEN Deliver(inp, st, "lc", st.start, st.pos)          \* the newline is not part of the token
    ELSE IF AtEnd(inp, st) THEN (IF "CommentRunsPastEnd" \in dev THEN Took(st, "CommentRunsPastEnd") ELSE Deliver(inp, st, "lc", st.start, Len(inp)))
    ELSE st
BcCheck(inp, st, dev) ==
    IF Sym(inp, st.pos) = "st" /\ Sym(inp, st.pos + 1) = "sl" THEN Deliver(inp, st, "bc", st.start, st.pos)   \* the closing `*/` is NOT consumed (the "EOF check" tests for `//`)
    ELSE IF AtEnd(inp, st) THEN (IF "CommentRunsPastEnd" \in dev THEN Took(st, "CommentRunsPastEnd") ELSE Deliver(inp, st, "bc", st.start, Len(inp)))
    ELSE st
\* strings: q = the quote symbol, k = token kind, runs = TRUE for the loop without the `iter == m_end` test
StrCheck(inp, st, k, runs) ==
    IF AtEnd(inp, st) THEN (IF runs THEN Took(st, "SingleQuoteRunsPastEnd") ELSE Deliver(inp, st, k, st.start, Len(inp)))
    ELSE st
StrStep(inp, st, q, k, runs) ==
    LET i == st.pos
    IN IF Sym(inp, i) = q /\ Sym(inp, i + 1) = q THEN StrCheck(inp, [st EXCEPT !.pos = i + 2], k, runs)   \* doubled quote
       ELSE IF Sym(inp, i) = q THEN Deliver(inp, st, k, st.start, i + 1)
       ELSE StrCheck(inp, [st EXCEPT !.pos = i + 1], k, runs)

\* ---- one call of next() in code mode: the switch on *m_current and the try_match list ---------
\* a try_match list: the first candidate with a positive length wins, else an invalid token
First(inp, st, cands) ==
    LET hit == {i \in 1..Len(cands) : cands[i].n > 0}
    IN IF hit = {} THEN Finish(st, "invalid")
       ELSE LET i == CHOOSE x \in hit : \A y \in hit : x <= y
            IN Deliver(inp, st, cands[i].k, st.pos, st.pos + cands[i].n)
C(k, n) == [k |-> k, n |-> n]

CodeStep(w, inp, st, dev) ==
    LET p == st.pos
        c == Sym(inp, p)
        sqf == w = "sqf"
        open(m) == [st EXCEPT !.mode = m, !.start = p]
    IN IF p >= Len(inp) THEN Finish(st, "eof")
       ELSE CASE c \in Letters -> First(inp, st, <<C("ident", RunLen(inp, p, IdentCh))>>)
              [] c = "d" -> (IF sqf THEN First(inp, st, <<C("hex", HexLen(inp, p)), C("num", NumSqf(inp, p))>>)
                             ELSE First(inp, st, <<C("hex", HexLen(inp, p)), C("num", NumCfg(inp, p)), C("ident", RunLen(inp, p, IdentCh))>>))
              [] c = "sg" -> (IF sqf THEN First(inp, st, <<C("num", NumSqf(inp, p)), C("op", 1)>>)
                              ELSE First(inp, st, <<C("num", NumCfg(inp, p)), C("any", 1)>>))
              [] c = "dt" -> (IF sqf THEN First(inp, st, <<C("num", NumSqf(inp, p))>>)
                              ELSE First(inp, st, <<C("num", NumCfg(inp, p)), C("any", 1)>>))
              [] c = "dl" -> First(inp, st, <<C("hex", HexLen(inp, p))>>)
              [] c = "sl" -> (IF RunLen(inp, p, {"sl"}) >= 2 THEN LcCheck(inp, [open("lc") EXCEPT !.pos = p + 1], dev)          \* ++iter, then test
                              ELSE IF Sym(inp, p + 1) = "st" THEN BcCheck(inp, [open("bc") EXCEPT !.pos = p + 2], dev)
                              ELSE First(inp, st, <<C(IF sqf THEN "op" ELSE "any", 1)>>))
              [] c = "st" -> First(inp, st, <<C(IF sqf THEN "op" ELSE "any", 1)>>)
              [] c = "bs" -> (IF sqf THEN Finish(st, "invalid") ELSE First(inp, st, <<C("any", 1)>>))
              [] c = "bo" -> First(inp, st, <<C("curlyo", 1)>>)
              [] c = "bc" -> First(inp, st, <<C("curlyc", 1)>>)
              [] c = "sc" -> First(inp, st, <<C("semi", 1)>>)
              [] c = "eq" -> (IF sqf THEN First(inp, st, <<C("op", IF Sym(inp, p + 1) = "eq" THEN 2 ELSE 0), C("equal", 1)>>)
                              ELSE First(inp, st, <<C("equal", 1)>>))
              [] c = "dq" -> StrCheck(inp, [open("sd") EXCEPT !.pos = p + 1], "sd", FALSE)
              [] c = "sq" -> StrCheck(inp, [open("ss") EXCEPT !.pos = p + 1], "ss", ~sqf /\ "SingleQuoteRunsPastEnd" \in dev)
              [] c \in Blank -> First(inp, st, <<C("ws", RunLen(inp, p, Blank))>>)
              [] c = "hs" -> (IF HashMatches(inp, p, dev) THEN HashLine(inp, st, dev)
                              ELSE IF sqf THEN First(inp, st, <<C("op", 1)>>) ELSE Finish(st, "invalid"))
              [] OTHER -> Finish(st, "invalid")                       \* "ot": the default case of the switch

Step(w, inp, st, dev) ==
    CASE st.mode = "code" -> CodeStep(w, inp, st, dev)
      [] st.mode = "lc" -> LcCheck(inp, [st EXCEPT !.pos = @ + 1], dev)
      [] st.mode = "bc" -> BcCheck(inp, [st EXCEPT !.pos = @ + 1], dev)
      [] st.mode = "sd" -> StrStep(inp, st, "dq", "sd", FALSE)
      [] st.mode = "ss" -> StrStep(inp, st, "sq", "ss", w = "cfg" /\ "SingleQuoteRunsPastEnd" \in dev)
      [] OTHER -> st

\* ---- a whole scan: Step until done; the fuel Len+3 is what Terminates allows, plus slack -------
Fuel(inp) == Len(inp) + 3
RECURSIVE Iter(_, _, _, _, _, _)
Iter(w, inp, st, dev, n, acc) ==
    IF st.mode = "done" \/ n = 0 THEN [st |-> st, steps |-> Fuel(inp) - n, prog |-> acc.prog, bnd |-> acc.bnd]
    ELSE LET s2 == Step(w, inp, st, dev)
         IN Iter(w, inp, s2, dev, n - 1, [prog |-> acc.prog /\ (s2.pos > st.pos \/ s2.mode = "done"),
                                          bnd |-> acc.bnd /\ s2.pos <= Len(inp)])
Scan(w, inp, dev) == Iter(w, inp, InitScan, dev, Fuel(inp), [prog |-> TRUE, bnd |-> TRUE])

\* ---- the formulas on a scan r of input inp ---------------------------------------------------
Bounded(inp, r) == r.bnd                                        \* pos <= Len(input) in every state
Progress(inp, r) == r.prog                                      \* every step consumes >= 1 symbol or ends the scan
Terminates(inp, r) == r.st.mode = "done" /\ r.steps <= Len(inp) + 1
ResultOrDiagnostic(inp, r) == r.st.mode = "done" /\ r.st.diag \in {"eof", "invalid"}
\* the tokens delivered tile the consumed prefix: no gap, no overlap, none empty
TokensTile(inp, r) ==
    LET t == r.st.toks
    IN /\ \A i \in 1..Len(t) : t[i].n >= 1 /\ t[i].o = (IF i = 1 THEN 0 ELSE t[i - 1].o + t[i - 1].n)
       /\ (r.st.mode = "done" /\ r.st.diag \in {"eof", "invalid"} => (IF Len(t) = 0 THEN 0 ELSE t[Len(t)].o + t[Len(t)].n) = Off(inp, r.st.pos))
       /\ (r.st.diag = "eof" => r.st.pos = Len(inp))
Deterministic(w, inp, dev) == Scan(w, inp, dev) = Scan(w, inp, dev)   \* Step is a function of (scanner, input, state)

\* ---------------------------------------------------------------------------------------------
\* the character reader of the preprocessor: one call of next() = PpNext; comments are skipped, a
\* backslash-newline joins lines, a double quote toggles the in-string flag.  _next() returns NUL at
\* the end of the content without consuming, so the reader cannot leave the buffer.
\* ---------------------------------------------------------------------------------------------
InitPp == [pos |-> 0, instr |-> FALSE, inbc |-> FALSE, joined |-> 0]
RECURSIVE PpNext(_, _), PpBlock(_, _)
PpBlock(inp, s) ==                                  \* the `while ((c = _next()) != '\0')` loop inside a block comment
    IF s.pos >= Len(inp) THEN [st |-> s, c |-> "NUL"]
    ELSE LET c == inp[s.pos + 1]
             s1 == [s EXCEPT !.pos = @ + 1]
         IN IF c = "nl" THEN [st |-> s1, c |-> "nl"]
            ELSE IF c = "st" /\ Sym(inp, s1.pos) = "sl" THEN PpNext(inp, [s1 EXCEPT !.pos = @ + 1, !.inbc = FALSE])
            ELSE PpBlock(inp, s1)
PpNext(inp, st) ==
    IF st.pos >= Len(inp) THEN [st |-> st, c |-> "NUL"]
    ELSE
    LET c0 == inp[st.pos + 1]
        s1 == [st EXCEPT !.pos = @ + 1]
        skipping == ~st.instr /\ (c0 = "sl" \/ st.inbc)
    IN IF skipping /\ c0 = "nl" THEN [st |-> s1, c |-> "nl"]
       ELSE
       LET pc == Sym(inp, s1.pos)
           r1 == IF skipping /\ st.inbc /\ c0 = "st" /\ pc = "sl"
                 THEN LET n == PpNext(inp, [s1 EXCEPT !.pos = @ + 1, !.inbc = FALSE]) IN [st |-> n.st, c |-> n.c, ret |-> TRUE]
                 ELSE IF skipping /\ (pc = "st" \/ st.inbc)
                 THEN LET b == PpBlock(inp, [s1 EXCEPT !.pos = IF st.inbc THEN @ ELSE @ + 1, !.inbc = TRUE]) IN [st |-> b.st, c |-> b.c, ret |-> FALSE]
                 ELSE IF skipping /\ pc = "sl"
                 THEN LET e == s1.pos + RunLen(inp, s1.pos, Alphabet \ {"nl"})
                      IN IF e < Len(inp) THEN [st |-> [s1 EXCEPT !.pos = e + 1], c |-> "nl", ret |-> FALSE]
                         ELSE [st |-> [s1 EXCEPT !.pos = e], c |-> "NUL", ret |-> FALSE]
                 ELSE [st |-> s1, c |-> c0, ret |-> FALSE]
       IN IF r1.ret THEN [st |-> r1.st, c |-> r1.c]
          ELSE IF r1.c = "bs" /\ Sym(inp, r1.st.pos) = "nl" THEN PpNext(inp, [r1.st EXCEPT !.pos = @ + 1, !.joined = @ + 1])
          ELSE IF r1.c = "dq" THEN [st |-> [r1.st EXCEPT !.instr = ~@], c |-> "dq"]
          ELSE [st |-> r1.st, c |-> r1.c]

RECURSIVE PpIter(_, _, _, _)
PpIter(inp, st, n, acc) ==
    IF n = 0 THEN [st |-> st, done |-> FALSE, calls |-> Fuel(inp), prog |-> acc.prog, bnd |-> acc.bnd, out |-> acc.out]
    ELSE LET r == PpNext(inp, st)
             a2 == [prog |-> acc.prog /\ (r.st.pos > st.pos \/ r.c = "NUL"), bnd |-> acc.bnd /\ r.st.pos <= Len(inp),
                    out |-> IF r.c = "NUL" THEN acc.out ELSE Append(acc.out, r.c)]
         IN IF r.c = "NUL" THEN [st |-> r.st, done |-> TRUE, calls |-> Fuel(inp) - n + 1, prog |-> a2.prog, bnd |-> a2.bnd, out |-> a2.out]
            ELSE PpIter(inp, r.st, n - 1, a2)
PpScan(inp) == PpIter(inp, InitPp, Fuel(inp), [prog |-> TRUE, bnd |-> TRUE, out |-> <<>>])
PpBounded(inp, r) == r.bnd
PpProgress(inp, r) == r.prog
PpTerminates(inp, r) == r.done /\ r.calls <= Len(inp) + 1 /\ r.st.pos = Len(inp)
\* the reader only drops symbols, and never a newline outside a line join
PpOutputIsSubsequence(inp, r) == Len(r.out) <= Len(inp)

\* ---------------------------------------------------------------------------------------------
\* macro expansion / #include recursion, abstractly.  A graph g maps every name (macro or file) to its
\* body: a sequence over the names and "t" (any other token).  Expanding name m with the expansion
\* stack `stack`:  the ideal expander refuses a name that is already being expanded (reports it and
\* sets the error flag); the code keeps no stack for macros (replace -> handle_macro -> replace), it
\* does for includes (m_file_scopes).  nocheck = the deviation is on.
\* result: diag "" | "recursive";  depth = deepest stack;  over = the recursion did not end within the fuel
\* ---------------------------------------------------------------------------------------------
Names(g) == DOMAIN g
RECURSIVE Expand(_, _, _, _, _), ExpandBody(_, _, _, _, _, _)
Expand(g, m, stack, fuel, nocheck) ==
    IF ~nocheck /\ \E i \in 1..Len(stack) : stack[i] = m THEN [diag |-> "recursive", depth |-> Len(stack), over |-> FALSE]
    ELSE IF fuel = 0 THEN [diag |-> "", depth |-> Len(stack) + 1, over |-> TRUE]
    ELSE ExpandBody(g, g[m], Append(stack, m), fuel - 1, nocheck, [diag |-> "", depth |-> Len(stack) + 1, over |-> FALSE])
ExpandBody(g, body, stack, fuel, nocheck, acc) ==
    IF Len(body) = 0 \/ acc.diag # "" \/ acc.over THEN acc       \* the error flag ends the expansion
    ELSE IF Head(body) \notin Names(g) THEN ExpandBody(g, Tail(body), stack, fuel, nocheck, acc)
    ELSE LET r == Expand(g, Head(body), stack, fuel, nocheck)
         IN ExpandBody(g, Tail(body), stack, fuel, nocheck,
                       [diag |-> r.diag, depth |-> IF r.depth > acc.depth THEN r.depth ELSE acc.depth, over |-> r.over])

Uses(g, a) == {g[a][i] : i \in 1..Len(g[a])} \cap Names(g)
RECURSIVE ReachN(_, _, _)
ReachN(g, S, n) == IF n = 0 THEN S ELSE ReachN(g, S \cup UNION {Uses(g, a) : a \in S}, n - 1)
ReachPlus(g, a) == ReachN(g, Uses(g, a), Cardinality(Names(g)))            \* names reachable in >= 1 step
\* expanding m runs into a name that is already being expanded
CyclicFrom(g, m) == \E a \in ({m} \cup ReachPlus(g, m)) : a \in ReachPlus(g, a)

ExpFuel(g) == Cardinality(Names(g)) + 2
Expansion(g, m, nocheck) == Expand(g, m, <<>>, ExpFuel(g), nocheck)
\* self- or mutually recursive macros / includes are reported as errors, the expansion depth is bounded
ExpansionTerminates(g, m, r) ==
    /\ ~r.over
    /\ r.depth <= Cardinality(Names(g))
    /\ (CyclicFrom(g, m) <=> r.diag = "recursive")
=============================================================================
