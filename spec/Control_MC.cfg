SPECIFICATION FairSpec
CONSTANTS
  Work = 3
  ErrAt = 3
  CallsE <- AnyCalls
  CallsC <- AnyCalls
  Observed = {}
  ReleaseAfterFinalCheckAtomically = TRUE
INVARIANTS InvOneExecutor InvStateMachine InvNotStuckRunning InvStopTakesEffect InvAtomicFreeWhenQuiet
PROPERTY Termination
