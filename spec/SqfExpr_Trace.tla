--------------------------- MODULE SqfExpr_Trace ---------------------------
(* Recorded compilations / evaluations of the real parser and VM judged against SqfExpr.tla.            *)
(* Lines: {"e":"Case","tree":<tree>,"style":..,"ok":b,"listing":[instr],"val":"..","hasval":b}          *)
(*        {"e":"Registry","ops":[{"n":name,"prec":k}...]}   (all binary overloads)                       *)
(*        {"e":"RT","kind":"str|pretty","ok":b,"a":[instr],"b":[instr],"shape":".."}   (C06 round trips) *)
EXTENDS SqfExpr, Json, IOUtils

Log == ndJsonDeserialize(IOEnv.TRACE)
TBinLevel(op) == 0
TIsUnary(op) == FALSE

\* the value the VM computes with the synthetic operators: [name, operands...] - spells the grouping
RECURSIVE ValStr(_)
RECURSIVE ValEls(_, _)
ValEls(els, i) == IF i > Len(els) THEN "" ELSE (IF i > 1 THEN "," ELSE "") \o ValStr(els[i]) \o ValEls(els, i + 1)
\* (the synthetic operators vuv / vnv have no result: the VM's nil takes the operand's place)
ValStr(t) ==
    CASE t.k = "lit" -> t.v
      [] t.k = "un" /\ t.op = "vuv" -> "nil"
      [] t.k = "nul" /\ t.op = "vnv" -> "nil"
      \* vbt is defined for (number, array) only; its operands are handed over in the order of the reading, so the other
      \* order is an error and there is no value
      [] t.k = "bin" /\ t.op = "vbt" /\ ~(t.l.k = "lit" /\ t.r.k = "arr") -> "<unset>"
      [] t.k = "nul" -> "[\"" \o t.op \o "\"]"
      [] t.k = "un" -> "[\"" \o t.op \o "\"," \o ValStr(t.x) \o "]"
      [] t.k = "bin" -> "[\"" \o t.op \o "\"," \o ValStr(t.l) \o "," \o ValStr(t.r) \o "]"
      [] t.k = "arr" -> "[" \o ValEls(t.els, 1) \o "]"

WhyCase(e) ==
    IF ~e.ok THEN "ReadingIsDocumented-rejected"
    ELSE IF e.listing # PostOrder(e.tree) THEN "InstructionsArePostOrder"
    ELSE IF e.hasval /\ e.val # ValStr(e.tree) THEN "ValueIsFullyParenthesisedReading"
    ELSE ""

\* all overloads of one operator name share a single precedence
Names(ops) == { ops[i].n : i \in 1..Len(ops) }
PrecsOf(ops, n) == { ops[i].prec : i \in { j \in 1..Len(ops) : ops[j].n = n } }
BadNames(ops) == { n \in Names(ops) : Cardinality(PrecsOf(ops, n)) # 1 }

WhyRT(e) == IF ~e.ok THEN "PrintedFormCompiles" ELSE IF e.a # e.b THEN "RoundTripSameInstructions" ELSE ""

VARIABLES l, bad, nops, done
tvars == <<l, bad, nops, done>>
TraceInit == l = 1 /\ bad = <<>> /\ nops = 0 /\ done = FALSE
Consume ==
    /\ l <= Len(Log) /\ l' = l + 1 /\ UNCHANGED done
    /\ LET e == Log[l] IN
       CASE e.e = "Case" ->
                (LET w == WhyCase(e) IN /\ nops' = nops + 1
                    /\ bad' = IF w = "" THEN bad ELSE Append(bad, [id |-> e.id, line |-> l, why |-> w, op |-> e.shape]))
         [] e.e = "RT" ->
                (LET w == WhyRT(e) IN /\ nops' = nops + 1
                    /\ bad' = IF w = "" THEN bad ELSE Append(bad, [id |-> e.id, line |-> l, why |-> w, op |-> e.kind \o "/" \o e.shape]))
         [] e.e = "Registry" ->
                (LET b == BadNames(e.ops) IN /\ nops' = nops + 1
                    /\ bad' = IF b = {} THEN bad ELSE Append(bad, [id |-> e.id, line |-> l, why |-> "SinglePrecedencePerName", op |-> CHOOSE n \in b : TRUE]))
         [] e.e = "Crash" -> bad' = Append(bad, [id |-> e.id, line |-> l, why |-> "Crash", op |-> e.why]) /\ UNCHANGED nops
         [] OTHER -> UNCHANGED <<bad, nops>>
Finish == /\ l = Len(Log) + 1 /\ ~done /\ done' = TRUE /\ UNCHANGED <<l, bad, nops>>
          /\ PrintT("VERDICT " \o ToJson([lines |-> Len(Log), ops |-> nops, bad |-> bad]))
TraceSpec == TraceInit /\ [][Consume \/ Finish]_tvars
=============================================================================
