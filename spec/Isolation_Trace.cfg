SPECIFICATION TraceSpec
CONSTANTS
  ToFixedSetsStatic = FALSE
  CounterIsStatic = FALSE
  TypeIdByFirstUse = FALSE
  AddressInOutput = FALSE
  ObjectHashIsAddress = FALSE
  ExtBufferIsStatic = FALSE
  WarnLatchIsStatic = FALSE
  DefinesPersist = FALSE
CHECK_DEADLOCK FALSE
