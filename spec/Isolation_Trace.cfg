SPECIFICATION TraceSpec
CONSTANTS
  ToFixedSetsStatic = FALSE
  CounterIsStatic = FALSE
  TypeIdByFirstUse = FALSE
  AddressInOutput = FALSE
  DefinesPersist = FALSE
CHECK_DEADLOCK FALSE
