--------------------------- MODULE Preproc_Trace ---------------------------
(* Validation of recorded outputs of the real preprocessor against the     *)
(* reference expander of Preproc.tla.  The log (NDJSON, env TRACE):        *)
(*   {"e":"Reset","id":..}                                                 *)
(*   {"e":"Obs","id":..,"src":<abstract source>,"text":<its text>,         *)
(*    "ok":bool,"body":<output after the #line marker>,"lex":[lexemes]}    *)
(*   {"e":"Crash","id":..,"why":..}   (the driver's child died / hung)     *)
(* For every case TLC recomputes the reference expansion of src and judges *)
(* the observed lexeme sequence with the C13 formulas.  Validation is      *)
(* total: a case that is not explained goes to `bad` with the NAME OF THE  *)
(* FORMULA violated and the construct (tag of the source line) at which    *)
(* the output first leaves the reference.  Prints "VERDICT <json>".        *)
EXTENDS Preproc, Json, IOUtils

Log == ndJsonDeserialize(IOEnv.TRACE)

VARIABLES l, dead, bad, nops, done
tvars == <<l, dead, bad, nops, done>>

\* the formula an observation contradicts ("" if none)
Why(e) ==
    IF e.text # Render(e.src) \/ { e.files[j] : j \in 1..Len(e.files) } # FilesOf(e.src) \/ ~FilesConsistent(e.src)
    THEN "MACHINERY-Binding"                                        \* the text/files given to the real one are not the abstract source
    ELSE IF ~WellFormed(e.src) THEN "MACHINERY-NotSpecified"        \* the generator left the domain the reference speaks about
    ELSE IF Run(e.src, {}).err THEN (IF e.ok THEN "ExpansionEqualsReference" ELSE "")   \* a genuine include cycle must be refused
    ELSE IF ~e.ok THEN "ExpansionEqualsReference"                   \* the real preprocessor refused a well-formed source
    ELSE IF ExpansionEqualsReference(e.src, e.lex)
    THEN (IF ~StringsInviolate(e.src, e.lex) THEN "StringsInviolate"
          ELSE IF IsPlain(e.src) /\ e.body # e.text THEN "PassThrough"         \* byte for byte
          ELSE IF ~InactiveBranchSilent(e.src, e.lex) THEN "InactiveBranchSilent"
          ELSE "")
    \* the output is not the reference output: name the most specific formula it contradicts
    ELSE IF ExplainingDev(e.src, e.lex) # "" THEN "InactiveBranchSilent"        \* exactly what an expander does in which inactive text/directives take effect
    ELSE IF ~StringsInviolate(e.src, e.lex) THEN "StringsInviolate"
    ELSE IF IsPlain(e.src) THEN "PassThrough"
    ELSE IF ~InactiveBranchSilent(e.src, e.lex) THEN "InactiveBranchSilent"     \* a word that only occurs in inactive lines came out
    ELSE "ExpansionEqualsReference"

Construct(e, w) ==
    IF w \in {"MACHINERY-Binding", "MACHINERY-NotSpecified"} THEN "-"
    ELSE IF Run(e.src, {}).err THEN "include-cycle-accepted"
    ELSE IF ~e.ok THEN (IF HasInclude(e.src) THEN "include-refused" ELSE "preprocess-failed")
    ELSE IF w = "InactiveBranchSilent" /\ ExplainingDev(e.src, e.lex) # "" THEN ExplainingDev(e.src, e.lex)
    ELSE e.src[FirstDivergence(e.src, e.lex)].tag

\* the reference output as text (for the finding report)
RECURSIVE SpellOut(_)
SpellOut(seq) == IF Len(seq) = 0 THEN "" ELSE (IF Head(seq).k = "nl" THEN "\n" ELSE Head(seq).s) \o SpellOut(Tail(seq))

TraceInit == l = 1 /\ dead = FALSE /\ bad = <<>> /\ nops = 0 /\ done = FALSE

Consume ==
    /\ l <= Len(Log)
    /\ l' = l + 1
    /\ UNCHANGED done
    /\ LET e == Log[l] IN
       CASE e.e = "Reset" -> dead' = FALSE /\ UNCHANGED <<bad, nops>>
         [] e.e = "Crash" ->
                /\ bad' = IF dead THEN bad ELSE Append(bad, [id |-> e.id, line |-> l, why |-> "Crash", op |-> e.why, ref |-> "", at |-> 0])
                /\ dead' = TRUE /\ UNCHANGED nops
         [] e.e = "Obs" /\ ~dead ->
                LET w == Why(e) IN
                IF w = "" THEN nops' = nops + 1 /\ UNCHANGED <<dead, bad>>
                ELSE /\ bad' = Append(bad, [id |-> e.id, line |-> l, why |-> w, op |-> Construct(e, w), ref |-> SpellOut(RefOut(e.src)),
                                            at |-> IF e.ok /\ w \notin {"MACHINERY-Binding", "MACHINERY-NotSpecified"} THEN FirstDivergence(e.src, e.lex) ELSE 0])
                     /\ dead' = TRUE /\ UNCHANGED nops
         [] OTHER -> UNCHANGED <<dead, bad, nops>>

Finish ==
    /\ l = Len(Log) + 1
    /\ ~done
    /\ done' = TRUE
    /\ PrintT("VERDICT " \o ToJson([lines |-> Len(Log), ops |-> nops, bad |-> bad]))
    /\ UNCHANGED <<l, dead, bad, nops>>

TraceSpec == TraceInit /\ [][Consume \/ Finish]_tvars
=============================================================================
