SPECIFICATION TraceSpec
CONSTANTS
  BinLevel <- TBinLevel
  IsUnary <- TIsUnary
  Variant = "ideal"
CHECK_DEADLOCK FALSE
