SPECIFICATION Spec
CONSTANTS
  MaxRef = 4
  Vars = {"a", "b", "c"}
  AppendChecksCycle = TRUE
  SetGrowsBeforeRefusal = FALSE
  Depth = 4
  Emit = TRUE
  Profile = "core"
VIEW View
INVARIANTS InvAcyclic InvAliases InvFresh InvRefused
