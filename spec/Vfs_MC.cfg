SPECIFICATION Spec
CONSTANTS
  Mode = "product"
  Variant = "reference"
  Emit = FALSE
  MaxMaps = 2
  NRoots = 2
  PrefixNames = {"", "a", "ab", "b"}
  ShapeNames = {"empty", "full", "deep"}
  MaxLen = 3
  Bases = {"", "out", "r1", "r2", "r3"}
INVARIANTS InvContained InvTraversal InvPhysical InvFirstRoot InvDeepest InvReference InvContent InvDeterministic InvRefIsFile
CHECK_DEADLOCK FALSE
