------------------------------ MODULE Vfs_Trace ------------------------------
(* Validation of observed resolutions of the real file system against       *)
(* Vfs.tla.  The log (NDJSON, env TRACE) holds one line per replayed case:  *)
(*   {"e":"Reset","id":..}                                                  *)
(*   {"e":"Case","id":..,"mappings":[{"virt":[..],"root":".."}],            *)
(*    "trees":{"r1":[[..]..],"r2":[..],"r3":[..]},                          *)
(*    "req":{"base","abs","segs","style"},"cur":{"has","virt","root","rel"},*)
(*    "obs":[{"op":..,"k","root","rel","k2","root2","rel2"}..],             *)
(*    "crash":"" | <why>, "crashop": <op that did not finish>}              *)
(* obs: what the operation yielded, twice (two executions): the file whose  *)
(* unique token came back (k = "file", root = "OUT" for a file outside all  *)
(* roots), "notfound" (FileNotFound / IncludeFailed diagnostic), "notoken"  *)
(* (completed, no content of any file seen), "exc" (an exception escaped).  *)
(* Validation is total: for every observation TLC recomputes the reference  *)
(* and the class of the request and records the NAME of the first formula   *)
(* the observation contradicts.  The final state prints "VERDICT <json>".   *)
EXTENDS Vfs, TLC, Json, IOUtils

Log == ndJsonDeserialize(IOEnv.TRACE)

VARIABLES l, bad, nops, done
tvars == <<l, bad, nops, done>>

TreesOf(e) == [r \in DOMAIN e.trees |-> SeqRange(e.trees[r])]
Obs1(x) == [k |-> x.k, root |-> x.root, rel |-> x.rel]
Obs2(x) == [k |-> x.k2, root |-> x.root2, rel |-> x.rel2]

\* the binding itself: the includer must be where the generator says (else the case is void)
Binding(e) ==
    /\ MappedRoots(e.mappings) \subseteq DOMAIN e.trees
    /\ e.cur.has => ResolvePath(e.mappings, TreesOf(e), e.cur.virt) = File(e.cur.root, e.cur.rel)

BadOf(e, line) ==
    LET m == e.mappings
        t == TreesOf(e)
        judged == [i \in 1..Len(e.obs) |->
                     [id |-> e.id, line |-> line, op |-> e.obs[i].op,
                      why |-> Why(m, t, e.req, e.cur, Obs1(e.obs[i]), Obs2(e.obs[i]))]]
        crash == IF e.crash = "" THEN <<>>
                 ELSE <<[id |-> e.id, line |-> line, op |-> e.crashop, why |-> WhyCrash(m, t, e.req, e.cur)]>>
    IN IF ~Binding(e) THEN <<[id |-> e.id, line |-> line, op |-> "case", why |-> "MACHINERY-Binding"]>>
       ELSE SelectSeq(judged, LAMBDA b : b.why # "") \o crash

\* how often the antecedents of the formulas were met by the replayed cases (non-vacuity)
CaseLines == { i \in 1..Len(Log) : Log[i].e = "Case" }
ClassOf(e) == Class(e.mappings, e.req, e.cur)
RefPath(e) == Walk(e.mappings, e.req, e.cur).p
Stats ==
    LET ref == { i \in CaseLines : ClassOf(Log[i]) = "reference" }
        withFile == { i \in ref : Resolve(Log[i].mappings, TreesOf(Log[i]), Log[i].req, Log[i].cur).k = "file" }
    IN [reference |-> Cardinality(ref),
        traversal |-> Cardinality({ i \in CaseLines : ClassOf(Log[i]) = "traversal" }),
        containedOnly |-> Cardinality({ i \in CaseLines : ClassOf(Log[i]) = "contained" }),
        refFile |-> Cardinality(withFile),
        severalRootsHit |-> Cardinality({ i \in withFile : Cardinality(Hits(Log[i].mappings, TreesOf(Log[i]), RefPath(Log[i]))) > 1 }),
        nestedPrefixes |-> Cardinality({ i \in withFile :
                              Cardinality({ Len(Log[i].mappings[j].virt) : j \in Cands(Log[i].mappings, RefPath(Log[i])) }) > 1 })]

TraceInit == l = 1 /\ bad = <<>> /\ nops = 0 /\ done = FALSE

Consume ==
    /\ l <= Len(Log)
    /\ l' = l + 1
    /\ UNCHANGED done
    /\ LET e == Log[l]
       IN IF e.e = "Case"
          THEN bad' = bad \o BadOf(e, l) /\ nops' = nops + Len(e.obs)
          ELSE UNCHANGED <<bad, nops>>

Finish ==
    /\ l = Len(Log) + 1
    /\ ~done
    /\ done' = TRUE
    /\ PrintT("VERDICT " \o ToJson([lines |-> Len(Log), ops |-> nops, bad |-> bad, stats |-> Stats]))
    /\ UNCHANGED <<l, bad, nops>>

TraceSpec == TraceInit /\ [][Consume \/ Finish]_tvars
=============================================================================
