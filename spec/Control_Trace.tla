---------------------------- MODULE Control_Trace ----------------------------
(* Sequential control histories of the real runtime validated against Control.tla.               *)
(* Log: Reset, {"e":"Prog","prog":[{line,depth}],"err":k,"loaded":b}, {"e":"Act","a":..,"res":..,"state":..,"executed":n,"nctx":m} *)
EXTENDS Control, Json, IOUtils

Log == ndJsonDeserialize(IOEnv.TRACE)
VARIABLES l, vm, dead, bad, nops, done
tvars == <<l, vm, dead, bad, nops, done>>

NoVm == [state |-> "empty", loaded |-> FALSE, pos |-> 0, prog |-> <<>>, err |-> 0]

\* states the state machine allows after action a (prediction p) - exact where the property is exact
AllowedStates(a, v, p) ==
    CASE a = "start" -> {p.vm.state}
      [] a \in {"assembly_step", "line_step", "leave_scope"} ->
            IF p.res = "runtime_error" THEN {"halted_error"} ELSE IF Remaining(v) = 0 THEN {"empty"} ELSE {"halted", "empty"}
      [] a = "stop" -> {v.state}
      [] a = "abort" -> IF p.res = "ok" THEN {"empty"} ELSE {v.state}

Why(a, v, p, o) ==
    IF o.res = "invalid" THEN "ResultDocumented"
    ELSE IF ~StepIsOne(a, v, o) THEN "StepIsOne"
    ELSE IF ~LineStepStops(a, v, p, o) THEN "LineStepStopsAtNewLine"
    \* (where leave_scope halts in the enclosing scope is not fixed by the property; that it leaves one scope, not more, is)
    ELSE IF ~LeaveScopeLeavesOne(a, v, o) THEN "LeaveScopeLeavesOneScope"
    ELSE IF ~StartCompletes(a, v, p, o) THEN "StartCompletes"
    ELSE IF ~ControlResult(a, p, o) THEN "ControlResult"
    ELSE IF ~ResultClass(a, p, o) THEN "ResultDocumented"
    ELSE IF ~AbortDiscards(a, p, o) THEN "AbortOnHaltedDiscardsAll"
    ELSE IF o.state \notin AllowedStates(a, v, p) THEN "StateMachine"
    ELSE ""

TraceInit == l = 1 /\ vm = NoVm /\ dead = FALSE /\ bad = <<>> /\ nops = 0 /\ done = FALSE
Consume ==
    /\ l <= Len(Log) /\ l' = l + 1 /\ UNCHANGED done
    /\ LET e == Log[l] IN
       CASE e.e = "Reset" -> vm' = NoVm /\ dead' = FALSE /\ UNCHANGED <<bad, nops>>
         [] e.e = "Prog" -> vm' = [state |-> "empty", loaded |-> e.loaded, pos |-> 0, prog |-> e.prog, err |-> e.err] /\ UNCHANGED <<dead, bad, nops>>
         [] e.e = "Crash" -> /\ bad' = IF dead THEN bad ELSE Append(bad, [id |-> e.id, line |-> l, why |-> "NoCrashNoDeadlock", op |-> e.why])
                             /\ dead' = TRUE /\ UNCHANGED <<vm, nops>>
         [] e.e = "Act" /\ ~dead ->
                LET p == Do(vm, e.a)
                    w == Why(e.a, vm, p, e)
                IN IF w = "" THEN /\ vm' = [p.vm EXCEPT !.state = e.state,
                                                       !.pos = IF e.a = "leave_scope" /\ p.vm.loaded THEN vm.pos + e.executed ELSE p.vm.pos]
                                  /\ nops' = nops + 1 /\ UNCHANGED <<dead, bad>>
                   ELSE bad' = Append(bad, [id |-> e.id, line |-> l, why |-> w, op |-> e.a]) /\ dead' = TRUE /\ UNCHANGED <<vm, nops>>
         [] OTHER -> UNCHANGED <<vm, dead, bad, nops>>
Finish == /\ l = Len(Log) + 1 /\ ~done /\ done' = TRUE /\ UNCHANGED <<l, vm, dead, bad, nops>>
          /\ PrintT("VERDICT " \o ToJson([lines |-> Len(Log), ops |-> nops, bad |-> bad]))
TraceSpec == TraceInit /\ [][Consume \/ Finish]_tvars
=============================================================================
