---------------------------- MODULE SqfRef_Trace ----------------------------
(* Marker logs and script values recorded from the real VM judged against the reference semantics.       *)
(* Lines: {"e":"Prog","id":..,"ast":[stmt...],"log":["..."],"hasvalue":b,"value":"..","res":"empty","class":".."} *)
EXTENDS SqfRef, Json, IOUtils
Log == ndJsonDeserialize(IOEnv.TRACE)

\* first position at which two logs differ (0: equal)
RECURSIVE FirstDiff(_, _, _)
FirstDiff(a, b, i) == IF i > Len(a) /\ i > Len(b) THEN 0 ELSE IF i > Len(a) \/ i > Len(b) \/ a[i] # b[i] THEN i ELSE FirstDiff(a, b, i + 1)

WhyProg(e, ref) ==
    IF ref.sig = "domain" THEN ""            \* outside the reference's number domain: not judged (counted in `outside`)
    ELSE IF ref.sig = "err" THEN "MACHINERY-reference-error"
    ELSE IF e.res \notin {"empty", "ok"} THEN "NoSpuriousError"
    ELSE IF e.log # ref.log THEN "StatementsAsPrescribed"
    ELSE IF e.hasvalue /\ e.value # StrOf(ref.value) THEN "ConstructValue"
    ELSE ""

VARIABLES l, bad, nops, done, outside
tvars == <<l, bad, nops, done, outside>>
TraceInit == l = 1 /\ bad = <<>> /\ nops = 0 /\ done = FALSE /\ outside = 0
Consume ==
    /\ l <= Len(Log) /\ l' = l + 1 /\ UNCHANGED done
    /\ LET e == Log[l] IN
       CASE e.e = "Prog" ->
                (LET ref == Run(e.ast) w == WhyProg(e, ref) IN
                 /\ nops' = IF ref.sig = "domain" THEN nops ELSE nops + 1
                 /\ outside' = IF ref.sig = "domain" THEN outside + 1 ELSE outside
                 /\ bad' = IF w = "" THEN bad
                           ELSE Append(bad, [id |-> e.id, line |-> l, why |-> w, op |-> e.class, at |-> FirstDiff(e.log, ref.log, 1),
                                             reflog |-> ref.log, refvalue |-> StrOf(ref.value)]))
         [] e.e = "Crash" -> bad' = Append(bad, [id |-> e.id, line |-> l, why |-> "Crash", op |-> e.why]) /\ UNCHANGED <<nops, outside>>
         [] OTHER -> UNCHANGED <<bad, nops, outside>>
Finish == /\ l = Len(Log) + 1 /\ ~done /\ done' = TRUE /\ UNCHANGED <<l, bad, nops, outside>>
          /\ PrintT("VERDICT " \o ToJson([lines |-> Len(Log), ops |-> nops, outside |-> outside, bad |-> bad]))
TraceSpec == TraceInit /\ [][Consume \/ Finish]_tvars
=============================================================================
