------------------------------- MODULE Heap -------------------------------
(***************************************************************************)
(* Arrays (and hash maps, see the H* operations) of SQF as a heap of       *)
(* aliased containers.  One source of truth for C08 (and the map part of   *)
(* C07): the same Apply operator is                                        *)
(*   - explored exhaustively by TLC (Heap_MC: design check + generator),   *)
(*   - used to validate observation logs of the real VM (Heap_Trace).      *)
(*                                                                         *)
(* Values:  [t |-> "n", n |-> Int]   number                                *)
(*          [t |-> "nil"]            nil                                   *)
(*          [t |-> "r", r |-> Ref]   reference to an array on the heap     *)
(*                                                                         *)
(* The state is a record st = [heap, used, vars, diag, changed]:           *)
(*   heap : Ref -> Seq(Value)   contents of every allocated array          *)
(*   used : number of allocated refs                                       *)
(*   vars : Var -> Value        script variables                           *)
(*   diag : "none" | "index" | "recursion"   diagnostic class of last op   *)
(*                                                                         *)
(* IDEAL switches (constants): when TRUE the action follows the property   *)
(* statement; when FALSE it follows what the pinned code does (the named   *)
(* deviations of DESIGN.md 7).  The property formulas are the same in      *)
(* both cases.                                                             *)
(***************************************************************************)
EXTENDS Integers, Sequences, FiniteSets, TLC

CONSTANTS MaxRef,          \* number of heap cells available
          Vars,            \* variable names (strings)
          AppendChecksCycle,   \* TRUE: ideal; FALSE: deviation AppendNoCycleCheck (F8a)
          SetGrowsBeforeRefusal \* FALSE: ideal; TRUE: deviation (refused set still grew the array)

Refs == 1..MaxRef
Nil == [t |-> "nil"]
Num(k) == [t |-> "n", n |-> k]
RefV(r) == [t |-> "r", r |-> r]
IsRef(v) == v.t = "r"

---------------------------------------------------------------------------
(* reachability and printing                                               *)

\* refs directly contained in array r
Kids(heap, r) == { heap[r][i].r : i \in { j \in 1..Len(heap[r]) : IsRef(heap[r][j]) } }

RECURSIVE ReachFrom(_, _, _)
ReachFrom(heap, frontier, seen) ==
    IF frontier = {} THEN seen
    ELSE LET new == (UNION { Kids(heap, r) : r \in frontier }) \ seen
         IN ReachFrom(heap, new, seen \cup new)
\* refs reachable from r in >= 1 step
Reach(heap, r) == ReachFrom(heap, {r}, {})

CyclicAt(heap, r) == r \in Reach(heap, r)
Acyclic(st) == \A r \in 1..st.used : ~CyclicAt(st.heap, r)

\* the printed tree of a value (only defined on acyclic heaps)
RECURSIVE Tree(_, _)
Tree(heap, v) ==
    IF IsRef(v)
    THEN [t |-> "a", a |-> [i \in 1..Len(heap[v.r]) |-> Tree(heap, heap[v.r][i])]]
    ELSE v

\* structural equality as isEqualTo sees it on trees: nil never equals anything (not even nil)
RECURSIVE TreeEq(_, _)
TreeEq(a, b) ==
    IF a.t # b.t THEN FALSE
    ELSE IF a.t = "nil" THEN FALSE
    ELSE IF a.t = "n" THEN a.n = b.n
    ELSE /\ Len(a.a) = Len(b.a)
         /\ \A i \in 1..Len(a.a) : TreeEq(a.a[i], b.a[i])
\* find/pushBackUnique/"-" use value equality: same reference is equal even with nils inside
ValEq(heap, a, b) ==
    IF IsRef(a) /\ IsRef(b) /\ a.r = b.r THEN TRUE
    ELSE IF a.t = "nil" /\ b.t = "nil" THEN TRUE      \* value::operator== : both empty => equal
    ELSE IF a.t = "nil" \/ b.t = "nil" THEN FALSE
    ELSE TreeEq(Tree(heap, a), Tree(heap, b))

---------------------------------------------------------------------------
(* helpers                                                                 *)

Operand(st, o) == IF o.k = "lit" THEN Num(o.v) ELSE st.vars[o.x]   \* literal number or variable
IsArr(st, x) == IsRef(st.vars[x])
Arr(st, x) == st.heap[st.vars[x].r]

WithDiag(st, d) == [st EXCEPT !.diag = d]
SetArr(st, r, s) == [st EXCEPT !.heap[r] = s, !.diag = "none"]
\* allocate a fresh array holding s, bind it to variable x
Fresh(st, x, s) ==
    [st EXCEPT !.used = st.used + 1, !.heap[st.used + 1] = s, !.vars[x] = RefV(st.used + 1), !.diag = "none"]
CanAlloc(st, n) == st.used + n <= MaxRef

Nils(n) == [i \in 1..n |-> Nil]
RemoveAt(s, i) == SubSeq(s, 1, i - 1) \o SubSeq(s, i + 1, Len(s))
Rev(s) == [i \in 1..Len(s) |-> s[Len(s) + 1 - i]]
SelectSeqP(s, P(_)) == SelectSeq(s, P)

\* would storing `news` into cell r close a cycle?
WouldCycle(st, r, news) == CyclicAt([st.heap EXCEPT ![r] = news], r)

\* deep copy of the array behind ref r: allocates one cell per reachable array *occurrence*
\* (tree-shaped copy, like d_array::copy_deep).  Returns [heap, used, root].
RECURSIVE DeepCopy(_, _, _)
DeepCopy(heap, used, r) ==
    LET root == used + 1
        step(acc, i) ==   \* acc = [heap, used, s]
            LET e == heap[r][i] IN
            IF IsRef(e)
            THEN LET c == DeepCopy(acc.heap, acc.used, e.r)
                 IN [heap |-> c.heap, used |-> c.used, s |-> Append(acc.s, RefV(c.root))]
            ELSE [acc EXCEPT !.s = Append(acc.s, e)]
        RECURSIVE fold(_, _)
        fold(acc, i) == IF i > Len(heap[r]) THEN acc ELSE fold(step(acc, i), i + 1)
        res == fold([heap |-> heap, used |-> root, s |-> <<>>], 1)
    IN [heap |-> [res.heap EXCEPT ![root] = res.s], used |-> res.used, root |-> root]

\* number of cells a deep copy of r needs
RECURSIVE CopySize(_, _)
CopySize(heap, r) ==
    LET RECURSIVE sum(_)
        sum(i) == IF i > Len(heap[r]) THEN 0
                  ELSE (IF IsRef(heap[r][i]) THEN CopySize(heap, heap[r][i].r) ELSE 0) + sum(i + 1)
    IN 1 + sum(1)

\* ascending sort of a sequence of numbers (insertion sort)
RECURSIVE SortNums(_)
SortNums(s) ==
    IF Len(s) <= 1 THEN s
    ELSE LET rest == SortNums(Tail(s))
             x == Head(s)
             k == Cardinality({ i \in 1..Len(rest) : rest[i].n < x.n })
         IN SubSeq(rest, 1, k) \o <<x>> \o SubSeq(rest, k + 1, Len(rest))
AllNums(s) == \A i \in 1..Len(s) : s[i].t = "n"

---------------------------------------------------------------------------
(* Apply(st, op): the next state.  Every operation is total: an operation  *)
(* that the property says is refused leaves heap and vars unchanged and    *)
(* sets diag.                                                              *)
(* op is a record with field `op` and operation specific fields:           *)
(*   x, y, z : variable names     i, n : integers     val : operand        *)

Apply(st, op) ==
    CASE op.op = "new" ->      \* x = [<lits>]   (op.lits: sequence of ints)
            Fresh(st, op.x, [i \in 1..Len(op.lits) |-> Num(op.lits[i])])
      [] op.op = "alias" ->    \* x = y
            [st EXCEPT !.vars[op.x] = st.vars[op.y], !.diag = "none"]
      [] op.op = "set" ->      \* x set [i, val]
            LET r == st.vars[op.x].r
                s == st.heap[r]
                grown == IF op.i + 1 > Len(s) THEN s \o Nils(op.i + 1 - Len(s)) ELSE s
                news == [grown EXCEPT ![op.i + 1] = Operand(st, op.val)]
            IN IF op.i < 0 THEN WithDiag(st, "index")
               ELSE IF WouldCycle(st, r, news)
                    THEN (IF SetGrowsBeforeRefusal THEN [st EXCEPT !.heap[r] = grown, !.diag = "recursion"]
                          ELSE WithDiag(st, "recursion"))
               ELSE SetArr(st, r, news)
      [] op.op = "pushBack" -> \* x pushBack val
            LET r == st.vars[op.x].r
                news == Append(st.heap[r], Operand(st, op.val))
            IN IF WouldCycle(st, r, news) THEN WithDiag(st, "recursion") ELSE SetArr(st, r, news)
      [] op.op = "pushBackUnique" ->
            LET r == st.vars[op.x].r
                v == Operand(st, op.val)
                s == st.heap[r]
                present == \E i \in 1..Len(s) : ValEq(st.heap, s[i], v)
                news == Append(s, v)
            IN IF present THEN WithDiag(st, "none")
               ELSE IF WouldCycle(st, r, news) THEN WithDiag(st, "recursion") ELSE SetArr(st, r, news)
      [] op.op = "append" ->   \* x append y
            LET r == st.vars[op.x].r
                news == st.heap[r] \o Arr(st, op.y)
            IN IF WouldCycle(st, r, news)
               THEN (IF AppendChecksCycle THEN WithDiag(st, "recursion") ELSE SetArr(st, r, news))
               ELSE SetArr(st, r, news)
      [] op.op = "deleteAt" -> \* x deleteAt i
            LET r == st.vars[op.x].r
                s == st.heap[r]
            IN IF op.i < 0 \/ op.i >= Len(s) THEN WithDiag(st, "index")
               ELSE SetArr(st, r, RemoveAt(s, op.i + 1))
      [] op.op = "deleteRange" -> \* x deleteRange [i, n]: inclusive index range i..n (tests/sqf/deleteRange.sqf)
            LET r == st.vars[op.x].r
                s == st.heap[r]
                to0 == IF op.i > op.n THEN op.i ELSE op.n
                to == IF to0 >= Len(s) THEN Len(s) - 1 ELSE to0
            IN IF op.i < 0 \/ op.i >= Len(s) THEN WithDiag(st, "index")
               ELSE SetArr(st, r, SubSeq(s, 1, op.i) \o SubSeq(s, to + 2, Len(s)))
      [] op.op = "resize" ->   \* x resize n
            LET r == st.vars[op.x].r
                s == st.heap[r]
            IN IF op.n < 0 THEN WithDiag(st, "index")
               ELSE SetArr(st, r, IF op.n <= Len(s) THEN SubSeq(s, 1, op.n) ELSE s \o Nils(op.n - Len(s)))
      [] op.op = "reverse" ->
            LET r == st.vars[op.x].r IN SetArr(st, r, Rev(st.heap[r]))
      [] op.op = "sort" ->     \* x sort asc  (only generated on arrays of numbers)
            LET r == st.vars[op.x].r
                s == st.heap[r]
                asc == SortNums(s)
            IN SetArr(st, r, IF op.asc THEN asc ELSE Rev(asc))
      [] op.op = "copy" ->     \* x = +y   (deep copy)
            LET c == DeepCopy(st.heap, st.used, st.vars[op.y].r)
            IN [st EXCEPT !.heap = c.heap, !.used = c.used, !.vars[op.x] = RefV(c.root), !.diag = "none"]
      [] op.op = "concat" ->   \* x = y + z   (fresh outer array, shared inner ones)
            Fresh(st, op.x, Arr(st, op.y) \o Arr(st, op.z))
      [] op.op = "minus" ->    \* x = y - z
            LET zs == Arr(st, op.z)
                keep(e) == ~ \E j \in 1..Len(zs) : ValEq(st.heap, zs[j], e)
            IN Fresh(st, op.x, SelectSeq(Arr(st, op.y), keep))
      [] op.op = "selectRange" -> \* x = y select [i, n]
            LET s == Arr(st, op.y)
            IN IF op.i < 0 \/ op.i > Len(s) \/ op.n < 0
               THEN [Fresh(st, op.x, <<>>) EXCEPT !.diag = "index"]
               ELSE Fresh(st, op.x, SubSeq(s, op.i + 1, IF op.i + op.n > Len(s) THEN Len(s) ELSE op.i + op.n))
      [] op.op = "apply" ->    \* x = y apply {_x}
            Fresh(st, op.x, Arr(st, op.y))
      [] op.op = "filter" ->   \* x = y select {true}
            Fresh(st, op.x, Arr(st, op.y))

\* cells an operation allocates (the bounded models must not run out of heap)
Cost(st, op) ==
    CASE op.op \in {"new", "concat", "minus", "selectRange", "apply", "filter"} -> 1
      [] op.op = "copy" -> CopySize(st.heap, st.vars[op.y].r)
      [] OTHER -> 0

\* which operations make sense in a state (type-correct arguments only; C08 quantifies over those)
Enabled(st, op) ==
    /\ CASE op.op = "new" -> TRUE
         [] op.op = "alias" -> IsArr(st, op.y)
         [] op.op \in {"set", "pushBack", "pushBackUnique"} ->
                IsArr(st, op.x) /\ (op.val.k = "var" => IsArr(st, op.val.x))
         [] op.op \in {"append", "concat", "minus"} ->
                IF op.op = "append" THEN IsArr(st, op.x) /\ IsArr(st, op.y) ELSE IsArr(st, op.y) /\ IsArr(st, op.z)
         [] op.op \in {"deleteAt", "deleteRange", "resize", "reverse"} -> IsArr(st, op.x)
         [] op.op = "sort" -> IsArr(st, op.x) /\ AllNums(Arr(st, op.x))
         [] op.op \in {"copy", "selectRange", "apply", "filter"} -> IsArr(st, op.y)
    /\ CanAlloc(st, Cost(st, op))

InitState == [heap |-> [r \in Refs |-> <<>>], used |-> 0, vars |-> [x \in Vars |-> Nil], diag |-> "none"]

---------------------------------------------------------------------------
(* Observation: what a script can see after an operation.                  *)
Obs(st) == IF Acyclic(st)
           THEN [vars |-> [x \in Vars |-> Tree(st.heap, st.vars[x])], diag |-> st.diag, cyclic |-> FALSE]
           ELSE [vars |-> [x \in Vars |-> Nil], diag |-> st.diag, cyclic |-> TRUE]

---------------------------------------------------------------------------
(* Property formulas of C08 over one step st -> st2 by operation op.       *)

\* every name bound to the same array observes the same contents (holds by construction of Tree,
\* checked against the implementation through Obs); stated here over references:
AliasesAgree(st) ==
    Acyclic(st) => \A x, y \in Vars : (IsRef(st.vars[x]) /\ IsRef(st.vars[y]) /\ st.vars[x].r = st.vars[y].r)
                          => Tree(st.heap, st.vars[x]) = Tree(st.heap, st.vars[y])

\* fresh-result operators return an array no pre-existing name can reach
FreshOps == {"copy", "concat", "minus", "selectRange", "apply", "filter", "new"}
FreshIsIndependent(st, op, st2) ==
    op.op \in FreshOps =>
        /\ st2.vars[op.x].r > st.used                                 \* a cell that did not exist before
        /\ \A r \in 1..st.used : st2.heap[r] = st.heap[r]             \* nothing old was touched
        /\ (op.op = "copy" => \A r \in Reach(st2.heap, st2.vars[op.x].r) : r > st.used) \* deep: shares nothing

\* a refused operation leaves every container as it was
RefusedLeavesUnchanged(st, op, st2) ==
    st2.diag \in {"recursion"} \/ (st2.diag = "index" /\ op.op \notin FreshOps)
        => (st2.heap = st.heap /\ st2.vars = st.vars)

StepOK(st, op, st2) ==
    /\ Acyclic(st2)
    /\ AliasesAgree(st2)
    /\ FreshIsIndependent(st, op, st2)
    /\ RefusedLeavesUnchanged(st, op, st2)
=============================================================================
