------------------------------ MODULE Preproc ------------------------------
(***************************************************************************)
(* C13 - the REFERENCE EXPANDER of the SQF preprocessor as a line-driven   *)
(* state machine over lexeme sequences.  One source of truth:              *)
(*   - Preproc_MC    design check of the formulas on the reference itself, *)
(*                   refutation of deliberately wrong variants, generator  *)
(*   - Preproc_Trace judges recorded outputs of the real preprocessor      *)
(*                                                                         *)
(* Strings are atomic in TLC, therefore a source is a sequence of LINES    *)
(* and a line carries sequences of LEXEMES  [k |-> kind, s |-> spelling]:  *)
(*   "id"   maximal run of [A-Za-z0-9_] (identifiers and numbers alike)    *)
(*   "p"    one punctuation character; in macro bodies also "#" and "##"   *)
(*   "str"  a double-quoted string, quotes included; never looked into     *)
(*   "ws"   horizontal white space                                         *)
(*   "lc"   // comment up to the end of the line   "bc"  /* comment */     *)
(* The text of a line is the concatenation of its spellings (Render).      *)
(*                                                                         *)
(* Lines (field k):                                                        *)
(*   defobj [name, segs]          #define NAME body                        *)
(*   deffn  [name, params, segs]  #define NAME(p1,p2) body                 *)
(*   undef / ifdef / ifndef [name]     else / endif                        *)
(*   text   [segs, join]                                                   *)
(*   include [name, sub, back]   #include "name"; sub = the lines of that  *)
(*          file (the abstract source is a tree: every include line carries *)
(*          the content of the file it names, the same file may hang under *)
(*          several include lines); back = TRUE: the line names a file     *)
(*          that is being expanded at that point (its content hangs        *)
(*          further up), sub = <<>>                                        *)
(* segs is a sequence of physical lines; join = "bs": the physical lines   *)
(* end in backslash-newline (continuation); join = "bc": they are held     *)
(* together by a block comment that contains one newline ("bc0": the       *)
(* closing marker is the first thing on its line).                         *)
(* Every line also has tag (name of the construct, used in finding keys)   *)
(* and rich (BOOLEAN: a call argument contains a macro name, a string or   *)
(* white space - see Specified).                                           *)
(*                                                                         *)
(* dev is a set of DEVIATION names.  {} is the reference; a non-empty set  *)
(* selects a deliberately wrong expander (non-vacuity of the formulas, and *)
(* attribution of an observed mismatch to a formula).                      *)
(***************************************************************************)
EXTENDS Integers, Sequences, FiniteSets, TLC

Id(s) == [k |-> "id", s |-> s]
P(s) == [k |-> "p", s |-> s]
Str(s) == [k |-> "str", s |-> s]
Ws == [k |-> "ws", s |-> " "]
Nl == [k |-> "nl", s |-> ""]
LC(s) == [k |-> "lc", s |-> s]
BC(s) == [k |-> "bc", s |-> s]
Q == "\""

AllDevs == {"NestedIfIgnoresParent", "InactiveDirectivesEffective", "PrefixMatch", "ExpandInStrings", "StripWs"}
InactiveDevs == {"NestedIfIgnoresParent", "InactiveDirectivesEffective"}

---------------------------------------------------------------------------
(* lexeme sequences                                                        *)

RECURSIVE Spell(_)
Spell(seq) == IF Len(seq) = 0 THEN "" ELSE Head(seq).s \o Spell(Tail(seq))

IsComment(l) == l.k \in {"lc", "bc"}
IsBcJoin(j) == j \in {"bc", "bc0"}          \* physical lines held together by a multi-line block comment
NoComments(seq) == SelectSeq(seq, LAMBDA l : ~IsComment(l))        \* DropComment
NoWs(seq) == SelectSeq(seq, LAMBDA l : l.k # "ws")
StrSeq(seq) == SelectSeq(seq, LAMBDA l : l.k = "str")
Range(seq) == { seq[i] : i \in 1..Len(seq) }

\* concatenation of two pieces of text: two words that touch become one word
\* (backslash-newline inside a word - tests/preprocess/backslash.sqf - and `##`)
MergeJoin(a, b) ==
    IF Len(a) > 0 /\ Len(b) > 0 /\ a[Len(a)].k = "id" /\ b[1].k = "id"
    THEN SubSeq(a, 1, Len(a) - 1) \o <<Id(a[Len(a)].s \o b[1].s)>> \o Tail(b)
    ELSE a \o b

RECURSIVE JoinSegs(_)                                               \* JoinContinuation
JoinSegs(segs) == IF Len(segs) = 0 THEN <<>>
                  ELSE IF Len(segs) = 1 THEN segs[1]
                  ELSE MergeJoin(segs[1], JoinSegs(Tail(segs)))

CleanSegs(segs) == [j \in 1..Len(segs) |-> NoComments(segs[j])]

RECURSIVE IsSubseq(_, _)
IsSubseq(a, b) == IF Len(a) = 0 THEN TRUE
                  ELSE IF Len(b) = 0 THEN FALSE
                  ELSE IF Head(a) = Head(b) THEN IsSubseq(Tail(a), Tail(b))
                  ELSE IsSubseq(a, Tail(b))

---------------------------------------------------------------------------
(* macro table: name -> [fn, params, body]                                 *)

Put(mac, name, m) == [n \in (DOMAIN mac) \cup {name} |-> IF n = name THEN m ELSE mac[n]]
Remove(mac, name) == [n \in (DOMAIN mac) \ {name} |-> mac[n]]
Stringifies(m) == \E j \in 1..Len(m.body) : m.body[j] = P("#")

\* whole-identifier matching.  The deviation PrefixMatch (a wrong expander) also matches an
\* identifier that merely starts or ends with a macro name; strings are atomic, hence a table.
Stem(s) == CASE s \in {"M1x", "xM1"} -> "M1"
             [] s \in {"M2x", "xM2"} -> "M2"
             [] s \in {"Fx", "xF"} -> "F"
             [] OTHER -> s
MacroKey(cx, s) == IF "PrefixMatch" \in cx.dev THEN Stem(s) ELSE s

---------------------------------------------------------------------------
(* ExpandCall: argument splitting.  seq[i] is the lexeme after "(".  Commas *)
(* split only outside () [] {}; strings are atomic lexemes and therefore   *)
(* never split.  Result: [args, next, closed].                             *)
IsOpen(l) == l.k = "p" /\ l.s \in {"(", "[", "{"}
IsClose(l) == l.k = "p" /\ l.s \in {")", "]", "}"}

RECURSIVE ScanArgs(_, _, _, _, _)
ScanArgs(seq, i, depth, cur, args) ==
    IF i > Len(seq) THEN [args |-> Append(args, cur), next |-> i, closed |-> FALSE]
    ELSE LET l == seq[i] IN
         IF l = P(")") /\ depth = 0 THEN [args |-> Append(args, cur), next |-> i + 1, closed |-> TRUE]
         ELSE IF l = P(",") /\ depth = 0 THEN ScanArgs(seq, i + 1, 0, <<>>, Append(args, cur))
         ELSE IF IsOpen(l) THEN ScanArgs(seq, i + 1, depth + 1, Append(cur, l), args)
         ELSE IF IsClose(l) THEN ScanArgs(seq, i + 1, depth - 1, Append(cur, l), args)
         ELSE ScanArgs(seq, i + 1, depth, Append(cur, l), args)

---------------------------------------------------------------------------
(* Expansion of a lexeme sequence.                                         *)
(*   cx     [mac, dev]                                                     *)
(*   env    parameter name -> (already expanded) argument; <<>> outside    *)
(*          macro bodies                                                   *)
(*   inBody TRUE while walking a macro body: `#` and `##` are operators    *)
(* CopyString: a str lexeme is copied.  ExpandObj / ExpandCall: an id that *)
(* is (as a whole) the name of a macro is replaced by the expansion of its *)
(* body; a function-like macro only when "(" follows immediately           *)
(* (tests/preprocess/define_macro_callable_*.sqf: TEST alone stays TEST).  *)
(* Arguments are expanded before substitution; macros used in bodies are   *)
(* expanded when the body is walked.                                       *)
RECURSIVE ExpFrom(_, _, _, _, _, _)
ExpFrom(cx, seq, i, env, inBody, acc) ==
    IF i > Len(seq) THEN acc
    ELSE LET l == seq[i]
             hasNextId == i < Len(seq) /\ seq[i + 1].k = "id"
             nextVal == IF seq[i + 1].s \in DOMAIN env THEN env[seq[i + 1].s] ELSE <<seq[i + 1]>>
         IN
         IF inBody /\ l = P("#") /\ hasNextId                              \* #x  stringify
         THEN ExpFrom(cx, seq, i + 2, env, inBody, Append(acc, Str(Q \o Spell(nextVal) \o Q)))
         ELSE IF inBody /\ l = P("##")                                     \* x##y  concatenate
         THEN (IF hasNextId THEN ExpFrom(cx, seq, i + 2, env, inBody, MergeJoin(acc, nextVal))
               ELSE ExpFrom(cx, seq, i + 1, env, inBody, acc))
         ELSE IF l.k = "id" /\ l.s \in DOMAIN env                          \* parameter
         THEN ExpFrom(cx, seq, i + 1, env, inBody, acc \o env[l.s])
         ELSE IF l.k = "id" /\ MacroKey(cx, l.s) \in DOMAIN cx.mac
         THEN LET m == cx.mac[MacroKey(cx, l.s)] IN
              IF ~m.fn                                                     \* ExpandObj
              THEN ExpFrom(cx, seq, i + 1, env, inBody, acc \o ExpFrom(cx, m.body, 1, <<>>, TRUE, <<>>))
              ELSE IF i < Len(seq) /\ seq[i + 1] = P("(")                  \* ExpandCall
              THEN LET sc == ScanArgs(seq, i + 2, 0, <<>>, <<>>)
                       raw == IF Len(m.params) = 0 /\ sc.args = << <<>> >> THEN <<>> ELSE sc.args
                   IN IF ~sc.closed \/ Len(raw) # Len(m.params)
                      THEN ExpFrom(cx, seq, i + 1, env, inBody, Append(acc, l))    \* not generated (an error in the real one)
                      ELSE LET vals == [j \in 1..Len(raw) |-> ExpFrom(cx, raw[j], 1, env, FALSE, <<>>)]
                               env2 == [p \in Range(m.params) |-> vals[CHOOSE j \in 1..Len(m.params) : m.params[j] = p]]
                           IN ExpFrom(cx, seq, sc.next, env, inBody, acc \o ExpFrom(cx, m.body, 1, env2, TRUE, <<>>))
              ELSE ExpFrom(cx, seq, i + 1, env, inBody, Append(acc, l))
         ELSE IF l.k = "str" /\ "ExpandInStrings" \in cx.dev
                 /\ \E n \in DOMAIN cx.mac : l.s = Q \o n \o Q /\ ~cx.mac[n].fn
         THEN LET n == CHOOSE n \in DOMAIN cx.mac : l.s = Q \o n \o Q
              IN ExpFrom(cx, seq, i + 1, env, inBody, Append(acc, Str(Q \o Spell(ExpFrom(cx, cx.mac[n].body, 1, <<>>, TRUE, <<>>)) \o Q)))
         ELSE ExpFrom(cx, seq, i + 1, env, inBody, Append(acc, l))         \* CopyString and everything else

Expand(cx, seq) == LET r == ExpFrom(cx, seq, 1, <<>>, FALSE, <<>>)
                   IN IF "StripWs" \in cx.dev THEN NoWs(r) ELSE r

---------------------------------------------------------------------------
(* The state machine.  st = [mac, cond, out, n, open, err]                 *)
(*   open : names of the files being expanded, innermost last.  A file may *)
(*          be included any number of times; only the #include of a file   *)
(*          that is in `open` is a cycle: err, the real one must refuse.   *)
(*          Each file has its own conditional stack; macros are global.    *)
(*   n    : index of the line of the MAIN file being processed (lines of   *)
(*          included files are booked on the #include line of the main one)*)
(*   cond : stack of [par, own, elsed]; par = the enclosing region is      *)
(*          active, own = this branch's condition                          *)
(*   out  : output lines [src |-> index of the source line, lex |-> ..]    *)
(* Every directive and every line of an inactive region leaves an empty    *)
(* line (golden files), a continued line is one line.                      *)
MainName == "case.sqf"
InitState == [mac |-> <<>>, cond |-> <<>>, out |-> <<>>, n |-> 0, open |-> <<MainName>>, err |-> FALSE]
Top(st) == st.cond[Len(st.cond)]
Active(st) == Len(st.cond) = 0 \/ (Top(st).par /\ Top(st).own)
CondKinds == {"ifdef", "ifndef", "else", "endif"}
Body(line) == JoinSegs(CleanSegs(line.segs))

RECURSIVE Apply(_, _, _)
RECURSIVE RunFrom(_, _, _, _)
Apply(st, line, dev) ==
    LET act == Active(st)
        eff == act \/ "InactiveDirectivesEffective" \in dev
        i == IF Len(st.open) = 1 THEN st.n + 1 ELSE st.n
        blank == [src |-> i, lex |-> <<>>]
        cx == [mac |-> st.mac, dev |-> dev]
        st1 == [st EXCEPT !.n = i, !.out = Append(st.out, blank)]        \* the common case: one empty line
        push(own) == [st1 EXCEPT !.cond = Append(st.cond, [par |-> act \/ "NestedIfIgnoresParent" \in dev, own |-> own, elsed |-> FALSE])]
    IN CASE line.k = "defobj" ->                                           \* DefineObj
              IF eff THEN [st1 EXCEPT !.mac = Put(st.mac, line.name, [fn |-> FALSE, params |-> <<>>, body |-> Body(line)])] ELSE st1
         [] line.k = "deffn" ->                                            \* DefineFn
              IF eff THEN [st1 EXCEPT !.mac = Put(st.mac, line.name, [fn |-> TRUE, params |-> line.params, body |-> Body(line)])] ELSE st1
         [] line.k = "undef" ->                                            \* Undef
              IF eff THEN [st1 EXCEPT !.mac = Remove(st.mac, line.name)] ELSE st1
         [] line.k = "ifdef" -> push(line.name \in DOMAIN st.mac)           \* Ifdef
         [] line.k = "ifndef" -> push(line.name \notin DOMAIN st.mac)       \* Ifndef
         [] line.k = "else" ->                                             \* Else
              [st1 EXCEPT !.cond[Len(st.cond)] = [par |-> Top(st).par, own |-> ~Top(st).own, elsed |-> TRUE]]
         [] line.k = "endif" ->                                            \* Endif
              [st1 EXCEPT !.cond = SubSeq(st.cond, 1, Len(st.cond) - 1)]
         [] line.k = "text" ->                                             \* TextLine
              LET segs == CleanSegs(line.segs)
                  lines == IF IsBcJoin(line.join)
                           THEN [j \in 1..Len(segs) |-> [src |-> i, lex |-> IF act THEN Expand(cx, segs[j]) ELSE <<>>]]
                           ELSE << [src |-> i, lex |-> IF act THEN Expand(cx, JoinSegs(segs)) ELSE <<>>] >>
              IN [st EXCEPT !.n = i, !.out = st.out \o lines]
         [] line.k = "include" ->                                          \* Include
              IF ~act THEN st1                                             \* not obeyed, the file is not even looked at
              ELSE IF line.name \in Range(st.open) THEN [st1 EXCEPT !.err = TRUE]      \* a cycle
              ELSE LET inner == RunFrom(line.sub, 1, [st EXCEPT !.n = i, !.cond = <<>>, !.open = Append(st.open, line.name)], dev)
                   IN [inner EXCEPT !.cond = st.cond, !.open = st.open]

RunFrom(src, i, st, dev) == IF i > Len(src) THEN st ELSE RunFrom(src, i + 1, Apply(st, src[i], dev), dev)
Run(src, dev) == RunFrom(src, 1, InitState, dev)
Before(src, i) == RunFrom(SubSeq(src, 1, i - 1), 1, InitState, {})        \* reference state in front of line i

\* which lines may follow in a state: conditionals are balanced, nested at most MaxNest deep
MaxNest == 2
Enabled(st, line) ==
    CASE line.k \in {"ifdef", "ifndef"} -> Len(st.cond) < MaxNest
      [] line.k = "else" -> Len(st.cond) > 0 /\ ~Top(st).elsed
      [] line.k = "endif" -> Len(st.cond) > 0
      [] line.k = "include" -> line.back = (line.name \in Range(st.open)) \/ ~Active(st)
      [] OTHER -> TRUE

\* What neither the statement nor the golden files fix is not generated and not judged:
\* stringification of an argument that contains a macro name, a string or white space.
\* (Self-referential and mutually recursive macros - C10 - cannot be built from the alphabets.)
Specified(st, line) ==
    (line.k = "text" /\ line.rich) => ~ \E n \in DOMAIN st.mac : Stringifies(st.mac[n])

RECURSIVE WellFormedFrom(_, _, _)
WellFormedFrom(src, i, st) ==
    IF i > Len(src) THEN Len(st.cond) = 0
    ELSE /\ Enabled(st, src[i]) /\ Specified(st, src[i])
         /\ (src[i].k = "include" /\ Active(st) /\ ~src[i].back) =>        \* the included file is well-formed in the state it is entered in
                WellFormedFrom(src[i].sub, 1, [st EXCEPT !.cond = <<>>, !.open = Append(st.open, src[i].name),
                                                          !.n = IF Len(st.open) = 1 THEN st.n + 1 ELSE st.n])
         /\ WellFormedFrom(src, i + 1, Apply(st, src[i], {}))
WellFormed(src) == WellFormedFrom(src, 1, InitState)

---------------------------------------------------------------------------
(* output as one lexeme sequence / as lines                                *)
RECURSIVE FlatLines(_)
FlatLines(lines) == IF Len(lines) = 0 THEN <<>>
                    ELSE IF Len(lines) = 1 THEN lines[1].lex
                    ELSE lines[1].lex \o <<Nl>> \o FlatLines(Tail(lines))
RefOut(src) == FlatLines(Run(src, {}).out)                                 \* the reference output, white space included

RECURSIVE SplitFrom(_, _, _, _)
SplitFrom(lex, i, cur, acc) ==
    IF i > Len(lex) THEN Append(acc, cur)
    ELSE IF lex[i].k = "nl" THEN SplitFrom(lex, i + 1, <<>>, Append(acc, cur))
    ELSE SplitFrom(lex, i + 1, Append(cur, lex[i]), acc)
SplitNl(lex) == SplitFrom(lex, 1, <<>>, <<>>)                              \* sequence of lines (sequences of lexemes)

RECURSIVE DropTrailingEmpty(_)
DropTrailingEmpty(ls) == IF Len(ls) > 0 /\ ls[Len(ls)] = <<>> THEN DropTrailingEmpty(SubSeq(ls, 1, Len(ls) - 1)) ELSE ls

\* A directive or a text line continued over k physical lines: the golden files only say that the
\* pieces are joined; how many empty lines make up for the swallowed newlines is C14's business,
\* so for such sources empty lines are not compared.
\* The same holds for #include: the `#line` markers around the included text and the empty lines
\* next to them are C14's business.
MultiLineDirective(src) == \E i \in 1..Len(src) :
    \/ src[i].k = "include"
    \/ /\ (src[i].k \in {"defobj", "deffn"} \/ (src[i].k = "text" /\ src[i].join = "bs"))
       /\ Len(src[i].segs) > 1
NormLines(src, ls) ==
    LET a == [j \in 1..Len(ls) |-> NoWs(ls[j])]
    IN IF MultiLineDirective(src) THEN SelectSeq(a, LAMBDA x : x # <<>>) ELSE DropTrailingEmpty(a)

---------------------------------------------------------------------------
(* THE PROPERTY FORMULAS.  out is a lexeme sequence with nl lexemes (the   *)
(* reference's own, a wrong variant's, or the lexed output of the real     *)
(* preprocessor).                                                          *)

\* the output equals the reference expansion, modulo horizontal white space outside strings
ExpansionEqualsReference(src, out) ==
    NormLines(src, SplitNl(out)) = NormLines(src, SplitNl(RefOut(src)))

\* strings: (a) the strings of every active text line that contains no macro call reach the output
\* unaltered and in order; (b) every string of the output is a string of the source or the result of
\* a stringification the reference performs
LineStrings(line) == StrSeq(JoinSegs(CleanSegs(line.segs)))
HasCall(st, line) == \E j \in 1..Len(line.segs) : \E q \in 1..Len(line.segs[j]) :
                        line.segs[j][q].k = "id" /\ line.segs[j][q].s \in DOMAIN st.mac /\ st.mac[line.segs[j][q].s].fn
RECURSIVE PlainStringsFrom(_, _, _)
PlainStringsFrom(src, i, st) ==
    IF i > Len(src) THEN <<>>
    ELSE (IF src[i].k = "text" /\ Active(st) /\ ~HasCall(st, src[i]) THEN LineStrings(src[i]) ELSE <<>>)
         \o PlainStringsFrom(src, i + 1, Apply(st, src[i], {}))
SrcStrings(src) == UNION { UNION { Range(StrSeq(src[i].segs[j])) : j \in 1..Len(src[i].segs) }
                           : i \in { q \in 1..Len(src) : src[q].k \in {"text", "defobj", "deffn"} } }
StringsInviolate(src, out) ==
    /\ IsSubseq(PlainStringsFrom(src, 1, InitState), StrSeq(out))
    /\ Range(StrSeq(out)) \subseteq SrcStrings(src) \cup Range(StrSeq(RefOut(src)))

\* a source without directive, macro name, comment (and continuation) passes through unchanged
Builtin == {"__LINE__", "__FILE__", "__COUNTER__", "__COUNTER_RESET__", "__EXEC", "__EVAL", "_SQFVM", "__GAME_VER__",
            "__GAME_VER_MAJ__", "__GAME_VER_MIN__", "__GAME_BUILD__", "_SQFVM_RUNTIME_VERSION_MAJOR",
            "_SQFVM_RUNTIME_VERSION_MINOR", "_SQFVM_RUNTIME_VERSION_REVISION"}
IsPlain(src) == \A i \in 1..Len(src) :
    /\ src[i].k = "text" /\ Len(src[i].segs) = 1
    /\ \A q \in 1..Len(src[i].segs[1]) : ~IsComment(src[i].segs[1][q]) /\ src[i].segs[1][q].s \notin Builtin
SrcFlat(src) == FlatLines([i \in 1..Len(src) |-> [src |-> i, lex |-> src[i].segs[1]]])
PassThrough(src, out) == IsPlain(src) => out = SrcFlat(src)               \* lexemes incl. white space (model)
PassThroughNoWs(src, out) == IsPlain(src) => NoWs(out) = NoWs(SrcFlat(src)) \* on the lexed real output; bytes: Preproc_Trace

\* text in an inactive branch never reaches the output, directives there have no effect
LineActive(src, i) == Active(Before(src, i))
BlankLine(line) == [k |-> "text", tag |-> "blank", rich |-> FALSE, join |-> (IF line.k = "text" THEN line.join ELSE "bs"),
                    segs |-> (IF line.k = "text" /\ IsBcJoin(line.join) THEN [j \in 1..Len(line.segs) |-> <<>>] ELSE << <<>> >>)]
Blank(src) == [i \in 1..Len(src) |-> IF src[i].k \notin CondKinds /\ ~LineActive(src, i) THEN BlankLine(src[i]) ELSE src[i]]
\* (model) an expander is silent about inactive branches iff blanking them does not change its output
InactiveBranchSilentModel(src, dev) == Run(src, dev).out = Run(Blank(src), dev).out
\* (observation) no word that occurs only in inactive lines shows up, and the output is not the one
\* of an expander in which inactive text or directives take effect
LineWords(line) == (IF line.k \in {"defobj", "deffn", "undef"} THEN {line.name} ELSE {})
                   \cup (IF line.k \in {"text", "defobj", "deffn"}
                         THEN UNION { { line.segs[j][q].s : q \in { r \in 1..Len(line.segs[j]) : line.segs[j][r].k \in {"id", "str"} } } : j \in 1..Len(line.segs) }
                         ELSE {})
DeadOnly(src) ==
    LET dead == { i \in 1..Len(src) : src[i].k \notin CondKinds /\ ~LineActive(src, i) }
        live == { i \in 1..Len(src) : src[i].k \notin CondKinds } \ dead
    IN (UNION { LineWords(src[i]) : i \in dead }) \ (UNION { LineWords(src[i]) : i \in live })
InactiveDevSets == { {"NestedIfIgnoresParent"}, {"InactiveDirectivesEffective"}, {"NestedIfIgnoresParent", "InactiveDirectivesEffective"} }
DevName(D) == IF D = {"NestedIfIgnoresParent"} THEN "NestedIfIgnoresParent"
              ELSE IF D = {"InactiveDirectivesEffective"} THEN "InactiveDirectivesEffective"
              ELSE "NestedIfIgnoresParent+InactiveDirectivesEffective"
ExplainedBy(src, out, D) == NormLines(src, SplitNl(out)) = NormLines(src, SplitNl(FlatLines(Run(src, D).out)))
InactiveBranchSilent(src, out) ==
    /\ \A l \in Range(out) : l.s \in DeadOnly(src) => l \in Range(RefOut(src))
    /\ (ExpansionEqualsReference(src, out) \/ \A D \in InactiveDevSets : ~ExplainedBy(src, out, D))
\* which inactive-branch deviation explains the output ("" if none)
ExplainingDev(src, out) ==
    LET S == { D \in InactiveDevSets : ExplainedBy(src, out, D) }
    IN IF S = {} THEN "" ELSE DevName(CHOOSE D \in S : \A E \in S : Cardinality(D) <= Cardinality(E))

---------------------------------------------------------------------------
(* where the output first leaves the reference: index of the source line   *)
FirstDivergence(src, out) ==
    LET ref == Run(src, {}).out
        a == SplitNl(out)
        D == { j \in 1..Len(ref) : j > Len(a) \/ NoWs(a[j]) # NoWs(ref[j].lex) }
    IN IF D = {} THEN Len(src) ELSE ref[CHOOSE j \in D : \A q \in D : j <= q].src

---------------------------------------------------------------------------
(* Render: the text of a source (what the real preprocessor is given)      *)
BsNl == "\\\n"
BcText == "/* c1\nc2 */"
Bc0Text == "/* c1\n*/"                     \* the closing marker starts its line
RECURSIVE SpellSegs(_, _)
SpellSegs(segs, sep) == IF Len(segs) = 0 THEN "" ELSE IF Len(segs) = 1 THEN Spell(segs[1])
                        ELSE Spell(segs[1]) \o sep \o SpellSegs(Tail(segs), sep)
RECURSIVE CommaList(_)
CommaList(ps) == IF Len(ps) = 0 THEN "" ELSE IF Len(ps) = 1 THEN ps[1] ELSE ps[1] \o "," \o CommaList(Tail(ps))
BodyText(line) == LET b == SpellSegs(line.segs, BsNl) IN IF b = "" THEN "" ELSE " " \o b
RenderLine(line) ==
    CASE line.k = "defobj" -> "#define " \o line.name \o BodyText(line)
      [] line.k = "deffn" -> "#define " \o line.name \o "(" \o CommaList(line.params) \o ")" \o BodyText(line)
      [] line.k = "undef" -> "#undef " \o line.name
      [] line.k = "ifdef" -> "#ifdef " \o line.name
      [] line.k = "ifndef" -> "#ifndef " \o line.name
      [] line.k = "else" -> "#else"
      [] line.k = "endif" -> "#endif"
      [] line.k = "include" -> "#include \"" \o line.name \o "\""
      [] line.k = "text" -> SpellSegs(line.segs, IF line.join = "bc" THEN BcText ELSE IF line.join = "bc0" THEN Bc0Text ELSE BsNl)
RECURSIVE Render(_)
Render(src) == IF Len(src) = 0 THEN "" ELSE IF Len(src) = 1 THEN RenderLine(src[1])
               ELSE RenderLine(src[1]) \o "\n" \o Render(Tail(src))
\* the included files of a source: set of [name, text]
RECURSIVE FilesOf(_)
FilesOf(src) == UNION { IF src[i].k = "include" /\ ~src[i].back
                        THEN {[name |-> src[i].name, text |-> Render(src[i].sub)]} \cup FilesOf(src[i].sub)
                        ELSE {} : i \in 1..Len(src) }
\* one content per file name
FilesConsistent(src) == \A f, g \in FilesOf(src) : f.name = g.name => f = g
HasInclude(src) == \E i \in 1..Len(src) : src[i].k = "include"
=============================================================================
