SPECIFICATION Spec
CONSTANTS
  BinLevel <- MBinLevel
  IsUnary <- MIsUnary
  Depth = 2
  Emit = FALSE
  Levels = {1, 4, 6, 7, 10}
  Variant = "ideal"
INVARIANTS InvReading InvRoundTrip
