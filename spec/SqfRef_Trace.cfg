SPECIFICATION TraceSpec
CONSTANTS
  Mut = "none"
  LoopFuel = 60
  NestedBlocksInheritNamespace = TRUE
CHECK_DEADLOCK FALSE
