------------------------------- MODULE Api_MC -------------------------------
EXTENDS Api, Json
CONSTANTS Depth, Emit
VARIABLES st, hist, lastobs, prev, lastop
vars == <<st, hist, lastobs, prev, lastop>>

Ops ==   { [op |-> "create", i |-> i, limited |-> l] : i \in Insts, l \in BOOLEAN }
    \cup { [op |-> "destroy", i |-> i] : i \in Insts }
    \cup { [op |-> "status", i |-> i] : i \in Insts }
    \cup { [op |-> "null", i |-> 0, what |-> w] : w \in {"call", "callempty", "config", "status"} }
    \cup { [op |-> "config", i |-> i, kind |-> k] : i \in Insts, k \in CfgKinds }
    \cup { [op |-> "call", i |-> i, type |-> "s", kind |-> k] : i \in Insts, k \in SqfKinds }
    \cup { [op |-> "call", i |-> i, type |-> t, kind |-> k] : i \in Insts, t \in {"p", "1", "?"}, k \in {"setg1", "ppfail", "parsefail", "empty", "evalerr"} }

Init == st = InitState /\ hist = <<>> /\ lastobs = [ret |-> 0, status |-> 0, out |-> ""] /\ prev = InitState /\ lastop = [op |-> "init"]
Next == \E o \in Ops :
          /\ Len(hist) < Depth /\ Enabled(st, o)
          /\ LET r == Apply(st, o) IN st' = r.st /\ lastobs' = r.obs
          /\ prev' = st /\ lastop' = o /\ hist' = Append(hist, o)
          /\ (Emit => PrintT("OUT " \o ToJson(hist')))
Spec == Init /\ [][Next]_vars
View == <<st, Len(hist)>>
ViewStep == <<st, prev, lastop, Len(hist)>>
Res == [st |-> st, obs |-> lastobs]
InvIdle == lastop.op # "init" => IdleAfterCall(prev, lastop, Res)
InvPersist == lastop.op \in {"call", "config"} => OnlyGlobalsAndConfigPersist(prev, lastop, Res)
InvIndependent == lastop.op # "init" => InstancesIndependent(prev, lastop, Res)
=============================================================================
