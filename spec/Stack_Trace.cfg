SPECIFICATION TraceSpec
CONSTANTS
  FrameDoneAlwaysYields = TRUE
  LeaveClearsRegions = TRUE
CHECK_DEADLOCK FALSE
