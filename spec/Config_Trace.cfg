SPECIFICATION TraceSpec
CONSTANTS
  Dev = {}
  MaxFiles = 99
INVARIANTS TInvAcyclic TInvTerminates
CHECK_DEADLOCK FALSE
