SPECIFICATION Spec
CONSTANTS
  ToFixedSetsStatic = FALSE
  CounterIsStatic = FALSE
  TypeIdByFirstUse = FALSE
  AddressInOutput = FALSE
  ObjectHashIsAddress = FALSE
  ExtBufferIsStatic = FALSE
  WarnLatchIsStatic = FALSE
  DefinesPersist = FALSE
  MaxP = 2
  MaxQ = 2
  Stmts <- StmtsAll
  Addrs = {100, 200}
  Emit = FALSE
VIEW View
INVARIANTS InvNonInterferenceAfter InvNonInterferenceBeside InvDeterministic
