------------------------------- MODULE Lex_MC -------------------------------
(* Design check and input generator for Lex.tla (C10).                     *)
(* TLC enumerates EVERY symbol string of length <= Depth over the alphabet *)
(* (one state per string) and every macro / include graph over NNames      *)
(* names with bodies of at most two items (one state per graph and used    *)
(* name), and evaluates the C10 formulas on the scanners / the expander    *)
(* selected by Dev:                                                        *)
(*   Dev = {}          the IDEAL scanners and expander: every invariant    *)
(*                     must hold                                           *)
(*   Dev = {"<name>"}  a named deviation switched on: TLC must refute the  *)
(*                     corresponding invariant (this is how a suspected    *)
(*                     defect is confirmed at model level, and the         *)
(*                     non-vacuity self-test of the formula)               *)
(* Generator (Emit = TRUE): every enumerated string / graph is printed as  *)
(* "OUT <json>" together with the deviations the transcribed code would    *)
(* take on it - one implementation test each.                              *)
EXTENDS Lex, Json, TLC

CONSTANTS Depth, Emit, Dev, NNames

VARIABLES inp, g
vars == <<inp, g>>

NameSet == IF NNames = 2 THEN {"A", "B"} ELSE {"A", "B", "C"}
Items == NameSet \cup {"t"}
Bodies == {<<>>} \cup {<<a>> : a \in Items} \cup {<<a, b>> : a \in Items, b \in Items}
Graphs == [NameSet -> Bodies]
NoGraph == [kind |-> "none", use |-> "", gr |-> <<>>]

Scanners == {"sqf", "cfg"}
\* what the transcribed code does on an input: eof | invalid | throw | oob (leaves the buffer) | hang
Outcome(w, i) == LET r == Scan(w, i, CodeDevs)
                 IN IF r.st.mode # "done" THEN "hang" ELSE IF ~r.bnd THEN "oob" ELSE r.st.diag
NoCheck(kind) == IF kind = "macro" THEN "UnboundedMacroRecursion" \in Dev ELSE "IncludeCycleUnchecked" \in Dev

Init == inp = <<>> /\ g = NoGraph

LexNext == /\ g.kind = "none"
           /\ Len(inp) < Depth
           /\ \E s \in Alphabet :
                /\ inp' = Append(inp, s)
                /\ (Emit => PrintT("OUT " \o ToJson([kind |-> "sym", syms |-> inp',
                                                      ds |-> Scan("sqf", inp', CodeDevs).st.dev, os |-> Outcome("sqf", inp'),
                                                      dc |-> Scan("cfg", inp', CodeDevs).st.dev, oc |-> Outcome("cfg", inp')])))
           /\ UNCHANGED g

ExpNext == /\ g.kind = "none" /\ inp = <<>>
           /\ \E k \in {"macro", "include"}, gr \in Graphs, m \in NameSet :
                /\ g' = [kind |-> k, use |-> m, gr |-> gr]
                /\ (Emit => PrintT("OUT " \o ToJson([kind |-> k, use |-> m, gr |-> gr, cyc |-> CyclicFrom(gr, m)])))
           /\ UNCHANGED inp

Next == LexNext \/ ExpNext
Spec == Init /\ [][Next]_vars

\* ---- the C10 formulas as invariants over every enumerated input ----
InvBounded == /\ \A w \in Scanners : Bounded(inp, Scan(w, inp, Dev))
              /\ PpBounded(inp, PpScan(inp))
InvProgress == /\ \A w \in Scanners : Progress(inp, Scan(w, inp, Dev))
               /\ PpProgress(inp, PpScan(inp))
InvTerminates == /\ \A w \in Scanners : Terminates(inp, Scan(w, inp, Dev))
                 /\ PpTerminates(inp, PpScan(inp))
InvResultOrDiagnostic == \A w \in Scanners : ResultOrDiagnostic(inp, Scan(w, inp, Dev))
InvTokensTile == \A w \in Scanners : TokensTile(inp, Scan(w, inp, Dev))
InvDeterministic == \A w \in Scanners : Deterministic(w, inp, Dev)
InvPpReader == PpOutputIsSubsequence(inp, PpScan(inp))
InvExpansionTerminates == g.kind = "none" \/ ExpansionTerminates(g.gr, g.use, Expansion(g.gr, g.use, NoCheck(g.kind)))
\* where no deviation fires the deviating scanner IS the ideal one (the deviations are local)
InvDeviationsLocal == \A w \in Scanners : LET c == Scan(w, inp, CodeDevs) IN c.st.dev = {} => c = Scan(w, inp, {})

\* ---- the witnesses named in DESIGN.md, checked when the model is loaded ----
W1 == <<"sl", "sl", "x">>                      \* //x
W2 == <<"hs", "li", "sp", "l">>                \* #line g
W3 == <<"sq", "l">>                            \* 'g   (config)
ASSUME /\ Bounded(W1, Scan("sqf", W1, {})) /\ Terminates(W1, Scan("sqf", W1, {}))
       /\ ~Bounded(W1, Scan("sqf", W1, {"CommentRunsPastEnd"})) /\ ~Terminates(W1, Scan("cfg", W1, {"CommentRunsPastEnd"}))
       /\ ResultOrDiagnostic(W2, Scan("sqf", W2, {})) /\ ~ResultOrDiagnostic(W2, Scan("sqf", W2, {"HashLineUnchecked"}))
       /\ Terminates(W3, Scan("cfg", W3, {})) /\ ~Terminates(W3, Scan("cfg", W3, {"SingleQuoteRunsPastEnd"}))
       /\ Terminates(W3, Scan("sqf", W3, {"SingleQuoteRunsPastEnd"}))
       /\ ExpansionTerminates([A |-> <<"A">>, B |-> <<>>], "A", Expansion([A |-> <<"A">>, B |-> <<>>], "A", FALSE))
       /\ ~ExpansionTerminates([A |-> <<"A">>, B |-> <<>>], "A", Expansion([A |-> <<"A">>, B |-> <<>>], "A", TRUE))
=============================================================================
