SPECIFICATION Spec
CONSTANTS
  MaxLen = 5
  QuoteDoubles = TRUE
INVARIANTS InvQuote InvSingle
