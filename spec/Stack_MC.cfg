SPECIFICATION Spec
CONSTANTS
  FrameDoneAlwaysYields = TRUE
  LeaveClearsRegions = TRUE
  Depth = 6
  MaxFrames = 4
INVARIANTS InvPartition InvNoStealing InvOneValue InvOneValueStrict InvStatementClean
