SPECIFICATION TraceSpec
CONSTANTS
  MaxRef = 40
  Vars = {"a", "b", "c"}
  AppendChecksCycle = TRUE
  SetGrowsBeforeRefusal = FALSE
INVARIANTS TInvAcyclic TInvAliases
CHECK_DEADLOCK FALSE
