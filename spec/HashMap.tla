------------------------------ MODULE HashMap ------------------------------
(***************************************************************************)
(* C07, map part: an SQF HashMap is a finite map keyed by isEqualTo.       *)
(*                                                                         *)
(* Value trees (the driver's projection):                                  *)
(*   [t|->"n",n|->Int] [t|->"s",s|->STRING] [t|->"b",b|->BOOLEAN]          *)
(*   [t|->"a",a|-><<trees>>]  [t|->"nil"]   (payload field named after tag)*)
(* State st = [maps, karr, ret]:                                           *)
(*   maps : MapVar -> set of <<keyTree, valueTree>> with unique keys       *)
(*   karr : contents (sequence of trees) of the script array variable `k`  *)
(*          that histories use as a key and mutate afterwards              *)
(*   ret  : value returned by the last operation ([t|->"none"] if none)    *)
(* The reference dictionary IS the state: the spec is the finite map. The  *)
(* constant KeysCapturedByValue = FALSE gives the named deviation          *)
(* HSetAliasKey (DESIGN.md F7a): a key array is stored by reference, so a  *)
(* later mutation of `k` changes the stored key.                           *)
(***************************************************************************)
EXTENDS Integers, Sequences, FiniteSets, TLC

CONSTANTS MapVars, KeysCapturedByValue,
          KeysCapturedDeep     \* FALSE: named deviation - only the top level of a key array is copied, inner arrays stay aliased

None == [t |-> "none"]
Nil == [t |-> "nil"]
Num(k) == [t |-> "n", n |-> k]
Str(s) == [t |-> "s", s |-> s]
Bool(b) == [t |-> "b", b |-> b]
ArrT(s) == [t |-> "a", a |-> s]

\* isEqualTo on trees: structural, case-sensitive; an array containing nil equals nothing
RECURSIVE KeyEq(_, _)
KeyEq(a, b) ==
    IF a.t # b.t THEN FALSE
    ELSE IF a.t = "nil" THEN FALSE
    ELSE IF a.t = "a" THEN Len(a.a) = Len(b.a) /\ \A i \in 1..Len(a.a) : KeyEq(a.a[i], b.a[i])
    ELSE a = b

\* the array variable k may hold the inner array variable j as an element: [t |-> "jref"] stands for
\* "the array j" and is resolved against j's current contents
JRef == [t |-> "jref"]
RECURSIVE Res(_, _)
Res(jarr, t) == IF t.t = "jref" THEN ArrT(jarr)
                ELSE IF t.t = "a" THEN ArrT([i \in 1..Len(t.a) |-> Res(jarr, t.a[i])])
                ELSE t

\* a key operand: literal tree, or the current contents of the array variable k
KeyOf(st, key) == IF key.k = "kvar" THEN Res(st.jarr, ArrT(st.karr)) ELSE key.v

\* stored keys: [tree |-> t, live |-> BOOLEAN]; a live key follows karr, a stored tree that still contains
\* a jref follows j (deviations only)
KeyTree(st, sk) == IF sk.live THEN Res(st.jarr, ArrT(st.karr)) ELSE Res(st.jarr, sk.tree)
Entries(st, m) == { <<KeyTree(st, e[1]), e[2]>> : e \in st.maps[m] }
Lookup(st, m, kt) == { e \in st.maps[m] : KeyEq(KeyTree(st, e[1]), kt) }
HasKey(st, m, kt) == Lookup(st, m, kt) # {}

Stored(st, key) ==
    IF key.k = "kvar" /\ ~KeysCapturedByValue THEN [tree |-> Nil, live |-> TRUE]
    ELSE IF key.k = "kvar" /\ ~KeysCapturedDeep THEN [tree |-> ArrT(st.karr), live |-> FALSE]
    ELSE [tree |-> KeyOf(st, key), live |-> FALSE]

SetEntry(st, m, key, val) ==
    LET kt == KeyOf(st, key)
        rest == st.maps[m] \ Lookup(st, m, kt)
        \* an existing entry keeps its stored key (unordered_map::operator[] semantics)
        sk == IF HasKey(st, m, kt) THEN (CHOOSE e \in Lookup(st, m, kt) : TRUE)[1] ELSE Stored(st, key)
    IN [st EXCEPT !.maps[m] = rest \cup {<<sk, val>>}]

RECURSIVE SetAll(_, _, _)
SetAll(st, m, pairs) ==
    IF pairs = <<>> THEN st
    ELSE SetAll(SetEntry(st, m, Head(pairs)[1], Head(pairs)[2]), m, Tail(pairs))

Apply(st, op) ==
    CASE op.op = "create" -> [st EXCEPT !.maps[op.m] = {}, !.ret = None]
      [] op.op = "set" -> [SetEntry(st, op.m, op.key, op.val) EXCEPT !.ret = None]
      [] op.op = "get" ->
            LET hit == Lookup(st, op.m, KeyOf(st, op.key))
            IN [st EXCEPT !.ret = IF hit = {} THEN Nil ELSE (CHOOSE e \in hit : TRUE)[2]]
      [] op.op = "del" ->
            LET hit == Lookup(st, op.m, KeyOf(st, op.key))
            IN [st EXCEPT !.maps[op.m] = st.maps[op.m] \ hit,
                          !.ret = IF hit = {} THEN Nil ELSE (CHOOSE e \in hit : TRUE)[2]]
      [] op.op = "in" -> [st EXCEPT !.ret = Bool(HasKey(st, op.m, KeyOf(st, op.key)))]
      [] op.op = "count" -> [st EXCEPT !.ret = Num(Cardinality(st.maps[op.m]))]
      [] op.op = "fromArray" -> [SetAll([st EXCEPT !.maps[op.m] = {}], op.m, op.pairs) EXCEPT !.ret = None]
      [] op.op = "copy" -> [st EXCEPT !.maps[op.m] = st.maps[op.src], !.ret = None]
      [] op.op = "newk" -> [st EXCEPT !.karr = op.elems, !.ret = None]     \* k = [..] (fresh array)
      [] op.op = "mutk" -> [st EXCEPT !.karr = Append(st.karr, Num(9)), !.ret = None] \* k pushBack 9
      [] op.op = "newkj" -> [st EXCEPT !.karr = <<JRef, Num(0)>>, !.ret = None]         \* k = [j, 0] (fresh outer array holding j)
      [] op.op = "mutj" -> [st EXCEPT !.jarr = Append(st.jarr, Num(9)), !.ret = None]   \* j pushBack 9
      [] op.op = "mutval" ->     \* (m get key) pushBack 9 when an array is stored there: values are references, the stored value follows
            (LET hit == Lookup(st, op.m, KeyOf(st, op.key)) IN
             IF hit = {} THEN [st EXCEPT !.ret = None]
             ELSE LET e == CHOOSE x \in hit : TRUE IN
                  IF e[2].t # "a" THEN [st EXCEPT !.ret = None]
                  ELSE [st EXCEPT !.maps[op.m] = (st.maps[op.m] \ {e}) \cup {<<e[1], ArrT(Append(e[2].a, Num(9)))>>}, !.ret = None])
      [] op.op = "mutkeys" -> [st EXCEPT !.ret = None]     \* every array among `keys m` gets an element pushed: the keys were handed out by value

InitState == [maps |-> [m \in MapVars |-> {}], karr |-> <<>>, jarr |-> <<Num(3)>>, ret |-> None]

\* Observation: every map as a set of <<keyTree, valueTree>>, and the returned value
Obs(st) == [maps |-> [m \in MapVars |-> Entries(st, m)], ret |-> st.ret]

---------------------------------------------------------------------------
(* Property formulas                                                       *)
\* keys of one map are pairwise different under isEqualTo (it is a function)
MapIsDict(st) == \A m \in MapVars : \A e1, e2 \in st.maps[m] :
                    KeyEq(KeyTree(st, e1[1]), KeyTree(st, e2[1])) => e1 = e2
\* mutation of an array that was used as key neither loses nor changes an entry
KeyCapturedByValue(st, op, st2) ==
    op.op \in {"mutk", "mutj", "mutkeys"} => \A m \in MapVars : Entries(st2, m) = Entries(st, m)
\* a copy is independent of the original: operations on one map leave all others alone
CopyIndependent(st, op, st2) ==
    op.op \in {"set", "del", "fromArray", "create", "copy", "mutval"} =>      \* (mutval: the copy holds copies of the arrays, too)
        \A m \in MapVars \ {op.m} : Entries(st2, m) = Entries(st, m)
=============================================================================
