SPECIFICATION FSpec
CONSTANTS
  Dev = {}
  MaxFiles = 3
