------------------------------- MODULE Pbo_MC -------------------------------
(* Design check and case generator for Pbo.tla.                             *)
(*                                                                          *)
(* Initial states = every (archive, fault) of the bounded space; the reader *)
(* of kind Variant then runs its phases, one action per phase.  When it has *)
(* ended, the four formulas are evaluated on what that reader shows:        *)
(*   Variant = "reference"  the reference satisfies all formulas (otherwise *)
(*                          the reading of the property is wrong)           *)
(*   Variant = "exposeCut" | "crashOnCutTable" | "createsAbsent" |          *)
(*             "dropsEmptyEntries"   deliberately wrong readers: TLC must   *)
(*                          refute the matching formula (non-vacuity)       *)
(* Mode = "space"    archives = all sequences of <= MaxProps distinct       *)
(*                   properties of PropPool x all sequences of <= MaxEntries*)
(*                   entries with distinct names of Names and sizes of Sizes*)
(* Mode = "given"    archives = the elements of Given (sampled / random     *)
(*                   larger archives chosen by the orchestrator)            *)
(* Mode = "archives" prints the archives of the space only (no faults)      *)
(* Faults of an archive: none, absent, Truncate(n) for EVERY n < Total      *)
(* (AllPoints; otherwise every n up to the start of the data region and the *)
(* boundary points of every data block and of the checksum), CorruptLen(i,  *)
(* d) for every entry i and d in Deltas.                                    *)
(* With Emit = TRUE every (archive, fault) is printed as "OUT <json case>"  *)
(* together with the byte layout and the reference outcome.                 *)
EXTENDS Pbo, TLC, Json

CONSTANTS Mode, Variant, Emit, Names, Sizes, MaxEntries, MaxProps, AllPoints,
          Deltas,      \* set of integers (defined in the generated module)
          Given        \* sequence of archives (defined in the generated module)

PropPool == { <<"prefix", "pfx">>, <<"version", "12">>, <<"x", "">> }
PropSeqs == UNION { { s \in [1..n -> PropPool] : \A i, j \in 1..n : i # j => s[i] # s[j] } : n \in 0..MaxProps }
Shapes == Names \X Sizes
ShapeSeqs == UNION { { s \in [1..n -> Shapes] : \A i, j \in 1..n : i # j => s[i][1] # s[j][1] } : n \in 0..MaxEntries }
MkEntries(s) == [j \in 1..Len(s) |-> [name |-> s[j][1], size |-> s[j][2],
                                      blob |-> "blob-" \o ToString(j) \o "-" \o ToString(s[j][2])]]
SpaceArchives == { [props |-> p, entries |-> MkEntries(s)] : p \in PropSeqs, s \in ShapeSeqs }
Archives == IF Mode = "given" THEN { Given[i] : i \in DOMAIN Given } ELSE SpaceArchives

TruncPoints(a) ==
    IF AllPoints THEN 0..(Total(a) - 1)
    ELSE ((0..DataStart(a))
          \cup UNION { { DataOff(a, j), DataOff(a, j) + 1, DataOff(a, j + 1) - 1 } : j \in 1..NE(a) }
          \cup { DataEnd(a), DataEnd(a) + 1, Total(a) - 1 }) \cap (0..(Total(a) - 1))

Faults(a) ==
         { NoFault, Absent }
    \cup { Truncate(n) : n \in TruncPoints(a) }
    \cup { CorruptLen(q[1], q[2]) : q \in { p \in (1..NE(a)) \X Deltas : p[2] # 0 /\ a.entries[p[1]].size + p[2] >= 0 } }

CaseJson(a, f) ==
    LET out == Read(a, f)
    IN [arch |-> a, fault |-> f, layout |-> Layout(a), cls |-> FaultClass(a, f), filelen |-> FileLen(a, f),
        expect |-> [k |-> out.k, S |-> out.S]]

VARIABLES arch, fault, st
vars == <<arch, fault, st>>

Init ==
    /\ arch \in Archives
    /\ IF Mode = "archives"
       THEN /\ fault = NoFault
            /\ st = Reject(Start)
            /\ (Emit => PrintT("OUT " \o ToJson([arch |-> arch, total |-> Total(arch)])))
       ELSE /\ fault \in Faults(arch)
            /\ st = Start
            /\ (Emit => PrintT("OUT " \o ToJson(CaseJson(arch, fault))))

Step(ph) ==
    /\ Mode # "archives"
    /\ st.status = "reading"
    /\ st.phase = ph
    /\ st' = Apply(Variant, arch, fault, st)
    /\ UNCHANGED <<arch, fault>>

AVersionHeader == Step("VersionHeader")
AProp == Step("Prop")
APropsEnd == Step("PropsEnd")
AEntryHeader == Step("EntryHeader")
AEntriesEnd == Step("EntriesEnd")
ADataOffsets == Step("DataOffsets")

Next == AVersionHeader \/ AProp \/ APropsEnd \/ AEntryHeader \/ AEntriesEnd \/ ADataOffsets
Spec == Init /\ [][Next]_vars

Judged == Mode # "archives" /\ st.status # "reading"
O == ObsOf(Variant, arch, fault, st)

\* ---- the C17 formulas on what the reader of kind Variant shows
InvFaithful == Judged => Faithful(arch, fault, O)
InvOnlyIntactExposed == Judged => OnlyIntactExposed(arch, fault, O)
InvNoSideEffects == Judged => NoSideEffects(arch, fault, O)
InvNeverCrashes == Judged => NeverCrashes(arch, fault, O)
InvNoViolation == Judged => Violations(arch, fault, O) = <<>>

\* ---- the reference itself
\* the phase reader and the declarative notion of an intact entry agree; nothing is withheld
InvReference == (Judged /\ Variant = "reference") =>
    /\ Outcome(st) = Read(arch, fault)
    /\ Outcome(st).k = "Exposes" => Outcome(st).S = IntactSet(arch, fault)
    /\ Outcome(st).k = "Rejected" => IntactSet(arch, fault) = {}
    /\ fault.kind = "none" => (Outcome(st).k = "Exposes" /\ Outcome(st).S = 1..NE(arch))
    /\ fault.kind = "absent" => Outcome(st).k = "Rejected"
\* the reader's position is the end of the last record it consumed, as laid out
InvPosition ==
    /\ st.phase = "Prop" => st.pos = PropOff(arch, st.k)
    /\ st.phase = "PropsEnd" => st.pos = PropsEndOff(arch)
    /\ st.phase = "EntryHeader" => st.pos = HdrOff(arch, st.k)
    /\ st.phase = "EntriesEnd" => st.pos = HdrsEndOff(arch)
    /\ st.phase = "DataOffsets" => st.pos = DataStart(arch)
\* the layout is gapless and ordered
InvLayout ==
    LET L == Layout(arch)
    IN /\ L.ver.start = 0
       /\ \A i \in 1..NP(arch) : L.props[i].start = (IF i = 1 THEN L.ver.end ELSE L.props[i - 1].end)
       /\ L.propsEnd.start = (IF NP(arch) = 0 THEN L.ver.end ELSE L.props[NP(arch)].end)
       /\ \A i \in 1..NE(arch) : L.hdrs[i].start = (IF i = 1 THEN L.propsEnd.end ELSE L.hdrs[i - 1].end)
       /\ \A i \in 1..NE(arch) : L.sizeField[i] + 4 = L.hdrs[i].end
       /\ L.hdrsEnd.start = (IF NE(arch) = 0 THEN L.propsEnd.end ELSE L.hdrs[NE(arch)].end)
       /\ \A i \in 1..NE(arch) : L.data[i].start = (IF i = 1 THEN L.hdrsEnd.end ELSE L.data[i - 1].end)
       /\ L.checksum.start = (IF NE(arch) = 0 THEN L.hdrsEnd.end ELSE L.data[NE(arch)].end)
       /\ L.total = L.checksum.end
=============================================================================
