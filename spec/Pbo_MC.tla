------------------------------- MODULE Pbo_MC -------------------------------
(* Design check and case generator for Pbo.tla.                             *)
(*                                                                          *)
(* Initial states = every (archive, fault) of the bounded space; the reader *)
(* of kind Variant then runs its phases, one action per phase.  When it has *)
(* ended, the four formulas are evaluated on what that reader shows:        *)
(*   Variant = "reference"  the reference satisfies all formulas (otherwise *)
(*                          the reading of the property is wrong)           *)
(*   Variant = "exposeCut" | "crashOnCutTable" | "createsAbsent" |          *)
(*             "dropsEmptyEntries"   deliberately wrong readers: TLC must   *)
(*                          refute the matching formula (non-vacuity)       *)
(* Mode = "space"    archives = all sequences of <= MaxProps distinct       *)
(*                   properties of PropPool x all sequences of <= MaxEntries*)
(*                   entries with distinct names of Names and sizes of Sizes*)
(* Mode = "given"    archives = the elements of Given (sampled / random     *)
(*                   larger archives chosen by the orchestrator)            *)
(* Mode = "archives" prints the archives of the space only (no faults)      *)
(* Faults of an archive: none, absent, Truncate(n) for EVERY n < Total      *)
(* (AllPoints; otherwise the structural points of every record, see         *)
(* TruncPoints), CorruptLen(i, d) for every entry i and d in Deltas.        *)
(* With Emit = TRUE every (archive, fault) is printed as "OUT <json case>"  *)
(* together with the byte layout and the reference outcome.                 *)
EXTENDS Pbo, TLC, Json

CONSTANTS Mode, Variant, Emit, Names, Sizes, MaxEntries, MaxProps, AllPoints,
          Deltas,      \* set of integers (defined in the generated module)
          Given        \* sequence of archives (defined in the generated module)

PropPool == { <<"prefix", "pfx">>, <<"version", "12">>, <<"x", "">> }
PropSeqs == UNION { { s \in [1..n -> PropPool] : \A i, j \in 1..n : i # j => s[i] # s[j] } : n \in 0..MaxProps }
Shapes == Names \X Sizes
ShapeSeqs == UNION { { s \in [1..n -> Shapes] : \A i, j \in 1..n : i # j => s[i][1] # s[j][1] } : n \in 0..MaxEntries }
MkEntries(s) == [j \in 1..Len(s) |-> [name |-> s[j][1], size |-> s[j][2],
                                      blob |-> "blob-" \o ToString(j) \o "-" \o ToString(s[j][2])]]
SpaceArchives == { [props |-> p, entries |-> MkEntries(s)] : p \in PropSeqs, s \in ShapeSeqs }
Archives == IF Mode = "given" THEN { Given[i] : i \in DOMAIN Given } ELSE SpaceArchives

\* structural truncation points of a larger archive: around the borders of every record, around the
\* NUL between key and value / behind an entry name, around the header's size field, and 255..257
\* bytes into a record (the reader scans strings in blocks of 256 bytes)
RecPoints(r) == ({ r.start + d : d \in {0, 1, 2, 255, 256, 257} } \cup { r.end - d : d \in {1, 2, 4, 5, 20, 21, 22} }) \cap (r.start..(r.end - 1))
Records(a) ==
    LET L == Layout(a)
    IN {L.ver, L.propsEnd, L.hdrsEnd, L.checksum} \cup { L.props[i] : i \in 1..NP(a) }
       \cup { L.hdrs[i] : i \in 1..NE(a) } \cup { L.data[i] : i \in 1..NE(a) }
TruncPoints(a) ==
    IF AllPoints THEN 0..(Total(a) - 1)
    ELSE (UNION { RecPoints(r) : r \in Records(a) }
          \cup UNION { { PropOff(a, i) + Len(a.props[i][1]), PropOff(a, i) + Len(a.props[i][1]) + 1 } : i \in 1..NP(a) })
         \cap (0..(Total(a) - 1))

Faults(a) ==
         { NoFault, Absent }
    \cup { Truncate(n) : n \in TruncPoints(a) }
    \cup { CorruptLen(q[1], q[2]) : q \in { p \in (1..NE(a)) \X Deltas : p[2] # 0 /\ a.entries[p[1]].size + p[2] >= -8 } }
    \cup { CorruptOrig(i, d) : i \in 1..NE(a), d \in {6, -1, 268435456} }

CaseJson(a, f) ==
    LET out == Read(a, f)
    IN [arch |-> a, fault |-> f, layout |-> Layout(a), cls |-> FaultClass(a, f), filelen |-> FileLen(a, f),
        expect |-> [k |-> out.k, S |-> out.S]]

VARIABLES arch, fault, st
vars == <<arch, fault, st>>

Init ==
    /\ arch \in Archives
    /\ IF Mode = "archives"
       THEN /\ fault = NoFault
            /\ st = Reject(Start)
            /\ (Emit => PrintT("OUT " \o ToJson([arch |-> arch, total |-> Total(arch)])))
       ELSE /\ fault \in Faults(arch)
            /\ st = Start
            /\ (Emit => PrintT("OUT " \o ToJson(CaseJson(arch, fault))))

Go ==
    /\ Mode # "archives"
    /\ st.status = "reading"
    /\ st' = Apply(Variant, arch, fault, st)
    /\ UNCHANGED <<arch, fault>>

AVersionHeader == st.phase = "VersionHeader" /\ Go
AProp == st.phase = "Prop" /\ Go
APropsEnd == st.phase = "PropsEnd" /\ Go
AEntryHeader == st.phase = "EntryHeader" /\ Go
AEntriesEnd == st.phase = "EntriesEnd" /\ Go
ADataOffsets == st.phase = "DataOffsets" /\ Go

Next == AVersionHeader \/ AProp \/ APropsEnd \/ AEntryHeader \/ AEntriesEnd \/ ADataOffsets
Spec == Init /\ [][Next]_vars

Judged == Mode # "archives" /\ st.status # "reading"
O == ObsOf(Variant, arch, fault, st)

\* ---- the C17 formulas on what the reader of kind Variant shows
InvFaithful == Judged => Faithful(arch, fault, O)
InvOnlyIntactExposed == Judged => OnlyIntactExposed(arch, fault, O)
InvNoSideEffects == Judged => NoSideEffects(arch, fault, O)
InvNeverCrashes == Judged => NeverCrashes(arch, fault, O)
InvNoViolation == Judged => Violations(arch, fault, O) = <<>>

\* ---- the reference itself
\* the phase reader and the declarative notion of an intact entry agree; nothing is withheld
InvReference == (Judged /\ Variant = "reference") =>
    /\ Outcome(st) = Read(arch, fault)
    /\ Outcome(st).k = "Exposes" => Outcome(st).S = IntactSet(arch, fault)
    /\ Outcome(st).k = "Rejected" => IntactSet(arch, fault) = {}
    /\ fault.kind = "none" => (Outcome(st).k = "Exposes" /\ Outcome(st).S = 1..NE(arch))
    /\ fault.kind = "absent" => Outcome(st).k = "Rejected"
\* the reader's position is the end of the last record it consumed, as laid out
InvPosition ==
    /\ st.phase = "Prop" => st.pos = PropOff(arch, st.k)
    /\ st.phase = "PropsEnd" => st.pos = PropsEndOff(arch)
    /\ st.phase = "EntryHeader" => st.pos = HdrOff(arch, st.k)
    /\ st.phase = "EntriesEnd" => st.pos = HdrsEndOff(arch)
    /\ st.phase = "DataOffsets" => st.pos = DataStart(arch)
\* the layout is gapless and ordered
InvLayout ==
    LET L == Layout(arch)
    IN /\ L.ver.start = 0
       /\ \A i \in 1..NP(arch) : L.props[i].start = (IF i = 1 THEN L.ver.end ELSE L.props[i - 1].end)
       /\ L.propsEnd.start = (IF NP(arch) = 0 THEN L.ver.end ELSE L.props[NP(arch)].end)
       /\ \A i \in 1..NE(arch) : L.hdrs[i].start = (IF i = 1 THEN L.propsEnd.end ELSE L.hdrs[i - 1].end)
       /\ \A i \in 1..NE(arch) : L.sizeField[i] + 4 = L.hdrs[i].end
       /\ L.hdrsEnd.start = (IF NE(arch) = 0 THEN L.propsEnd.end ELSE L.hdrs[NE(arch)].end)
       /\ \A i \in 1..NE(arch) : L.data[i].start = (IF i = 1 THEN L.hdrsEnd.end ELSE L.data[i - 1].end)
       /\ L.checksum.start = (IF NE(arch) = 0 THEN L.hdrsEnd.end ELSE L.data[NE(arch)].end)
       /\ L.total = L.checksum.end
=============================================================================
