------------------------------ MODULE Control ------------------------------
(***************************************************************************)
(* C19: execution control (start / stop / abort / assembly step / line     *)
(* step / leave scope) of runtime::execute.                                *)
(*                                                                         *)
(* Part 1 - sequential meaning of one action on a VM that holds one script *)
(* whose (dynamic) instruction sequence is prog = <<[line, depth]...>>:    *)
(* Do(vm, a) = [vm', res, executed].  vm = [state, loaded, pos, prog, err] *)
(*   pos   number of instructions executed so far                          *)
(*   err   index of the instruction that raises an unhandled error (0: none)*)
(* Part 2 (Control_MC) - the same actions split at every access to the     *)
(* shared fields (state, exit flag, run_atomic, contexts), executed by an  *)
(* executor thread and a controller thread in all interleavings.           *)
(***************************************************************************)
EXTENDS Integers, Sequences, FiniteSets, TLC

Remaining(vm) == IF vm.loaded THEN Len(vm.prog) - vm.pos ELSE 0

\* number of instructions a line step executes from position p: the maximal run of instructions
\* on the line of the first one
RECURSIVE RunOnLine(_, _, _)
RunOnLine(prog, p, line) == IF p > Len(prog) \/ prog[p].line # line THEN 0 ELSE 1 + RunOnLine(prog, p + 1, line)
LineRun(vm) == IF Remaining(vm) = 0 THEN 0 ELSE RunOnLine(vm.prog, vm.pos + 1, vm.prog[vm.pos + 1].line)

\* number of instructions leave_scope executes: until the depth drops below the current depth
RECURSIVE RunInScope(_, _, _)
RunInScope(prog, p, d) == IF p > Len(prog) \/ prog[p].depth < d THEN 0 ELSE 1 + RunInScope(prog, p + 1, d)
ScopeRun(vm) == IF Remaining(vm) = 0 THEN 0 ELSE RunInScope(vm.prog, vm.pos + 1, vm.prog[vm.pos + 1].depth)

\* the furthest leave_scope may run and still have left ONE scope: the rest of the current scope (depth d), then
\* instructions of the enclosing scope up to and including the first one that does not enter a scope of depth d
\* again (the code notices that the scope is gone after the next instruction it executes)
RECURSIVE RunLeave(_, _, _)
RunLeave(prog, p, d) ==
    IF p > Len(prog) THEN 0
    ELSE IF prog[p].depth >= d THEN 1 + RunLeave(prog, p + 1, d)
    ELSE IF prog[p].depth = d - 1 /\ p + 1 <= Len(prog) /\ prog[p + 1].depth >= d THEN 1 + RunLeave(prog, p + 1, d)
    ELSE 1
\* the scope the action is issued in: that of the next instruction - or, halted behind the last instruction of a
\* scope that has not been dissolved yet, that finished scope (both readings are accepted)
ScopesAt(vm) == LET nxt == vm.prog[vm.pos + 1].depth IN
                IF vm.pos = 0 THEN {nxt} ELSE {nxt, IF vm.prog[vm.pos].depth > nxt THEN vm.prog[vm.pos].depth ELSE nxt}

\* executing n instructions from pos: stops early at the erroring instruction
Advance(vm, n) ==
    LET hitsErr == vm.err > vm.pos /\ vm.err <= vm.pos + n
        done == IF hitsErr THEN vm.err - vm.pos ELSE n
        p2 == vm.pos + done
    IN [vm |-> [vm EXCEPT !.pos = p2,
                          !.state = IF hitsErr THEN "halted_error" ELSE IF p2 = Len(vm.prog) /\ n > done THEN "empty" ELSE "halted"],
        executed |-> done, error |-> hitsErr]

Do(vm, a) ==
    CASE a = "start" ->
            LET r == Advance(vm, Remaining(vm)) IN
            IF r.error THEN [vm |-> r.vm, res |-> "runtime_error", executed |-> r.executed]
            ELSE [vm |-> [r.vm EXCEPT !.state = "empty", !.loaded = FALSE, !.pos = 0], res |-> "empty", executed |-> r.executed]
      [] a = "assembly_step" ->
            LET r == Advance(vm, IF Remaining(vm) > 0 THEN 1 ELSE 0) IN
            [vm |-> IF Remaining(vm) = 0 THEN [vm EXCEPT !.state = "empty"] ELSE [r.vm EXCEPT !.state = IF r.error THEN "halted_error" ELSE "halted"],
             res |-> IF r.error THEN "runtime_error" ELSE IF Remaining(vm) = 0 THEN "empty" ELSE "ok", executed |-> r.executed]
      [] a = "line_step" ->
            LET r == Advance(vm, LineRun(vm)) IN
            [vm |-> IF Remaining(vm) = 0 THEN [vm EXCEPT !.state = "empty"] ELSE [r.vm EXCEPT !.state = IF r.error THEN "halted_error" ELSE "halted"],
             res |-> IF r.error THEN "runtime_error" ELSE IF Remaining(vm) = 0 THEN "empty" ELSE "ok", executed |-> r.executed]
      [] a = "leave_scope" ->
            LET r == Advance(vm, ScopeRun(vm)) IN
            [vm |-> IF Remaining(vm) = 0 THEN [vm EXCEPT !.state = "empty"] ELSE [r.vm EXCEPT !.state = IF r.error THEN "halted_error" ELSE "halted"],
             res |-> IF r.error THEN "runtime_error" ELSE IF Remaining(vm) = 0 THEN "empty" ELSE "ok", executed |-> r.executed]
      [] a = "stop" ->      \* nobody is executing in a sequential history
            [vm |-> vm, res |-> "action_error", executed |-> 0]
      [] a = "abort" ->
            IF vm.state \in {"halted", "halted_error"}
            THEN [vm |-> [vm EXCEPT !.state = "empty", !.loaded = FALSE, !.pos = 0], res |-> "ok", executed |-> 0]
            ELSE [vm |-> vm, res |-> "action_error", executed |-> 0]

\* what the property fixes about one sequential action, given the spec's prediction p = Do(vm, a)
\* and the observation o = [res, state, executed, nctx]:
StepIsOne(a, vm, o) == (a = "assembly_step" /\ Remaining(vm) > 0) => o.executed = 1
LineStepStops(a, vm, p, o) == a = "line_step" => o.executed = p.executed
LeaveScopeStops(a, vm, p, o) == a = "leave_scope" => o.executed = p.executed
\* leave scope leaves the scope it was issued in, and only that one (where exactly it halts in the enclosing scope is not fixed)
LeaveScopeLeavesOne(a, vm, o) ==
    (a = "leave_scope" /\ Remaining(vm) > 0 /\ vm.err <= vm.pos)
        => \E d \in ScopesAt(vm) : o.executed >= RunInScope(vm.prog, vm.pos + 1, d) /\ o.executed <= RunLeave(vm.prog, vm.pos + 1, d)
StartCompletes(a, vm, p, o) == a = "start" => (o.executed = p.executed /\ o.res = p.res)
StateFollows(a, p, o) == o.state = p.vm.state
ControlResult(a, p, o) == a \in {"stop", "abort"} => o.res = p.res
AbortDiscards(a, p, o) == (a = "abort" /\ p.res = "ok") => o.nctx = 0
ResultClass(a, p, o) == (a \notin {"stop", "abort"}) => (o.res = "action_error") = (p.res = "action_error")
=============================================================================
