------------------------------ MODULE Config ------------------------------
(***************************************************************************)
(* The config class tree of SQF-VM (confighost.h, config_parser.cpp,       *)
(* ops_config.cpp) for property C15.  One source of truth: the same Apply  *)
(* operator and the same reference queries are                             *)
(*   - explored exhaustively by TLC (Config_MC: design check + generator), *)
(*   - used to validate observation logs of the real VM (Config_Trace).    *)
(*                                                                         *)
(* A config text is hierarchical; a *history* is the sequence of its       *)
(* statements in text order, every statement carrying the path of the      *)
(* class whose body it is placed in:                                       *)
(*   [op |-> "class",  path, name, base]   class N {..}  / class N : B {..}*)
(*   [op |-> "decl",   path, name, base]   class N;      / class N : B;    *)
(*   [op |-> "field",  path, name, val]    n = 1;  n = "s";                *)
(*   [op |-> "array",  path, name, val]    n[] = {..};                     *)
(*   [op |-> "append", path, name, val]    n[] += {..};                    *)
(*   [op |-> "delete", path, name]         delete N;                       *)
(*   [op |-> "nextfile"]                   the text ends, a new one starts *)
(* (base = "" : no base given).  A "class"/"decl" statement on a name that *)
(* already exists in that body is a RE-OPENING.  The body of a class is    *)
(* the statements that follow with path \o <<name>>.                       *)
(*                                                                         *)
(* Values: [t |-> "none"] (a class)  [t |-> "n", n |-> Int]                *)
(*         [t |-> "N", N |-> "<decimal digits>"]  a whole number beyond    *)
(*         TLC's 32 bit integers (written as a hexadecimal literal)        *)
(*         [t |-> "s", s |-> STRING] [t |-> "a", a |-> Seq(Value)]         *)
(*                                                                         *)
(* State st = [nodes, file]; nodes is a sequence, node 1 is configFile:    *)
(*   name, owner (enclosing class, 0 for the root), base (0 = none),       *)
(*   ents : Seq([n |-> name, id |-> node or 0])  own entries in            *)
(*          declaration order; id = 0 is the marker left by `delete`,      *)
(*   val, and ghost fields used only to attribute a mismatch to a formula: *)
(*   app (value built by +=), opens (1 = created, 2 = re-opened with a     *)
(*   body), fz (a base re-binding was refused: the statement does not say  *)
(*   which base remains), ofz (an entry was redefined after delete: the    *)
(*   statement does not say which position it takes), rad (the node is a   *)
(*   redefinition after delete).                                           *)
(*                                                                         *)
(* Dev: set of names of active deviations.  {} is the IDEAL design (what   *)
(* the property statement says).  Named deviations of the pinned code:     *)
(*   "RebindMayCycle"            re-opening `class A : B` binds the base   *)
(*                               even if that closes a cycle        (F15a) *)
(*   "InheritsFromReturnsOwner"  inheritsFrom yields the enclosing class   *)
(*   "HierarchyRepeatsLeaf"      configHierarchy = path \o <<leaf>> (F15b) *)
(*   "CountIncludesDeleted"      count/select see the delete markers (F15c)*)
(*   "RedefineAfterDeleteLost"   defining a name again after `delete` in   *)
(*                               the same body has no effect (the code     *)
(*                               indexes its container table with the      *)
(*                               marker id: undefined behaviour)           *)
(* and mutants that exist only to show that a formula can fail:            *)
(*   "ReopenReplaces" "DeleteOnlyOwn" "AppendIgnoresInherited"             *)
(*   "LookupOneBaseOnly" "FieldKeepsFirst"                                 *)
(***************************************************************************)
EXTENDS Integers, Sequences, FiniteSets, TLC

CONSTANTS Dev, MaxFiles

Has(d) == d \in Dev

RootName == "config/bin"
Missing == "m"                       \* a name that is never defined
NoVal == [t |-> "none"]
Num(k) == [t |-> "n", n |-> k]
Big(d) == [t |-> "N", N |-> d]
Str(s) == [t |-> "s", s |-> s]
Arr(a) == [t |-> "a", a |-> a]

ClassNode(name, owner, base) ==
    [name |-> name, owner |-> owner, base |-> base, ents |-> <<>>, val |-> NoVal,
     app |-> FALSE, opens |-> 1, fz |-> FALSE, ofz |-> FALSE, rad |-> FALSE]
FieldNode(name, owner, val, app) ==
    [name |-> name, owner |-> owner, base |-> 0, ents |-> <<>>, val |-> val,
     app |-> app, opens |-> 1, fz |-> FALSE, ofz |-> FALSE, rad |-> FALSE]

InitState == [nodes |-> << ClassNode(RootName, 0, 0) >>, file |-> 1]

Ids(st) == 1..Len(st.nodes)
Fuel(st) == Len(st.nodes) + 1
IsClassNode(st, c) == st.nodes[c].val.t = "none"
Ents(st, c) == st.nodes[c].ents

\* index of the own entry (live or marker) of class c named n; 0 if none.  Names are unique in ents.
OwnIndex(st, c, n) ==
    LET S == { i \in 1..Len(Ents(st, c)) : Ents(st, c)[i].n = n }
    IN IF S = {} THEN 0 ELSE CHOOSE i \in S : TRUE
OwnId(st, c, n) == LET i == OwnIndex(st, c, n) IN IF i = 0 THEN 0 ELSE Ents(st, c)[i].id

---------------------------------------------------------------------------
(* inheritance chain                                                       *)

\* c, base(c), base(base(c)), ... cut after `fuel` nodes
RECURSIVE ChainSeq(_, _, _)
ChainSeq(st, c, fuel) ==
    IF c = 0 \/ fuel = 0 THEN <<>> ELSE <<c>> \o ChainSeq(st, st.nodes[c].base, fuel - 1)
ChainIds(st, c) == LET ch == ChainSeq(st, c, Fuel(st)) IN { ch[k] : k \in 1..Len(ch) }
\* a chain of more nodes than exist repeats one: it never reaches "no base"
CyclicAt(st, c) == Len(ChainSeq(st, c, Fuel(st))) = Fuel(st)
Acyclic(st) == \A c \in Ids(st) : ~CyclicAt(st, c)

---------------------------------------------------------------------------
(* reference lookup: `c >> n`                                              *)
(* result: node id; 0 = configNull (not defined, or hidden by delete);     *)
(*         -1 = the walk along the base chain does not terminate           *)
RECURSIVE Find(_, _, _, _)
Find(st, c, n, fuel) ==
    IF c = 0 THEN 0
    ELSE IF fuel = 0 THEN -1
    ELSE IF OwnIndex(st, c, n) # 0 THEN OwnId(st, c, n)          \* nearest wins; a marker hides
    ELSE IF Has("LookupOneBaseOnly") /\ fuel < Fuel(st) THEN 0
    ELSE Find(st, st.nodes[c].base, n, fuel - 1)
Lookup1(st, c, n) == Find(st, c, n, Fuel(st))

RECURSIVE LookupFrom(_, _, _)
LookupFrom(st, c, path) ==
    IF path = <<>> \/ c <= 0 THEN c
    ELSE LookupFrom(st, Lookup1(st, c, Head(path)), Tail(path))
Lookup(st, path) == LookupFrom(st, 1, path)       \* configFile >> path[1] >> path[2] >> ...

\* ghost: did the lookup depend on a base link the statement leaves open (fz)?
RECURSIVE FindFuzzy(_, _, _, _)
FindFuzzy(st, c, n, fuel) ==
    IF c = 0 \/ fuel = 0 THEN FALSE
    ELSE IF OwnIndex(st, c, n) # 0 THEN FALSE
    ELSE st.nodes[c].fz \/ FindFuzzy(st, st.nodes[c].base, n, fuel - 1)
RECURSIVE LookupFuzzy(_, _, _)
LookupFuzzy(st, c, path) ==
    IF path = <<>> \/ c <= 0 THEN FALSE
    ELSE FindFuzzy(st, c, Head(path), Fuel(st)) \/ LookupFuzzy(st, Lookup1(st, c, Head(path)), Tail(path))
\* ghost: is the path null because a delete marker hides it?
RECURSIVE FindHidden(_, _, _, _)
FindHidden(st, c, n, fuel) ==
    IF c = 0 \/ fuel = 0 THEN FALSE
    ELSE IF OwnIndex(st, c, n) # 0 THEN OwnId(st, c, n) = 0
    ELSE FindHidden(st, st.nodes[c].base, n, fuel - 1)
RECURSIVE LookupHidden(_, _, _)
LookupHidden(st, c, path) ==
    IF path = <<>> \/ c <= 0 THEN FALSE
    ELSE FindHidden(st, c, Head(path), Fuel(st)) \/ LookupHidden(st, Lookup1(st, c, Head(path)), Tail(path))

\* the statement-level path of a class body: own live class entries only (no inheritance)
RECURSIVE OwnPath(_, _, _)
OwnPath(st, c, path) ==
    IF path = <<>> THEN c
    ELSE LET d == OwnId(st, c, Head(path))
         IN IF d = 0 THEN 0 ELSE OwnPath(st, d, Tail(path))

\* base name resolution of `class N : B` placed in body P: own entries of P, then of the
\* enclosing classes, nearest first (lookup_in_logical)
RECURSIVE FindLogical(_, _, _)
FindLogical(st, c, n) ==
    IF c = 0 THEN 0
    ELSE IF OwnIndex(st, c, n) # 0 THEN OwnId(st, c, n)
    ELSE FindLogical(st, st.nodes[c].owner, n)

\* names from below configFile down to the node
RECURSIVE NodePath(_, _)
NodePath(st, id) ==
    IF id <= 1 THEN <<>> ELSE Append(NodePath(st, st.nodes[id].owner), st.nodes[id].name)
\* is node j inside (or equal to) the class d?
RECURSIVE Inside(_, _, _)
Inside(st, j, d) == IF j = 0 THEN FALSE ELSE IF j = d THEN TRUE ELSE Inside(st, st.nodes[j].owner, d)

---------------------------------------------------------------------------
(* reference queries (the operators of ops_config.cpp on a non-null node)  *)

LiveEnts(st, c) == SelectSeq(Ents(st, c), LAMBDA e : e.id # 0)
IsNumVal(v) == v.t \in {"n", "N"}
QIsNumber(st, id) == IsNumVal(st.nodes[id].val)
QIsText(st, id) == st.nodes[id].val.t = "s"
QIsArray(st, id) == st.nodes[id].val.t = "a"
QIsClass(st, id) == st.nodes[id].val.t = "none"
QInherits(st, id) == IF Has("InheritsFromReturnsOwner") THEN st.nodes[id].owner ELSE st.nodes[id].base
QHierarchy(st, id) ==
    IF Has("HierarchyRepeatsLeaf")
    THEN (IF id = 1 THEN <<RootName>> ELSE Append(NodePath(st, id), st.nodes[id].name))
    ELSE <<RootName>> \o NodePath(st, id)
QCount(st, id) == IF Has("CountIncludesDeleted") THEN Len(Ents(st, id)) ELSE Len(LiveEnts(st, id))
QSelect(st, id, i) ==            \* 0-based; 0 = configNull
    LET s == IF Has("CountIncludesDeleted") THEN Ents(st, id) ELSE LiveEnts(st, id)
    IN IF i < 0 \/ i >= Len(s) THEN 0 ELSE s[i + 1].id

\* the property says "configHierarchy [returns] the enclosing classes": accepted are the names
\* from the outermost class down to the entry, with or without the root in front and with or
\* without the entry itself at the end.
HierarchyOK(path, obs) ==
    LET front == IF path = <<>> THEN <<>> ELSE SubSeq(path, 1, Len(path) - 1)
    IN obs \in { path, <<RootName>> \o path, front, <<RootName>> \o front }

---------------------------------------------------------------------------
(* Apply(st, op)                                                           *)

\* a new own entry n of class P holding `node`; a marker of the same name is replaced in place
Define(st, P, n, node) ==
    LET i == OwnIndex(st, P, n)
        id == Len(st.nodes) + 1
        nodes1 == Append(st.nodes, node)
    IN IF i = 0
       THEN [st EXCEPT !.nodes = [nodes1 EXCEPT ![P].ents = Append(@, [n |-> n, id |-> id])]]
       ELSE IF Has("RedefineAfterDeleteLost") THEN st
       ELSE [st EXCEPT !.nodes = [Append(st.nodes, [node EXCEPT !.rad = TRUE])
                                     EXCEPT ![P].ents[i] = [n |-> n, id |-> id], ![P].ofz = TRUE]]

\* inherited array a `+=` in body P extends (<<>> if there is none)
InheritedArray(st, P, n) ==
    LET r == Find(st, st.nodes[P].base, n, Fuel(st))
    IN IF r > 0 /\ st.nodes[r].val.t = "a" THEN st.nodes[r].val.a ELSE <<>>

Apply(st, op) ==
    IF op.op = "nextfile" THEN [st EXCEPT !.file = @ + 1]
    ELSE
    LET P == OwnPath(st, 1, op.path)
        d == OwnId(st, P, op.name)
    IN CASE op.op \in {"class", "decl"} ->
              LET nb == IF op.base = "" THEN 0 ELSE FindLogical(st, P, op.base)
              IN IF d = 0 THEN Define(st, P, op.name, ClassNode(op.name, P, nb))
                 ELSE LET closes == nb # 0 /\ d \in ChainIds(st, nb)
                          n1 == IF op.base = "" THEN st.nodes[d]
                                ELSE IF closes /\ ~Has("RebindMayCycle") THEN [st.nodes[d] EXCEPT !.fz = TRUE]
                                ELSE [st.nodes[d] EXCEPT !.base = nb]
                          n2 == IF op.op = "class" THEN [n1 EXCEPT !.opens = 2] ELSE n1
                          n3 == IF op.op = "class" /\ Has("ReopenReplaces") THEN [n2 EXCEPT !.ents = <<>>] ELSE n2
                      IN [st EXCEPT !.nodes[d] = n3]
         [] op.op \in {"field", "array"} ->
              IF d = 0 THEN Define(st, P, op.name, FieldNode(op.name, P, op.val, FALSE))
              ELSE IF Has("FieldKeepsFirst") THEN st
              ELSE [st EXCEPT !.nodes[d].val = op.val, !.nodes[d].app = FALSE]
         [] op.op = "append" ->
              LET v == IF Has("AppendIgnoresInherited") THEN op.val
                       ELSE Arr(InheritedArray(st, P, op.name) \o op.val.a)
              IN Define(st, P, op.name, FieldNode(op.name, P, v, TRUE))
         [] op.op = "delete" ->
              LET i == OwnIndex(st, P, op.name)
              IN IF i = 0 THEN (IF Has("DeleteOnlyOwn") THEN st
                                ELSE [st EXCEPT !.nodes[P].ents = Append(@, [n |-> op.name, id |-> 0])])
                 ELSE [st EXCEPT !.nodes[P].ents[i] = [n |-> op.name, id |-> 0]]

\* Statements the property speaks about (type-correct; where the statement is silent the case is
\* not generated):
\*   - the body the statement is placed in exists (own live classes all the way down);
\*   - a class statement does not hit a value entry and vice versa;
\*   - the base name of a RE-OPENING resolves to a class (the code silently drops the base else);
\*     on creation an unresolvable base just gives a class without base;
\*   - `+=` only where the body has no own entry of that name yet and the inherited entry, if any,
\*     is an array;
\*   - `delete` does not remove a class that (or a class inside which) is the base of some class.
Enabled(st, op) ==
    IF op.op = "nextfile" THEN st.file < MaxFiles
    ELSE
    LET P == OwnPath(st, 1, op.path)
    IN /\ P # 0
       /\ IsClassNode(st, P)
       /\ LET d == OwnId(st, P, op.name) IN
          CASE op.op \in {"class", "decl"} ->
                 /\ (d # 0 => IsClassNode(st, d))
                 /\ (op.base # "" =>
                       LET nb == FindLogical(st, P, op.base)
                       IN /\ (nb # 0 => IsClassNode(st, nb))
                          /\ (d # 0 => nb # 0))
            [] op.op \in {"field", "array"} -> (d # 0 => ~IsClassNode(st, d))
            [] op.op = "append" ->
                 /\ OwnIndex(st, P, op.name) = 0
                 /\ LET r == Find(st, st.nodes[P].base, op.name, Fuel(st))
                    IN r = 0 \/ (r > 0 /\ st.nodes[r].val.t = "a")
            [] op.op = "delete" ->
                 (d # 0 => \A k \in Ids(st) : st.nodes[k].base = 0 \/ ~Inside(st, st.nodes[k].base, d))

\* would this re-opening `class N : B` close a cycle of the inheritance relation?
ClosesCycle(st, op) ==
    /\ op.op \in {"class", "decl"}
    /\ op.base # ""
    /\ LET P == OwnPath(st, 1, op.path)
           d == OwnId(st, P, op.name)
           nb == FindLogical(st, P, op.base)
       IN d # 0 /\ nb # 0 /\ d \in ChainIds(st, nb)
\* does this statement define a name again that `delete` removed from the same body?
IsRedefinition(st, op) ==
    /\ op.op \notin {"nextfile", "delete"}
    /\ LET P == OwnPath(st, 1, op.path)
       IN OwnIndex(st, P, op.name) # 0 /\ OwnId(st, P, op.name) = 0

\* kind of a statement as used in finding keys
OpKind(st, op) ==
    IF op.op \in {"class", "decl"}
    THEN op.op \o (IF op.base = "" THEN "" ELSE "-ext")
               \o (IF OwnId(st, OwnPath(st, 1, op.path), op.name) # 0 THEN "-reopen"
                   ELSE IF OwnIndex(st, OwnPath(st, 1, op.path), op.name) # 0 THEN "-after-delete" ELSE "")
    ELSE IF op.op = "nextfile" THEN "nextfile"
    ELSE op.op \o (IF OwnIndex(st, OwnPath(st, 1, op.path), op.name) # 0
                      /\ OwnId(st, OwnPath(st, 1, op.path), op.name) = 0 THEN "-after-delete" ELSE "")

---------------------------------------------------------------------------
(* Property formulas of C15.                                               *)

NamesOf(st) == { st.nodes[c].name : c \in Ids(st) } \cup {Missing}

\* Every lookup terminates.
EveryLookupTerminates(st) == \A c \in Ids(st) : \A n \in NamesOf(st) : Lookup1(st, c, n) # -1

\* `c >> n` finds an entry exactly when n is defined in c or in an ancestor along the inheritance
\* chain; the nearest class of the chain that mentions n decides (its definition, or null if it
\* deleted n).  Declarative restatement, checked against the recursive Find.
LookupIffDefinedAlongChain(st) ==
    Acyclic(st) =>
    \A c \in Ids(st) : \A n \in NamesOf(st) :
        LET ch == ChainSeq(st, c, Fuel(st))
            def == { k \in 1..Len(ch) : OwnIndex(st, ch[k], n) # 0 }
        IN IF def = {} THEN Lookup1(st, c, n) = 0
           ELSE LET k == CHOOSE x \in def : \A y \in def : x <= y
                IN Lookup1(st, c, n) = OwnId(st, ch[k], n)

\* inheritsFrom returns the base class; configHierarchy the enclosing classes; count/select
\* enumerate the own entries in declaration order.
InheritsFromIsBase(st) == \A c \in Ids(st) : QInherits(st, c) = st.nodes[c].base
HierarchyIsEnclosing(st) == \A c \in Ids(st) : HierarchyOK(NodePath(st, c), QHierarchy(st, c))
CountSelectOwnInOrder(st) ==
    \A c \in Ids(st) :
        /\ QCount(st, c) = Len(LiveEnts(st, c))
        /\ \A i \in 0..(QCount(st, c) - 1) : QSelect(st, c, i) # 0 /\ QSelect(st, c, i) = LiveEnts(st, c)[i + 1].id

\* step formulas over st --op--> st2
Target(op) == Append(op.path, op.name)

\* the value written reads back through >> and getX / isX
ReadBack(st, op, st2) ==
    op.op \in {"field", "array"} =>
        LET r == Lookup(st2, Target(op))
        IN /\ r > 0
           /\ st2.nodes[r].val = op.val
           /\ QIsNumber(st2, r) = IsNumVal(op.val) /\ QIsText(st2, r) = (op.val.t = "s")
           /\ QIsArray(st2, r) = (op.val.t = "a") /\ ~QIsClass(st2, r)

\* re-opening a class merges: whatever the body held before is still there, in the same order,
\* and the class keeps its identity
MergeOnReopen(st, op, st2) ==
    op.op # "nextfile" =>
        LET P == OwnPath(st, 1, op.path)
            keep == SelectSeq(Ents(st, P), LAMBDA e : e.n # op.name)
            d == OwnId(st, P, op.name)
        IN /\ OwnPath(st2, 1, op.path) = P
           /\ SelectSeq(Ents(st2, P), LAMBDA e : e.n # op.name) = keep
           /\ (op.op \in {"class", "decl"} /\ d # 0 =>
                 /\ OwnId(st2, P, op.name) = d
                 /\ Ents(st2, d) = Ents(st, d))

\* delete hides the entry (own or inherited) and does not touch the classes it was inherited from
DeleteHides(st, op, st2) ==
    op.op = "delete" =>
        LET P == OwnPath(st, 1, op.path)
        IN /\ Lookup(st2, Target(op)) = 0
           /\ \A c \in Ids(st) : c # P => st2.nodes[c] = st.nodes[c]

\* += appends to the inherited array
AppendExtendsInherited(st, op, st2) ==
    op.op = "append" =>
        LET P == OwnPath(st, 1, op.path)
            r == Lookup(st2, Target(op))
        IN /\ r > 0
           /\ st2.nodes[r].val = Arr(InheritedArray(st, P, op.name) \o op.val.a)
           /\ st2.nodes[r].owner = P
=============================================================================
