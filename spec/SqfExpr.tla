------------------------------ MODULE SqfExpr ------------------------------
(***************************************************************************)
(* C01 / C06: the documented reading of SQF expressions.                   *)
(*                                                                         *)
(* Trees:  [k|->"lit", v|->STRING]      literal / variable / nular operand *)
(*         [k|->"un",  op, x]           unary operator application         *)
(*         [k|->"bin", op, lv, l, r]    binary operator of level lv (1..10)*)
(*         [k|->"arr", els]             array constructor                  *)
(* Tokens: [t|->"lit",v] [t|->"op",op] [t|->"("] [t|->")"] [t|->"["]       *)
(*         [t|->"]"] [t|->","]   (an operator token is just its name: the  *)
(*         grammar decides by position whether it is used unary or binary) *)
(* Instr:  [i|->"PUSH",v] [i|->"UN",op] [i|->"BIN",op,lv] [i|->"ARR",n]    *)
(*                                                                         *)
(*   PostOrder(t)   the instruction sequence the property prescribes       *)
(*   Render(t, st)  token sequence of t: st = "min" only the parentheses   *)
(*                  the reading requires, "full" around every compound     *)
(*                  sub-expression, "left"/"right" redundant ones on one   *)
(*                  side                                                   *)
(*   Parse(toks)    transcription of the grammar exp0..exp9/expu of        *)
(*                  parser.y (precedence climbing, left associative,       *)
(*                  prefix operators bind tightest, a name that is binary  *)
(*                  and unary is unary in operand position)                *)
(*   Reconstruct(c) transcription of instruction::reconstruct (str of code)*)
(* The documented reading is:  Parse(Render(t, st)) = PostOrder(t).        *)
(***************************************************************************)
EXTENDS Integers, Sequences, FiniteSets, TLC

\* the operator registry: level of a name as binary operator (0: not binary), whether it is a unary operator
CONSTANTS BinLevel(_), IsUnary(_),
          Variant   \* "ideal"; mutated grammars for the non-vacuity self-test: "rightassoc", "unaryloose"

Lit(v) == [k |-> "lit", v |-> v]
Un(op, x) == [k |-> "un", op |-> op, x |-> x]
Bin(op, lv, l, r) == [k |-> "bin", op |-> op, lv |-> lv, l |-> l, r |-> r]
Arr(els) == [k |-> "arr", els |-> els]

RECURSIVE PostOrder(_)
RECURSIVE PostOrderSeq(_, _)
PostOrderSeq(els, i) == IF i > Len(els) THEN <<>> ELSE PostOrder(els[i]) \o PostOrderSeq(els, i + 1)
PostOrder(t) ==
    CASE t.k = "lit" -> << [i |-> "PUSH", v |-> t.v] >>
      [] t.k = "nul" -> << [i |-> "NUL", op |-> t.op] >>      \* a nular operator is an operand
      [] t.k = "un" -> PostOrder(t.x) \o << [i |-> "UN", op |-> t.op] >>
      [] t.k = "bin" -> PostOrder(t.l) \o PostOrder(t.r) \o << [i |-> "BIN", op |-> t.op, lv |-> t.lv] >>
      [] t.k = "arr" -> PostOrderSeq(t.els, 1) \o << [i |-> "ARR", n |-> Len(t.els)] >>

\* ---- rendering
TLit(v) == [t |-> "lit", v |-> v]
TUn(op) == [t |-> "op", op |-> op]
TBin(op, lv) == [t |-> "op", op |-> op]
TP(s) == [t |-> s]
Paren(s) == << TP("(") >> \o s \o << TP(")") >>

RECURSIVE Render(_, _)
RECURSIVE RenderEls(_, _, _)
RenderEls(els, i, st) ==
    IF i > Len(els) THEN <<>>
    ELSE (IF i > 1 THEN << TP(",") >> ELSE <<>>) \o Render(els[i], st) \o RenderEls(els, i + 1, st)
\* does child c need parentheses as operand of a binary of level lv on the given side?
Needs(c, lv, right) == c.k = "bin" /\ (c.lv < lv \/ (right /\ c.lv = lv))
Wrap(c, need, st, side) ==
    LET s == Render(c, st)
        compound == c.k \in {"bin", "un"}
    IN IF need \/ (st = "full" /\ compound) \/ (st = side /\ compound) THEN Paren(s) ELSE s
Render(t, st) ==
    CASE t.k = "lit" -> << TLit(t.v) >>
      [] t.k = "un" -> << TUn(t.op) >> \o Wrap(t.x, t.x.k = "bin", st, "right")
      [] t.k = "bin" -> Wrap(t.l, Needs(t.l, t.lv, FALSE), st, "left") \o << TBin(t.op, t.lv) >> \o Wrap(t.r, Needs(t.r, t.lv, TRUE), st, "right")
      [] t.k = "arr" -> << TP("[") >> \o RenderEls(t.els, 1, st) \o << TP("]") >>

\* ---- the grammar: results are [out, i] (instructions emitted, next token index); i = 0 signals a syntax error
Err == [out |-> <<>>, i |-> 0]
Tok(toks, i) == IF i <= Len(toks) THEN toks[i] ELSE TP("eof")

RECURSIVE ParseLevel(_, _, _)
RECURSIVE ParseTail(_, _, _)
RECURSIVE ParseUnary(_, _)
RECURSIVE ParseList(_, _, _)

\* expu
ParseUnary(toks, i) ==
    LET tk == Tok(toks, i) IN
    CASE tk.t = "op" /\ IsUnary(tk.op) ->
            (LET r == IF Variant = "unaryloose" THEN ParseLevel(toks, i + 1, 7) ELSE ParseUnary(toks, i + 1)
             IN IF r.i = 0 THEN Err ELSE [out |-> r.out \o << [i |-> "UN", op |-> tk.op] >>, i |-> r.i])
      [] tk.t = "lit" -> [out |-> << [i |-> "PUSH", v |-> tk.v] >>, i |-> i + 1]
      [] tk.t = "(" ->
            (LET r == ParseLevel(toks, i + 1, 1) IN
             IF r.i = 0 \/ Tok(toks, r.i).t # ")" THEN Err ELSE [out |-> r.out, i |-> r.i + 1])
      [] tk.t = "[" ->
            (IF Tok(toks, i + 1).t = "]" THEN [out |-> << [i |-> "ARR", n |-> 0] >>, i |-> i + 2]
             ELSE LET r == ParseList(toks, i + 1, 0) IN r)
      [] OTHER -> Err
\* exp_list after "[" : n elements parsed so far
ParseList(toks, i, n) ==
    LET r == ParseLevel(toks, i, 1) IN
    IF r.i = 0 THEN Err
    ELSE IF Tok(toks, r.i).t = "," THEN
            (LET rest == ParseList(toks, r.i + 1, n + 1) IN IF rest.i = 0 THEN Err ELSE [out |-> r.out \o rest.out, i |-> rest.i])
    ELSE IF Tok(toks, r.i).t = "]" THEN [out |-> r.out \o << [i |-> "ARR", n |-> n + 1] >>, i |-> r.i + 1]
    ELSE Err
\* exp(lv-1): an operand of the next tighter level followed by any number of  op_lv operand
ParseLevel(toks, i, lv) ==
    IF lv = 11 THEN ParseUnary(toks, i)
    ELSE LET first == ParseLevel(toks, i, lv + 1) IN
         IF first.i = 0 THEN Err ELSE ParseTail(toks, first, lv)
ParseTail(toks, acc, lv) ==
    LET tk == Tok(toks, acc.i) IN
    IF tk.t = "op" /\ BinLevel(tk.op) = lv THEN
        (LET r == ParseLevel(toks, acc.i + 1, IF Variant = "rightassoc" THEN lv ELSE lv + 1) IN
         IF r.i = 0 THEN Err ELSE ParseTail(toks, [out |-> acc.out \o r.out \o << [i |-> "BIN", op |-> tk.op, lv |-> lv] >>, i |-> r.i], lv))
    ELSE acc

Parse(toks) == LET r == ParseLevel(toks, 1, 1) IN IF r.i = Len(toks) + 1 THEN r.out ELSE << [i |-> "SYNTAXERROR"] >>

ReadingIsDocumented(t, st) == Parse(Render(t, st)) = PostOrder(t)

---------------------------------------------------------------------------
(* str of code: instruction::reconstruct walks the instruction list from   *)
(* the right; a binary parenthesises itself when the enclosing operator    *)
(* binds at least as tight (right side) / tighter (left side); operands    *)
(* of unary operators are reconstructed at level 10.                       *)

RECURSIVE Rec(_, _, _, _)
\* returns [toks, i]: tokens of the expression ending at index i, next index to the left
Rec(code, i, parent, left) ==
    LET ins == code[i] IN
    CASE ins.i = "PUSH" -> [toks |-> << TLit(ins.v) >>, i |-> i - 1]
      [] ins.i = "UN" ->
            (LET x == Rec(code, i - 1, 10, FALSE) IN [toks |-> << TUn(ins.op) >> \o x.toks, i |-> x.i])
      [] ins.i = "BIN" ->
            (LET r == Rec(code, i - 1, ins.lv, FALSE)
                 l == Rec(code, r.i, ins.lv, TRUE)
                 body == l.toks \o << TBin(ins.op, ins.lv) >> \o r.toks
                 wrap == IF left THEN parent > ins.lv ELSE parent >= ins.lv
             IN [toks |-> IF wrap THEN Paren(body) ELSE body, i |-> l.i])
      [] ins.i = "ARR" ->
            (LET RECURSIVE elems(_, _, _)
                 elems(n, j, acc) == IF n = 0 THEN [toks |-> acc, i |-> j]
                                     ELSE LET e == Rec(code, j, 0, FALSE) IN
                                          elems(n - 1, e.i, e.toks \o (IF acc = <<>> THEN <<>> ELSE << TP(",") >>) \o acc)
                 es == elems(ins.n, i - 1, <<>>)
             IN [toks |-> << TP("[") >> \o es.toks \o << TP("]") >>, i |-> es.i])
Reconstruct(code) == Rec(code, Len(code), 0, FALSE).toks

\* compiling the printed form of compiled code gives the same instructions again
RoundTrips(t) == Parse(Reconstruct(PostOrder(t))) = PostOrder(t)
=============================================================================
