---------------------------- MODULE Preproc_MC ----------------------------
(* Design check and source generator for Preproc.tla.                      *)
(* Design check: TLC enumerates every well-formed source of <= Depth lines *)
(* over the line alphabet of the chosen Profile and evaluates the C13      *)
(* formulas on the output of the expander selected by Dev:                 *)
(*   Dev = {}            the reference: every invariant must hold          *)
(*   Dev = {"<name>"}    a deliberately wrong expander: TLC must refute    *)
(*                       the corresponding invariant (non-vacuity)         *)
(* Generator (Emit = TRUE): every complete source (all conditionals        *)
(* closed) is printed as "OUT <json>" - one implementation test each.      *)
EXTENDS Preproc, Json

CONSTANTS Depth, Emit, Profile, Dev

VARIABLES src, st

\* ---- lexeme shorthands ----
a == Id("a")   b == Id("b")   c == Id("c")   x == Id("x")   y == Id("y")
one == Id("1") five == Id("5") seven == Id("7")
M1 == Id("M1") M2 == Id("M2") F == Id("F")  G == Id("G")   H == Id("H")
LP == P("(")   RP == P(")")   LB == P("[")  RB == P("]")   LC_ == P("{")  RC_ == P("}")
Comma == P(",") Plus == P("+") Semi == P(";") Eq == P("=")
Call1(f, a1) == <<f, LP>> \o a1 \o <<RP>>
Call2(f, a1, a2) == <<f, LP>> \o a1 \o <<Comma>> \o a2 \o <<RP>>

\* ---- line constructors ----
DefObj(tag, name, body) == [k |-> "defobj", tag |-> tag, rich |-> FALSE, name |-> name, segs |-> <<body>>]
DefObjS(tag, name, segs) == [k |-> "defobj", tag |-> tag, rich |-> FALSE, name |-> name, segs |-> segs]
DefFn(tag, name, params, body) == [k |-> "deffn", tag |-> tag, rich |-> FALSE, name |-> name, params |-> params, segs |-> <<body>>]
Undef(name) == [k |-> "undef", tag |-> "undef", rich |-> FALSE, name |-> name]
Ifdef(name) == [k |-> "ifdef", tag |-> "ifdef", rich |-> FALSE, name |-> name]
Ifndef(name) == [k |-> "ifndef", tag |-> "ifndef", rich |-> FALSE, name |-> name]
Else == [k |-> "else", tag |-> "else", rich |-> FALSE]
Endif == [k |-> "endif", tag |-> "endif", rich |-> FALSE]
Text(tag, rich, lex) == [k |-> "text", tag |-> tag, rich |-> rich, segs |-> <<lex>>, join |-> "bs"]
TextS(tag, rich, segs, join) == [k |-> "text", tag |-> tag, rich |-> rich, segs |-> segs, join |-> join]

\* ---- the alphabet.  Bodies only use macros that come later in the order G > F > M1 > M2, so that
\*      no self-referential or mutually recursive macro can be built (C10, not C13). ----
D_M1 == DefObj("def-obj", "M1", <<five>>)                                        \* #define M1 5
D_M1uses == DefObj("def-obj-uses-macro", "M1", <<M2, Ws, Plus, Ws, one>>)       \* #define M1 M2 + 1
D_M2 == DefObj("def-obj", "M2", <<seven>>)                                      \* #define M2 7
D_M2str == DefObj("def-obj-string", "M2", <<Str("\"M1 s\""), Ws, b>>)           \* #define M2 "M1 s" b
D_M1empty == DefObj("def-empty", "M1", <<>>)                                    \* #define M1
D_F == DefFn("def-fn1", "F", <<"x">>, <<x, Ws, Plus, Ws, one>>)                 \* #define F(x) x + 1
D_Fstr == DefFn("def-fn1-string-and-macro", "F", <<"x">>,                       \* #define F(x) [x,"x M1",M1]
                <<LB, x, Comma, Str("\"x M1\""), Comma, M1, RB>>)
D_Fq == DefFn("def-fn1-stringify", "F", <<"x">>, <<P("#"), x>>)                 \* #define F(x) #x
D_Fempty == DefFn("def-fn1-empty", "F", <<"x">>, <<>>)                          \* #define F(x)
D_G == DefFn("def-fn2-concat", "G", <<"x", "y">>, <<x, P("##"), y>>)            \* #define G(x,y) x##y
D_GF == DefFn("def-fn2-uses-fn", "G", <<"x", "y">>, Call1(F, <<x>>) \o <<Ws, y>>)  \* #define G(x,y) F(x) y
D_Gmix == DefFn("def-fn2-concat-stringify", "G", <<"x", "y">>,                  \* #define G(x,y) x##y #y
                <<x, P("##"), y, Ws, P("#"), y>>)
D_H == DefFn("def-fn0", "H", <<>>, <<Id("abc")>>)                               \* #define H() abc
D_M1cont == DefObjS("def-obj-continued", "M1", << <<a, Ws>>, <<Ws, b>> >>)       \* #define M1 a \<nl> b
D_M1cmt == DefObj("def-obj-comment", "M1", <<five, Ws, LC("// c M2")>>)         \* #define M1 5 // c M2

T_use == Text("use-obj", FALSE, <<a, Ws, M1, Ws, b>>)                            \* a M1 b
T_usep == Text("use-obj-punct", FALSE, <<LB, M1, Comma, M2, RB, Semi>>)          \* [M1,M2];
T_affix == Text("use-affix", FALSE, <<Id("M1x"), Ws, Id("xM1"), Ws, Id("xF"), LP, a, RP>>)   \* M1x xM1 xF(a)
T_alone == Text("use-obj-alone", FALSE, <<M1>>)                                  \* M1
T_call == Text("call-1", FALSE, Call1(F, <<a>>))                                 \* F(a)
T_callm == Text("call-1-macro-arg", TRUE, Call1(F, <<M1>>))                      \* F(M1)
T_nest == Text("call-nested", TRUE, Call1(F, Call1(F, <<a>>)))                   \* F(F(a))
T_call2 == Text("call-2", FALSE, Call2(G, <<a>>, <<b>>))                         \* G(a,b)
T_call2n == Text("call-2-nested", TRUE, Call2(G, Call1(F, <<a>>), <<M1>>))       \* G(F(a),M1)
T_empty1 == Text("call-empty-arg", FALSE, Call1(F, <<>>))                        \* F()
T_empty2 == Text("call-empty-arg", FALSE, Call2(G, <<>>, <<b>>))                 \* G(,b)
T_brk == Text("call-bracket-arg", FALSE, Call1(F, <<LB, a, Comma, b, RB>>))      \* F([a,b])
T_par == Text("call-paren-arg", FALSE, Call1(F, <<LP, a, Comma, b, RP>>))        \* F((a,b))
T_brc == Text("call-brace-arg", FALSE, Call1(F, <<LC_, a, Comma, b, RC_>>))      \* F({a,b})
T_sarg == Text("call-string-arg", TRUE, Call1(F, <<Str("\"a,b)\"")>>))           \* F("a,b)")
T_sarg2 == Text("call-string-arg", TRUE, Call2(G, <<Str("\"M1\"")>>, <<M1>>))    \* G("M1",M1)
T_bare == Text("fn-name-bare", FALSE, <<F, Ws, Plus, Ws, G, Semi, H>>)           \* F + G;H
T_call0 == Text("call-0", FALSE, <<H, LP, RP, Ws, H, LP, RP>>)                   \* H() H()
T_two == Text("call-twice", FALSE, <<LB>> \o Call1(F, <<a>>) \o <<Comma>> \o Call2(G, <<a>>, <<b>>) \o <<RB>>)  \* [F(a),G(a,b)]
T_str == Text("string-macro-name", FALSE, <<x, Ws, Str("\"M1\""), Ws, Str("\"F(a) M2\"")>>)     \* x "M1" "F(a) M2"
T_strc == Text("string-comment-marker", FALSE, <<Str("\"a//b\""), Ws, Str("\"/*\""), Ws, c, Ws, Str("\"*/\"")>>)  \* "a//b" "/*" c "*/"
T_lc == Text("comment-line", FALSE, <<a, Ws, LC("// M1 \"q")>>)                  \* a // M1 "q
T_lc2 == Text("comment-line-only", FALSE, <<LC("// #define M2 9")>>)            \* // #define M2 9
T_bc == Text("comment-block", FALSE, <<a, Ws, BC("/* M1 \" */"), Ws, M1>>)      \* a /* M1 " */ M1
T_bcm == TextS("comment-block-multiline", FALSE, << <<a, Ws>>, <<Ws, M1>> >>, "bc")  \* a /* c1<nl>c2 */ M1
T_bcm0 == TextS("comment-block-closed-at-line-start", FALSE, << <<a, Ws>>, <<Ws, M1>> >>, "bc0")  \* a /* c1<nl>*/ M1
T_cont == TextS("continuation-in-word", FALSE, << <<a, Ws, Id("M")>>, <<one, Ws, b>> >>, "bs")   \* a M\<nl>1 b
T_contw == TextS("continuation", FALSE, << <<a, Ws>>, <<M1, Semi>> >>, "bs")     \* a \<nl>M1;
T_plain == Text("plain", FALSE, <<x, Ws, Eq, Ws, y, Ws, Plus, Ws, one, Semi>>)   \* x = y + 1;
T_plains == Text("plain-string", FALSE, <<Id("hint"), Ws, Str("\"a  b\""), Semi>>)  \* hint "a  b";

\* #include: a guarded header, and a header that includes it (main: the same file twice, a diamond)
Include(tag, name, sub) == [k |-> "include", tag |-> tag, rich |-> FALSE, name |-> name, sub |-> sub, back |-> FALSE]
I_c == Include("include", "common.hpp", <<Ifndef("M2"), D_M2, Endif>>)          \* #ifndef M2 / #define M2 7 / #endif
I_a == Include("include-nested", "a.hpp", <<I_c, Text("use-obj", FALSE, <<a, Ws, M2>>)>>)   \* #include "common.hpp" / a M2

DefsFull == {D_M1, D_M1uses, D_M2, D_M2str, D_M1empty, D_F, D_Fstr, D_Fq, D_Fempty, D_G, D_GF, D_Gmix, D_H, D_M1cont, D_M1cmt}
TextsFull == {T_use, T_usep, T_affix, T_alone, T_call, T_callm, T_nest, T_call2, T_call2n, T_empty1, T_empty2, T_brk, T_par, T_brc,
              T_sarg, T_sarg2, T_bare, T_call0, T_two, T_str, T_strc, T_lc, T_lc2, T_bc, T_bcm, T_bcm0, T_cont, T_contw, T_plain, T_plains}
CondsFull == {Ifdef("M1"), Ifndef("M1"), Ifdef("M2"), Ifndef("F"), Else, Endif}
LinesFull == DefsFull \cup TextsFull \cup CondsFull \cup {Undef("M1"), Undef("M2"), Undef("F"), I_c, I_a}

LinesCore == {D_M1, D_M1uses, D_M2, D_M1empty, D_F, D_Fstr, D_G, Undef("M1"), Ifdef("M1"), Ifndef("M1"), Else, Endif,
              T_use, T_affix, T_call, T_callm, T_nest, T_call2n, T_str, T_lc, T_cont, T_plain}

\* conditionals in depth: everything that can switch a region on and off
LinesCond == {D_M1, Undef("M1"), Ifdef("M1"), Ifndef("M1"), Else, Endif, T_use}

Lines == CASE Profile = "core" -> LinesCore [] Profile = "cond" -> LinesCond [] OTHER -> LinesFull

vars == <<src, st>>

Init == src = <<>> /\ st = InitState

Next == \E line \in Lines :
          /\ Len(src) < Depth
          /\ Enabled(st, line)
          /\ Specified(st, line)
          /\ src' = Append(src, line)
          /\ st' = Apply(st, line, Dev)
          /\ (Emit /\ Len(st'.cond) = 0 => PrintT("OUT " \o ToJson([src |-> src', text |-> Render(src')])))

Spec == Init /\ [][Next]_vars

\* ---- invariants: the C13 formulas on the output of the expander selected by Dev ----
Out == FlatLines(st.out)
InvInactive == InactiveBranchSilentModel(src, Dev) /\ InactiveBranchSilent(src, Out)
InvStrings == StringsInviolate(src, Out)
InvPassThrough == PassThrough(src, Out) /\ PassThroughNoWs(src, Out)
InvRefEq == ExpansionEqualsReference(src, Out)
\* nested conditionals / undef behave as stated: a region is active iff every enclosing branch
\* condition holds; an #undef in an active region removes the macro, in an inactive one it does not
InvCond == Active(st) <=> \A i \in 1..Len(st.cond) : st.cond[i].own
InvUndef == Len(src) > 0 /\ src[Len(src)].k = "undef" =>
              LET before == Before(src, Len(src))
              IN IF Active(before) THEN src[Len(src)].name \notin DOMAIN st.mac ELSE st.mac = before.mac
\* the machine is deterministic and the incremental state is the state of Run
InvRun == st = Run(src, Dev)
=============================================================================
