------------------------------- MODULE Limits -------------------------------
(***************************************************************************)
(* C11: execution bounds - maximum runtime per run, loop cap.              *)
(*                                                                         *)
(* Abstract VM: a sequence of runs on one instance.  Time is the virtual   *)
(* clock: every clock query advances it by one tick.                       *)
(*   st = [clock, created, budgetStart, phase, runStart, instr, asleep,    *)
(*         aborted, nctx, runs]                                            *)
(* Actions: Idle(n) between runs, RunBegin, Instr (an instruction executes *)
(* after the deadline test read the clock), SpinAsleep (a scheduler pass   *)
(* while every script sleeps), DeadlineAbort, RunEndNormal.                *)
(* Deviations (constants FALSE = what the pinned code does):               *)
(*   BudgetFromRunStart  - FALSE: budget counted from construction (F11a)  *)
(*   DeadlineWhileAsleep - FALSE: not examined while all scripts sleep     *)
(*   EmptyBodyCounts     - FALSE: while with an empty body never advances  *)
(*                         the loop counter (F11b)                         *)
(* Limits_MC adds the exit request (set by the deadline abort, cleared by  *)
(* the next start), expression evaluations between runs (EvalBegin /       *)
(* EvalInstr / EvalEnd: runtime::evaluate_expression, what __EVAL uses)    *)
(* and start requests refused during a run, with the deviations            *)
(*   EvalIsOwnExecution = FALSE      - the evaluation finds the exit       *)
(*                         request / budget of the last run and never ends *)
(*   RefusedStartKeepsBudget = FALSE - a refused start renews the budget   *)
(***************************************************************************)
EXTENDS Integers, Sequences, FiniteSets, TLC

CONSTANTS BudgetFromRunStart, DeadlineWhileAsleep, EmptyBodyCounts

\* ---- formulas over a finished run record r = [start, end, max, aborted, reported, nctx, executed, needed]
RunEndsInTime(r, slack) == r.max > 0 => r.end <= r.start + r.max + slack
AbortIsReported(r) == r.aborted => r.reported
VmEmptyAfterAbort(r) == r.aborted => r.nctx = 0
\* a run whose work fits into the limit is executed completely, however old the VM is
LaterRunsUnaffected(r) == (r.max > 0 /\ r.needed <= r.max) => (~r.aborted /\ r.executed = r.needed)
\* unscheduled while loops: at most cap iterations
WhileCapped(iters, cap) == cap > 0 => iters <= cap
=============================================================================
