SPECIFICATION Spec
CONSTANTS
  IndexFixup = TRUE
  TerminateStops = TRUE
  WakeCheck = TRUE
  Slice = 1
  MaxVisits = 14
  WaitCheck = TRUE
INVARIANTS InvRoundRobin InvNoEarlyWake InvScriptDoneTruth InvTerminateEffective InvWaitHolds InvIsolation
