SPECIFICATION Spec
CONSTANTS
  IndexFixup = TRUE
  TerminateStops = TRUE
  WakeCheck = TRUE
  Slice = 1
  MaxVisits = 14
INVARIANTS InvRoundRobin InvNoEarlyWake InvScriptDoneTruth InvTerminateEffective InvIsolation
