------------------------------- MODULE Vfs_MC -------------------------------
(* Design check and case generator for Vfs.tla.                             *)
(*                                                                          *)
(* Mode = "product": initial states = all configurations (mappings, trees), *)
(*    one successor per (request, current): the formulas are invariants on  *)
(*    what an implementation of kind Variant observes:                      *)
(*      Variant = "reference": IdealObs - the reference satisfies all       *)
(*                formulas (otherwise the reading of the property is wrong) *)
(*      Variant = "code": ResolveCode, the algorithm of get_info_virtual as *)
(*                read from the source - TLC must refute                    *)
(*                InvResolvesToReference (non-vacuity) and prove            *)
(*                InvContained (prediction)                                 *)
(*    With Emit = TRUE every (configuration, request, current) of the       *)
(*    product is printed as "OUT <json case>" (small bounded spaces that    *)
(*    are replayed completely).                                             *)
(* Mode = "configs" / "requests" (Emit = TRUE): prints one                  *)
(*    "OUT <json>" line per configuration (with the current files that are  *)
(*    possible in it) and per request.  The replayed cases are elements of  *)
(*    the product of the two enumerations; every replayed case is judged by *)
(*    Vfs_Trace, which recomputes Resolve for it.                           *)
EXTENDS Vfs, TLC, Json

CONSTANTS Mode, Variant, Emit,
          MaxMaps,      \* mappings per configuration
          NRoots,       \* physical roots r1..rN (canonical naming: first use in order)
          PrefixNames,  \* subset of {"", "a", "ab", "b"}
          ShapeNames,   \* subset of {"empty", "full", "deep", "top"}
          MaxLen,       \* request length (segments)
          Bases         \* subset of {"", "out", "r1", "r2", "r3"}

RootSeq == <<"r1", "r2", "r3">>
AllRoots == {"r1", "r2", "r3"}
RootIdx(r) == CHOOSE i \in 1..3 : RootSeq[i] = r

Prefix(n) == CASE n = "" -> <<>> [] n = "a" -> <<"a">> [] n = "ab" -> <<"a", "b">> [] n = "b" -> <<"b">>
Shape(n) == CASE n = "empty" -> {}
              [] n = "full" -> {<<"f">>, <<"a", "f">>, <<"b", "f">>, <<"a", "b", "f">>}
              [] n = "deep" -> {<<"a", "f">>, <<"a", "b", "f">>}
              [] n = "top" -> {<<"f">>, <<"b", "f">>}

Entries == { [virt |-> Prefix(n), root |-> RootSeq[k]] : n \in PrefixNames, k \in 1..NRoots }

\* roots are named in the order of their first use; no entry twice
Canonical(m) ==
    /\ \A i \in DOMAIN m : \A j \in DOMAIN m : (i # j) => m[i] # m[j]
    /\ \A i \in DOMAIN m : LET used == { RootIdx(m[j].root) : j \in 1..(i - 1) }
                               top == IF used = {} THEN 0 ELSE CHOOSE x \in used : \A y \in used : y <= x
                           IN RootIdx(m[i].root) <= top + 1

MapSeqs == UNION { { m \in [1..n -> Entries] : Canonical(m) } : n \in 1..MaxMaps }

\* every root directory exists; roots beyond NRoots are never mapped ("outside")
TreeAssigns == [AllRoots -> { Shape(n) : n \in ShapeNames }]

Segs == {"a", "b", "f", "..", ""}
SegSeqs == UNION { [1..n -> Segs] : n \in 0..MaxLen }
Requests ==
    { [base |-> b, abs |-> ab, segs |-> s, style |-> "slash"] : b \in Bases, ab \in BOOLEAN, s \in SegSeqs }
ValidRequest(q) ==
    /\ q.base # "" => q.abs                         \* a physical path is absolute
    /\ (q.base = "" /\ ~q.abs) => (q.segs # <<>> /\ q.segs[1] # "")   \* else it would be absolute / empty
    /\ (q.base # "") => Len(q.segs) <= 2

\* current files: an includer "x" in a mapped root or its directory a, reachable under the
\* virtual path p \o d \o <<"x">> (checked with the reference itself)
WithX(t, r, rel) == [t EXCEPT ![r] = @ \cup {rel}]
Currents(m, t) ==
    {NoCurrent} \cup
    { c \in { [has |-> TRUE, virt |-> m[i].virt \o d \o <<"x">>, root |-> m[i].root, rel |-> d \o <<"x">>] :
                 i \in DOMAIN m, d \in {<<>>, <<"a">>} } :
        ResolvePath(m, WithX(t, c.root, c.rel), c.virt) = File(c.root, c.rel) }

TreeJson(t) == [r \in AllRoots |-> t[r]]

VARIABLES m, t, q, cur, phase
vars == <<m, t, q, cur, phase>>

NoReq == [base |-> "", abs |-> TRUE, segs |-> <<>>, style |-> "slash"]

Init ==
    /\ cur = NoCurrent
    /\ IF Mode = "requests"
       THEN /\ m = <<>> /\ t = [r \in AllRoots |-> {}] /\ phase = "case"
            /\ q \in { x \in Requests : ValidRequest(x) }
            /\ (Emit => PrintT("OUT " \o ToJson([kind |-> "req", req |-> q])))
       ELSE /\ m \in MapSeqs /\ t \in TreeAssigns /\ q = NoReq /\ phase = "cfg"
            /\ ((Emit /\ Mode = "configs") =>
                   PrintT("OUT " \o ToJson([kind |-> "cfg", mappings |-> m, trees |-> TreeJson(t),
                                            currents |-> Currents(m, t) \ {NoCurrent}])))

Next ==
    /\ Mode = "product"
    /\ phase = "cfg"
    /\ phase' = "case"
    /\ UNCHANGED <<m, t>>
    /\ q' \in { x \in Requests : ValidRequest(x) }
    /\ cur' \in (IF Variant = "code" THEN {NoCurrent} ELSE Currents(m, t))
    /\ (Emit => PrintT("OUT " \o ToJson([kind |-> "case", mappings |-> m, trees |-> TreeJson(t), req |-> q', cur |-> cur'])))

Spec == Init /\ [][Next]_vars

\* the trees as the request sees them (the includer exists)
T == IF cur.has THEN WithX(t, cur.root, cur.rel) ELSE t
O == IF Variant = "code" /\ q.base = "" THEN ResolveCode(m, T, q) ELSE IdealObs(m, T, q, cur)
Judged == Mode = "product" /\ phase = "case"

InvContained == Judged => Contained(m, T, O)
InvTraversal == Judged => TraversalIsNotFound(m, q, cur, O)
InvPhysical == Judged => PhysicalPathIsTranslated(m, T, q, O)
InvFirstRoot == Judged => FirstRootWins(m, T, q, cur, O)
InvDeepest == Judged => DeepestPrefixWins(m, T, q, cur, O)
InvReference == Judged => ResolvesToReference(m, T, q, cur, O)
InvContent == Judged => ActsOnContent(m, T, q, cur, O)
\* the reference does not depend on duplicate separators: dropping "" segments changes nothing
InvDeterministic == (Judged /\ q.base = "") =>
    Resolve(m, T, q, cur) = Resolve(m, T, [q EXCEPT !.segs = SelectSeq(q.segs, LAMBDA s : s # "")], cur)
\* a file result of the reference names a file of the tree
InvRefIsFile == Judged => LET r == Resolve(m, T, q, cur) IN r.k = "file" => r.rel \in T[r.root]
=============================================================================
