---------------------------- MODULE Limits_Trace ----------------------------
(* Per-run observation records of the real VM (virtual clock H1) judged by the formulas of Limits.tla. *)
(* Log: {"e":"Reset","id":..} {"e":"Run","id":..,"r":{start,end,max,diag,nctx,state,executed,needed,endless,fits,slack}}   *)
(*      {"e":"Loop","id":..,"iters":n,"cap":c,"body":"empty|nonempty"}  {"e":"Crash",...}                            *)
EXTENDS Limits, Json, IOUtils

Log == ndJsonDeserialize(IOEnv.TRACE)
VARIABLES l, bad, nops, dead, done
tvars == <<l, bad, nops, dead, done>>

Rec(o) == [start |-> o.start, end |-> o.end, max |-> o.max, aborted |-> (o.diag \/ o.executed < o.needed), reported |-> o.diag,
           nctx |-> o.nctx, executed |-> o.executed, needed |-> IF o.fits THEN o.needed ELSE o.max + 1]

WhyRun(o) ==
    LET r == Rec(o) IN
    IF ~RunEndsInTime(r, o.slack) THEN "RunEndsInTime"
    ELSE IF o.endless /\ o.max > 0 /\ ~o.diag THEN "AbortIsReported"
    ELSE IF ~AbortIsReported(r) THEN "AbortIsReported"
    ELSE IF r.aborted /\ (o.nctx # 0 \/ o.state # "empty") THEN "VmEmptyAfterAbort"
    ELSE IF o.fits /\ ~LaterRunsUnaffected([r EXCEPT !.needed = o.needed, !.max = o.max + o.needed]) THEN "LaterRunsUnaffected"
    ELSE ""

TraceInit == l = 1 /\ bad = <<>> /\ nops = 0 /\ dead = FALSE /\ done = FALSE
Consume ==
    /\ l <= Len(Log) /\ l' = l + 1 /\ UNCHANGED done
    /\ LET e == Log[l] IN
       CASE e.e = "Reset" -> dead' = FALSE /\ UNCHANGED <<bad, nops>>
         [] e.e = "Crash" -> /\ bad' = IF dead THEN bad ELSE Append(bad, [id |-> e.id, line |-> l, why |-> (IF e.why = "timeout" THEN "RunEndsInTime" ELSE "Crash"), op |-> e.why])
                             /\ dead' = TRUE /\ UNCHANGED nops
         [] e.e = "Run" /\ ~dead ->
                LET w == WhyRun(e.r) IN
                /\ nops' = nops + 1
                /\ bad' = IF w = "" THEN bad ELSE Append(bad, [id |-> e.id, line |-> l, why |-> w, op |-> e.kind])
                /\ dead' = (w # "")
         [] e.e = "Loop" /\ ~dead ->
                /\ nops' = nops + 1 /\ UNCHANGED dead
                /\ bad' = IF WhileCapped(e.iters, e.cap) THEN bad ELSE Append(bad, [id |-> e.id, line |-> l, why |-> "WhileCapped", op |-> e.body])
         [] OTHER -> UNCHANGED <<bad, nops, dead>>
Finish == /\ l = Len(Log) + 1 /\ ~done /\ done' = TRUE /\ UNCHANGED <<l, bad, nops, dead>>
          /\ PrintT("VERDICT " \o ToJson([lines |-> Len(Log), ops |-> nops, bad |-> bad]))
TraceSpec == TraceInit /\ [][Consume \/ Finish]_tvars
=============================================================================
