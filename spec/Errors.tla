------------------------------- MODULE Errors -------------------------------
(***************************************************************************)
(* C04: runtime errors are never silent, never skipped over, never leak.   *)
(*                                                                         *)
(* Part 1 - the MONITOR: the property as a state machine over the          *)
(* observable event stream of a VM instance (marker statements, error      *)
(* diagnostics, stack traces, run begin/end), parameterised by the static  *)
(* structure of the scripts (which line is a marker / raises an error /    *)
(* starts a handler / follows a handler construct, and the chain of        *)
(* handlers enclosing it).  MonStep(m, ev) returns the next monitor state; *)
(* m.viol names the first formula that the stream contradicts:             *)
(*   NoStatementAfterError, NearestHandlerOnce, FailureIsReported,         *)
(*   NoFalseBlame, ErrorNotSilent.                                         *)
(* The same monitor judges (a) the event streams of the abstract machine   *)
(* of part 2 (Errors_MC) and (b) event streams recorded from the real VM   *)
(* (Errors_Trace).                                                         *)
(*                                                                         *)
(* Static table: Tab[file][line] = [kind, hs, h, inh]                      *)
(*   kind "mark" ordinary marker statement                                 *)
(*        "errx" statement whose executing instruction raises an error     *)
(*        "errn" statement whose error is raised inside an iteration/exit  *)
(*               behaviour (i.e. while the VM advances to the next         *)
(*               instruction)                                              *)
(*        "hmark" first statement of handler h   "cmark" statement right  *)
(*               after the construct guarded by handler h                  *)
(*   hs   handlers dynamically enclosing the statement, outermost first    *)
(*   inh  the handler whose body the statement belongs to (NoH if none)    *)
(***************************************************************************)
EXTENDS Integers, Sequences, FiniteSets, TLC

NoH == 0    \* "no handler"

Innermost(hs) == IF hs = <<>> THEN NoH ELSE hs[Len(hs)]

\* monitor state: per file (script) a mode record; per run bookkeeping
MonInit(files) ==
    [mode |-> [f \in files |-> [k |-> "run", h |-> NoH, line |-> 0]],
     failExpected |-> FALSE, viol |-> "", at |-> 0, run |-> 0]

Flag(m, v, line) == IF m.viol # "" THEN m ELSE [m EXCEPT !.viol = v, !.at = line]

\* ev: [t, file, line, ...]; t in Mark, Err, Trace, RunBegin, RunEnd(res)
MonStep(Tab, m, ev) ==
    IF m.viol # "" THEN m
    ELSE CASE ev.t = "RunBegin" -> [m EXCEPT !.failExpected = FALSE, !.run = m.run + 1]
      [] ev.t = "Mark" ->
            LET it == Tab[ev.file][ev.line]
                md == m.mode[ev.file]
            IN IF md.k = "run" THEN
                    (IF it.kind \in {"mark", "cmark"} THEN m
                     ELSE IF it.kind = "hmark" THEN Flag(m, "NoFalseBlame", ev.line)      \* a handler ran although nothing was raised
                     ELSE Flag(m, "MACHINERY-mark-at-error-line", ev.line))
               ELSE IF md.k = "await_handler" THEN
                    (IF it.kind = "hmark" /\ it.h = md.h THEN
                         (IF ev.exc THEN [m EXCEPT !.mode[ev.file] = [k |-> "in_handler", h |-> md.h, line |-> md.line]]
                          ELSE Flag(m, "NearestHandlerOnce", ev.line))                     \* _exception does not carry the error
                     ELSE IF it.kind = "hmark" THEN Flag(m, "NearestHandlerOnce", ev.line) \* not the nearest handler
                     ELSE Flag(m, "NoStatementAfterError", ev.line))                       \* a later statement ran
               ELSE IF md.k = "in_handler" THEN
                    (IF it.kind = "cmark" /\ it.h = md.h THEN [m EXCEPT !.mode[ev.file] = [k |-> "run", h |-> NoH, line |-> 0]]
                     ELSE IF it.kind \in {"mark", "cmark"} /\ it.inh = md.h THEN m               \* a statement of the handler body
                     ELSE IF it.kind = "hmark" /\ it.h = md.h THEN Flag(m, "NearestHandlerOnce", ev.line) \* entered twice
                     ELSE Flag(m, "NearestHandlerOnce", ev.line))                          \* did not continue after the construct
               ELSE Flag(m, "NoStatementAfterError", ev.line)                              \* await_fail / failed: nothing may run
      [] ev.t = "Err" ->
            LET it == Tab[ev.file][ev.line]
                md == m.mode[ev.file]
            IN IF it.kind \notin {"errx", "errn"} THEN Flag(m, "NoFalseBlame", ev.line)   \* blamed on a statement that raised nothing
               ELSE IF md.k \notin {"run", "in_handler"} THEN Flag(m, "NoStatementAfterError", ev.line)
               ELSE LET h == Innermost(it.hs) IN
                    IF h = NoH THEN [m EXCEPT !.mode[ev.file] = [k |-> "await_fail", h |-> NoH, line |-> ev.line]]
                    ELSE [m EXCEPT !.mode[ev.file] = [k |-> "await_handler", h |-> h, line |-> ev.line]]
      [] ev.t = "Trace" ->
            LET md == m.mode[ev.file] IN
            IF md.k = "await_fail" THEN
                 (IF ev.line = md.line THEN [m EXCEPT !.mode[ev.file] = [k |-> "failed", h |-> NoH, line |-> md.line], !.failExpected = TRUE]
                  ELSE Flag(m, "FailureIsReported", ev.line))                              \* trace names another statement
            ELSE Flag(m, "NoFalseBlame", ev.line)                                          \* a run that raised nothing here is failed
      [] ev.t = "RunEnd" ->
            LET pending == { f \in DOMAIN m.mode : m.mode[f].k \in {"await_handler", "await_fail"} } IN
            IF \E f \in pending : m.mode[f].k = "await_fail" THEN Flag(m, "FailureIsReported", 0)
            ELSE IF pending # {} /\ ~m.failExpected THEN Flag(m, "ErrorNotSilent", 0)     \* an error was raised and then nothing happened
                                                                                           \* (a run failed by another script abandons pending handlers)
            ELSE IF m.failExpected /\ ev.res # "runtime_error" THEN Flag(m, "FailureIsReported", 0)
            ELSE IF ~m.failExpected /\ ev.res \notin {"ok", "empty"} THEN Flag(m, "NoFalseBlame", 0)
            ELSE [m EXCEPT !.mode = [f \in DOMAIN m.mode |->
                                        IF m.mode[f].k = "failed" \/ m.failExpected THEN [k |-> "run", h |-> NoH, line |-> 0] ELSE m.mode[f]]]
      [] OTHER -> m

---------------------------------------------------------------------------
(* Part 2 - the abstract machine of the VM's error flag (runtime.cpp       *)
(* execute_do / execute(start)).  A script is a sequence of items          *)
(* [line, kind, hs, h]; handler h has a start index and a continuation     *)
(* index (Hd[file][h] = [start, cont]).  One action = one item executed.   *)

CONSTANTS NoticeAfterNext,     \* TRUE ideal: the flag is examined right after advancing (frame::next); FALSE: only after the next instruction executed (F4a/F4b)
          FlagClearedAtRunStart \* TRUE ideal; FALSE: a flag left over by a finished script survives into the next run

\* machine state ms = [pc, flag, events, active, ended]; see Errors_MC for the transition relation
=============================================================================
