SPECIFICATION TraceSpec
CONSTANTS
  BudgetFromRunStart = TRUE
  DeadlineWhileAsleep = TRUE
  EmptyBodyCounts = TRUE
CHECK_DEADLOCK FALSE
