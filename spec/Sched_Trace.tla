----------------------------- MODULE Sched_Trace -----------------------------
(* Scheduler observations of the real VM (H1 virtual clock, H2 slice length, H3 slice/erase        *)
(* observer, marker statements) validated against Sched.tla. See tools/checks/C12.py for the        *)
(* projection of driver events to these records.                                                    *)
EXTENDS Sched, Json, IOUtils

Log == ndJsonDeserialize(IOEnv.TRACE)
Labels == 1..8
Inf == 100000

VARIABLES l, m, bad, nops, done
tvars == <<l, m, bad, nops, done>>

\* model + bookkeeping for one execution
MInit(slice, tick) ==
    [s |-> [order |-> <<>>, cur |-> 0, hist |-> <<>>], started |-> FALSE,
     slice |-> slice, tick |-> tick, n0 |-> 0, b |-> [ctx |-> 0, susp |-> FALSE, wake |-> 0, clk |-> 0], inSlice |-> FALSE, lastEmpty |-> FALSE,
     born |-> [c \in 0..16 |-> Inf], died |-> [c \in 0..16 |-> Inf],
     snapGone |-> [c \in 0..16 |-> {}], snapFin |-> [c \in 0..16 |-> {}],
     waitFor |-> [k \in Labels |-> 0],    \* the condition a script said it waits for (waitUntil) with its last statement (0: none)
     flag |-> [f \in Labels |-> FALSE],   \* conditions whose setting statement has been reached
     napEnd |-> [k \in Labels |-> 0],      \* requested wake-up time of the sleep a script announced (0: none)
     step |-> [k \in Labels |-> 0], ctxOf |-> [k \in Labels |-> 0], fin |-> [k \in Labels |-> FALSE], tdone |-> [k \in Labels |-> FALSE],
     viol |-> "", what |-> ""]

Fail(mm, v, w) == IF mm.viol # "" THEN mm ELSE [mm EXCEPT !.viol = v, !.what = w]
IsPrefix(a, b) == Len(a) <= Len(b) /\ SubSeq(b, 1, Len(a)) = a

\* contexts newly present at the end of e.order are born now
Adopt(mm, ord) ==
    LET old == Len(mm.s.order) IN
    [mm EXCEPT !.s.order = ord,
               !.born = [c \in 0..16 |-> IF \E i \in (old + 1)..Len(ord) : ord[i] = c THEN Len(mm.s.hist) ELSE mm.born[c]]]

Step(mm, e) ==
    IF mm.viol # "" THEN mm
    ELSE CASE e.t = "begin" ->
            IF ~IsPrefix(mm.s.order, e.order) THEN Fail(mm, "NoSkipNoStarve", "context list changed outside spawn/erase")
            ELSE LET m1 == Adopt(mm, e.order) IN
                 IF m1.s.order = <<>> THEN Fail(mm, "MACHINERY", "begin with empty list")
                 ELSE IF NextScript(m1.s) # e.ctx THEN Fail(m1, "RoundRobin", "visited out of turn")
                 ELSE [m1 EXCEPT !.s.cur = NextPos(m1.s),
                                 !.s.hist = Append(m1.s.hist, [id |-> e.ctx, ran |-> FALSE, clock |-> e.clk, wake |-> e.wake, wassusp |-> e.susp]),
                                 !.n0 = e.n, !.b = [ctx |-> e.ctx, susp |-> e.susp, wake |-> e.wake, clk |-> e.clk], !.inSlice = TRUE]
          [] e.t = "end" ->
            LET ran == e.n > mm.n0
                h == mm.s.hist
                m1 == [Adopt(mm, e.order) EXCEPT !.s.hist = [h EXCEPT ![Len(h)].ran = ran], !.inSlice = FALSE, !.lastEmpty = e.empty]
            IN IF ~IsPrefix(mm.s.order, e.order) THEN Fail(mm, "NoSkipNoStarve", "context list changed outside spawn/erase")
               ELSE IF e.n - mm.n0 > mm.slice THEN Fail(m1, "SliceBounded", "slice longer than its bound")
               ELSE IF mm.b.susp /\ ran /\ mm.b.clk + mm.tick < mm.b.wake THEN Fail(m1, "NoEarlyWake", "resumed before wake-up time")
               ELSE m1
          [] e.t = "erase" ->
            IF ~mm.lastEmpty THEN Fail(mm, "NoSkipNoStarve", "a script that had not ended was removed")
            ELSE IF e.order # Remove(mm.s.order, mm.s.cur) THEN Fail(mm, "NoSkipNoStarve", "wrong script removed")
            ELSE [mm EXCEPT !.s = EraseS(mm.s), !.died[mm.s.order[mm.s.cur]] = Len(mm.s.hist)]
          [] e.t = "mark" ->
            LET k == e.label
                m1 == [mm EXCEPT !.step[k] = e.step, !.ctxOf[k] = e.ctx, !.fin[k] = e.last,
                                 !.napEnd[k] = IF e.nap > 0 THEN e.clk + e.nap ELSE 0,
                                 !.waitFor[k] = e.waits,
                                 !.flag = IF e.sets > 0 THEN [mm.flag EXCEPT ![e.sets] = TRUE] ELSE mm.flag]
            IN IF ~mm.inSlice \/ mm.b.ctx # e.ctx THEN Fail(mm, "OnlyScheduledRuns", "statement of a script that holds no slice")
               ELSE IF e.step # mm.step[k] + 1 THEN Fail(mm, "Isolation", "own statement order broken")
               ELSE IF mm.tdone[k] THEN Fail(mm, "TerminateEffective", "terminated script executed a statement")
               \* the statement before asked to sleep until napEnd (as written in the script): not resumed earlier
               ELSE IF mm.napEnd[k] > 0 /\ e.clk + 2 * mm.tick < mm.napEnd[k] THEN Fail(mm, "NoEarlyWake", "resumed before the requested wake-up time")
               \* the statement before waits for a condition (waitUntil): not resumed before the statement that makes it true was reached
               ELSE IF ~WaitHolds(mm.waitFor[k], mm.flag) THEN Fail(mm, "WaitHolds", "went on before the condition it waits for held")
               ELSE m1
          [] e.t = "poll" ->      \* the poll instruction executed now: remember what was true at this moment
            [mm EXCEPT !.snapGone[e.ctx] = { k \in Labels : mm.ctxOf[k] # 0 /\ mm.died[mm.ctxOf[k]] # Inf },
                       \* (a script that has not run any statement yet has no known context: not judged)
                       !.snapFin[e.ctx] = { k \in Labels : mm.fin[k] \/ mm.ctxOf[k] = 0 }]
          [] e.t = "sd" ->        \* its result is logged (possibly slices later)
            LET k == e.target
                gone == k \in mm.snapGone[e.ctx]
            IN IF gone /\ ~e.val THEN Fail(mm, "ScriptDoneTruth", "false for an ended script")
               ELSE IF k \notin mm.snapFin[e.ctx] /\ ~gone /\ e.val THEN Fail(mm, "ScriptDoneTruth", "true although statements remain")
               ELSE mm
          [] e.t = "td" -> [mm EXCEPT !.tdone[e.target] = TRUE]
          [] e.t = "runend" ->
            LET alive == [c \in 0..16 |-> <<mm.born[c], mm.died[c]>>] IN
            IF ~RoundRobin(mm.s.hist, alive) THEN Fail(mm, "RoundRobin", "a runnable script did not get exactly one slice between two slices of another")
            ELSE IF ~NoEarlyWake([i \in 1..Len(mm.s.hist) |-> [mm.s.hist[i] EXCEPT !.clock = mm.s.hist[i].clock + mm.tick]]) THEN Fail(mm, "NoEarlyWake", "history")
            ELSE mm
          [] OTHER -> mm

TraceInit == l = 1 /\ m = MInit(150, 1) /\ bad = <<>> /\ nops = 0 /\ done = FALSE

Consume ==
    /\ l <= Len(Log) /\ l' = l + 1 /\ UNCHANGED done
    /\ LET e == Log[l] IN
       CASE e.e = "Reset" -> m' = MInit(e.slice, e.tick) /\ UNCHANGED <<bad, nops>>
         [] e.e = "Crash" ->
                /\ bad' = IF m.viol # "" THEN bad ELSE Append(bad, [id |-> e.id, line |-> l, why |-> "Crash", op |-> e.why])
                /\ m' = [m EXCEPT !.viol = "Crash"] /\ UNCHANGED nops
         [] e.e = "Ev" /\ m.viol = "" ->
                LET m2 == Step(m, e) IN
                /\ m' = m2 /\ nops' = nops + 1
                /\ bad' = IF m2.viol = "" THEN bad ELSE Append(bad, [id |-> e.id, line |-> l, why |-> m2.viol, op |-> e.t, what |-> m2.what])
         [] OTHER -> UNCHANGED <<m, bad, nops>>

Finish == /\ l = Len(Log) + 1 /\ ~done /\ done' = TRUE /\ UNCHANGED <<l, m, bad, nops>>
          /\ PrintT("VERDICT " \o ToJson([lines |-> Len(Log), ops |-> nops, bad |-> bad]))
TraceSpec == TraceInit /\ [][Consume \/ Finish]_tvars
=============================================================================
