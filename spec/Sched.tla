------------------------------- MODULE Sched -------------------------------
(***************************************************************************)
(* C12: the cooperative scheduler of runtime::execute(start).              *)
(*                                                                         *)
(* Scheduler state  s = [order, cur, clock, wake, susp, term, done, hist]  *)
(*   order : the context list (script ids, scheduling order)               *)
(*   cur   : position in `order` of the script whose slice is running / was*)
(*           last visited (0 = a pass is about to start)                   *)
(*   wake, susp, term, done : per script                                   *)
(*   hist  : sequence of visits [id, ran, clock] - the scheduling history  *)
(* Transitions (one per critical section of the start loop):               *)
(*   Visit    - the loop picks order[cur+1] (wrapping to a new pass)       *)
(*   Spawn    - a running script creates a script: appended to `order`     *)
(*   Erase    - the visited script had ended: removed, cursor fixed up     *)
(*   Sleep, Terminate                                                      *)
(* IndexFixup = FALSE is the seeded deviation (cursor not decremented      *)
(* after an erase => the next script is skipped); TerminateStops = FALSE   *)
(* is the deviation found in the pinned code (terminate only sets a flag   *)
(* nobody reads, DESIGN.md F12a).                                          *)
(***************************************************************************)
EXTENDS Integers, Sequences, FiniteSets, TLC

CONSTANTS IndexFixup, TerminateStops, WakeCheck

IndexOf(seq, x) == IF \E i \in 1..Len(seq) : seq[i] = x THEN CHOOSE i \in 1..Len(seq) : seq[i] = x ELSE 0
Remove(seq, i) == SubSeq(seq, 1, i - 1) \o SubSeq(seq, i + 1, Len(seq))
Elems(seq) == { seq[i] : i \in 1..Len(seq) }

\* which script does the loop visit next?
NextPos(s) == IF s.cur < Len(s.order) THEN s.cur + 1 ELSE 1
NextScript(s) == s.order[NextPos(s)]

Visit(s, ran) ==
    LET p == NextPos(s) id == s.order[p] IN
    [s EXCEPT !.cur = p, !.hist = Append(s.hist, [id |-> id, ran |-> ran, clock |-> s.clock, wake |-> s.wake[id], wassusp |-> s.susp[id]])]

SpawnS(s, id) == [s EXCEPT !.order = Append(s.order, id)]

EraseS(s) ==   \* the script at the cursor ended
    [s EXCEPT !.order = Remove(s.order, s.cur),
              !.cur = IF IndexFixup THEN s.cur - 1 ELSE s.cur]

---------------------------------------------------------------------------
(* property formulas over the visit history                                *)

\* positions of the visits of script id
VisitsOf(h, id) == { i \in 1..Len(h) : h[i].id = id }

\* RoundRobin / NoSkipNoStarve: between two consecutive visits of a script, every other script
\* that was in the list the whole time is visited exactly once; nobody is visited twice
RoundRobin(h, alive) ==
    \A id \in { h[i].id : i \in 1..Len(h) } :
        \A p, q \in VisitsOf(h, id) :
            (p < q /\ ~ \E r \in VisitsOf(h, id) : p < r /\ r < q) =>
                \A other \in { h[i].id : i \in 1..Len(h) } \ {id} :
                    LET between == { i \in VisitsOf(h, other) : p < i /\ i < q } IN
                    /\ Cardinality(between) <= 1
                    /\ (alive[other][1] < p /\ alive[other][2] > q) => Cardinality(between) = 1

\* a script that sleeps is never resumed before its wake-up time
NoEarlyWake(h) == \A v \in 1..Len(h) : (h[v].wassusp /\ h[v].ran) => h[v].clock >= h[v].wake
\* a script that waits for a condition (waitUntil; w = 0: it does not wait) goes on only when the condition holds:
\* held[w] - the statement that makes condition w true has been reached
WaitHolds(w, held) == w > 0 => held[w]
=============================================================================
