---------------------------- MODULE SqfExpr_MC ----------------------------
(* Design check: for every tree up to a depth over one representative operator per class and level, *)
(* and every parenthesisation style, the grammar reads the rendering as the tree, and str of the     *)
(* compiled code compiles back to the same instructions. With Emit each tree is printed for replay.  *)
EXTENDS SqfExpr, Json

CONSTANTS Depth, Emit, Levels

\* registry of the model: bK binary level K; u unary; buK binary level K and unary
MBinLevel(op) == CASE op = "b1" -> 1 [] op = "b2" -> 2 [] op = "b3" -> 3 [] op = "b4" -> 4 [] op = "b5" -> 5 [] op = "b6" -> 6
                   [] op = "b7" -> 7 [] op = "b8" -> 8 [] op = "b9" -> 9 [] op = "b10" -> 10 [] op = "bu6" -> 6 [] op = "bu4" -> 4 [] OTHER -> 0
MIsUnary(op) == op \in {"u", "bu6", "bu4"}

BinName(lv) == CASE lv = 1 -> "b1" [] lv = 2 -> "b2" [] lv = 3 -> "b3" [] lv = 4 -> "b4" [] lv = 5 -> "b5" [] lv = 6 -> "b6"
                 [] lv = 7 -> "b7" [] lv = 8 -> "b8" [] lv = 9 -> "b9" [] lv = 10 -> "b10"
Leaves == { Lit("x"), Lit("y") }
Binaries == { <<BinName(lv), lv>> : lv \in Levels } \cup { <<"bu6", 6>> }
Unaries == {"u", "bu6"}

RECURSIVE Trees(_)
Trees(d) ==
    IF d = 0 THEN Leaves
    ELSE LET sub == Trees(d - 1) IN
         sub \cup { Un(op, x) : op \in Unaries, x \in sub }
             \cup { Bin(b[1], b[2], l, r) : b \in Binaries, l \in sub, r \in sub }
             \cup { Arr(<<a>>) : a \in sub } \cup { Arr(<<Lit("x"), a>>) : a \in sub }
Styles == {"min", "full", "left", "right"}

VARIABLES tree, style
vars == <<tree, style>>
Init == tree \in Trees(Depth) /\ style \in Styles
        /\ (Emit /\ style = "min" => PrintT("OUT " \o ToJson(tree)))
Next == UNCHANGED vars
Spec == Init /\ [][Next]_vars

InvReading == ReadingIsDocumented(tree, style)
InvRoundTrip == RoundTrips(tree)
=============================================================================
