----------------------------- MODULE Config_MC -----------------------------
(* Design check and history generator for Config.tla (scheme of Heap_MC).  *)
(* Design check: BFS over all statement sequences of a small universe, the *)
(* C15 formulas as invariants on (prev, lastop, st).  With Dev = {} (the   *)
(* ideal design) every formula must hold; with one deviation switched on   *)
(* TLC must refute the formula named for it (non-vacuity self-test).       *)
(* Generator: EmitMode = "all" prints the history of every generated       *)
(* transition ("OUT <json>"), one implementation test per transition of    *)
(* the bounded state graph; "full" prints only histories of length Depth   *)
(* (used with -simulate for seeded random deep histories).  hist is hidden *)
(* from the fingerprint by the VIEW.                                       *)
EXTENDS Config, Json

CONSTANTS Depth, EmitMode,
          CN,        \* class names
          FN,        \* field names
          Kinds,     \* statement kinds generated
          NVals,     \* numbers written by `field`
          SVals,     \* strings written by `field`
          AIdx,      \* indices into ArrPool written by `array` / `append`
          BVals,     \* whole numbers >= 2^31 (decimal strings) written by `field` as hexadecimal literals
          NestC      \* 0: classes only at top level; 1: classes inside top-level classes too

VARIABLES st, prev, lastop, hist

ArrPool == << Arr(<<Num(1)>>), Arr(<<Num(2)>>), Arr(<<Num(3), Str("s"), Arr(<<Num(4), Arr(<<>>)>>)>>), Arr(<<>>),
             Arr(<<Num(16), Big("4294901760"), Arr(<<Big("2147483648"), Num(255)>>)>>) >>
FVals == { Num(k) : k \in NVals } \cup { Str(s) : s \in SVals } \cup { Big(d) : d \in BVals }
AVals == { ArrPool[i] : i \in AIdx }

PathsTop == { <<a>> : a \in CN }
PathsC == IF NestC = 0 THEN {<<>>} ELSE {<<>>} \cup PathsTop                \* bodies that may hold classes
PathsF == IF NestC = 0 THEN PathsTop ELSE PathsTop \cup { <<p[1], p[2]>> : p \in CN \X CN }  \* bodies that may hold values

K(k) == k \in Kinds
Ops ==
         (IF K("class") THEN { [op |-> "class", path |-> p, name |-> n, base |-> ""] : p \in PathsC, n \in CN } ELSE {})
    \cup (IF K("classext") THEN { [op |-> "class", path |-> p, name |-> n, base |-> b] : p \in PathsC, n \in CN, b \in CN } ELSE {})
    \cup (IF K("decl") THEN { [op |-> "decl", path |-> p, name |-> n, base |-> ""] : p \in PathsC, n \in CN } ELSE {})
    \cup (IF K("declext") THEN { [op |-> "decl", path |-> p, name |-> n, base |-> b] : p \in PathsC, n \in CN, b \in CN } ELSE {})
    \cup (IF K("field") THEN { [op |-> "field", path |-> p, name |-> f, val |-> v] : p \in PathsF, f \in FN, v \in FVals } ELSE {})
    \cup (IF K("array") THEN { [op |-> "array", path |-> p, name |-> f, val |-> v] : p \in PathsF, f \in FN, v \in AVals } ELSE {})
    \cup (IF K("append") THEN { [op |-> "append", path |-> p, name |-> f, val |-> v] : p \in PathsF, f \in FN, v \in AVals } ELSE {})
    \cup (IF K("delete") THEN { [op |-> "delete", path |-> p, name |-> f] : p \in PathsF, f \in FN } ELSE {})
    \cup (IF K("deleteclass") THEN { [op |-> "delete", path |-> p, name |-> n] : p \in PathsC, n \in CN } ELSE {})
    \cup (IF K("nextfile") THEN { [op |-> "nextfile"] } ELSE {})

vars == <<st, prev, lastop, hist>>

Init == /\ st = InitState
        /\ prev = InitState
        /\ lastop = [op |-> "init"]
        /\ hist = <<>>

\* generator profile: a history ends with the statement after which the pinned implementation is
\* not comparable any more (a re-binding that would close an inheritance cycle was refused: the
\* statement does not say which base remains, and the pinned code hung from there on)
Usable(s) == \A c \in Ids(s) : ~s.nodes[c].fz

Next == \E o \in Ops :
          /\ Len(hist) < Depth
          /\ (EmitMode # "none" => Usable(st))
          /\ Enabled(st, o)
          /\ st' = Apply(st, o)
          /\ prev' = st
          /\ lastop' = o
          /\ hist' = Append(hist, o)
          /\ (EmitMode = "all" => PrintT("OUT " \o ToJson(hist')))
          /\ (EmitMode = "full" /\ Len(hist') = Depth => PrintT("OUT " \o ToJson(hist')))

Spec == Init /\ [][Next]_vars

View == <<st, Len(hist)>>
\* TLC evaluates invariants on unseen states only: the design check keeps the step (prev, lastop)
\* in the fingerprint so that the step formulas are evaluated on every transition.
ViewStep == <<st, prev, lastop, Len(hist)>>

\* ---- invariants (the C15 formulas) ----
Step == lastop.op # "init"
InvAcyclic == Acyclic(st)
InvTerminates == EveryLookupTerminates(st)
InvLookup == LookupIffDefinedAlongChain(st)
InvInherits == InheritsFromIsBase(st)
InvHierarchy == HierarchyIsEnclosing(st)
InvCountSelect == CountSelectOwnInOrder(st)
InvReadBack == Step => ReadBack(prev, lastop, st)
InvMerge == Step => MergeOnReopen(prev, lastop, st)
InvDelete == Step => DeleteHides(prev, lastop, st)
InvAppend == Step => AppendExtendsInherited(prev, lastop, st)
=============================================================================
