SPECIFICATION Spec
CONSTANTS
  NoticeAfterNext = TRUE
  FlagClearedAtRunStart = TRUE
  Together = FALSE
  RunIsEval = FALSE
  EvalStopsAtError = TRUE
INVARIANTS InvMonitor
