SPECIFICATION Spec
CONSTANTS
  NoticeAfterNext = TRUE
  FlagClearedAtRunStart = TRUE
  Together = FALSE
INVARIANTS InvMonitor
