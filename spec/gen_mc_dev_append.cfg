SPECIFICATION Spec
CONSTANTS
  MaxRef = 4
  Vars = {"a", "b", "c"}
  AppendChecksCycle = FALSE
  SetGrowsBeforeRefusal = FALSE
  Depth = 4
  Emit = FALSE
  Profile = "core"
VIEW View
INVARIANTS InvAcyclic InvAliases InvFresh InvRefused
