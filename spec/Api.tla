-------------------------------- MODULE Api --------------------------------
(***************************************************************************)
(* C18: the C API (sqfvm_create_instance / destroy / load_config / call /   *)
(* status) as a state machine over call histories on several instances.    *)
(*                                                                         *)
(* inst[i] = [alive, g, cfg]  g: value of the probe global ("nil" or Int), *)
(*                            cfg: whether class A { x = 1 } is loaded     *)
(* An operation is a record [op, i, kind, type]; Apply returns the next     *)
(* state together with the documented observation                          *)
(*   obs = [ret, status, out]   ret: return code, status: sqfvm_status      *)
(*   after the call, out: the probe value the call must log ("" if none)   *)
(* Deviations (constants FALSE = the pinned code):                          *)
(*   DeadlineIsFailure - FALSE: a call aborted by the time limit returns 0  *)
(***************************************************************************)
EXTENDS Integers, Sequences, FiniteSets, TLC

CONSTANTS Insts, DeadlineIsFailure

Fresh == [alive |-> FALSE, g |-> "nil", cfg |-> FALSE, limited |-> FALSE]
InitState == [i \in Insts |-> Fresh]

\* input kinds of sqfvm_call with type 's'
SqfKinds == {"verbose", "evalerr", "setg1", "setg2", "readg", "readcfg", "ppfail", "parsefail", "rterr", "rterr_spawned", "endless", "sleeper", "yielder", "napper", "empty"}
CfgKinds == {"cfgok", "cfgparsefail", "cfgppfail", "cfgevalerr"}

ToS(n) == ToString(n)

Apply(st, o) ==
    LET s == IF o.i \in Insts THEN st[o.i] ELSE Fresh IN
    CASE o.op = "create" -> [st |-> [st EXCEPT ![o.i] = [alive |-> TRUE, g |-> "nil", cfg |-> FALSE, limited |-> o.limited]], obs |-> [ret |-> 0, status |-> 0, out |-> ""]]
      [] o.op = "destroy" -> [st |-> [st EXCEPT ![o.i] = Fresh], obs |-> [ret |-> 0, status |-> -1, out |-> ""]]
      [] o.op = "status" -> [st |-> st, obs |-> [ret |-> 0, status |-> 0, out |-> ""]]
      [] o.op = "null" ->      \* any call on a handle that is no instance: NULL, or memory that does not carry the instance tag (o.hk)
            [st |-> st, obs |-> [ret |-> -1, status |-> -1, out |-> ""]]
      [] o.op = "config" ->
           (CASE o.kind \in {"cfgok", "cfgevalerr"} -> [st |-> [st EXCEPT ![o.i].cfg = TRUE], obs |-> [ret |-> 0, status |-> 0, out |-> ""]]
              [] o.kind = "cfgparsefail" -> [st |-> st, obs |-> [ret |-> -3, status |-> 0, out |-> ""]]
              [] o.kind = "cfgppfail" -> [st |-> st, obs |-> [ret |-> -2, status |-> 0, out |-> ""]])
      [] o.op = "call" ->
            IF o.type = "?" THEN [st |-> st, obs |-> [ret |-> (IF o.kind = "ppfail" THEN -2 ELSE -5), status |-> 0, out |-> ""]]
            ELSE IF o.type = "p" THEN [st |-> st, obs |-> [ret |-> (IF o.kind = "ppfail" THEN -2 ELSE 0), status |-> 0, out |-> ""]]
            ELSE IF o.type = "1" THEN [st |-> st, obs |-> [ret |-> (IF o.kind = "ppfail" THEN -2 ELSE IF o.kind = "parsefail" THEN -3 ELSE 0), status |-> 0, out |-> ""]]
            \* assembly text: compiled and run like SQF text; text that is not assembly is a parse failure
            ELSE IF o.type = "a" THEN (IF o.kind = "asmok" THEN [st |-> [st EXCEPT ![o.i].g = "1"], obs |-> [ret |-> 0, status |-> 0, out |-> ""]]
                                       ELSE [st |-> st, obs |-> [ret |-> -3, status |-> 0, out |-> ""]])
            ELSE \* type "s"
           \* evalerr: the text holds an __EVAL whose expression fails while the text is preprocessed (it expands to nothing);
           \* what is left is valid and sets g to 1
           \* verbose: a statement that earns a warning and a verbose-level diagnostic ("Returning nil") and goes on
           (CASE o.kind \in {"setg1", "evalerr", "verbose"} -> [st |-> [st EXCEPT ![o.i].g = "1"], obs |-> [ret |-> 0, status |-> 0, out |-> ""]]
              [] o.kind = "setg2" -> [st |-> [st EXCEPT ![o.i].g = "2"], obs |-> [ret |-> 0, status |-> 0, out |-> ""]]
              [] o.kind = "readg" -> [st |-> st, obs |-> [ret |-> 0, status |-> 0, out |-> "G:" \o s.g]]
              [] o.kind = "readcfg" -> [st |-> st, obs |-> [ret |-> 0, status |-> 0, out |-> "C:" \o (IF s.cfg THEN "1" ELSE "0")]]
              [] o.kind = "ppfail" -> [st |-> st, obs |-> [ret |-> -2, status |-> 0, out |-> ""]]
              [] o.kind = "parsefail" -> [st |-> st, obs |-> [ret |-> -3, status |-> 0, out |-> ""]]
              [] o.kind = "rterr" -> [st |-> st, obs |-> [ret |-> -6, status |-> 0, out |-> ""]]
              \* a spawned script that would later set g to 9 is discarded with the failed call
              [] o.kind = "rterr_spawned" -> [st |-> st, obs |-> [ret |-> -6, status |-> 0, out |-> ""]]
              [] o.kind = "endless" -> [st |-> st, obs |-> [ret |-> (IF DeadlineIsFailure THEN -6 ELSE 0), status |-> 0, out |-> ""]]
              \* the time limit expires while the only script left (spawned) is asleep: the run is aborted, the script discarded
              [] o.kind = "sleeper" -> [st |-> st, obs |-> [ret |-> (IF DeadlineIsFailure THEN -6 ELSE 0), status |-> 0, out |-> ""]]
              \* a spawned script that sleeps for a moment and then sets the probe: the call waits for it and succeeds -
              \* also on an instance that has existed (and idled) longer than its time budget
              \* a spawned endless loop that gives up its slice at once, every time (sleep 0): ended by the time limit
              [] o.kind = "yielder" -> [st |-> st, obs |-> [ret |-> (IF DeadlineIsFailure THEN -6 ELSE 0), status |-> 0, out |-> ""]]
              [] o.kind = "napper" -> [st |-> [st EXCEPT ![o.i].g = "3"], obs |-> [ret |-> 0, status |-> 0, out |-> ""]]
              [] o.kind = "empty" -> [st |-> st, obs |-> [ret |-> 0, status |-> 0, out |-> ""]])

Enabled(st, o) ==
    CASE o.op = "create" -> ~st[o.i].alive
      [] o.op = "null" -> TRUE
      [] o.op = "call" /\ o.kind \in {"endless", "sleeper", "yielder"} -> st[o.i].alive /\ st[o.i].limited
      [] OTHER -> st[o.i].alive

\* ---- property formulas over one step
IdleAfterCall(st, o, r) == (o.op \in {"call", "config", "status", "create"}) => r.obs.status = 0
\* only globals and loaded config persist: a failing or erroring call changes nothing
OnlyGlobalsAndConfigPersist(st, o, r) == r.obs.ret # 0 => r.st = st
\* instances are independent of each other
InstancesIndependent(st, o, r) == \A j \in Insts : (o.op = "null" \/ j # o.i) => r.st[j] = st[j]
=============================================================================
