SPECIFICATION Spec
CONSTANTS
  MaxRef = 4
  Vars = {"a", "b", "c"}
  AppendChecksCycle = TRUE
  SetGrowsBeforeRefusal = FALSE
  Depth = 5
  Emit = FALSE
  Profile = "core"
VIEW View
INVARIANTS InvAcyclic InvAliases InvFresh InvRefused
