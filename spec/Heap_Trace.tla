----------------------------- MODULE Heap_Trace -----------------------------
(* Trace validation of observation logs of the real VM against Heap.tla.   *)
(* The log (NDJSON, env TRACE) is a concatenation of executions:           *)
(*   {"e":"Reset","id":..}                                                 *)
(*   {"e":"Obs","op":<abstract op>,"vars":{..},"codes":[..],"cyclic":..}*  *)
(* Every Obs line is one Apply step of Heap.tla; the spec's state after    *)
(* the step must explain the observation.  Validation is total: an         *)
(* execution that is not explained is recorded in `bad` with the name of   *)
(* the formula that failed and skipped to its end, so one TLC run judges   *)
(* the whole batch.  The final state prints "VERDICT <json>".              *)
EXTENDS Heap, Json, IOUtils

Log == ndJsonDeserialize(IOEnv.TRACE)

VARIABLES l, st, dead, bad, nops, done
tvars == <<l, st, dead, bad, nops, done>>

RecursionCode == 60018

\* the first C08 formula the observation o of step st --op--> st2 contradicts ("" if none)
Why(s1, op, s2, o) ==
    IF o.cyclic THEN "Acyclic"
    ELSE IF s2.diag = "recursion" /\ o.vars # Obs(s1).vars THEN "RefusedLeavesUnchanged"
    ELSE IF s2.diag = "index" /\ op.op \notin FreshOps /\ o.vars # Obs(s1).vars THEN "RefusedLeavesUnchanged"
    ELSE IF o.vars # Obs(s2).vars THEN
         (IF op.op \in FreshOps THEN "FreshIsIndependent-or-content" ELSE "AliasesAgree-or-content")
    ELSE IF s2.diag = "recursion" /\ ~ \E i \in 1..Len(o.codes) : o.codes[i] = RecursionCode THEN "RefusalReported"
    ELSE IF s2.diag = "index" /\ Len(o.codes) = 0 THEN "IndexRejectionReported"
    ELSE IF s2.diag = "none" /\ o.maxlvl <= 1 THEN "NoErrorOnValidOp"
    ELSE ""

TraceInit == l = 1 /\ st = InitState /\ dead = FALSE /\ bad = <<>> /\ nops = 0 /\ done = FALSE

Consume ==
    /\ l <= Len(Log)
    /\ l' = l + 1
    /\ UNCHANGED done
    /\ LET e == Log[l] IN
       CASE e.e = "Reset" -> st' = InitState /\ dead' = FALSE /\ UNCHANGED <<bad, nops>>
         [] e.e = "Crash" ->
                /\ bad' = IF dead THEN bad ELSE Append(bad, [id |-> e.id, line |-> l, why |-> "Crash", op |-> e.why])
                /\ dead' = TRUE /\ UNCHANGED <<st, nops>>
         [] e.e = "Obs" /\ ~dead ->
                IF ~Enabled(st, e.op)
                THEN /\ bad' = Append(bad, [id |-> e.id, line |-> l, why |-> "MACHINERY-NotEnabled", op |-> e.op.op])
                     /\ dead' = TRUE /\ UNCHANGED <<st, nops>>
                ELSE LET s2 == Apply(st, e.op)
                         w == Why(st, e.op, s2, e)
                     IN IF w = "" THEN st' = s2 /\ nops' = nops + 1 /\ UNCHANGED <<dead, bad>>
                        ELSE /\ bad' = Append(bad, [id |-> e.id, line |-> l, why |-> w, op |-> e.op.op])
                             /\ dead' = TRUE /\ UNCHANGED <<st, nops>>
         [] OTHER -> UNCHANGED <<st, dead, bad, nops>>

Finish ==
    /\ l = Len(Log) + 1
    /\ ~done
    /\ done' = TRUE
    /\ PrintT("VERDICT " \o ToJson([lines |-> Len(Log), ops |-> nops, bad |-> bad]))
    /\ UNCHANGED <<l, st, dead, bad, nops>>

TraceSpec == TraceInit /\ [][Consume \/ Finish]_tvars

\* the spec's own invariants are evaluated on every state bound to the real execution
TInvAcyclic == Acyclic(st)
TInvAliases == AliasesAgree(st)
=============================================================================
