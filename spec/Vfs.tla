-------------------------------- MODULE Vfs --------------------------------
(***************************************************************************)
(* C16 - virtual file system: the reference resolution as a pure function  *)
(* over small finite domains, and the formulas the property demands of an  *)
(* observed result.                                                        *)
(*                                                                         *)
(*   path      sequence of segment strings (strings are atomic in TLC)     *)
(*   mappings  sequence of [virt |-> path, root |-> root id], in the order *)
(*             in which they were added (several roots per prefix, nested  *)
(*             prefixes allowed)                                           *)
(*   trees     [root id -> set of relative file paths present below it]    *)
(*   request   [base, abs, segs, style]                                    *)
(*               base = ""   : a virtual request; abs = leading separator  *)
(*               base = root : absolute PHYSICAL path <dir of root>/segs   *)
(*               base = "out": absolute PHYSICAL path <scratch dir>/segs,  *)
(*                             i.e. outside every root                     *)
(*               base = "<root>x": absolute PHYSICAL path into the unmapped *)
(*                             sibling directory <dir of root>x (its path   *)
(*                             starts with the root's path, yet it is       *)
(*                             outside: any base that is no mapped root is) *)
(*               segs over {"a","b","f","..",""}; "" = duplicate separator *)
(*               style = how python renders separators (never matters)     *)
(*   current   [has, virt, root, rel]: virtual path + physical location of *)
(*             the including file, has = FALSE for script operators        *)
(*   result    [k |-> "file", root, rel]  or  NoFile                       *)
(*   observed  [k |-> "file"|"notfound"|"notoken"|"exc", root, rel]        *)
(***************************************************************************)
EXTENDS Naturals, Sequences, FiniteSets

IsPrefix(p, q) == Len(p) <= Len(q) /\ SubSeq(q, 1, Len(p)) = p
DropFirst(q, n) == SubSeq(q, n + 1, Len(q))
ButLast(p) == SubSeq(p, 1, Len(p) - 1)
SeqRange(s) == { s[i] : i \in DOMAIN s }

NoFile == [k |-> "none", root |-> "", rel |-> <<>>]
File(r, p) == [k |-> "file", root |-> r, rel |-> p]
NoCurrent == [has |-> FALSE, virt |-> <<>>, root |-> "", rel |-> <<>>]

MappedRoots(m) == { m[i].root : i \in DOMAIN m }
\* the virtual tree: every prefix of every mapped prefix (the root <<>> is always a node)
Nodes(m) == {<<>>} \cup UNION { { SubSeq(m[i].virt, 1, n) : n \in 0..Len(m[i].virt) } : i \in DOMAIN m }
Dirs(tree) == UNION { { SubSeq(p, 1, n) : n \in 0..(Len(p) - 1) } : p \in tree }

\* ---------------------------------------------------------------------------
\* normalisation: "" is skipped, ".." cancels the segment before it.
\*   esc   : a ".." was applied at the virtual root (the request leaves the tree)
\*   loose : a ".." was applied while the path so far was NOT a node of the virtual
\*           tree, i.e. inside the unmatched remainder (a directory of a physical root)
\* ---------------------------------------------------------------------------
RECURSIVE WalkR(_, _, _)
WalkR(nodes, segs, st) ==
    IF segs = <<>> \/ st.esc THEN st
    ELSE LET s == Head(segs)
             rest == Tail(segs)
         IN IF s = "" THEN WalkR(nodes, rest, st)
            ELSE IF s = ".." THEN
                 IF st.p = <<>> THEN [st EXCEPT !.esc = TRUE]
                 ELSE WalkR(nodes, rest, [st EXCEPT !.p = ButLast(st.p), !.loose = st.loose \/ (st.p \notin nodes)])
            ELSE WalkR(nodes, rest, [st EXCEPT !.p = Append(st.p, s)])

\* relative requests are taken against the directory of the current file
Start(req, cur) == IF req.abs \/ ~cur.has THEN <<>> ELSE ButLast(cur.virt)
Walk(m, req, cur) == WalkR(Nodes(m), req.segs, [p |-> Start(req, cur), esc |-> FALSE, loose |-> FALSE])

Cands(m, p) == { i \in DOMAIN m : IsPrefix(m[i].virt, p) }
DeepestLen(m, p) == LET ls == { Len(m[i].virt) : i \in Cands(m, p) }
                    IN CHOOSE n \in ls : \A k \in ls : k <= n
\* mappings of the deepest mapped prefix of p whose root contains the remainder
Hits(m, trees, p) == LET n == DeepestLen(m, p)
                     IN { i \in Cands(m, p) : Len(m[i].virt) = n /\ DropFirst(p, n) \in trees[m[i].root] }

ResolvePath(m, trees, p) ==
    IF Cands(m, p) = {} THEN NoFile
    ELSE LET h == Hits(m, trees, p)
         IN IF h = {} THEN NoFile
            ELSE LET i == CHOOSE x \in h : \A y \in h : x <= y
                 IN File(m[i].root, DropFirst(p, DeepestLen(m, p)))

\* THE REFERENCE (virtual requests, base = "")
Resolve(m, trees, req, cur) ==
    LET w == Walk(m, req, cur)
    IN IF w.esc THEN NoFile ELSE ResolvePath(m, trees, w.p)

\* absolute physical requests: where does the lexically normalised path point?
PhysTarget(m, req) ==
    IF req.base = "out" THEN "out"
    ELSE LET w == WalkR({}, req.segs, [p |-> <<>>, esc |-> FALSE, loose |-> FALSE])
         IN IF w.esc \/ req.base \notin MappedRoots(m) THEN "out" ELSE "in"

\* what the property fixes for a request
\*   "reference" : the result is fixed completely (Resolve)
\*   "traversal" : the request leaves the mapped roots: must be reported as not found
\*   "contained" : the statement only fixes containment (".." inside the unmatched
\*                 remainder; absolute physical path that lies inside a mapped root - for
\*                 these see PhysicalPathIsTranslated;
\*                 trailing separator(s): the request names a directory, not a file)
TrailingSep(req) == Len(req.segs) > 0 /\ req.segs[Len(req.segs)] = ""
Class(m, req, cur) ==
    IF req.base # "" THEN (IF PhysTarget(m, req) = "out" THEN "traversal" ELSE "contained")
    ELSE LET w == Walk(m, req, cur)
         IN IF w.loose THEN "contained"
            ELSE IF w.esc THEN "traversal"
            ELSE IF TrailingSep(req) THEN "contained"
            ELSE "reference"

\* An absolute physical path that lies inside a mapped root names the file below that root;
\* the file system reaches it by translating the path back into a virtual one - the prefix p
\* of a mapping (p, root) followed by the path below the root - and resolving that.  A root
\* mapped at several prefixes has several translations; the statement does not rank them, so
\* every one of them that names a file is admissible - and nothing else is.
PhysRel(req) == WalkR({}, req.segs, [p |-> <<>>, esc |-> FALSE, loose |-> FALSE]).p
PhysJudged(m, req) == req.base # "" /\ PhysTarget(m, req) = "in" /\ ~TrailingSep(req)
PhysAdmissible(m, trees, req) ==
    { ResolvePath(m, trees, m[i].virt \o PhysRel(req)) : i \in { j \in DOMAIN m : m[j].root = req.base } } \ {NoFile}

\* the observation an ideal implementation makes
IdealObs(m, trees, req, cur) ==
    IF req.base # "" THEN
        IF PhysTarget(m, req) = "in" /\ PhysAdmissible(m, trees, req) # {}
        THEN LET i == CHOOSE x \in DOMAIN m :
                         /\ m[x].root = req.base /\ ResolvePath(m, trees, m[x].virt \o PhysRel(req)) # NoFile
                         /\ \A y \in DOMAIN m : (m[y].root = req.base /\ ResolvePath(m, trees, m[y].virt \o PhysRel(req)) # NoFile) => x <= y
             IN ResolvePath(m, trees, m[i].virt \o PhysRel(req))
        ELSE [k |-> "notfound", root |-> "", rel |-> <<>>]
    ELSE LET r == Resolve(m, trees, req, cur)
         IN IF r.k = "file" THEN r ELSE [k |-> "notfound", root |-> "", rel |-> <<>>]

\* ---------------------------------------------------------------------------
\* the formulas (o = what was observed for the request)
\* ---------------------------------------------------------------------------
\* for ALL requests: whatever is yielded lies under a mapped root
Contained(m, trees, o) == o.k = "file" => (o.root \in MappedRoots(m) /\ o.rel \in trees[o.root])

\* two executions of the same request agree
Deterministic(o1, o2) == o1 = o2

TraversalIsNotFound(m, req, cur, o) == Class(m, req, cur) = "traversal" => o.k = "notfound"

\* a physical path into a mapped root yields the file one of its virtual translations
\* resolves to (and is found if one of them names a file), nothing else
PhysicalPathIsTranslated(m, trees, req, o) ==
    PhysJudged(m, req) =>
        /\ o.k = "file" => o \in PhysAdmissible(m, trees, req)
        /\ PhysAdmissible(m, trees, req) # {} => o.k # "notfound"

FirstRootWins(m, trees, req, cur, o) ==
    (Class(m, req, cur) = "reference" /\ o.k = "file") =>
        LET p == Walk(m, req, cur).p
        IN (Cands(m, p) # {} /\ Hits(m, trees, p) # {}) =>
              LET ref == ResolvePath(m, trees, p)
              IN ~ (/\ o.rel = ref.rel
                    /\ o.root # ref.root
                    /\ \E i \in Hits(m, trees, p) : m[i].root = o.root)

DeepestPrefixWins(m, trees, req, cur, o) ==
    (Class(m, req, cur) = "reference" /\ o.k = "file") =>
        LET p == Walk(m, req, cur).p
        IN Cands(m, p) # {} =>
              ~ (/\ o # ResolvePath(m, trees, p)
                 /\ \E i \in Cands(m, p) : /\ Len(m[i].virt) < DeepestLen(m, p)
                                           /\ o = File(m[i].root, DropFirst(p, Len(m[i].virt))))

\* the file of the reference and nothing else
ResolvesToReference(m, trees, req, cur, o) ==
    Class(m, req, cur) = "reference" =>
        LET ref == Resolve(m, trees, req, cur)
        IN IF ref.k = "file" THEN (o.k = "file" => o = ref) /\ o.k # "notfound"
           ELSE o.k # "file"

\* the operation acts on the content of the resolved file (loadFile returns it, execVM runs it)
ActsOnContent(m, trees, req, cur, o) ==
    /\ (Class(m, req, cur) = "reference" /\ Resolve(m, trees, req, cur).k = "file") => o.k \notin {"notoken", "exc"}
    /\ (PhysJudged(m, req) /\ PhysAdmissible(m, trees, req) # {}) => o.k \notin {"notoken", "exc"}

\* the first formula an observation pair contradicts ("" if none)
Why(m, trees, req, cur, o1, o2) ==
    IF ~Contained(m, trees, o1) \/ ~Contained(m, trees, o2) THEN "Contained"
    ELSE IF ~Deterministic(o1, o2) THEN "Deterministic"
    ELSE IF ~TraversalIsNotFound(m, req, cur, o1) THEN "TraversalIsNotFound"
    ELSE IF ~PhysicalPathIsTranslated(m, trees, req, o1) THEN "PhysicalPathIsTranslated"
    ELSE IF ~FirstRootWins(m, trees, req, cur, o1) THEN "FirstRootWins"
    ELSE IF ~DeepestPrefixWins(m, trees, req, cur, o1) THEN "DeepestPrefixWins"
    ELSE IF ~ResolvesToReference(m, trees, req, cur, o1) THEN "ResolvesToReference"
    ELSE IF ~ActsOnContent(m, trees, req, cur, o1) THEN "ActsOnContent"
    ELSE ""

\* a case the driver could not finish (signal, escaped exception, hang) for the request
WhyCrash(m, trees, req, cur) ==
    LET c == Class(m, req, cur)
    IN IF c = "traversal" THEN "TraversalIsNotFound"
       ELSE IF c = "reference" /\ Resolve(m, trees, req, cur).k = "file" THEN "ActsOnContent"
       ELSE IF PhysJudged(m, req) /\ PhysAdmissible(m, trees, req) # {} THEN "ActsOnContent"
       ELSE "Crash"

\* ---------------------------------------------------------------------------
\* The algorithm of get_info_virtual (src/fileio/default.cpp) as read from the code, for
\* script operators (no current file).  Used by the design check only: with it TLC must
\* refute ResolvesToReference (non-vacuity) and must still prove Contained.
\*   - walks the node tree, ".." pops a node (popping the root empties the list)
\*   - stops at the first segment that is not a child node (dead end)
\*   - the remainder is appended with every ".." dropped
\*   - the physical roots of the node reached are tried in order; a directory "exists" too
\* ---------------------------------------------------------------------------
RECURSIVE CodeWalk(_, _, _)
CodeWalk(nodes, segs, st) ==
    IF segs = <<>> THEN [st EXCEPT !.rest = <<>>]
    ELSE LET s == Head(segs)
         IN IF s = "" THEN CodeWalk(nodes, Tail(segs), st)
            ELSE IF s = ".." /\ ~st.gone THEN
                 IF st.p = <<>> THEN CodeWalk(nodes, Tail(segs), [st EXCEPT !.gone = TRUE])
                 ELSE CodeWalk(nodes, Tail(segs), [st EXCEPT !.p = ButLast(st.p)])
            ELSE IF st.gone \/ Append(st.p, s) \notin nodes THEN [st EXCEPT !.rest = segs]
            ELSE CodeWalk(nodes, Tail(segs), [st EXCEPT !.p = Append(st.p, s)])

CodeRemainder(segs) == SelectSeq(segs, LAMBDA s : s # ".." /\ s # "")

ResolveCode(m, trees, req) ==
    LET w == CodeWalk(Nodes(m), req.segs, [p |-> <<>>, gone |-> FALSE, rest |-> <<>>])
    IN IF w.gone THEN [k |-> "notfound", root |-> "", rel |-> <<>>]
       ELSE LET rem == CodeRemainder(w.rest)
                at == { i \in DOMAIN m : m[i].virt = w.p }
                ex == { i \in at : rem \in trees[m[i].root] \/ rem \in Dirs(trees[m[i].root]) \/ rem = <<>> }
            IN IF ex = {} THEN [k |-> "notfound", root |-> "", rel |-> <<>>]
               ELSE LET i == CHOOSE x \in ex : \A y \in ex : x <= y
                    IN IF rem \in trees[m[i].root] THEN File(m[i].root, rem)
                       ELSE [k |-> "exc", root |-> "", rel |-> <<>>]
=============================================================================
